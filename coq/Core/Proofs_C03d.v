(* C03 / C02 with consume ON (sequential order): next() from a settled state on c, the
   announced successor x playable: after the notifications x is current, playing, the audio
   layer on x's URI - and c is no longer in the tracklist (exactly c is gone). *)
From Coq Require Import ZArith List Bool Lia ZifyBool.
From RecordUpdate Require Import RecordSet.
From Common Require Import Res.
From Core Require Import World Hoare Model Step Reach ListLemmas Proofs_C01 Proofs_C03b Proofs_C02b Proofs_C10b Proofs_C02c.
Import ListNotations RecordSetNotations.
Open Scope Z_scope.

Definition without (c : tlt) (l : list tlt) : list tlt :=
  remove_all (tl_filter (crit_tlid (tlid c)) l) l.

Lemma without_spec c l : NoDup (map tlid l) -> without c l = filter (fun t => negb (tlid t =? tlid c)) l.
Proof.
  intros Hnd. unfold without. rewrite tl_filter_matches, remove_all_filter by exact Hnd.
  apply filter_ext. intros t. unfold matches, crit_tlid. cbn. rewrite orb_false_r. reflexivity.
Qed.

Lemma without_keeps c x l : NoDup (map tlid l) -> In x l -> tlid x <> tlid c -> In x (without c l).
Proof.
  intros Hnd Hin Hne. rewrite without_spec by exact Hnd. apply filter_In. split; [exact Hin|].
  replace (tlid x =? tlid c) with false by lia. reflexivity.
Qed.

Lemma without_drops c l : NoDup (map tlid l) -> mem_tlt c (without c l) = false.
Proof.
  intros Hnd. rewrite without_spec by exact Hnd. unfold mem_tlt.
  apply not_true_is_false. intros H. apply existsb_exists in H. destruct H as (y & Hy & Ey).
  apply filter_In in Hy. destruct Hy as [_ Hy]. unfold tlt_eqb in Ey.
  apply andb_true_iff in Ey. destruct Ey as [Ey _].
  assert (tlid y = tlid c) by lia. rewrite H in Hy. rewrite Z.eqb_refl in Hy. discriminate.
Qed.

Section P.
Variable shuf : Z -> list tlt -> list tlt.

(* _mark_played under consume: the entry leaves the tracklist, the version is bumped, the
   playback controller forgets it as current entry *)
Definition fx_consumed (c : tlt) (w : world) : world :=
  w <| tl := without c (World.tl w) |> <| version := version w + 1 |> <| current := None |>
    <| shuffled := [] |> <| events := EvTracklistChanged :: events w |>.

Lemma mark_played_consume_run c x w :
  consume w = true -> random w = false -> current w = Some c ->
  NoDup (map tlid (World.tl w)) -> In x (World.tl w) -> tlid x <> tlid c ->
  mark_played shuf (Some c) w = (Ok tt, fx_consumed c w).
Proof.
  intros Hco Hr Hc Hnd Hin Hne. unfold mark_played.
  assert (E0 : get w = (Ok w, w)) by reflexivity. step E0. rewrite Hco.
  unfold tl_remove. rewrite (bind_bind_ok _ _ _ w w w E0). cbv zeta.
  set (w1 := w <| tl := without c (World.tl w) |>).
  assert (E1 : modify (fun w0 => w0 <| tl := remove_all (tl_filter (crit_tlid (tlid c)) (World.tl w0)) (World.tl w0) |>) w = (Ok tt, w1)) by reflexivity.
  rewrite (bind_bind_ok _ _ _ w tt w1 E1).
  assert (E2 : increase_version shuf w1 = (Ok tt, fx_consumed c w)).
  { unfold increase_version.
    set (w2 := w1 <| version := version w1 + 1 |>).
    assert (G0 : modify (fun w => w <| version := version w + 1 |>) w1 = (Ok tt, w2)) by reflexivity. step G0.
    set (w3 := w2 <| current := None |>).
    assert (G1 : on_tracklist_change w2 = (Ok tt, w3)).
    { unfold on_tracklist_change. assert (G : get w2 = (Ok w2, w2)) by reflexivity. step G.
      change (World.tl w2) with (without c (World.tl w)). change (current w2) with (current w).
      pose proof (without_keeps c x (World.tl w) Hnd Hin Hne) as Hk.
      destruct (without c (World.tl w)) eqn:Ew; [contradiction|]. rewrite <- Ew.
      rewrite Hc. rewrite (without_drops c (World.tl w) Hnd). reflexivity. }
    step G1.
    unfold trigger_tracklist_changed. assert (G : get w3 = (Ok w3, w3)) by reflexivity. step G.
    change (random w3) with (random w). rewrite Hr.
    unfold emit, bind, modify. cbn.
    match goal with |- (_, ?a) = (_, ?b) => assert (Hw : a = b); [|rewrite Hw; reflexivity] end.
    unfold fx_consumed, w3, w2, w1. world_eq. }
  rewrite (bind_bind_ok _ _ _ w1 tt _ E2). reflexivity.
Qed.


(* stream_changed promoting x while c ends under consume *)
Definition fx_promote_consume (x c : tlt) (p : Z) (w : world) : world :=
  w <| last_position := None |> <| tl := without c (World.tl w) |> <| version := version w + 1 |>
    <| shuffled := [] |> <| previous_flag := false |>
    <| current := Some x |> <| pending := None |> <| pstate := Playing |>
    <| history := trk x :: history w |>
    <| events := EvStarted x :: EvStateChanged (pstate w) Playing :: EvEnded c p :: EvTracklistChanged :: events w |>.

Lemma stream_changed_consume_run fuel x c p w :
  pending w = Some x -> current w = Some c -> pending_position w = None ->
  last_position w = Some p -> consume w = true -> random w = false -> previous_flag w = false ->
  start_at_position w = None -> start_paused w = false ->
  NoDup (map tlid (World.tl w)) -> In x (World.tl w) -> tlid x <> tlid c ->
  on_stream_changed shuf fuel w = (Ok tt, fx_promote_consume x c p w).
Proof.
  intros Hp Hc Hpp Hl Hco Hr Hpf Hsa Hsp Hnd Hin Hne. unfold on_stream_changed.
  assert (E0 : get w = (Ok w, w)) by reflexivity. step E0. rewrite Hl.
  set (w1 := w <| last_position := None |>).
  assert (E1 : (modify (fun w => w <| last_position := None |>) ;; ret p)%M w = (Ok p, w1)) by reflexivity.
  step E1.
  assert (E2 : get w1 = (Ok w1, w1)) by reflexivity. step E2.
  change (pending_position w1) with (pending_position w). rewrite Hpp. cbn [is_some negb].
  (* trigger_ended *)
  set (w2 := fx_consumed c w1).
  set (w3 := w2 <| previous_flag := false |> <| events := EvEnded c p :: events w2 |>).
  assert (E3 : trigger_ended shuf p w1 = (Ok tt, w3)).
  { unfold trigger_ended. step E2. change (current w1) with (current w). rewrite Hc.
    change (previous_flag w1) with (previous_flag w). rewrite Hpf. cbn [negb].
    assert (G : mark_played shuf (Some c) w1 = (Ok tt, w2)).
    { apply (mark_played_consume_run c x w1); assumption. }
    step G. reflexivity. }
  step E3.
  assert (E4 : get w3 = (Ok w3, w3)) by reflexivity. step E4.
  change (pending w3) with (pending w). rewrite Hp.
  set (w4 := w3 <| current := Some x |> <| pending := None |>).
  assert (E5 : modify (fun w0 => w0 <| current := pending w0 |> <| pending := None |>) w3 = (Ok tt, w4)).
  { unfold modify, w4. change (pending w3) with (pending w). rewrite Hp. reflexivity. }
  step E5.
  assert (E6 : get w4 = (Ok w4, w4)) by reflexivity. step E6.
  change (pending_position w4) with (pending_position w). rewrite Hpp.
  step (Proofs_C02b.set_state_run Playing w4).
  set (w5 := Proofs_C02b.fx_set_state Playing w4).
  step (trigger_started_run x w5 eq_refl).
  set (w6 := fx_started x w5).
  assert (E7 : get w6 = (Ok w6, w6)) by reflexivity. step E7.
  change (start_at_position w6) with (start_at_position w). rewrite Hsa.
  assert (E8 : ret false w6 = (Ok false, w6)) by reflexivity. step E8. step E7.
  change (start_paused w6) with (start_paused w). rewrite Hsp. cbn [negb andb].
  unfold ret.
  match goal with |- (_, ?a) = (_, ?b) => assert (Hw : a = b); [|rewrite Hw; reflexivity] end.
  unfold fx_promote_consume, w6, fx_started, w5, Proofs_C02b.fx_set_state, w4, w3, w2, fx_consumed, w1.
  cbn -[without mem_tlt remove_first]. rewrite Hr. cbn -[without]. world_eq.
Qed.


Theorem next_prediction_consume f x c w :
  settled_on w c -> pstate w = Playing -> consume w = true -> random w = false ->
  NoDup (map tlid (World.tl w)) -> In x (World.tl w) -> tlid x <> tlid c -> accepts w x ->
  next_track shuf (Some c) w = (Ok (Some x), w) ->
  let w' := run_world shuf (S f) w [Next; Deliver; Deliver; Deliver; Deliver] in
  current w' = Some x /\ pstate w' = Playing /\ pending w' = None /\ queue w' = []
  /\ a_uri w' = Some (trk x) /\ a_state w' = Playing
  /\ World.tl w' = filter (fun t => negb (tlid t =? tlid c)) (World.tl w).
Proof.
  intros [Hq Hp Hpp Hsa Hsp Hpf Hc Hb Ha] Hst Hco Hr Hnd Hin Hne Hacc Hn. rewrite Hst in Ha. destruct Ha as [Hu Has].
  cbv zeta. unfold run_world. cbn [fold_left].
  destruct Hacc as [Hk Hs].
  assert (Hbx : forall w0, tkinds w0 = tkinds w -> tkind_has_backend (kind_of w0 (trk x)) = true).
  { intros w0 E. unfold kind_of in *. rewrite E, Hk. reflexivity. }
  pose proof (next_run shuf f x c w Hp Hc Hpp Hb (conj Hk Hs) Hn) as E1. rewrite Hst in E1.
  set (w1 := fx_change x Playing w) in *.
  assert (G1 : get_time_position w1 = (Ok (a_pos w1), fx_gtp w1)).
  { apply (gtp_run w1 c); [exact Hpp|exact Hc|exact Hb]. }
  rewrite (stepw_eq shuf (S f) Next w RNone w1 _ _ (run_op_bind_none _ w tt w1 E1) G1).
  set (w1' := fx_gtp w1).
  assert (Q1 : queue w1' = [NStreamChanged (Some (trk x)); NPositionChanged 0;
                            NStateChanged Playing Playing; NTagsChanged]).
  { unfold w1', w1, fx_gtp, fx_change, Proofs_C03b.fx_set_state. cbn. rewrite Hq, Has. reflexivity. }
  pose proof (deliver_run shuf (S f) _ _ w1' Q1) as D1. cbv beta iota in D1.
  set (w1q := w1' <| queue := [NPositionChanged 0; NStateChanged Playing Playing; NTagsChanged] |>) in *.
  assert (S1 : on_stream_changed shuf (S f) w1q = (Ok tt, fx_promote_consume x c (a_pos w) w1q)).
  { apply stream_changed_consume_run; try reflexivity; unfold w1q, w1', w1; cbn; assumption. }
  rewrite S1 in D1.
  set (w2 := fx_promote_consume x c (a_pos w) w1q) in *.
  assert (G2 : get_time_position w2 = (Ok (a_pos w2), fx_gtp w2)).
  { apply (gtp_run w2 x); [exact Hpp|reflexivity|apply Hbx; reflexivity]. }
  rewrite (stepw_eq shuf (S f) Deliver w1' RNone w2 _ _ (run_op_bind_none _ w1' tt w2 D1) G2).
  set (w2' := fx_gtp w2).
  assert (Q2 : queue w2' = [NPositionChanged 0; NStateChanged Playing Playing; NTagsChanged]) by reflexivity.
  pose proof (deliver_run shuf (S f) _ _ w2' Q2) as D2. cbv beta iota in D2.
  rewrite position_changed_noop in D2 by exact Hpp.
  set (w3 := w2' <| queue := [NStateChanged Playing Playing; NTagsChanged] |>) in *.
  assert (G3 : get_time_position w3 = (Ok (a_pos w3), fx_gtp w3)).
  { apply (gtp_run w3 x); [exact Hpp|reflexivity|apply Hbx; reflexivity]. }
  rewrite (stepw_eq shuf (S f) Deliver w2' RNone w3 _ _ (run_op_bind_none _ w2' tt w3 D2) G3).
  set (w3' := fx_gtp w3).
  assert (Q3 : queue w3' = [NStateChanged Playing Playing; NTagsChanged]) by reflexivity.
  pose proof (deliver_run shuf (S f) _ _ w3' Q3) as D3. cbv beta iota in D3.
  rewrite state_changed_not_paused in D3 by discriminate.
  set (w4 := w3' <| queue := [NTagsChanged] |>) in *.
  assert (G4 : get_time_position w4 = (Ok (a_pos w4), fx_gtp w4)).
  { apply (gtp_run w4 x); [exact Hpp|reflexivity|apply Hbx; reflexivity]. }
  rewrite (stepw_eq shuf (S f) Deliver w3' RNone w4 _ _ (run_op_bind_none _ w3' tt w4 D3) G4).
  set (w4' := fx_gtp w4).
  assert (Q4 : queue w4' = [NTagsChanged]) by reflexivity.
  pose proof (deliver_run shuf (S f) _ _ w4' Q4) as D4. cbv beta iota in D4.
  set (w5 := w4' <| queue := [] |>) in *.
  assert (G5 : get_time_position w5 = (Ok (a_pos w5), fx_gtp w5)).
  { apply (gtp_run w5 x); [exact Hpp|reflexivity|apply Hbx; reflexivity]. }
  assert (D4' : (deliver shuf (S f) ;; ret RNone)%M w4' = (Ok RNone, w5)).
  { apply (run_op_bind_none _ w4' tt w5). exact D4. }
  rewrite (stepw_eq shuf (S f) Deliver w4' RNone w5 _ _ D4' G5).
  repeat split; try reflexivity.
  change (without c (World.tl w) = filter (fun t => negb (tlid t =? tlid c)) (World.tl w)).
  apply without_spec. exact Hnd.
Qed.


Theorem eot_prediction_consume f x c len w :
  settled_on w c -> pstate w = Playing -> consume w = true -> random w = false -> a_atf_done w = false ->
  len_of w (trk c) = Some len ->
  NoDup (map tlid (World.tl w)) -> In x (World.tl w) -> tlid x <> tlid c -> accepts w x ->
  announces_eot shuf w c x ->
  let w' := run_world shuf (S f) w [AboutToFinish; Deliver; Deliver] in
  current w' = Some x /\ pstate w' = Playing /\ pending w' = None /\ queue w' = []
  /\ a_uri w' = Some (trk x) /\ a_state w' = Playing
  /\ World.tl w' = filter (fun t => negb (tlid t =? tlid c)) (World.tl w).
Proof.
  intros [Hq Hp Hpp Hsa Hsp Hpf Hc Hb Ha] Hst Hco Hr Hd Hlen Hnd Hin Hne Hacc Hann. rewrite Hst in Ha. destruct Ha as [Hu Has].
  cbv zeta. unfold run_world. cbn [fold_left].
  assert (Hk := proj1 Hacc).
  assert (Hbx : forall w0, tkinds w0 = tkinds w -> tkind_has_backend (kind_of w0 (trk x)) = true).
  { intros w0 E. unfold kind_of in *. rewrite E, Hk. reflexivity. }
  assert (Hns : pstate w <> Stopped) by (rewrite Hst; discriminate).
  pose proof (about_to_finish_run shuf f x c len w Hns Hc Hlen Hu Has Hd Hacc Hann) as E1.
  set (w1 := fx_about_to_finish x len w) in *.
  assert (G1 : get_time_position w1 = (Ok (a_pos w1), fx_gtp w1)).
  { apply (gtp_run w1 c); [exact Hpp|exact Hc|exact Hb]. }
  rewrite (stepw_eq shuf (S f) AboutToFinish w RNone w1 _ _ (run_op_bind_none _ w tt w1 E1) G1).
  set (w1' := fx_gtp w1).
  assert (Q1 : queue w1' = [NPositionChanged 0; NStreamChanged (Some (trk x))]).
  { unfold w1', w1, fx_gtp, fx_about_to_finish, fx_attempt. cbn. rewrite Hq. reflexivity. }
  pose proof (deliver_run shuf (S f) _ _ w1' Q1) as D1. cbv beta iota in D1.
  rewrite position_changed_noop in D1 by exact Hpp.
  set (w2 := w1' <| queue := [NStreamChanged (Some (trk x))] |>) in *.
  assert (G2 : get_time_position w2 = (Ok (a_pos w2), fx_gtp w2)).
  { apply (gtp_run w2 c); [exact Hpp|exact Hc|exact Hb]. }
  rewrite (stepw_eq shuf (S f) Deliver w1' RNone w2 _ _ (run_op_bind_none _ w1' tt w2 D1) G2).
  set (w2' := fx_gtp w2).
  assert (Q2 : queue w2' = [NStreamChanged (Some (trk x))]) by reflexivity.
  pose proof (deliver_run shuf (S f) _ _ w2' Q2) as D2. cbv beta iota in D2.
  set (w2q := w2' <| queue := [] |>) in *.
  assert (S2 : on_stream_changed shuf (S f) w2q = (Ok tt, fx_promote_consume x c len w2q)).
  { apply stream_changed_consume_run; try reflexivity; unfold w2q, w2', w2, w1', w1; cbn; assumption. }
  rewrite S2 in D2.
  set (w3 := fx_promote_consume x c len w2q) in *.
  assert (G3 : get_time_position w3 = (Ok (a_pos w3), fx_gtp w3)).
  { apply (gtp_run w3 x); [exact Hpp|reflexivity|apply Hbx; reflexivity]. }
  rewrite (stepw_eq shuf (S f) Deliver w2' RNone w3 _ _ (run_op_bind_none _ w2' tt w3 D2) G3).
  repeat split; try reflexivity.
  - cbn. exact Has.
  - change (without c (World.tl w) = filter (fun t => negb (tlid t =? tlid c)) (World.tl w)).
    apply without_spec. exact Hnd.
Qed.

End P.
