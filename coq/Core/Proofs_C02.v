(* C02 proofs: the event protocol seen by a listener, for every schedule. *)
From Coq Require Import ZArith List Bool Lia.
From RecordUpdate Require Import RecordSet.
From Common Require Import Res.
From Core Require Import World Hoare Model Step Reach Inv_Tracked Rel_History Res_NoRaise.
Import ListNotations RecordSetNotations.
Open Scope Z_scope.

(* Replaying a chronological event list from state s: every playback_state_changed must start
   from the state reached so far; paused / resumed events are only legal in Paused / Playing. *)
Definition replay_step (s : ps) (e : event) : option ps :=
  match e with
  | EvStateChanged o n => if ps_eqb o s then Some n else None
  | EvPaused _ _ => if ps_eqb s Paused then Some s else None
  | EvResumed _ _ => if ps_eqb s Playing then Some s else None
  | _ => Some s
  end.

Fixpoint replay (s : ps) (l : list event) : option ps :=
  match l with
  | [] => Some s
  | e :: t => match replay_step s e with Some s' => replay s' t | None => None end
  end.

Lemma replay_snoc s l e :
  replay s (l ++ [e]) = match replay s l with Some s' => replay_step s' e | None => None end.
Proof.
  revert s. induction l as [|x l IH]; intros s; cbn [app replay].
  - destruct (replay_step s e); reflexivity.
  - destruct (replay_step s x); [apply IH|reflexivity].
Qed.

Lemma tracked_replay evs : tracked evs = replay Stopped (rev evs).
Proof.
  induction evs as [|e evs IH]; [reflexivity|].
  cbn [tracked rev]. rewrite replay_snoc, <- IH.
  destruct (tracked evs); [|reflexivity]. destruct e; reflexivity.
Qed.

Section P.
Variable shuf : Z -> list tlt -> list tlt.
Variable fuel : nat.

Lemma init_tracked mx kinds lens scr vol mut : tracked_inv (init_world mx kinds lens scr vol mut).
Proof. reflexivity. Qed.

Lemma reachable_tracked w ops : tracked_inv w -> tracked_inv (run_world shuf fuel w ops).
Proof.
  apply run_world_preserves.
  - intro o. apply run_op_tracked_inv.
  - apply get_time_position_tracked_inv.
Qed.

(* T1 + T3 *)
Lemma state_chain_lemma mx kinds lens scr vol mut ops :
  let w := run_world shuf fuel (init_world mx kinds lens scr vol mut) ops in
  replay Stopped (rev (events w)) = Some (pstate w).
Proof.
  cbv zeta. rewrite <- tracked_replay. apply reachable_tracked. apply init_tracked.
Qed.

(* the same from any state that satisfies it (e.g. mid-history) *)
Lemma state_chain_step_lemma w o :
  replay Stopped (rev (events w)) = Some (pstate w) ->
  let w' := stepw shuf fuel w o in replay Stopped (rev (events w')) = Some (pstate w').
Proof.
  cbv zeta. rewrite <- !tracked_replay. intros H.
  apply (stepw_preserves shuf fuel tracked_inv); auto.
  - intro o'. apply run_op_tracked_inv.
  - apply get_time_position_tracked_inv.
Qed.

(* T2 *)
Lemma started_feeds_history_lemma o w : (forall c, o <> Load c) -> (forall ks, o <> SetHistory ks) ->
  let w' := stepw shuf fuel w o in
  exists new, events w' = new ++ events w /\ history w' = started new ++ history w.
Proof.
  intros Hn Hs. apply (stepw_rel shuf fuel hist_rel o hist_trans).
  - apply run_op_hist_rel; [exact Hn|exact Hs].
  - apply get_time_position_hist_rel.
Qed.

(* T4 (exceptions): whatever the state and the pending notifications, an operation raises
   only its documented argument-validation error *)
Lemma schedule_no_raise_lemma o w :
  match fst (run_op shuf fuel o w) with
  | Raise e => documented o e = true
  | _ => True
  end.
Proof.
  destruct (run_op shuf fuel o w) as [r w'] eqn:E. cbn [fst].
  exact (run_op_documented shuf fuel o w r w' E).
Qed.
End P.

(* non-vacuity: a reachable state with a non-trivial event log *)
Example c02_nonvacuous :
  let w := run_world shuf_concrete 10
             (init_world 100 [Playable; Playable] [Some 1000; Some 1000] [] None None)
             [Add [0; 1] None; Play None; Deliver; Deliver; Pause; Deliver; Deliver; Deliver; Resume; Next; Deliver] in
  pstate w = Paused /\ history w = [0] /\ length (events w) = 9%nat.
Proof. vm_compute. repeat split. Qed.
