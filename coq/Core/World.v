(* The core world: every attribute of TracklistController, PlaybackController and
   HistoryController (src/mopidy/core/{tracklist,playback,history}.py), the mixer values
   seen through MixerController, the environment specification AudioEnv (DESIGN.md §3) and
   ghost logs used by the theorems and by the correspondence. *)
From Coq Require Import ZArith List Bool.
From RecordUpdate Require Import RecordSet.
From Common Require Import Res.
Import ListNotations RecordSetNotations.
Open Scope Z_scope.

Inductive ps := Stopped | Playing | Paused.
Definition ps_eqb (a b : ps) : bool :=
  match a, b with
  | Stopped, Stopped | Playing, Playing | Paused, Paused => true
  | _, _ => false
  end.
Definition ps_code (s : ps) : Z := match s with Stopped => 0 | Playing => 1 | Paused => 2 end.

(* A track is an index into the static track table of the run (uri <-> index). *)
Definition track := Z.
Record tlt := mkTlt { tlid : Z; trk : track }.
Definition tlt_eqb (a b : tlt) : bool := (tlid a =? tlid b) && (trk a =? trk b).

(* How the playback backend treats a track (static, per track). *)
Inductive tkind := Playable | Refuse | NoUri | Raises | NoBackend.
Definition tkind_playable (k : tkind) : bool := match k with Playable => true | _ => false end.
Definition tkind_has_backend (k : tkind) : bool := match k with NoBackend => false | _ => true end.

Inductive exn := ValidationError | AssertionError | TracklistFull | ValueError | OtherError.
Definition exn_code (e : exn) : Z :=
  match e with ValidationError => 0 | AssertionError => 1 | TracklistFull => 2
             | ValueError => 3 | OtherError => 9 end.

(* Notifications queued by the audio environment, delivered to the core by Deliver. *)
Inductive notif :=
| NStreamChanged (u : option track)
| NPositionChanged (p : Z)
| NStateChanged (o n : ps)
| NReachedEos
| NTagsChanged.

(* Core events (CoreListener.send), with the arguments the properties speak about. *)
Inductive event :=
| EvStateChanged (o n : ps)
| EvStarted (t : tlt)
| EvEnded (t : tlt) (pos : Z)
| EvPaused (t : tlt) (pos : Z)
| EvResumed (t : tlt) (pos : Z)
| EvSeeked (pos : Z)
| EvTracklistChanged
| EvOptionsChanged
| EvVolumeChanged (v : Z)
| EvMuteChanged (m : bool).

(* State-changing calls received by the audio layer. *)
Inductive acall :=
| APrepareChange
| ASetUri (u : track)
| ASetState (s : ps)
| ASetPosition (p : Z).

Record snapshot := mkSnapshot {
  s_tl : list tlt; s_next_tlid : Z;
  s_consume : bool; s_random : bool; s_repeat : bool; s_single : bool;
  s_history : list track;
  s_tlid : option Z; s_pos : Z; s_state : ps;
  s_volume : option Z; s_mute : option bool
}.

Record world := mkWorld {
  (* TracklistController *)
  tl : list tlt; next_tlid : Z; version : Z;
  consume : bool; random : bool; repeat : bool; single : bool;
  shuffled : list tlt;
  (* PlaybackController *)
  pstate : ps; current : option tlt; pending : option tlt;
  pending_position : option Z; last_position : option Z; previous_flag : bool;
  start_at_position : option Z; start_paused : bool;
  (* HistoryController: newest first *)
  history : list track;
  (* mixer as seen through MixerController (None = no mixer value known) *)
  volume : option Z; mute : option bool;
  (* configuration and static tables *)
  max_len : Z; tkinds : list tkind; tlens : list (option Z);
  (* AudioEnv *)
  a_uri : option track; a_state : ps; a_fresh : bool; a_pos : Z; a_atf_done : bool; queue : list notif;
  (* backend flakiness script: head = true makes the next change_track attempt fail *)
  script : list bool;
  (* shuffle oracle counter *)
  seed : Z;
  (* last saved state *)
  saved : option snapshot;
  (* ghost logs, newest first *)
  events : list event; acalls : list acall; attempts : list (track * bool);
  bcalls : Z; issued : list Z; protocol_violations : Z
}.

#[export] Instance eta_world : Settable _ := settable! mkWorld
  <tl; next_tlid; version; consume; random; repeat; single; shuffled;
   pstate; current; pending; pending_position; last_position; previous_flag;
   start_at_position; start_paused; history; volume; mute;
   max_len; tkinds; tlens; a_uri; a_state; a_fresh; a_pos; a_atf_done; queue; script; seed; saved;
   events; acalls; attempts; bcalls; issued; protocol_violations>.

Definition init_world (maxlen : Z) (kinds : list tkind) (lens : list (option Z))
           (scr : list bool) (vol : option Z) (mut : option bool) : world :=
  {| tl := []; next_tlid := 1; version := 0;
     consume := false; random := false; repeat := false; single := false; shuffled := [];
     pstate := Stopped; current := None; pending := None;
     pending_position := None; last_position := None; previous_flag := false;
     start_at_position := None; start_paused := false; history := [];
     volume := vol; mute := mut;
     max_len := maxlen; tkinds := kinds; tlens := lens;
     a_uri := None; a_state := Stopped; a_fresh := false; a_pos := 0; a_atf_done := false; queue := [];
     script := scr; seed := 0; saved := None;
     events := []; acalls := []; attempts := []; bcalls := 0; issued := [];
     protocol_violations := 0 |}.

(* State-and-result monad: the state survives a Raise, as in Python. *)
Definition M (A : Type) := world -> res exn A * world.
Definition ret {A} (a : A) : M A := fun w => (Ok a, w).
Definition bind {A B} (m : M A) (f : A -> M B) : M B :=
  fun w => match m w with
           | (Ok a, w') => f a w'
           | (Raise e, w') => (Raise e, w')
           | (Diverge, w') => (Diverge, w')
           end.
Definition raise {A} (e : exn) : M A := fun w => (Raise e, w).
Definition diverge {A} : M A := fun w => (Diverge, w).
Definition get : M world := fun w => (Ok w, w).
Definition modify (f : world -> world) : M unit := fun w => (Ok tt, f w).

Declare Scope m_scope.
Delimit Scope m_scope with M.
Notation "x <- m ;; k" := (bind m (fun x => k)) (at level 61, m at next level, right associativity) : m_scope.
Notation "m ;; k" := (bind m (fun _ => k)) (at level 61, right associativity) : m_scope.
Notation "'when' b 'do' m" := (if b then m else ret tt) (at level 60) : m_scope.
