"""Dev-time helper: discovers the smallest constant K for which `cost K (f args)` is provable by
cost_in for each loop-free model function (writes /tmp/cost_lemmas.v, pasted into Cost.v)."""
import re, subprocess, sys
sys.path.insert(0,'/verif/coq/Core')
src=open('/verif/coq/Core/gen_inv.py').read()
FUNS=eval(re.search(r"FUNS = (\[.*?\n\])", src, re.S).group(1))
skip={"emit","do_shuffle","bcall","acall_log","enqueue","add_loop","play_loop","play","next_loop","next","previous_loop","previous","seek","on_stream_changed","atf_loop","on_about_to_finish","load_state","deliver","about_to_finish","do_load","run_op","tl_add"}
base=open('/verif/coq/Core/Cost.v').read()
base=base[:base.index("Ltac show_k")]
done=[]
def compile(text):
    open('/tmp/CostTry.v','w').write(text)
    r=subprocess.run("cd /tmp && timeout 120 coqc -Q /verif/coq/Common Common -Q /verif/coq/Core Core CostTry.v",shell=True,capture_output=True,text=True)
    return r.returncode==0, r.stdout+r.stderr
acc=""
for f,args,sh,kind in FUNS:
    if f in skip: continue
    call=f+(" shuf" if sh else "")
    app=" ".join([call]+args.split())
    binder=(" "+args) if args else ""
    ok=False
    for K in range(0,15):
        lem=f"Lemma {f}_cost{binder} : cost {K} ({app}).\nProof. unfold {f}. cost_in. Qed.\nHint Resolve {f}_cost : costdb.\n"
        good,out=compile(base+acc+lem+"End S.\n")
        if good:
            acc+=lem; ok=True; print(f,K); break
    if not ok:
        print("FAILED",f,out[-800:]); break
open('/tmp/cost_lemmas.v','w').write(acc)
