(* C02 (agreement clause), proved for the model by symbolic execution for pause, resume and stop
   from a settled state (consume off): after the pending notifications are delivered the core
   and the audio layer agree again.  (next / previous / end-of-track: Proofs_C03b.v.) *)
From Coq Require Import ZArith List Bool Lia ZifyBool.
From RecordUpdate Require Import RecordSet.
From Common Require Import Res.
From Core Require Import World Hoare Model Step Reach Proofs_C03b.
Import ListNotations RecordSetNotations.
Open Scope Z_scope.

Section P.
Variable shuf : Z -> list tlt -> list tlt.

(* ---- pause *)
Definition fx_env_pause (w : world) : world :=
  w <| bcalls := bcalls w + 1 |> <| acalls := ASetState Paused :: acalls w |>
    <| queue := queue w ++ [NPositionChanged 0; NStateChanged (a_state w) Paused] |> <| a_state := Paused |>.

Lemma env_pause_run w u : a_uri w = Some u -> a_fresh w = false ->
  env_set_state Paused w = (Ok true, fx_env_pause w).
Proof.
  intros Hu Hf. unfold env_set_state, bcall, acall_log, enqueue, bind, get, modify, ret.
  cbn. rewrite Hu. cbn. rewrite Hf. cbn. rewrite Hu. cbn.
  match goal with |- (_, ?a) = (_, ?b) => assert (Hw : a = b); [|rewrite Hw; reflexivity] end.
  unfold fx_env_pause. world_eq. rewrite <- app_assoc. reflexivity.
Qed.

Lemma set_paused_run x w :
  current w = Some x -> pending_position w = None -> tkind_has_backend (kind_of w (trk x)) = true ->
  (set_state Paused ;; trigger_paused)%M w = (Ok tt, fx_paused x w).
Proof.
  intros Hc Hpp Hb.
  unfold set_state, trigger_paused, get_time_position, env_get_position, bcall, has_backend, emit,
    bind, get, modify, ret.
  repeat (progress (cbn -[fx_paused kind_of]; rewrite ?Hc, ?Hpp)).
  change (kind_of (w <| pstate := Paused |> <| events := EvStateChanged (pstate w) Paused :: events w |>) (trk x))
    with (kind_of w (trk x)). rewrite Hb. cbn -[fx_paused kind_of].
  match goal with |- (_, ?a) = (_, ?b) => assert (Hw : a = b); [|rewrite Hw; reflexivity] end.
  unfold fx_paused. world_eq.
Qed.

Definition fx_pause (c : tlt) (w : world) : world := fx_paused c (fx_env_pause w).

Lemma pause_run w c u :
  current w = Some c -> tkind_has_backend (kind_of w (trk c)) = true -> pending_position w = None ->
  a_uri w = Some u -> a_fresh w = false ->
  pause w = (Ok tt, fx_pause c w).
Proof.
  intros Hc Hb Hpp Hu Hf. unfold pause.
  assert (E0 : get w = (Ok w, w)) by reflexivity. step E0.
  assert (Hh : has_backend w (current w) = true) by (unfold has_backend; rewrite Hc; exact Hb). rewrite Hh.
  step (env_pause_run w u Hu Hf). cbv iota.
  apply (set_paused_run c (fx_env_pause w)); [exact Hc|exact Hpp|exact Hb].
Qed.

(* ---- resume *)
Definition fx_env_play (w : world) : world :=
  w <| bcalls := bcalls w + 1 |> <| acalls := ASetState Playing :: acalls w |>
    <| queue := queue w ++ [NPositionChanged 0; NStateChanged (a_state w) Playing; NTagsChanged] |>
    <| a_state := Playing |>.

Lemma env_play_run w u : a_uri w = Some u -> a_fresh w = false ->
  env_set_state Playing w = (Ok true, fx_env_play w).
Proof.
  intros Hu Hf. unfold env_set_state, bcall, acall_log, enqueue, bind, get, modify, ret.
  cbn. rewrite Hu. cbn. rewrite Hf. cbn. rewrite Hu. cbn.
  match goal with |- (_, ?a) = (_, ?b) => assert (Hw : a = b); [|rewrite Hw; reflexivity] end.
  unfold fx_env_play. world_eq. repeat rewrite <- app_assoc. reflexivity.
Qed.

Definition fx_resumed (x : tlt) (w : world) : world :=
  w <| pstate := Playing |> <| bcalls := bcalls w + 1 |>
    <| events := EvResumed x (a_pos w) :: EvStateChanged (pstate w) Playing :: events w |>.

Lemma set_resumed_run x w :
  current w = Some x -> pending_position w = None -> tkind_has_backend (kind_of w (trk x)) = true ->
  (set_state Playing ;; trigger_resumed)%M w = (Ok tt, fx_resumed x w).
Proof.
  intros Hc Hpp Hb.
  unfold set_state, trigger_resumed, get_time_position, env_get_position, bcall, has_backend, emit,
    bind, get, modify, ret.
  repeat (progress (cbn -[fx_resumed kind_of]; rewrite ?Hc, ?Hpp)).
  change (kind_of (w <| pstate := Playing |> <| events := EvStateChanged (pstate w) Playing :: events w |>) (trk x))
    with (kind_of w (trk x)). rewrite Hb. cbn -[fx_resumed kind_of].
  match goal with |- (_, ?a) = (_, ?b) => assert (Hw : a = b); [|rewrite Hw; reflexivity] end.
  unfold fx_resumed. world_eq.
Qed.

Lemma resume_run w c u :
  pstate w = Paused -> current w = Some c -> tkind_has_backend (kind_of w (trk c)) = true ->
  pending_position w = None -> a_uri w = Some u -> a_fresh w = false ->
  resume w = (Ok tt, fx_resumed c (fx_env_play w)).
Proof.
  intros Hs Hc Hb Hpp Hu Hf. unfold resume.
  assert (E0 : get w = (Ok w, w)) by reflexivity. step E0.
  rewrite Hs. cbn [ps_eqb negb].
  assert (Hh : has_backend w (current w) = true) by (unfold has_backend; rewrite Hc; exact Hb). rewrite Hh.
  step (env_play_run w u Hu Hf). cbv iota.
  apply (set_resumed_run c (fx_env_play w)); [exact Hc|exact Hpp|exact Hb].
Qed.

(* ---- the agreement theorems *)

Ltac gtp_step wv cv Hpp Hc Hb :=
  assert (get_time_position wv = (Ok (a_pos wv), fx_gtp wv)) by (apply (gtp_run wv cv); [exact Hpp|exact Hc|exact Hb]).

Theorem pause_agreement_full f c w :
  settled_on w c -> pstate w = Playing -> a_fresh w = false ->
  let w' := run_world shuf f w [Pause; Deliver; Deliver] in
  settled_on w' c /\ stable w w' /\
  current w' = Some c /\ pstate w' = Paused /\ pending w' = None /\ queue w' = []
  /\ a_uri w' = Some (trk c) /\ a_state w' = Paused /\ World.tl w' = World.tl w.
Proof.
  intros [Hq Hp Hpp Hsa Hsp Hpf Hc Hb Ha] Hst Hf. rewrite Hst in Ha. destruct Ha as [Hu Has].
  cbv zeta. unfold run_world. cbn [fold_left].
  pose proof (pause_run w c (trk c) Hc Hb Hpp Hu Hf) as E1.
  set (w1 := fx_pause c w) in *.
  assert (G1 : get_time_position w1 = (Ok (a_pos w1), fx_gtp w1)).
  { apply (gtp_run w1 c); [exact Hpp|exact Hc|exact Hb]. }
  rewrite (stepw_eq shuf f Pause w RNone w1 _ _ (run_op_bind_none _ w tt w1 E1) G1).
  set (w1' := fx_gtp w1).
  assert (Q1 : queue w1' = [NPositionChanged 0; NStateChanged Playing Paused]).
  { unfold w1', w1, fx_gtp, fx_pause, fx_paused, fx_env_pause. cbn. rewrite Hq, Has. reflexivity. }
  pose proof (deliver_run shuf f _ _ w1' Q1) as D1. cbv beta iota in D1.
  rewrite position_changed_noop in D1 by exact Hpp.
  set (w2 := w1' <| queue := [NStateChanged Playing Paused] |>) in *.
  assert (G2 : get_time_position w2 = (Ok (a_pos w2), fx_gtp w2)).
  { apply (gtp_run w2 c); [exact Hpp|exact Hc|exact Hb]. }
  rewrite (stepw_eq shuf f Deliver w1' RNone w2 _ _ (run_op_bind_none _ w1' tt w2 D1) G2).
  set (w2' := fx_gtp w2).
  assert (Q2 : queue w2' = [NStateChanged Playing Paused]) by reflexivity.
  pose proof (deliver_run shuf f _ _ w2' Q2) as D2. cbv beta iota in D2.
  set (w3 := w2' <| queue := [] |>) in *.
  assert (S3 : on_state_changed Playing Paused w3 = (Ok tt, w3)).
  { unfold on_state_changed, bind, get. reflexivity. }
  rewrite S3 in D2.
  assert (G3 : get_time_position w3 = (Ok (a_pos w3), fx_gtp w3)).
  { apply (gtp_run w3 c); [exact Hpp|exact Hc|exact Hb]. }
  rewrite (stepw_eq shuf f Deliver w2' RNone w3 _ _ (run_op_bind_none _ w2' tt w3 D2) G3).
  split; [constructor; try reflexivity; try assumption; try (apply Hbx; reflexivity);
           try (cbn; split; first [reflexivity|assumption]); try (cbn; assumption)|].
  split; [unfold stable; repeat split; try reflexivity; try assumption;
           try (intros Hs0; cbn; rewrite ?Hs0; cbn; rewrite ?Hs0; first [reflexivity|assumption])|].
  repeat split; try reflexivity; assumption.
Qed.

Theorem pause_agreement f c w :
  settled_on w c -> pstate w = Playing -> a_fresh w = false ->
  let w' := run_world shuf f w [Pause; Deliver; Deliver] in
  current w' = Some c /\ pstate w' = Paused /\ pending w' = None /\ queue w' = []
  /\ a_uri w' = Some (trk c) /\ a_state w' = Paused /\ World.tl w' = World.tl w.
Proof. intros. cbv zeta. eapply proj2. eapply proj2. eapply pause_agreement_full; eassumption. Qed.

Theorem resume_agreement_full f c w :
  settled_on w c -> pstate w = Paused -> a_fresh w = false ->
  let w' := run_world shuf f w [Resume; Deliver; Deliver; Deliver] in
  settled_on w' c /\ stable w w' /\
  current w' = Some c /\ pstate w' = Playing /\ pending w' = None /\ queue w' = []
  /\ a_uri w' = Some (trk c) /\ a_state w' = Playing /\ World.tl w' = World.tl w.
Proof.
  intros [Hq Hp Hpp Hsa Hsp Hpf Hc Hb Ha] Hst Hf. rewrite Hst in Ha. destruct Ha as [Hu Has].
  cbv zeta. unfold run_world. cbn [fold_left].
  pose proof (resume_run w c (trk c) Hst Hc Hb Hpp Hu Hf) as E1.
  set (w1 := fx_resumed c (fx_env_play w)) in *.
  assert (G1 : get_time_position w1 = (Ok (a_pos w1), fx_gtp w1)).
  { apply (gtp_run w1 c); [exact Hpp|exact Hc|exact Hb]. }
  rewrite (stepw_eq shuf f Resume w RNone w1 _ _ (run_op_bind_none _ w tt w1 E1) G1).
  set (w1' := fx_gtp w1).
  assert (Q1 : queue w1' = [NPositionChanged 0; NStateChanged Paused Playing; NTagsChanged]).
  { unfold w1', w1, fx_gtp, fx_resumed, fx_env_play. cbn. rewrite Hq, Has. reflexivity. }
  pose proof (deliver_run shuf f _ _ w1' Q1) as D1. cbv beta iota in D1.
  rewrite position_changed_noop in D1 by exact Hpp.
  set (w2 := w1' <| queue := [NStateChanged Paused Playing; NTagsChanged] |>) in *.
  assert (G2 : get_time_position w2 = (Ok (a_pos w2), fx_gtp w2)).
  { apply (gtp_run w2 c); [exact Hpp|exact Hc|exact Hb]. }
  rewrite (stepw_eq shuf f Deliver w1' RNone w2 _ _ (run_op_bind_none _ w1' tt w2 D1) G2).
  set (w2' := fx_gtp w2).
  assert (Q2 : queue w2' = [NStateChanged Paused Playing; NTagsChanged]) by reflexivity.
  pose proof (deliver_run shuf f _ _ w2' Q2) as D2. cbv beta iota in D2.
  rewrite state_changed_not_paused in D2 by discriminate.
  set (w3 := w2' <| queue := [NTagsChanged] |>) in *.
  assert (G3 : get_time_position w3 = (Ok (a_pos w3), fx_gtp w3)).
  { apply (gtp_run w3 c); [exact Hpp|exact Hc|exact Hb]. }
  rewrite (stepw_eq shuf f Deliver w2' RNone w3 _ _ (run_op_bind_none _ w2' tt w3 D2) G3).
  set (w3' := fx_gtp w3).
  assert (Q3 : queue w3' = [NTagsChanged]) by reflexivity.
  pose proof (deliver_run shuf f _ _ w3' Q3) as D3. cbv beta iota in D3.
  set (w4 := w3' <| queue := [] |>) in *.
  assert (G4 : get_time_position w4 = (Ok (a_pos w4), fx_gtp w4)).
  { apply (gtp_run w4 c); [exact Hpp|exact Hc|exact Hb]. }
  assert (D3' : (deliver shuf f ;; ret RNone)%M w3' = (Ok RNone, w4)).
  { apply (run_op_bind_none _ w3' tt w4). exact D3. }
  rewrite (stepw_eq shuf f Deliver w3' RNone w4 _ _ D3' G4).
  split; [constructor; try reflexivity; try assumption; try (apply Hbx; reflexivity);
           try (cbn; split; first [reflexivity|assumption]); try (cbn; assumption)|].
  split; [unfold stable; repeat split; try reflexivity; try assumption;
           try (intros Hs0; cbn; rewrite ?Hs0; cbn; rewrite ?Hs0; first [reflexivity|assumption])|].
  repeat split; try reflexivity; assumption.
Qed.

Theorem resume_agreement f c w :
  settled_on w c -> pstate w = Paused -> a_fresh w = false ->
  let w' := run_world shuf f w [Resume; Deliver; Deliver; Deliver] in
  current w' = Some c /\ pstate w' = Playing /\ pending w' = None /\ queue w' = []
  /\ a_uri w' = Some (trk c) /\ a_state w' = Playing /\ World.tl w' = World.tl w.
Proof. intros. cbv zeta. eapply proj2. eapply proj2. eapply resume_agreement_full; eassumption. Qed.

(* ---- stop *)
Definition fx_env_stop (w : world) : world :=
  w <| bcalls := bcalls w + 1 |> <| acalls := ASetState Stopped :: acalls w |> <| a_uri := None |>
    <| a_fresh := false |>
    <| queue := queue w ++ [NStreamChanged None; NStateChanged (a_state w) Stopped] |> <| a_state := Stopped |>.

Lemma env_stop_run w u : a_uri w = Some u ->
  env_set_state Stopped w = (Ok true, fx_env_stop w).
Proof.
  intros Hu. unfold env_set_state, bcall, acall_log, enqueue, bind, get, modify, ret.
  cbn. rewrite Hu. cbn.
  match goal with |- (_, ?a) = (_, ?b) => assert (Hw : a = b); [|rewrite Hw; reflexivity] end.
  unfold fx_env_stop. world_eq. rewrite <- app_assoc. reflexivity.
Qed.

Definition fx_set_state (s : ps) (w : world) : world :=
  w <| pstate := s |> <| events := EvStateChanged (pstate w) s :: events w |>.
Lemma set_state_run s w : set_state s w = (Ok tt, fx_set_state s w).
Proof. reflexivity. Qed.

Definition fx_stop (w : world) : world :=
  fx_set_state Stopped (fx_env_stop ((fx_gtp w) <| last_position := Some (a_pos w) |>)).

Lemma ps_neq_stopped s : s <> Stopped -> ps_eqb s Stopped = false.
Proof. destruct s; [contradiction|reflexivity|reflexivity]. Qed.

Lemma stop_run w c u :
  pstate w <> Stopped -> current w = Some c -> tkind_has_backend (kind_of w (trk c)) = true ->
  pending_position w = None -> a_uri w = Some u ->
  stop w = (Ok tt, fx_stop w).
Proof.
  intros Hs Hc Hb Hpp Hu. unfold stop.
  assert (E0 : get w = (Ok w, w)) by reflexivity. step E0.
  rewrite (ps_neq_stopped _ Hs).
  step (gtp_run w c Hpp Hc Hb).
  set (w1 := (fx_gtp w) <| last_position := Some (a_pos w) |>).
  assert (E1 : modify (fun w0 => w0 <| last_position := Some (a_pos w) |>) (fx_gtp w) = (Ok tt, w1)) by reflexivity.
  step E1.
  assert (E2 : get w1 = (Ok w1, w1)) by reflexivity. step E2.
  assert (Hh : has_backend w1 (current w1) = true).
  { unfold has_backend. change (current w1) with (current w). rewrite Hc.
    change (kind_of w1 (trk c)) with (kind_of w (trk c)). exact Hb. }
  rewrite Hh.
  assert (E3 : env_set_state Stopped w1 = (Ok true, fx_env_stop w1)) by (apply (env_stop_run w1 u); exact Hu).
  step E3. cbv iota. apply set_state_run.
Qed.

(* stream_changed(None) after a stop: the stopped track is reported as ended, nothing is promoted *)
Definition fx_ended (c : tlt) (p : Z) (w : world) : world :=
  w <| last_position := None |> <| previous_flag := false |> <| events := EvEnded c p :: events w |>.

Lemma stream_changed_none_run fuel c p w :
  pending w = None -> current w = Some c -> pending_position w = None ->
  last_position w = Some p -> consume w = false ->
  on_stream_changed shuf fuel w = (Ok tt, fx_ended c p w).
Proof.
  intros Hp Hc Hpp Hl Hco.
  unfold on_stream_changed, trigger_ended, mark_played, emit, bind, get, modify, ret.
  destruct (previous_flag w) eqn:Hpf.
  all: repeat (progress (cbn -[seek pause fx_ended]; rewrite ?Hl, ?Hpp, ?Hc, ?Hpf, ?Hco, ?Hp)).
  all: match goal with |- (_, ?a) = (_, ?b) => assert (Hw : a = b); [|rewrite Hw; reflexivity] end.
  all: unfold fx_ended; world_eq.
Qed.

Theorem stop_agreement_full f c w :
  settled_on w c -> pstate w <> Stopped -> consume w = false ->
  let w' := run_world shuf f w [Stop; Deliver; Deliver] in
  settled_on w' c /\ stable w w' /\
  current w' = Some c /\ pstate w' = Stopped /\ pending w' = None /\ queue w' = []
  /\ a_uri w' = None /\ a_state w' = Stopped /\ World.tl w' = World.tl w.
Proof.
  intros [Hq Hp Hpp Hsa Hsp Hpf Hc Hb Ha] Hst Hco.
  assert (Hu : a_uri w = Some (trk c)) by (destruct (pstate w); [contradiction|tauto|tauto]).
  cbv zeta. unfold run_world. cbn [fold_left].
  pose proof (stop_run w c (trk c) Hst Hc Hb Hpp Hu) as E1.
  set (w1 := fx_stop w) in *.
  assert (G1 : get_time_position w1 = (Ok (a_pos w1), fx_gtp w1)).
  { apply (gtp_run w1 c); [exact Hpp|exact Hc|exact Hb]. }
  rewrite (stepw_eq shuf f Stop w RNone w1 _ _ (run_op_bind_none _ w tt w1 E1) G1).
  set (w1' := fx_gtp w1).
  assert (Q1 : queue w1' = [NStreamChanged None; NStateChanged (a_state w) Stopped]).
  { unfold w1', w1, fx_gtp, fx_stop, fx_env_stop. cbn. rewrite Hq. reflexivity. }
  pose proof (deliver_run shuf f _ _ w1' Q1) as D1. cbv beta iota in D1.
  set (w1q := w1' <| queue := [NStateChanged (a_state w) Stopped] |>) in *.
  assert (S1 : on_stream_changed shuf f w1q = (Ok tt, fx_ended c (a_pos w) w1q)).
  { apply stream_changed_none_run; try reflexivity; unfold w1q, w1', w1; cbn; assumption. }
  rewrite S1 in D1.
  set (w2 := fx_ended c (a_pos w) w1q) in *.
  assert (G2 : get_time_position w2 = (Ok (a_pos w2), fx_gtp w2)).
  { apply (gtp_run w2 c); [exact Hpp|exact Hc|exact Hb]. }
  rewrite (stepw_eq shuf f Deliver w1' RNone w2 _ _ (run_op_bind_none _ w1' tt w2 D1) G2).
  set (w2' := fx_gtp w2).
  assert (Q2 : queue w2' = [NStateChanged (a_state w) Stopped]) by reflexivity.
  pose proof (deliver_run shuf f _ _ w2' Q2) as D2. cbv beta iota in D2.
  rewrite state_changed_not_paused in D2 by discriminate.
  set (w3 := w2' <| queue := [] |>) in *.
  assert (G3 : get_time_position w3 = (Ok (a_pos w3), fx_gtp w3)).
  { apply (gtp_run w3 c); [exact Hpp|exact Hc|exact Hb]. }
  rewrite (stepw_eq shuf f Deliver w2' RNone w3 _ _ (run_op_bind_none _ w2' tt w3 D2) G3).
  split; [constructor; try reflexivity; try assumption|].
  split; [unfold stable; repeat split; try reflexivity; try assumption;
           try (intros Hs0; cbn; rewrite ?Hs0; cbn; rewrite ?Hs0; first [reflexivity|assumption])|].
  repeat split; try reflexivity; assumption.
Qed.

Theorem stop_agreement f c w :
  settled_on w c -> pstate w <> Stopped -> consume w = false ->
  let w' := run_world shuf f w [Stop; Deliver; Deliver] in
  current w' = Some c /\ pstate w' = Stopped /\ pending w' = None /\ queue w' = []
  /\ a_uri w' = None /\ a_state w' = Stopped /\ World.tl w' = World.tl w.
Proof. intros. cbv zeta. eapply proj2. eapply proj2. eapply stop_agreement_full; eassumption. Qed.

End P.
