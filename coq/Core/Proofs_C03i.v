(* C03, random: an entry started by play(tlid) leaves the shuffle order wherever it sits in it (and
   is announced once): the player will not select it again in this pass. *)
From Coq Require Import ZArith List Bool Lia ZifyBool.
From RecordUpdate Require Import RecordSet.
From Common Require Import Res.
From Core Require Import World Hoare Model Step Reach ListLemmas Rel_Vtc Proofs_C03b Proofs_C02b Proofs_C10b Proofs_C02c.
Import ListNotations RecordSetNotations.
Open Scope Z_scope.

Section P.
Variable shuf : Z -> list tlt -> list tlt.

Lemma change_settles_effects f x c w :
  queue w = [] -> pending_position w = None -> start_at_position w = None -> start_paused w = false ->
  current w = Some c -> tkind_has_backend (kind_of w (trk c)) = true -> consume w = false ->
  accepts w x ->
  let w1 := fx_gtp (fx_change x Playing w) in
  let w' := run_world shuf (S f) w1 [Deliver; Deliver; Deliver; Deliver] in
  shuffled w' = (if random w && mem_tlt x (shuffled w) then remove_first x (shuffled w) else shuffled w)
  /\ events w' = EvStarted x :: EvStateChanged (pstate w) Playing :: EvEnded c (a_pos w) :: events w.
Proof.
  intros Hq Hpp Hsa Hsp Hc Hb Hco [Hk Hs].
  cbv zeta. unfold run_world. cbn [fold_left].
  assert (Hbx : forall w0, tkinds w0 = tkinds w -> tkind_has_backend (kind_of w0 (trk x)) = true).
  { intros w0 E. unfold kind_of in *. rewrite E, Hk. reflexivity. }
  set (w1 := fx_change x Playing w).
  set (w1' := fx_gtp w1).
  assert (Q1 : queue w1' = [NStreamChanged (Some (trk x)); NPositionChanged 0;
                            NStateChanged (a_state w) Playing; NTagsChanged]).
  { unfold w1', w1, fx_gtp, fx_change, Proofs_C03b.fx_set_state. cbn. rewrite Hq. reflexivity. }
  pose proof (deliver_run shuf (S f) _ _ w1' Q1) as D1. cbv beta iota in D1.
  set (w1q := w1' <| queue := [NPositionChanged 0; NStateChanged (a_state w) Playing; NTagsChanged] |>) in *.
  assert (S1 : on_stream_changed shuf (S f) w1q = (Ok tt, fx_promote x c (a_pos w) w1q)).
  { apply stream_changed_run; try reflexivity; unfold w1q, w1', w1; cbn; assumption. }
  rewrite S1 in D1.
  set (w2 := fx_promote x c (a_pos w) w1q) in *.
  assert (G2 : get_time_position w2 = (Ok (a_pos w2), fx_gtp w2)).
  { apply (gtp_run w2 x); [exact Hpp|reflexivity|apply Hbx; reflexivity]. }
  rewrite (stepw_eq shuf (S f) Deliver w1' RNone w2 _ _ (run_op_bind_none _ w1' tt w2 D1) G2).
  set (w2' := fx_gtp w2).
  assert (Q2 : queue w2' = [NPositionChanged 0; NStateChanged (a_state w) Playing; NTagsChanged]) by reflexivity.
  pose proof (deliver_run shuf (S f) _ _ w2' Q2) as D2. cbv beta iota in D2.
  rewrite position_changed_noop in D2 by exact Hpp.
  set (w3 := w2' <| queue := [NStateChanged (a_state w) Playing; NTagsChanged] |>) in *.
  assert (G3 : get_time_position w3 = (Ok (a_pos w3), fx_gtp w3)).
  { apply (gtp_run w3 x); [exact Hpp|reflexivity|apply Hbx; reflexivity]. }
  rewrite (stepw_eq shuf (S f) Deliver w2' RNone w3 _ _ (run_op_bind_none _ w2' tt w3 D2) G3).
  set (w3' := fx_gtp w3).
  assert (Q3 : queue w3' = [NStateChanged (a_state w) Playing; NTagsChanged]) by reflexivity.
  pose proof (deliver_run shuf (S f) _ _ w3' Q3) as D3. cbv beta iota in D3.
  rewrite state_changed_not_paused in D3 by discriminate.
  set (w4 := w3' <| queue := [NTagsChanged] |>) in *.
  assert (G4 : get_time_position w4 = (Ok (a_pos w4), fx_gtp w4)).
  { apply (gtp_run w4 x); [exact Hpp|reflexivity|apply Hbx; reflexivity]. }
  rewrite (stepw_eq shuf (S f) Deliver w3' RNone w4 _ _ (run_op_bind_none _ w3' tt w4 D3) G4).
  set (w4' := fx_gtp w4).
  assert (Q4 : queue w4' = [NTagsChanged]) by reflexivity.
  pose proof (deliver_run shuf (S f) _ _ w4' Q4) as D4. cbv beta iota in D4.
  set (w5 := w4' <| queue := [] |>) in *.
  assert (G5 : get_time_position w5 = (Ok (a_pos w5), fx_gtp w5)).
  { apply (gtp_run w5 x); [exact Hpp|reflexivity|apply Hbx; reflexivity]. }
  assert (D4' : (deliver shuf (S f) ;; ret RNone)%M w4' = (Ok RNone, w5)).
  { apply (run_op_bind_none _ w4' tt w5). exact D4. }
  rewrite (stepw_eq shuf (S f) Deliver w4' RNone w5 _ _ D4' G5).
  split; reflexivity.
Qed.

Theorem play_tlid_leaves_order f i x c w :
  settled_on w c -> consume w = false -> 1 <= i ->
  find (fun y => tlid y =? i) (World.tl w) = Some x -> accepts w x ->
  let w' := run_world shuf (S f) w [Play (Some i); Deliver; Deliver; Deliver; Deliver] in
  shuffled w' = (if random w && mem_tlt x (shuffled w) then remove_first x (shuffled w) else shuffled w)
  /\ events w' = EvStarted x :: EvStateChanged (pstate w) Playing :: EvEnded c (a_pos w) :: events w.
Proof.
  intros [Hq Hp Hpp Hsa Hsp Hpf Hc Hb Ha] Hco Hi Hf Hacc.
  pose proof (play_some_run shuf f i x c w Hi Hf Hc Hpp Hb Hacc) as E1.
  set (w1 := fx_change x Playing w) in *.
  assert (G1 : get_time_position w1 = (Ok (a_pos w1), fx_gtp w1)).
  { apply (gtp_run w1 c); [exact Hpp|exact Hc|exact Hb]. }
  cbv zeta. rewrite (run_world_cons shuf).
  rewrite (stepw_eq shuf (S f) (Play (Some i)) w RNone w1 _ _ (run_op_bind_none _ w tt w1 E1) G1).
  exact (change_settles_effects f x c w Hq Hpp Hsa Hsp Hc Hb Hco Hacc).
Qed.


(* ... while an entry that is only preloaded (about-to-finish served, its stream not started yet)
   stays in the order: it is taken out when it starts, not when it is announced to the audio
   layer - so an abandoned preload is still visited in this pass *)
Theorem preload_keeps_order f x c len w :
  settled_on w c -> pstate w = Playing -> a_atf_done w = false ->
  len_of w (trk c) = Some len -> accepts w x -> announces_eot shuf w c x ->
  let w' := run_world shuf (S f) w [AboutToFinish] in
  shuffled w' = shuffled w /\ pending w' = Some x /\ current w' = Some c /\ World.tl w' = World.tl w.
Proof.
  intros [Hq Hp Hpp Hsa Hsp Hpf Hc Hb Ha] Hst Hd Hlen Hacc Hann. rewrite Hst in Ha. destruct Ha as [Hu Has].
  cbv zeta. unfold run_world. cbn [fold_left].
  assert (Hns : pstate w <> Stopped) by (rewrite Hst; discriminate).
  pose proof (about_to_finish_run shuf f x c len w Hns Hc Hlen Hu Has Hd Hacc Hann) as E1.
  set (w1 := fx_about_to_finish x len w) in *.
  assert (G1 : get_time_position w1 = (Ok (a_pos w1), fx_gtp w1)).
  { apply (gtp_run w1 c); [exact Hpp|exact Hc|exact Hb]. }
  rewrite (stepw_eq shuf (S f) AboutToFinish w RNone w1 _ _ (run_op_bind_none _ w tt w1 E1) G1).
  repeat split; try reflexivity. exact Hc.
Qed.


(* switching random on draws a complete new order over the whole tracklist, whatever was left of
   an earlier one; switching it off leaves the tracklist and the player alone *)
Theorem set_random_draws_full_order f w :
  let w' := snd (run_op shuf f (SetMode 1 true) w) in
  shuffled w' = shuf (seed w) (World.tl w) /\ random w' = true /\ World.tl w' = World.tl w
  /\ current w' = current w /\ pstate w' = pstate w /\ seed w' = seed w + 1.
Proof.
  cbv zeta. cbn [run_op]. unfold set_mode, emit, do_shuffle, bind, get, modify, ret. cbn.
  destruct (negb (Bool.eqb (random w) true)); cbn; repeat split; reflexivity.
Qed.


(* every tracklist change redraws the order: a complete new order when random is on (this is what
   a restore with random on relies on as well), an empty one otherwise *)
Definition sh_keep (w w' : world) : Prop :=
  random w' = random w /\ seed w' = seed w /\ World.tl w' = World.tl w.
Lemma sh_keep_refl w : sh_keep w w. Proof. repeat split. Qed.
Lemma sh_keep_trans a b c : sh_keep a b -> sh_keep b c -> sh_keep a c.
Proof. unfold sh_keep. intros (A1 & A2 & A3) (B1 & B2 & B3). repeat split; congruence. Qed.
Ltac sh_solver := let w := fresh "w" in intros w; unfold sh_keep; cbn; repeat split; reflexivity.
Ltac go := relp sh_keep_refl sh_keep_trans sh_solver.

Lemma emit_sh e : rel sh_keep (emit e). Proof. unfold emit. go. Qed.
Lemma bcall_sh : rel sh_keep bcall. Proof. unfold bcall. go. Qed.
Lemma acall_log_sh c : rel sh_keep (acall_log c). Proof. unfold acall_log. go. Qed.
Lemma enqueue_sh n : rel sh_keep (enqueue n). Proof. unfold enqueue. go. Qed.
#[local] Hint Resolve emit_sh bcall_sh acall_log_sh enqueue_sh : pres.
Lemma env_get_position_sh : rel sh_keep env_get_position. Proof. unfold env_get_position. go. Qed.
#[local] Hint Resolve env_get_position_sh : pres.
Lemma get_time_position_sh : rel sh_keep get_time_position. Proof. unfold get_time_position. go. Qed.
Lemma env_set_state_sh st : rel sh_keep (env_set_state st). Proof. unfold env_set_state. go. Qed.
Lemma set_state_sh st : rel sh_keep (set_state st). Proof. unfold set_state. go. Qed.
#[local] Hint Resolve get_time_position_sh env_set_state_sh set_state_sh : pres.
Lemma stop_sh : rel sh_keep stop. Proof. unfold stop. go. Qed.
#[local] Hint Resolve stop_sh : pres.
Lemma on_tracklist_change_sh : rel sh_keep on_tracklist_change. Proof. unfold on_tracklist_change. go. Qed.

Theorem tracklist_change_redraws w r w' :
  increase_version shuf w = (r, w') ->
  r = Ok tt /\ World.tl w' = World.tl w
  /\ shuffled w' = (if random w then shuf (seed w) (World.tl w) else []).
Proof.
  unfold increase_version. intros E.
  set (w0 := w <| version := version w + 1 |>) in *.
  assert (E0 : modify (fun w => w <| version := version w + 1 |>) w = (Ok tt, w0)) by reflexivity.
  rewrite (bind_ok _ _ w tt w0 E0) in E.
  destruct (on_tracklist_change w0) as [r1 w1] eqn:E1.
  destruct (on_tracklist_change_sh w0 r1 w1 E1) as (R1 & S1 & T1).
  change (random w0) with (random w) in R1. change (seed w0) with (seed w) in S1. change (World.tl w0) with (World.tl w) in T1.
  assert (Hr1 : r1 = Ok tt).
  { destruct (Rel_Vtc.on_tracklist_change_frame w0) as ([] & w1' & E1' & _). rewrite E1 in E1'. inversion E1'. reflexivity. }
  subst r1. rewrite (bind_ok _ _ w0 tt w1 E1) in E.
  unfold trigger_tracklist_changed, do_shuffle, emit, bind, get, modify, ret in E.
  rewrite R1 in E. destruct (random w); cbn in E; inversion E; subst; cbn; rewrite ?S1, ?T1; repeat split; reflexivity.
Qed.

End P.
