(* C02 agreement clause for play(): from the stopped state, (a) in a process that has not played
   anything yet (play(tlid)), (b) with a current track (play()); proved for the model by stepwise
   symbolic execution as in Proofs_C03b / Proofs_C02b / Proofs_C10b. *)
From Coq Require Import ZArith List Bool Lia ZifyBool.
From RecordUpdate Require Import RecordSet.
From Common Require Import Res.
From Core Require Import World Hoare Model Step Reach Proofs_C03b Proofs_C02b Proofs_C10b.
Import ListNotations RecordSetNotations.
Open Scope Z_scope.

Section P.
Variable shuf : Z -> list tlt -> list tlt.

Lemma run_world_cons f w o ops : run_world shuf f w (o :: ops) = run_world shuf f (stepw shuf f w o) ops.
Proof. reflexivity. Qed.

(* after a successful _change(x, PLAYING) issued while c was current: the four notifications *)
Lemma change_settles_full f x c w :
  queue w = [] -> pending_position w = None -> start_at_position w = None -> start_paused w = false ->
  current w = Some c -> tkind_has_backend (kind_of w (trk c)) = true -> consume w = false ->
  accepts w x ->
  let w1 := fx_gtp (fx_change x Playing w) in
  let w' := run_world shuf (S f) w1 [Deliver; Deliver; Deliver; Deliver] in
  settled_on w' x /\ stable w w' /\
  current w' = Some x /\ pstate w' = Playing /\ pending w' = None /\ queue w' = []
  /\ a_uri w' = Some (trk x) /\ a_state w' = Playing /\ World.tl w' = World.tl w.
Proof.
  intros Hq Hpp Hsa Hsp Hc Hb Hco [Hk Hs].
  cbv zeta. unfold run_world. cbn [fold_left].
  assert (Hbx : forall w0, tkinds w0 = tkinds w -> tkind_has_backend (kind_of w0 (trk x)) = true).
  { intros w0 E. unfold kind_of in *. rewrite E, Hk. reflexivity. }
  set (w1 := fx_change x Playing w).
  set (w1' := fx_gtp w1).
  assert (Q1 : queue w1' = [NStreamChanged (Some (trk x)); NPositionChanged 0;
                            NStateChanged (a_state w) Playing; NTagsChanged]).
  { unfold w1', w1, fx_gtp, fx_change, Proofs_C03b.fx_set_state. cbn. rewrite Hq. reflexivity. }
  pose proof (deliver_run shuf (S f) _ _ w1' Q1) as D1. cbv beta iota in D1.
  set (w1q := w1' <| queue := [NPositionChanged 0; NStateChanged (a_state w) Playing; NTagsChanged] |>) in *.
  assert (S1 : on_stream_changed shuf (S f) w1q = (Ok tt, fx_promote x c (a_pos w) w1q)).
  { apply stream_changed_run; try reflexivity; unfold w1q, w1', w1; cbn; assumption. }
  rewrite S1 in D1.
  set (w2 := fx_promote x c (a_pos w) w1q) in *.
  assert (G2 : get_time_position w2 = (Ok (a_pos w2), fx_gtp w2)).
  { apply (gtp_run w2 x); [exact Hpp|reflexivity|apply Hbx; reflexivity]. }
  rewrite (stepw_eq shuf (S f) Deliver w1' RNone w2 _ _ (run_op_bind_none _ w1' tt w2 D1) G2).
  set (w2' := fx_gtp w2).
  assert (Q2 : queue w2' = [NPositionChanged 0; NStateChanged (a_state w) Playing; NTagsChanged]) by reflexivity.
  pose proof (deliver_run shuf (S f) _ _ w2' Q2) as D2. cbv beta iota in D2.
  rewrite position_changed_noop in D2 by exact Hpp.
  set (w3 := w2' <| queue := [NStateChanged (a_state w) Playing; NTagsChanged] |>) in *.
  assert (G3 : get_time_position w3 = (Ok (a_pos w3), fx_gtp w3)).
  { apply (gtp_run w3 x); [exact Hpp|reflexivity|apply Hbx; reflexivity]. }
  rewrite (stepw_eq shuf (S f) Deliver w2' RNone w3 _ _ (run_op_bind_none _ w2' tt w3 D2) G3).
  set (w3' := fx_gtp w3).
  assert (Q3 : queue w3' = [NStateChanged (a_state w) Playing; NTagsChanged]) by reflexivity.
  pose proof (deliver_run shuf (S f) _ _ w3' Q3) as D3. cbv beta iota in D3.
  rewrite state_changed_not_paused in D3 by discriminate.
  set (w4 := w3' <| queue := [NTagsChanged] |>) in *.
  assert (G4 : get_time_position w4 = (Ok (a_pos w4), fx_gtp w4)).
  { apply (gtp_run w4 x); [exact Hpp|reflexivity|apply Hbx; reflexivity]. }
  rewrite (stepw_eq shuf (S f) Deliver w3' RNone w4 _ _ (run_op_bind_none _ w3' tt w4 D3) G4).
  set (w4' := fx_gtp w4).
  assert (Q4 : queue w4' = [NTagsChanged]) by reflexivity.
  pose proof (deliver_run shuf (S f) _ _ w4' Q4) as D4. cbv beta iota in D4.
  set (w5 := w4' <| queue := [] |>) in *.
  assert (G5 : get_time_position w5 = (Ok (a_pos w5), fx_gtp w5)).
  { apply (gtp_run w5 x); [exact Hpp|reflexivity|apply Hbx; reflexivity]. }
  assert (D4' : (deliver shuf (S f) ;; ret RNone)%M w4' = (Ok RNone, w5)).
  { apply (run_op_bind_none _ w4' tt w5). exact D4. }
  rewrite (stepw_eq shuf (S f) Deliver w4' RNone w5 _ _ D4' G5).
  split; [constructor; try reflexivity; try assumption; try (apply Hbx; reflexivity);
           try (cbn; split; first [reflexivity|assumption]); try (cbn; assumption)|].
  split; [unfold stable; repeat split; try reflexivity; try assumption;
           try (intros Hs0; cbn; rewrite ?Hs0; cbn; rewrite ?Hs0; first [reflexivity|assumption])|].
  repeat split; reflexivity.
Qed.

Lemma change_settles f x c w :
  queue w = [] -> pending_position w = None -> start_at_position w = None -> start_paused w = false ->
  current w = Some c -> tkind_has_backend (kind_of w (trk c)) = true -> consume w = false ->
  accepts w x ->
  let w1 := fx_gtp (fx_change x Playing w) in
  let w' := run_world shuf (S f) w1 [Deliver; Deliver; Deliver; Deliver] in
  current w' = Some x /\ pstate w' = Playing /\ pending w' = None /\ queue w' = []
  /\ a_uri w' = Some (trk x) /\ a_state w' = Playing /\ World.tl w' = World.tl w.
Proof. intros. cbv zeta. eapply proj2. eapply proj2. eapply change_settles_full; eassumption. Qed.

(* play() in the stopped state with a current track: that track is (re)started *)
Lemma play_none_run f c w :
  pstate w <> Paused -> pending w = None -> current w = Some c -> pending_position w = None ->
  tkind_has_backend (kind_of w (trk c)) = true -> accepts w c ->
  play shuf (S f) None w = (Ok tt, fx_change c Playing w).
Proof.
  intros Hs Hp Hc Hpp Hb Ha. unfold play.
  assert (E0 : get w = (Ok w, w)) by reflexivity. step E0.
  assert (E1 : ret tt w = (Ok tt, w)) by reflexivity.
  destruct (pstate w) eqn:Es; [| |contradiction]; cbv beta iota.
  all: step E1; rewrite Hp, Hc; cbn [orelse].
  all: assert (E2 : ret (Some c) w = (Ok (Some c), w)) by reflexivity; step E2.
  all: step E0; cbn [play_loop].
  all: step (change_run shuf c Playing w c Hpp Hc Hb Ha); reflexivity.
Qed.

Theorem play_stopped_agreement f c w :
  settled_on w c -> pstate w <> Paused -> consume w = false -> accepts w c ->
  let w' := run_world shuf (S f) w [Play None; Deliver; Deliver; Deliver; Deliver] in
  current w' = Some c /\ pstate w' = Playing /\ pending w' = None /\ queue w' = []
  /\ a_uri w' = Some (trk c) /\ a_state w' = Playing /\ World.tl w' = World.tl w.
Proof.
  intros [Hq Hp Hpp Hsa Hsp Hpf Hc Hb Ha] Hst Hco Hacc.
  pose proof (play_none_run f c w Hst Hp Hc Hpp Hb Hacc) as E1.
  set (w1 := fx_change c Playing w) in *.
  assert (G1 : get_time_position w1 = (Ok (a_pos w1), fx_gtp w1)).
  { apply (gtp_run w1 c); [exact Hpp|exact Hc|exact Hb]. }
  cbv zeta. rewrite run_world_cons.
  rewrite (stepw_eq shuf (S f) (Play None) w RNone w1 _ _ (run_op_bind_none _ w tt w1 E1) G1).
  exact (change_settles f c c w Hq Hpp Hsa Hsp Hc Hb Hco Hacc).
Qed.

(* ---- play(tlid) in a process that has not played anything yet *)
Definition fx_first_started (x : tlt) (w : world) : world :=
  fx_started x (Proofs_C02b.fx_set_state Playing (w <| last_position := None |> <| current := Some x |> <| pending := None |>)).

Lemma stream_changed_first_run f x w :
  pending w = Some x -> current w = None -> pending_position w = None -> last_position w = Some 0 ->
  start_at_position w = None -> start_paused w = false ->
  on_stream_changed shuf (S f) w = (Ok tt, fx_first_started x w).
Proof.
  intros Hp Hc Hpp Hl Hsa Hsp. unfold on_stream_changed, fx_first_started.
  assert (E0 : get w = (Ok w, w)) by reflexivity. step E0. rewrite Hl.
  set (w1 := w <| last_position := None |>).
  assert (E1 : (modify (fun w => w <| last_position := None |>) ;; ret 0)%M w = (Ok 0, w1)) by reflexivity.
  step E1.
  assert (E2 : get w1 = (Ok w1, w1)) by reflexivity. step E2.
  change (pending_position w1) with (pending_position w). rewrite Hpp. cbn [is_some negb].
  step (trigger_ended_none shuf 0 w1 Hc). step E2.
  change (pending w1) with (pending w). rewrite Hp.
  set (w2 := w1 <| current := Some x |> <| pending := None |>).
  assert (E3 : modify (fun w0 => w0 <| current := pending w0 |> <| pending := None |>) w1 = (Ok tt, w2)).
  { unfold modify, w2. change (pending w1) with (pending w). rewrite Hp. reflexivity. }
  step E3.
  assert (E4 : get w2 = (Ok w2, w2)) by reflexivity. step E4.
  change (pending_position w2) with (pending_position w). rewrite Hpp.
  step (Proofs_C02b.set_state_run Playing w2).
  set (w3 := Proofs_C02b.fx_set_state Playing w2).
  step (trigger_started_run x w3 eq_refl).
  set (w4 := fx_started x w3).
  assert (E5 : get w4 = (Ok w4, w4)) by reflexivity. step E5.
  change (start_at_position w4) with (start_at_position w). rewrite Hsa.
  assert (E6 : ret false w4 = (Ok false, w4)) by reflexivity. step E6. step E5.
  change (start_paused w4) with (start_paused w). rewrite Hsp. reflexivity.
Qed.

Theorem play_fresh_agreement f i x w :
  fresh_stopped w -> start_at_position w = None -> 1 <= i ->
  find (fun y => tlid y =? i) (World.tl w) = Some x -> accepts w x ->
  let w' := run_world shuf (S f) w [Play (Some i); Deliver; Deliver; Deliver; Deliver] in
  option_map tlid (current w') = Some i /\ pstate w' = Playing /\ pending w' = None /\ queue w' = []
  /\ a_uri w' = Some (trk x) /\ a_state w' = Playing /\ World.tl w' = World.tl w.
Proof.
  intros [Hst Hc Hpe Hpp Hq Hsp Hu Has] Hsa Hi Hf Ha.
  assert (Hxi : tlid x = i).
  { apply find_some in Hf. destruct Hf as [_ Hf]. lia. }
  pose proof (play_tlid_run shuf f i x w Hst Hi Hf Hpe Hc Hpp Ha) as E1.
  destruct Ha as [Hk Hsc].
  assert (Hbx : forall w0, tkinds w0 = tkinds w -> tkind_has_backend (kind_of w0 (trk x)) = true).
  { intros w0 E. unfold kind_of in *. rewrite E, Hk. reflexivity. }
  cbv zeta. unfold run_world. cbn [fold_left].
  set (w1 := fx_change0 x w) in *.
  assert (G1 : get_time_position w1 = (Ok 0, w1)).
  { apply gtp_none_run; [exact Hpp|exact Hc]. }
  rewrite (stepw_eq shuf (S f) (Play (Some i)) w RNone w1 _ _ (run_op_bind_none _ w tt w1 E1) G1).
  assert (Q1 : queue w1 = [NStreamChanged (Some (trk x)); NPositionChanged 0; NStateChanged Stopped Playing; NTagsChanged]).
  { unfold w1, fx_change0, Proofs_C03b.fx_set_state. cbn. rewrite Hq, Has. reflexivity. }
  pose proof (deliver_run shuf (S f) _ _ w1 Q1) as D1. cbv beta iota in D1.
  set (w1q := w1 <| queue := [NPositionChanged 0; NStateChanged Stopped Playing; NTagsChanged] |>) in *.
  assert (S1 : on_stream_changed shuf (S f) w1q = (Ok tt, fx_first_started x w1q)).
  { apply stream_changed_first_run; try reflexivity; unfold w1q, w1; cbn; assumption. }
  rewrite S1 in D1.
  set (w2 := fx_first_started x w1q) in *.
  assert (G2 : get_time_position w2 = (Ok (a_pos w2), fx_gtp w2)).
  { apply (gtp_run w2 x); [exact Hpp|reflexivity|apply Hbx; reflexivity]. }
  rewrite (stepw_eq shuf (S f) Deliver w1 RNone w2 _ _ (run_op_bind_none _ w1 tt w2 D1) G2).
  set (w2' := fx_gtp w2).
  assert (Q2 : queue w2' = [NPositionChanged 0; NStateChanged Stopped Playing; NTagsChanged]) by reflexivity.
  pose proof (deliver_run shuf (S f) _ _ w2' Q2) as D2. cbv beta iota in D2.
  rewrite position_changed_noop in D2 by exact Hpp.
  set (w3 := w2' <| queue := [NStateChanged Stopped Playing; NTagsChanged] |>) in *.
  assert (G3 : get_time_position w3 = (Ok (a_pos w3), fx_gtp w3)).
  { apply (gtp_run w3 x); [exact Hpp|reflexivity|apply Hbx; reflexivity]. }
  rewrite (stepw_eq shuf (S f) Deliver w2' RNone w3 _ _ (run_op_bind_none _ w2' tt w3 D2) G3).
  set (w3' := fx_gtp w3).
  assert (Q3 : queue w3' = [NStateChanged Stopped Playing; NTagsChanged]) by reflexivity.
  pose proof (deliver_run shuf (S f) _ _ w3' Q3) as D3. cbv beta iota in D3.
  rewrite state_changed_not_paused in D3 by discriminate.
  set (w4 := w3' <| queue := [NTagsChanged] |>) in *.
  assert (G4 : get_time_position w4 = (Ok (a_pos w4), fx_gtp w4)).
  { apply (gtp_run w4 x); [exact Hpp|reflexivity|apply Hbx; reflexivity]. }
  rewrite (stepw_eq shuf (S f) Deliver w3' RNone w4 _ _ (run_op_bind_none _ w3' tt w4 D3) G4).
  set (w4' := fx_gtp w4).
  assert (Q4 : queue w4' = [NTagsChanged]) by reflexivity.
  pose proof (deliver_run shuf (S f) _ _ w4' Q4) as D4. cbv beta iota in D4.
  set (w5 := w4' <| queue := [] |>) in *.
  assert (G5 : get_time_position w5 = (Ok (a_pos w5), fx_gtp w5)).
  { apply (gtp_run w5 x); [exact Hpp|reflexivity|apply Hbx; reflexivity]. }
  assert (D4' : (deliver shuf (S f) ;; ret RNone)%M w4' = (Ok RNone, w5)).
  { apply (run_op_bind_none _ w4' tt w5). exact D4. }
  rewrite (stepw_eq shuf (S f) Deliver w4' RNone w5 _ _ D4' G5).
  repeat split; try reflexivity. cbn. rewrite Hxi. reflexivity.
Qed.

(* ---- seek within the current track (playing or paused) *)
Theorem seek_agreement_full f p c len w :
  settled_on w c -> pstate w <> Stopped -> World.tl w <> [] ->
  len_of w (trk c) = Some len -> 0 <= p -> p <= len ->
  let w' := run_world shuf (S f) w [Seek p; Deliver] in
  settled_on w' c /\ stable w w' /\
  current w' = Some c /\ pstate w' = pstate w /\ pending w' = None /\ pending_position w' = None
  /\ queue w' = [] /\ a_uri w' = a_uri w /\ a_state w' = a_state w /\ a_pos w' = p
  /\ events w' = EvSeeked p :: events w /\ World.tl w' = World.tl w.
Proof.
  intros [Hq Hp Hpp Hsa Hsp Hpf Hc Hb Ha] Hst Htl Hlen Hp0 Hle.
  pose proof (seek_run shuf f p c len w Hp0 Htl Hst Hc Hp Hlen Hle Hb) as E1.
  set (w1 := fx_seek p w) in *.
  assert (G1 : get_time_position w1 = (Ok p, w1)) by (apply gtp_pp_run; reflexivity).
  cbv zeta. rewrite run_world_cons.
  assert (R1 : run_op shuf (S f) (Seek p) w = (Ok (RBool true), w1)).
  { unfold run_op. rewrite (bind_ok _ _ w true w1 E1). reflexivity. }
  rewrite (stepw_eq shuf (S f) (Seek p) w (RBool true) w1 _ _ R1 G1).
  rewrite run_world_cons.
  assert (Q1 : queue w1 = [NPositionChanged p]) by (unfold w1, fx_seek; cbn; rewrite Hq; reflexivity).
  pose proof (deliver_run shuf (S f) _ _ w1 Q1) as D1. cbv beta iota in D1.
  set (w1q := w1 <| queue := [] |>) in *.
  assert (S1 : on_position_changed w1q = (Ok tt, fx_seeked p w1q)).
  { apply position_changed_seek_run; [reflexivity|exact Hsp]. }
  rewrite S1 in D1.
  set (w2 := fx_seeked p w1q) in *.
  assert (G2 : get_time_position w2 = (Ok (a_pos w2), fx_gtp w2)).
  { apply (gtp_run w2 c); [reflexivity|exact Hc|exact Hb]. }
  rewrite (stepw_eq shuf (S f) Deliver w1 RNone w2 _ _ (run_op_bind_none _ w1 tt w2 D1) G2).
  unfold run_world. cbn [fold_left].
  split; [constructor; try reflexivity; try assumption; try (apply Hbx; reflexivity);
           try (cbn; split; first [reflexivity|assumption]); try (cbn; assumption)|].
  split; [unfold stable; repeat split; try reflexivity; try assumption;
           try (intros Hs0; cbn; rewrite ?Hs0; cbn; rewrite ?Hs0; first [reflexivity|assumption])|].
  repeat split; try reflexivity; assumption.
Qed.

Theorem seek_agreement f p c len w :
  settled_on w c -> pstate w <> Stopped -> World.tl w <> [] ->
  len_of w (trk c) = Some len -> 0 <= p -> p <= len ->
  let w' := run_world shuf (S f) w [Seek p; Deliver] in
  current w' = Some c /\ pstate w' = pstate w /\ pending w' = None /\ pending_position w' = None
  /\ queue w' = [] /\ a_uri w' = a_uri w /\ a_state w' = a_state w /\ a_pos w' = p
  /\ events w' = EvSeeked p :: events w /\ World.tl w' = World.tl w.
Proof. intros. cbv zeta. eapply proj2. eapply proj2. eapply seek_agreement_full; eassumption. Qed.


(* ---- play(tlid) while a track is current (playing, paused or stopped): switch to that entry *)
Lemma play_some_run f i x c w :
  1 <= i -> find (fun y => tlid y =? i) (World.tl w) = Some x ->
  current w = Some c -> pending_position w = None ->
  tkind_has_backend (kind_of w (trk c)) = true -> accepts w x ->
  play shuf (S f) (Some i) w = (Ok tt, fx_change x Playing w).
Proof.
  intros Hi Hf Hc Hpp Hb Ha. unfold play.
  assert (E0 : get w = (Ok w, w)) by reflexivity. step E0. cbv beta iota.
  replace (i <? 1) with false by lia.
  assert (E1 : ret tt w = (Ok tt, w)) by reflexivity. step E1.
  rewrite Hf. cbn [orelse].
  assert (E2 : ret (Some x) w = (Ok (Some x), w)) by reflexivity. step E2.
  step E0. cbn [play_loop].
  step (change_run shuf x Playing w c Hpp Hc Hb Ha). reflexivity.
Qed.

Theorem play_other_agreement f i x c w :
  settled_on w c -> consume w = false -> 1 <= i ->
  find (fun y => tlid y =? i) (World.tl w) = Some x -> accepts w x ->
  let w' := run_world shuf (S f) w [Play (Some i); Deliver; Deliver; Deliver; Deliver] in
  current w' = Some x /\ pstate w' = Playing /\ pending w' = None /\ queue w' = []
  /\ a_uri w' = Some (trk x) /\ a_state w' = Playing /\ World.tl w' = World.tl w.
Proof.
  intros [Hq Hp Hpp Hsa Hsp Hpf Hc Hb Ha] Hco Hi Hf Hacc.
  pose proof (play_some_run f i x c w Hi Hf Hc Hpp Hb Hacc) as E1.
  set (w1 := fx_change x Playing w) in *.
  assert (G1 : get_time_position w1 = (Ok (a_pos w1), fx_gtp w1)).
  { apply (gtp_run w1 c); [exact Hpp|exact Hc|exact Hb]. }
  cbv zeta. rewrite run_world_cons.
  rewrite (stepw_eq shuf (S f) (Play (Some i)) w RNone w1 _ _ (run_op_bind_none _ w tt w1 E1) G1).
  exact (change_settles f x c w Hq Hpp Hsa Hsp Hc Hb Hco Hacc).
Qed.

End P.
