(* C04 proofs: no operation diverges from any reachable state. *)
From Coq Require Import ZArith List Bool Lia Permutation.
From Common Require Import Res.
From Core Require Import World Hoare Model Step Reach Inv_Tl Nd_Any Nd_Tl Proofs_C01.
Import ListNotations.
Open Scope Z_scope.

Section P.
Variable shuf : Z -> list tlt -> list tlt.
Hypothesis shuf_perm : forall sd l, Permutation (shuf sd l) l.

Lemma no_divergence_lemma fuel mx kinds lens scr vol mut ops o :
  0 <= mx -> 2 * mx + 2 <= Z.of_nat fuel ->
  let w := run_world shuf fuel (init_world mx kinds lens scr vol mut) ops in
  fst (run_op shuf fuel o w) <> Diverge.
Proof.
  intros Hmx Hf w.
  assert (HI : tl_inv_mx mx w).
  { apply reachable_tl_inv; [exact shuf_perm|]. apply init_tl_inv. exact Hmx. }
  destruct (run_op shuf fuel o w) as [r w'] eqn:E. cbn [fst].
  exact (run_op_tlinv shuf shuf_perm mx fuel Hf o w r w' HI E).
Qed.

(* from ANY state satisfying the tracklist invariant (e.g. one left behind by failed changes) *)
Lemma op_terminates_lemma fuel mx w o :
  2 * mx + 2 <= Z.of_nat fuel -> tl_inv_mx mx w -> fst (run_op shuf fuel o w) <> Diverge.
Proof.
  intros Hf HI. destruct (run_op shuf fuel o w) as [r w1] eqn:E. cbn [fst].
  exact (run_op_tlinv shuf shuf_perm mx fuel Hf o w r w1 HI E).
Qed.
End P.

Example c04_nonvacuous :
  (* the state in which the unfixed previous() spun forever: consume on, the only track refused,
     play() dropped it; previous() now returns *)
  let w := run_world shuf_concrete 6
             (init_world 2 [Refuse] [Some 1000] [] None None)
             [SetMode 0 true; Add [0] None; Play None] in
  World.tl w = [] /\ fst (run_op shuf_concrete 6 Previous w) = Ok RNone /\ 2 * 2 + 2 <= Z.of_nat 6.
Proof. vm_compute. repeat split; discriminate. Qed.
