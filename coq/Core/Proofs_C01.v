(* C01 proofs: functional specifications of the tracklist operations against the plain list
   spec, and the history invariants lifted to every reachable state. *)
From Coq Require Import ZArith List Bool Lia ZifyBool Permutation Sorted.
From RecordUpdate Require Import RecordSet.
From Common Require Import Res.
From Core Require Import World Hoare Model Step ListLemmas Reach Inv_Tl Rel_Version Rel_Vtc.
Import ListNotations RecordSetNotations.
Open Scope Z_scope.

Section P.
Variable shuf : Z -> list tlt -> list tlt.
Hypothesis shuf_perm : forall sd l, Permutation (shuf sd l) l.
Variable fuel : nat.

(* ------------------------------------------------------------------ invariants *)

Lemma init_tl_inv mx kinds lens scr vol mut : 0 <= mx -> tl_inv_mx mx (init_world mx kinds lens scr vol mut).
Proof.
  intros H. unfold tl_inv_mx, init_world, ids_ok. cbn.
  repeat split; auto; try constructor; lia.
Qed.

Lemma reachable_tl_inv mx w ops : tl_inv_mx mx w -> tl_inv_mx mx (run_world shuf fuel w ops).
Proof.
  apply run_world_preserves.
  - intro o. apply run_op_tl_inv. exact shuf_perm.
  - apply get_time_position_tl_inv.
Qed.

(* T7 + T10, from the empty state and across any number of Save/Load: *)
Lemma ids_unique_fresh_lemma mx kinds lens scr vol mut ops :
  0 <= mx ->
  let w := run_world shuf fuel (init_world mx kinds lens scr vol mut) ops in
  NoDup (map tlid (World.tl w))
  /\ Forall (fun x => tlid x < next_tlid w) (World.tl w)
  /\ Forall (fun i => i < next_tlid w) (issued w)
  /\ StronglySorted Z.gt (issued w)
  /\ zlen (World.tl w) <= mx.
Proof.
  intros Hmx w.
  destruct (reachable_tl_inv mx _ ops (init_tl_inv mx kinds lens scr vol mut Hmx))
    as ((H1 & H2 & H3 & H4) & H5 & _).
  repeat split; assumption.
Qed.

(* an id issued by add is the current next_tlid: strictly above everything issued before *)
Lemma add_one_issues k pos w :
  issued (add_one k pos w) = next_tlid w :: issued w /\ next_tlid (add_one k pos w) = next_tlid w + 1.
Proof. split; reflexivity. Qed.

(* T8 *)
Lemma version_monotone_lemma o w : (forall c, o <> Load c) -> version w <= version (stepw shuf fuel w o).
Proof.
  intros Hn. apply (stepw_rel shuf fuel ver_le o ver_le_trans).
  - apply run_op_ver_le. exact Hn.
  - apply get_time_position_ver_le.
Qed.

(* T9 *)
Lemma version_tracks_change_lemma o w : (forall c, o <> Load c) ->
  let w' := stepw shuf fuel w o in
  World.tl w' <> World.tl w ->
  version w < version w' /\ exists new, events w' = new ++ events w /\ In EvTracklistChanged new.
Proof.
  intros Hn w' Hne.
  assert (H : vtc w w').
  { apply (stepw_rel shuf fuel vtc o vtc_trans).
    - apply run_op_vtc. exact Hn.
    - apply get_time_position_vtc. }
  destruct H as (V & new & Ev & [T|[L I]]); [contradiction|].
  split; [exact L|]. exists new. split; assumption.
Qed.

(* ------------------------------------------------------------------ operation specs *)

Definition matches (c : criteria) (t : tlt) : bool :=
  (match c_uris c with Some us => memz (trk t) us | None => true end)
  && (match c_tlids c with Some ids => memz (tlid t) ids | None => true end).

Lemma filter_filter {A} (f g : A -> bool) l : filter g (filter f l) = filter (fun x => f x && g x) l.
Proof.
  induction l as [|x l IH]; cbn; [reflexivity|].
  destruct (f x); cbn; [destruct (g x); cbn; rewrite IH; reflexivity|exact IH].
Qed.

Lemma tl_filter_matches c l : tl_filter c l = filter (matches c) l.
Proof.
  unfold tl_filter, matches. destruct (c_uris c), (c_tlids c).
  - apply filter_filter.
  - apply filter_ext. intros; rewrite andb_true_r; reflexivity.
  - reflexivity.
  - symmetry. clear. induction l; cbn; [reflexivity|f_equal; assumption].
Qed.

Lemma tlt_eqb_refl x : tlt_eqb x x = true.
Proof. unfold tlt_eqb. rewrite !Z.eqb_refl. reflexivity. Qed.

Lemma tlt_eqb_tlid x y : tlt_eqb x y = true -> tlid x = tlid y.
Proof. unfold tlt_eqb. intros H. apply andb_true_iff in H. lia. Qed.

Lemma remove_first_notin x l : ~ In (tlid x) (map tlid l) -> remove_first x l = l.
Proof.
  induction l as [|y l IH]; cbn; [reflexivity|]. intros H.
  destruct (tlt_eqb x y) eqn:E; [apply tlt_eqb_tlid in E; exfalso; apply H; left; symmetry; exact E|].
  f_equal. apply IH. intro Hi. apply H. right. exact Hi.
Qed.

Lemma remove_all_cons_notin ms x l :
  (forall m, In m ms -> tlid m <> tlid x) -> remove_all ms (x :: l) = x :: remove_all ms l.
Proof.
  unfold remove_all. revert l. induction ms as [|m ms IH]; intros l H; cbn; [reflexivity|].
  destruct (tlt_eqb m x) eqn:E; [apply tlt_eqb_tlid in E; exfalso; eapply H; [left; reflexivity|exact E]|].
  apply IH. intros m' Hm'. apply H. right. exact Hm'.
Qed.

(* remove deletes exactly the matching entries (for a duplicate-free tracklist) *)
Lemma remove_all_filter (P : tlt -> bool) l :
  NoDup (map tlid l) -> remove_all (filter P l) l = filter (fun t => negb (P t)) l.
Proof.
  induction l as [|x l IH]; intros Hnd; [reflexivity|].
  inversion Hnd as [|? ? Hn Hd]; subst. cbn [filter].
  destruct (P x) eqn:E; cbn [negb].
  - unfold remove_all. cbn [fold_left remove_first]. rewrite tlt_eqb_refl. apply IH. exact Hd.
  - rewrite remove_all_cons_notin; [f_equal; apply IH; exact Hd|].
    intros m Hm Heq. apply filter_In in Hm. apply Hn. rewrite <- Heq. apply in_map. tauto.
Qed.

(* what run_op does on each tracklist edit, in terms of the plain list *)

Ltac open_m := unfold bind, get, modify, ret, raise; cbv beta iota zeta.
Ltac with_incr w2 E2 T2 N2 :=
  match goal with |- context [increase_version ?sh ?x] =>
    destruct (increase_version_incr sh x) as ([] & w2 & E2 & (T2 & N2) & _) end.

Lemma run_bind_ok {A B} (m : M A) (f : A -> M B) w a w1 r w2 :
  m w = (Ok a, w1) -> f a w1 = (r, w2) -> bind m f w = (r, w2).
Proof. intros E1 E2. rewrite (bind_ok _ _ _ _ _ E1). exact E2. Qed.

Lemma remove_exact_lemma c w :
  NoDup (map tlid (World.tl w)) ->
  exists w', run_op shuf fuel (Remove c) w = (Ok (RTlts (filter (matches c) (World.tl w))), w')
    /\ World.tl w' = filter (fun t => negb (matches c t)) (World.tl w)
    /\ next_tlid w' = next_tlid w.
Proof.
  intros Hnd. cbn [run_op]. unfold tl_remove. open_m. with_incr w2 E2 T2 N2.
  exists w2. rewrite E2. split; [rewrite tl_filter_matches; reflexivity|]. split.
  - rewrite T2. cbn. rewrite tl_filter_matches. apply remove_all_filter. exact Hnd.
  - rewrite N2. reflexivity.
Qed.

Lemma clear_spec_lemma w :
  exists w', run_op shuf fuel Clear w = (Ok RNone, w') /\ World.tl w' = [] /\ next_tlid w' = next_tlid w.
Proof.
  cbn [run_op]. unfold tl_clear. open_m. with_incr w2 E2 T2 N2.
  exists w2. rewrite E2. split; [reflexivity|]. split; [rewrite T2|rewrite N2]; reflexivity.
Qed.

(* move: valid arguments relocate the slice keeping its order; invalid ones are rejected
   with AssertionError and change nothing *)
Definition move_valid (n s e p : Z) : bool :=
  let e := if s =? e then e + 1 else e in
  (s <? e) && (0 <=? s) && (e <=? n) && (0 <=? p) && (p <=? n).

Lemma move_spec_lemma s e p w :
  move_valid (zlen (World.tl w)) s e p = true ->
  let e' := if s =? e then e + 1 else e in
  let l := World.tl w in
  let rest := firstn (Z.to_nat s) l ++ skipn (Z.to_nat e') l in
  let block := firstn (Z.to_nat (e' - s)) (skipn (Z.to_nat s) l) in
  exists w', run_op shuf fuel (Move s e p) w = (Ok RNone, w')
    /\ World.tl w' = firstn (Z.to_nat p) rest ++ block ++ skipn (Z.to_nat p) rest
    /\ next_tlid w' = next_tlid w.
Proof.
  unfold move_valid. cbv zeta. intros Hv.
  set (e' := if s =? e then e + 1 else e) in *.
  assert (H : s < e' /\ 0 <= s /\ e' <= zlen (World.tl w) /\ 0 <= p /\ p <= zlen (World.tl w)) by lia.
  destruct H as (H1 & H2 & H3 & H4 & H5).
  cbn [run_op]. unfold tl_move. open_m. fold e'.
  replace (e' <=? s) with false by lia. replace (s <? 0) with false by lia.
  replace (zlen (World.tl w) <? e') with false by lia. replace (p <? 0) with false by lia.
  replace (zlen (World.tl w) <? p) with false by lia.
  with_incr w2 E2 T2 N2.
  exists w2. rewrite E2. split; [reflexivity|]. split.
  - rewrite T2. cbn. apply move_list_spec; lia.
  - rewrite N2. reflexivity.
Qed.

Lemma move_rejected_lemma s e p w :
  move_valid (zlen (World.tl w)) s e p = false ->
  run_op shuf fuel (Move s e p) w = (Raise AssertionError, w).
Proof.
  unfold move_valid. cbv zeta. intros Hv. cbn [run_op]. unfold tl_move. open_m.
  set (e' := if s =? e then e + 1 else e) in *.
  destruct (e' <=? s) eqn:E1; [reflexivity|].
  destruct (s <? 0) eqn:E2; [reflexivity|].
  destruct (zlen (World.tl w) <? e') eqn:E3; [reflexivity|].
  destruct (p <? 0) eqn:E4; [reflexivity|].
  destruct (zlen (World.tl w) <? p) eqn:E5; [reflexivity|]. lia.
Qed.

(* shuffle: only the chosen slice is permuted *)
Lemma shuffle_slice_lemma s e w :
  shuffle_valid (zlen (World.tl w)) s e = true ->
  let l := World.tl w in
  let before := py_slice l None (Some (match s with Some s => s | None => 0 end)) in
  let mid := py_slice l s e in
  let after := match e with Some e => py_slice l (Some e) None | None => [] end in
  before ++ mid ++ after = l /\
  exists w' mid', run_op shuf fuel (Shuffle s e) w = (Ok RNone, w')
    /\ World.tl w' = before ++ mid' ++ after /\ Permutation mid' mid
    /\ next_tlid w' = next_tlid w.
Proof.
  intros Hv. cbv zeta. split; [apply shuffle_partition; exact Hv|].
  cbn [run_op]. unfold tl_shuffle. open_m.
  unfold shuffle_valid in Hv. apply negb_true_iff in Hv. rewrite Hv.
  with_incr w2 E2 T2 N2.
  exists w2, (shuf (seed w) (py_slice (World.tl w) s e)). rewrite E2.
  split; [reflexivity|]. split; [rewrite T2; reflexivity|]. split; [apply shuf_perm|rewrite N2; reflexivity].
Qed.

Lemma shuffle_rejected_lemma s e w :
  shuffle_valid (zlen (World.tl w)) s e = false ->
  run_op shuf fuel (Shuffle s e) w = (Raise AssertionError, w).
Proof.
  intros Hv. cbn [run_op]. unfold tl_shuffle. open_m.
  unfold shuffle_valid in Hv. apply negb_false_iff in Hv. rewrite Hv. reflexivity.
Qed.

(* add: the new entries form one contiguous block at the requested position (clamped to the
   end), carry the next consecutive tracklist IDs, and everything else keeps its order *)
Fixpoint fresh_block (n : Z) (ts : list track) : list tlt :=
  match ts with
  | [] => []
  | k :: rest => mkTlt n k :: fresh_block (n + 1) rest
  end.

Lemma fresh_block_length n ts : length (fresh_block n ts) = length ts.
Proof. revert n. induction ts as [|k ts IH]; intros n; cbn; [reflexivity|]. rewrite IH. reflexivity. Qed.

Lemma add_one_facts k pos w :
  zlen (World.tl (add_one k pos w)) = zlen (World.tl w) + 1
  /\ max_len (add_one k pos w) = max_len w /\ next_tlid (add_one k pos w) = next_tlid w + 1
  /\ version (add_one k pos w) = version w /\ events (add_one k pos w) = events w
  /\ World.tl (add_one k pos w) = match pos with
                                 | Some p => py_insert (World.tl w) p (mkTlt (next_tlid w) k)
                                 | None => World.tl w ++ [mkTlt (next_tlid w) k]
                                 end.
Proof.
  unfold add_one. cbn. repeat split.
  destruct pos; [apply py_insert_zlen|]. rewrite zlen_app. reflexivity.
Qed.

Lemma add_loop_room ts : forall pos acc w,
  zlen (World.tl w) + zlen ts <= max_len w ->
  exists w', add_loop ts pos acc w = (Ok (acc ++ fresh_block (next_tlid w) ts, None), w')
    /\ World.tl w' = (match pos with
                      | Some p => insert_block (World.tl w) p (fresh_block (next_tlid w) ts)
                      | None => World.tl w ++ fresh_block (next_tlid w) ts
                      end)
    /\ next_tlid w' = next_tlid w + zlen ts /\ max_len w' = max_len w
    /\ version w' = version w /\ events w' = events w.
Proof.
  induction ts as [|k ts IH]; intros pos acc w Hroom; cbn [add_loop fresh_block].
  - exists w. rewrite app_nil_r. repeat split; auto.
    + destruct pos; [reflexivity|rewrite app_nil_r; reflexivity].
    + unfold zlen; cbn; lia.
  - rewrite zlen_cons in Hroom. pose proof (zlen_nonneg ts) as Hts.
    unfold bind at 1. unfold get at 1. cbv beta iota.
    replace (max_len w <=? zlen (World.tl w)) with false by lia.
    unfold bind at 1. unfold modify at 1. cbv beta iota.
    destruct (add_one_facts k pos w) as (F1 & F2 & F3 & F4 & F5 & F6).
    destruct (IH (option_map (fun p => p + 1) pos) (acc ++ [mkTlt (next_tlid w) k]) (add_one k pos w))
      as (w' & E & T & N & Mx & V & Ev).
    { rewrite F1, F2. lia. }
    exists w'. rewrite F3 in *. split; [|split; [|split; [|split; [|split]]]].
    + rewrite E. rewrite <- app_assoc. reflexivity.
    + rewrite T, F6. destruct pos; cbn [option_map insert_block]; [reflexivity|rewrite <- app_assoc; reflexivity].
    + rewrite N. rewrite zlen_cons. lia.
    + rewrite Mx. exact F2.
    + rewrite V. exact F4.
    + rewrite Ev. exact F5.
Qed.

Lemma add_block_lemma ts pos w :
  ts <> [] -> existsb (fun t => t <? 0) ts = false ->
  (match pos with Some p => 0 <= p | None => True end) ->
  zlen (World.tl w) + zlen ts <= max_len w ->
  let new := fresh_block (next_tlid w) ts in
  exists w', run_op shuf fuel (Add ts pos) w = (Ok (RTlts new), w')
    /\ World.tl w' = (match pos with
                      | Some p => firstn (Z.to_nat p) (World.tl w) ++ new ++ skipn (Z.to_nat p) (World.tl w)
                      | None => World.tl w ++ new
                      end)
    /\ next_tlid w' = next_tlid w + zlen ts.
Proof.
  intros Hne Hwt Hpos Hroom. cbv zeta. cbn [run_op]. rewrite Hwt. unfold tl_add.
  destruct (add_loop_room ts pos [] w Hroom) as (w1 & E1 & T1 & N1 & _).
  cbn [app] in E1.
  destruct (increase_version_incr shuf w1) as ([] & w2 & E2 & (T2 & N2) & _).
  exists w2. split; [|split].
  - rewrite (bind_ok _ _ w (fresh_block (next_tlid w) ts) w2); [reflexivity|].
    assert (Hv : (match pos with Some p => if p <? 0 then raise ValidationError else ret tt | None => ret tt end) w = (Ok tt, w)).
    { destruct pos as [p|]; [replace (p <? 0) with false by lia|]; reflexivity. }
    rewrite (bind_ok _ _ w tt w Hv).
    rewrite (bind_ok _ _ w _ w1 E1).
    destruct ts as [|k ts]; [contradiction|]. cbn [fresh_block].
    rewrite (bind_ok _ _ w1 tt w2 E2). reflexivity.
  - rewrite T2, T1. destruct pos as [p|]; [apply insert_block_spec; exact Hpos|reflexivity].
  - rewrite N2, N1. reflexivity.
Qed.

(* an argument list holding something that is not a Track is rejected before anything changes *)
Lemma add_ill_typed_lemma ts pos w :
  existsb (fun t => t <? 0) ts = true -> run_op shuf fuel (Add ts pos) w = (Raise ValidationError, w).
Proof. intros H. cbn [run_op]. rewrite H. reflexivity. Qed.


Lemma add_negative_rejected_lemma ts p w :
  p < 0 -> run_op shuf fuel (Add ts (Some p)) w = (Raise ValidationError, w).
Proof.
  intros Hp. cbn [run_op]. destruct (existsb (fun t => t <? 0) ts); [reflexivity|].
  unfold tl_add. unfold bind at 1. unfold bind at 1.
  replace (p <? 0) with true by lia. reflexivity.
Qed.

(* index by object *)
Lemma tlt_eqb_eq x y : tlt_eqb x y = true -> x = y.
Proof.
  unfold tlt_eqb. intros H. apply andb_true_iff in H. destruct H as [H1 H2].
  destruct x as [a b], y as [c d]. cbn in *. f_equal; lia.
Qed.

Lemma index_from_spec x : forall l k i,
  index_from tlt_eqb x l k = Some i -> k <= i /\ nth_error l (Z.to_nat (i - k)) = Some x.
Proof.
  induction l as [|y l IH]; intros k i H; [discriminate|]. cbn [index_from] in H.
  destruct (tlt_eqb x y) eqn:E.
  - injection H as <-. split; [lia|]. replace (k - k) with 0 by lia. cbn. f_equal. symmetry. apply tlt_eqb_eq. exact E.
  - destruct (IH _ _ H) as [Hk Hn]. split; [lia|].
    replace (Z.to_nat (i - k)) with (S (Z.to_nat (i - (k + 1)))) by lia. exact Hn.
Qed.

Lemma index_from_none x : forall l k, index_from tlt_eqb x l k = None -> ~ In x l.
Proof.
  induction l as [|y l IH]; intros k H Hin; [contradiction|]. cbn [index_from] in H.
  destruct (tlt_eqb x y) eqn:E; [discriminate|].
  destruct Hin as [->|Hin]; [rewrite tlt_eqb_refl in E; discriminate|exact (IH _ H Hin)].
Qed.

Lemma index_of_entry_lemma x w :
  run_op shuf fuel (IndexOf x) w = (Ok (ROptZ (py_index x (World.tl w))), w)
  /\ (forall i, py_index x (World.tl w) = Some i -> nth_z (World.tl w) i = Some x)
  /\ (py_index x (World.tl w) = None -> ~ In x (World.tl w)).
Proof.
  split; [reflexivity|]. split.
  - intros i H. destruct (index_from_spec x _ _ _ H) as [Hk Hn]. unfold nth_z.
    replace (i <? 0) with false by lia. replace (i - 0) with i in Hn by lia. exact Hn.
  - apply index_from_none.
Qed.

(* the read-only queries report the same list *)
Lemma queries_report_list_lemma w :
  (forall c, run_op shuf fuel (Filter c) w = (Ok (RTlts (filter (matches c) (World.tl w))), w))
  /\ (forall s e, run_op shuf fuel (Slice s e) w = (Ok (RTlts (py_slice (World.tl w) (Some s) (Some e))), w)).
Proof.
  split; intros; cbn [run_op]; unfold bind, get, ret; [rewrite tl_filter_matches|]; reflexivity.
Qed.

End P.

(* ------------------------------------------------------------------ non-vacuity *)
(* a concrete non-trivial reachable state meets the hypotheses used above *)
Example c01_nonvacuous :
  let w := run_world shuf_concrete 10
             (init_world 5 [Playable; Playable; Refuse] [Some 1000; None; Some 1] [] None None)
             [Add [0; 1; 2] None; Move 0 1 2; Remove (mkCrit (Some [2]) None); Add [1] (Some 1)] in
  map tlid (World.tl w) = [3; 4; 1] /\ next_tlid w = 5 /\ version w = 4
  /\ move_valid 3 0 1 2 = true /\ shuffle_valid 3 (Some 1) (Some 3) = true
  /\ shuffle_valid 3 None (Some 0) = true.
Proof. vm_compute. repeat split. Qed.
