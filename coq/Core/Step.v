(* Operations (client calls and environment moves), the step function, and the flat
   observation compared with the implementation after every operation. *)
From Coq Require Import ZArith List Bool.
From RecordUpdate Require Import RecordSet.
From Common Require Import Res.
From Core Require Import World Model.
Import ListNotations RecordSetNotations.
Open Scope Z_scope.
Open Scope m_scope.

Inductive op :=
(* tracklist *)
| Add (ts : list track) (pos : option Z)
| Clear
| Move (s e p : Z)
| Remove (c : criteria)
| Shuffle (s e : option Z)
| Filter (c : criteria)
| Slice (s e : Z)
| Index (tid : option Z)
| IndexOf (x : tlt)      (* index(tl_track=x): position of an entry given as an object *)
| SetMode (which : Z) (v : bool)
| GetNext | GetEot | GetPrevious
(* playback *)
| Play (tid : option Z) | Pause | Resume | Stop | Next | Previous | Seek (t : Z)
(* mixer *)
| SetVolume (v : Z) | SetMute (m : bool)
(* environment *)
| Deliver | AboutToFinish | EndOfStream | Tick (d : Z)
| Save | Load (cov : coverage)
(* harness: start from a session that already has this play history (newest first) *)
| SetHistory (ks : list track).

(* Value returned by an operation *)
Inductive retv :=
| RNone
| RBool (b : bool)
| ROptZ (z : option Z)
| RTlts (l : list tlt).

Section WithShuffle.
Variable shuf : Z -> list tlt -> list tlt.
Variable fuel : nat.

Definition deliver : M unit :=
  w <- get ;;
  match queue w with
  | [] => ret tt
  | n :: q =>
      modify (fun w => w <| queue := q |>) ;;
      match n with
      | NStreamChanged _ => on_stream_changed shuf fuel
      | NPositionChanged _ => on_position_changed
      | NStateChanged o n => on_state_changed o n
      | NReachedEos => on_end_of_stream shuf
      | NTagsChanged => ret tt
      end
  end.

(* The pipeline announces (once per stream) that the current stream is about to end; the core's
   handler runs synchronously (the streaming thread blocks on the core actor).  While playing,
   the switch to a preloaded stream completes at once (or, with nothing preloaded, the stream
   ends).  While paused (the announcement was served after a pause that was queued first) a
   preloaded stream is announced when playback resumes, and with nothing preloaded the old
   stream is left to play out (EndOfStream). *)
Definition about_to_finish : M unit :=
  w <- get ;;
  match a_uri w with
  | Some old =>
      if negb (ps_eqb (a_state w) Stopped) && negb (a_atf_done w) then
        modify (fun w => w <| a_uri := None |>) ;;
        on_about_to_finish shuf fuel ;;
        w1 <- get ;;
        match a_uri w1, ps_eqb (a_state w1) Playing with
        | Some u, true => modify (fun w => w <| a_fresh := false |>) ;;
                          enqueue (NPositionChanged 0) ;; enqueue (NStreamChanged (Some u))
        | Some u, false => ret tt
        | None, true => enqueue NReachedEos
        | None, false => modify (fun w => w <| a_uri := Some old |> <| a_atf_done := true |>)
        end
      else ret tt
  | None => ret tt
  end.

(* the stream that was left to play out reaches its end *)
Definition end_of_stream_env : M unit :=
  w <- get ;;
  if is_some (a_uri w) && ps_eqb (a_state w) Playing && a_atf_done w then
    modify (fun w => w <| a_uri := None |>) ;; enqueue NReachedEos
  else ret tt.

Definition tick (d : Z) : M unit :=
  w <- get ;;
  match a_uri w with
  | Some u =>
      (* Track.length is metadata: the stream may run past it *)
      when ps_eqb (a_state w) Playing do modify (fun w => w <| a_pos := a_pos w + d |>)
  | None => ret tt
  end.

(* A fresh Core, a fresh audio environment and a fresh mixer device that keep the static
   tables, the backend script, the shuffle counter and the cumulative ghost counters (the event
   and audio-call logs start afresh with the new process); the state file is
   consumed (Core._load_state unlinks it). *)
Definition restart (w : world) : world :=
  let f := init_world (max_len w) (tkinds w) (tlens w) (script w) None None in
  f <| seed := seed w |> <| events := [] |> <| acalls := [] |>
    <| attempts := attempts w |> <| bcalls := bcalls w |>.

Definition do_load (cov : coverage) : M unit :=
  w <- get ;;
  modify restart ;;
  match saved w with
  | None => ret tt
  | Some s => load_state shuf fuel cov s
  end.

Definition run_op (o : op) : M retv :=
  match o with
  | Add ts pos =>
      (* a negative track stands for an argument that is not a Track: rejected up front
         (validation.check_instances) before anything is inserted *)
      if existsb (fun t => t <? 0) ts then raise ValidationError else
      l <- tl_add shuf ts pos ;; ret (RTlts l)
  | Clear => tl_clear shuf ;; ret RNone
  | Move s e p => tl_move shuf s e p ;; ret RNone
  | Remove c => l <- tl_remove shuf c ;; ret (RTlts l)
  | Shuffle s e => tl_shuffle shuf s e ;; ret RNone
  | Filter c => w <- get ;; ret (RTlts (tl_filter c (World.tl w)))
  | Slice s e => w <- get ;; ret (RTlts (py_slice (World.tl w) (Some s) (Some e)))
  | Index tid =>
      match tid with
      | Some i => if i <? 1 then raise ValidationError else
                    w <- get ;;
                    ret (ROptZ (match find (fun x => tlid x =? i) (World.tl w) with
                                | Some x => py_index x (World.tl w)
                                | None => None end))
      | None => i <- tl_index None ;; ret (ROptZ i)
      end
  | IndexOf x => w <- get ;; ret (ROptZ (py_index x (World.tl w)))
  | SetMode which v => set_mode shuf which v ;; ret RNone
  | GetNext => w <- get ;; t <- next_track shuf (current w) ;; ret (ROptZ (option_map tlid t))
  | GetEot => w <- get ;; t <- eot_track shuf (current w) ;; ret (ROptZ (option_map tlid t))
  | GetPrevious => w <- get ;; t <- previous_track (current w) ;; ret (ROptZ (option_map tlid t))
  | Play tid => play shuf fuel tid ;; ret RNone
  | Pause => pause ;; ret RNone
  | Resume => resume ;; ret RNone
  | Stop => stop ;; ret RNone
  | Next => next shuf fuel ;; ret RNone
  | Previous => previous shuf fuel ;; ret RNone
  | Seek t => b <- seek shuf fuel t ;; ret (RBool b)
  | SetVolume v => b <- set_volume v ;; ret (RBool b)
  | SetMute m => b <- set_mute m ;; ret (RBool b)
  | Deliver => deliver ;; ret RNone
  | AboutToFinish => about_to_finish ;; ret RNone
  | EndOfStream => end_of_stream_env ;; ret RNone
  | Tick d => tick d ;; ret RNone
  | Save => save_state ;; ret RNone
  | Load cov => do_load cov ;; ret RNone
  | SetHistory ks => modify (fun w => w <| history := ks |>) ;; ret RNone
  end.

(* ------------------------------------------------------------- flat observations *)

Definition SEP : Z := -99999.
Definition b2z (b : bool) : Z := if b then 1 else 0.
Definition oz (o : option Z) : Z := match o with Some z => z | None => -1 end.

Definition flat_tlts (l : list tlt) : list Z := flat_map (fun x => [tlid x; trk x]) l.

Definition flat_ret (r : res exn retv) : list Z :=
  match r with
  | Ok RNone => [0]
  | Ok (RBool b) => [1; b2z b]
  | Ok (ROptZ None) => [3]
  | Ok (ROptZ (Some z)) => [2; z]
  | Ok (RTlts l) => 4 :: flat_tlts l
  | Raise e => [10 + exn_code e]
  | Diverge => [99]
  end.

Definition flat_event (e : event) : list Z :=
  match e with
  | EvStateChanged o n => [1; ps_code o; ps_code n]
  | EvStarted t => [2; tlid t]
  | EvEnded t p => [3; tlid t; p]
  | EvPaused t p => [4; tlid t; p]
  | EvResumed t p => [5; tlid t; p]
  | EvSeeked p => [6; p]
  | EvTracklistChanged => [7]
  | EvOptionsChanged => [8]
  | EvVolumeChanged v => [9; v]
  | EvMuteChanged m => [10; b2z m]
  end.

Definition flat_acall (c : acall) : list Z :=
  match c with
  | APrepareChange => [1]
  | ASetUri u => [2; u]
  | ASetState s => [3; ps_code s]
  | ASetPosition p => [4; p]
  end.

(* Elements logged since `old` (logs are newest first), in chronological order. *)
Definition since {A} (new old : list A) : list A :=
  rev (firstn (length new - length old) new).

Definition observe (w0 : world) (r : res exn retv) (w1 : world) (pos : Z) : list Z :=
  flat_ret r ++ [SEP]
  ++ flat_tlts (World.tl w1) ++ [SEP]
  ++ [b2z (version w0 <? version w1); b2z (version w1 <? version w0)] ++ [SEP]
  ++ [b2z (consume w1); b2z (random w1); b2z (repeat w1); b2z (single w1)] ++ [SEP]
  ++ [ps_code (pstate w1); oz (option_map tlid (current w1)); oz (option_map tlid (pending w1)); pos] ++ [SEP]
  ++ flat_map (fun e => flat_event e ++ [-88888]) (since (events w1) (events w0)) ++ [SEP]
  ++ flat_map (fun c => flat_acall c ++ [-88888]) (since (acalls w1) (acalls w0)) ++ [SEP]
  ++ flat_map (fun a => [fst a; b2z (snd a)]) (since (attempts w1) (attempts w0)) ++ [SEP]
  ++ [oz (volume w1); match mute w1 with Some b => b2z b | None => -1 end; zlen (history w1);
      zlen (queue w1); oz (a_uri w1); ps_code (a_state w1); bcalls w1 - bcalls w0] ++ [SEP]
  (* bookkeeping that decides later behaviour: the shuffle order and the seek/restore/previous flags *)
  ++ map tlid (shuffled w1) ++ [SEP]
  ++ [oz (pending_position w1); oz (last_position w1); b2z (previous_flag w1); b2z (start_paused w1);
      oz (start_at_position w1)].

(* One step: run the op, then read the time position the way a client would (the read is a
   backend interaction but changes nothing else). *)
Definition step (w0 : world) (o : op) : world * list Z :=
  let '(r, w1) := run_op o w0 in
  (* a Load starts a new process: its logs and version are compared with a fresh one *)
  let w := match o with Load _ => w0 <| acalls := [] |> <| events := [] |> <| version := 0 |> | _ => w0 end in
  match r with
  | Diverge => (w1, observe w r w1 0)
  | _ =>
      let '(p, w2) := get_time_position w1 in
      let pos := match p with Ok z => z | _ => -7 end in
      (w2, observe w r w1 pos)
  end.

Fixpoint run (w : world) (ops : list op) : list (list Z) :=
  match ops with
  | [] => []
  | o :: rest =>
      let '(w', obs) := step w o in
      match obs with
      | 99 :: _ => [obs]          (* the implementation is stopped by the watchdog here *)
      | _ => obs :: run w' rest
      end
  end.

End WithShuffle.

Definition FUEL : nat := 400.
Definition run_c := run shuf_concrete FUEL.
Definition step_c := step shuf_concrete FUEL.

Definition list_z_eqb (a b : list Z) : bool :=
  (fix go a b := match a, b with
                 | [], [] => true
                 | x :: a', y :: b' => (x =? y) && go a' b'
                 | _, _ => false end) a b.
Fixpoint obs_eqb (a b : list (list Z)) : bool :=
  match a, b with
  | [], [] => true
  | x :: a', y :: b' => list_z_eqb x y && obs_eqb a' b'
  | _, _ => false
  end.

(* index of the first differing step, or -1 *)
Fixpoint first_diff (a b : list (list Z)) (i : Z) : Z :=
  match a, b with
  | [], [] => -1
  | x :: a', y :: b' => if list_z_eqb x y then first_diff a' b' (i + 1) else i
  | _, _ => i
  end.
