(* C05 proofs: unplayable tracks are never pending/current/started; under consume the refused
   candidate is dropped; failures never surface as exceptions (Res_NoRaise). *)
From Coq Require Import ZArith List Bool Lia.
From RecordUpdate Require Import RecordSet.
From Common Require Import Res.
From Core Require Import World Hoare Model Step Reach Inv_Playable Res_NoRaise Rel_Vtc Proofs_C01.
Import ListNotations RecordSetNotations.
Open Scope Z_scope.

Section P.
Variable shuf : Z -> list tlt -> list tlt.
Variable fuel : nat.

Lemma init_playable mx kinds lens scr vol mut :
  playable_inv_ks kinds (init_world mx kinds lens scr vol mut).
Proof. unfold playable_inv_ks. cbn. repeat split; intros; try discriminate; contradiction. Qed.

Lemma get_time_position_playable ks : preserves (playable_inv_ks ks) get_time_position.
Proof. apply get_time_position_playable_inv. Qed.

Lemma reachable_playable ks w ops : playable_inv_ks ks w -> playable_inv_ks ks (run_world shuf fuel w ops).
Proof.
  apply run_world_preserves.
  - intro o. apply run_op_playable_inv.
  - apply get_time_position_playable.
Qed.

Definition playable_track (kinds : list tkind) (t : tlt) : Prop :=
  nth_z kinds (trk t) = Some Playable.

Lemma kp_playable ks t : kp ks t -> playable_track ks t.
Proof.
  unfold kp, playable_track. destruct (nth_z ks (trk t)) as [[]|]; cbn; congruence.
Qed.

(* T1 + T2 + T5 *)
Lemma unplayable_never_selected_lemma mx kinds lens scr vol mut ops :
  let w := run_world shuf fuel (init_world mx kinds lens scr vol mut) ops in
  (forall t, In (EvStarted t) (events w) -> playable_track kinds t)
  /\ (forall c, current w = Some c -> playable_track kinds c)
  /\ (forall p, pending w = Some p -> playable_track kinds p).
Proof.
  cbv zeta.
  destruct (reachable_playable kinds _ ops (init_playable mx kinds lens scr vol mut)) as (_ & Hp & Hc & He).
  repeat split; intros; apply kp_playable; auto.
Qed.

(* T4: under consume, marking a candidate unplayable removes every entry with its tracklist ID *)
Lemma filter_not_in i l :
  ~ In i (map tlid (filter (fun t => negb (memz (tlid t) [i])) l)).
Proof.
  rewrite in_map_iff. intros [y [E Hy]]. apply filter_In in Hy. destruct Hy as [_ Hy].
  unfold memz in Hy. cbn in Hy. rewrite <- E, Z.eqb_refl in Hy. discriminate.
Qed.

Lemma consume_drops_refused_lemma x w :
  consume w = true -> NoDup (map tlid (World.tl w)) ->
  exists w', mark_unplayable shuf (Some x) w = (Ok tt, w') /\ ~ In (tlid x) (map tlid (World.tl w')).
Proof.
  intros Hc Hnd.
  destruct (remove_exact_lemma shuf fuel (crit_tlid (tlid x)) w Hnd) as (w1 & E1 & T1 & _).
  cbn [run_op] in E1.
  assert (Er : exists l, tl_remove shuf (crit_tlid (tlid x)) w = (Ok l, w1)).
  { unfold bind in E1. destruct (tl_remove shuf (crit_tlid (tlid x)) w) as [[l|e|] w2]; inversion E1; subst; eauto. }
  destruct Er as [l Er].
  assert (Hnot : ~ In (tlid x) (map tlid (World.tl w1))).
  { rewrite T1. intros Hin. rewrite in_map_iff in Hin. destruct Hin as [y [E Hy]].
    apply filter_In in Hy. destruct Hy as [_ Hy]. unfold matches, crit_tlid in Hy. cbn in Hy.
    rewrite E, Z.eqb_refl in Hy. discriminate. }
  unfold mark_unplayable. unfold bind, get, ret, modify. cbv beta iota zeta.
  rewrite Hc, Er. cbv beta iota zeta.
  destruct (random w1 && mem_tlt x (shuffled w1)).
  - eexists. split; [reflexivity|]. cbn. exact Hnot.
  - eexists. split; [reflexivity|]. exact Hnot.
Qed.

End P.

Example c05_nonvacuous :
  let kinds := [Refuse; Playable; NoBackend; Raises] in
  let w := run_world shuf_concrete 20 (init_world 50 kinds [Some 1000; Some 1000; None; None] [true] None None)
             [Add [0; 2; 3; 1] None; SetMode 0 true; Play None; Deliver; Deliver; Deliver] in
  map tlid (World.tl w) = [4] /\ option_map trk (current w) = Some 1 /\ pstate w = Playing
  /\ attempts w = [(1, true); (3, false); (0, false)].
Proof. vm_compute. repeat split. Qed.
