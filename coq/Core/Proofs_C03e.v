(* C03, single mode: "single stops after the current track (or repeats it when combined with
   repeat)" - end to end, from any state settled on a playing entry c, wherever c sits in the
   tracklist and whatever random is. *)
From Coq Require Import ZArith List Bool Lia ZifyBool.
From RecordUpdate Require Import RecordSet.
From Common Require Import Res.
From Core Require Import World Hoare Model Step Reach ListLemmas Proofs_C03b Proofs_C02b Proofs_C10b Proofs_C02c Proofs_C03c.
Import ListNotations RecordSetNotations.
Open Scope Z_scope.

Section P.
Variable shuf : Z -> list tlt -> list tlt.

(* the end-of-track handler finds no successor: nothing is preloaded, the old stream runs out *)
Lemma about_to_finish_none_gen f c len w :
  (forall l, eot_track shuf (Some c) (w <| a_uri := None |> <| last_position := l |>)
             = (Ok None, w <| a_uri := None |> <| last_position := l |>)) ->
  pstate w <> Stopped -> current w = Some c -> len_of w (trk c) = Some len ->
  a_uri w = Some (trk c) -> a_state w = Playing -> a_atf_done w = false ->
  about_to_finish shuf (S f) w = (Ok tt, fx_atf_none len w).
Proof.
  intros Hnone Hst Hc Hlen Hu Has Hd. unfold about_to_finish.
  assert (E0 : get w = (Ok w, w)) by reflexivity. step E0.
  rewrite Hu, Has, Hd. cbn [ps_eqb negb andb].
  set (wa := w <| a_uri := None |>).
  assert (E1 : modify (fun w => w <| a_uri := None |>) w = (Ok tt, wa)) by reflexivity. step E1.
  set (wl := wa <| last_position := Some len |>).
  assert (E2 : on_about_to_finish shuf (S f) wa = (Ok tt, wl)).
  { unfold on_about_to_finish.
    assert (G0 : get wa = (Ok wa, wa)) by reflexivity. step G0.
    change (pstate wa) with (pstate w). rewrite (ps_neq_stopped _ Hst).
    change (current wa) with (current w). rewrite Hc.
    assert (G1 : modify (fun w0 => w0 <| last_position := len_of w0 (trk c) |>) wa = (Ok tt, wl)).
    { unfold wl, modify. change (len_of wa (trk c)) with (len_of w (trk c)). rewrite Hlen. reflexivity. }
    step G1.
    assert (G2 : get wl = (Ok wl, wl)) by reflexivity. step G2.
    change (current wl) with (current w). rewrite Hc.
    pose proof (Hnone (Some len)) as G3. fold wa in G3. fold wl in G3.
    step G3. step G2. reflexivity. }
  step E2.
  assert (E3 : get wl = (Ok wl, wl)) by reflexivity. step E3.
  change (a_uri wl) with (@None track). change (a_state wl) with (a_state w). rewrite Has. cbn [ps_eqb].
  unfold enqueue, modify. f_equal.
Qed.

Theorem block_stops_gen f c len w :
  (forall l, eot_track shuf (Some c) (w <| a_uri := None |> <| last_position := l |>)
             = (Ok None, w <| a_uri := None |> <| last_position := l |>)) ->
  consume w = false ->
  settled_on w c -> pstate w = Playing -> a_atf_done w = false -> len_of w (trk c) = Some len ->
  let w' := run_world shuf (S f) w [AboutToFinish; Deliver] in
  current w' = None /\ pstate w' = Stopped /\ pending w' = None /\ queue w' = []
  /\ a_uri w' = None /\ World.tl w' = World.tl w
  /\ events w' = EvEnded c (a_pos w) :: EvStateChanged Playing Stopped :: events w.
Proof.
  intros Hnone Hco [Hq Hp Hpp Hsa Hsp Hpf Hc Hb Ha] Hst Hd Hlen. rewrite Hst in Ha. destruct Ha as [Hu Has].
  cbv zeta. unfold run_world. cbn [fold_left].
  assert (Hns : pstate w <> Stopped) by (rewrite Hst; discriminate).
  pose proof (about_to_finish_none_gen f c len w Hnone Hns Hc Hlen Hu Has Hd) as E1.
  set (w1 := fx_atf_none len w) in *.
  assert (G1 : get_time_position w1 = (Ok (a_pos w1), fx_gtp w1)).
  { apply (gtp_run w1 c); [exact Hpp|exact Hc|exact Hb]. }
  rewrite (stepw_eq shuf (S f) AboutToFinish w RNone w1 _ _ (run_op_bind_none _ w tt w1 E1) G1).
  set (w1' := fx_gtp w1).
  assert (Q1 : queue w1' = [NReachedEos]) by (unfold w1', w1, fx_gtp, fx_atf_none; cbn; rewrite Hq; reflexivity).
  pose proof (deliver_run shuf (S f) _ _ w1' Q1) as D1. cbv beta iota in D1.
  set (w1q := w1' <| queue := [] |>) in *.
  assert (S1 : on_end_of_stream shuf w1q = (Ok tt, fx_eos c w1q)).
  { apply end_of_stream_run; [exact Hc|exact Hpp|exact Hb|exact Hco]. }
  rewrite S1 in D1.
  set (w2 := fx_eos c w1q) in *.
  assert (G2 : get_time_position w2 = (Ok 0, w2)).
  { apply gtp_none_run; [exact Hpp|reflexivity]. }
  rewrite (stepw_eq shuf (S f) Deliver w1' RNone w2 _ _ (run_op_bind_none _ w1' tt w2 D1) G2).
  repeat split; try reflexivity; [exact Hp|cbn; rewrite Hst; reflexivity].
Qed.

(* single without repeat: the player stops after the current track, wherever it is in the list *)
Theorem single_stops f c len w :
  single w = true -> repeat w = false -> consume w = false ->
  settled_on w c -> pstate w = Playing -> a_atf_done w = false -> len_of w (trk c) = Some len ->
  let w' := run_world shuf (S f) w [AboutToFinish; Deliver] in
  current w' = None /\ pstate w' = Stopped /\ pending w' = None /\ queue w' = []
  /\ a_uri w' = None /\ World.tl w' = World.tl w
  /\ events w' = EvEnded c (a_pos w) :: EvStateChanged Playing Stopped :: events w.
Proof.
  intros Hs Hrp Hco. apply block_stops_gen; [|exact Hco].
  intros l. unfold eot_track. unfold bind at 1. unfold get at 1. cbn. rewrite Hs, Hrp. reflexivity.
Qed.

(* single with repeat: the current track is played again *)
Theorem single_repeat_repeats f c len w :
  single w = true -> repeat w = true -> consume w = false ->
  settled_on w c -> pstate w = Playing -> a_atf_done w = false -> len_of w (trk c) = Some len ->
  accepts w c ->
  let w' := run_world shuf (S f) w [AboutToFinish; Deliver; Deliver] in
  settled_on w' c /\ pstate w' = Playing /\ World.tl w' = World.tl w
  /\ events w' = EvStarted c :: EvStateChanged Playing Playing :: EvEnded c len :: events w.
Proof.
  intros Hs Hrp Hco Hso Hst Hd Hlen Hacc.
  assert (Hann : announces_eot shuf w c c).
  { intros u l. unfold eot_track. unfold bind at 1. unfold get at 1. cbn. rewrite Hs, Hrp. reflexivity. }
  destruct (eot_block shuf f c c len w Hso Hst Hco Hd Hlen Hacc Hann) as (A & B & _ & (T & _) & E & _).
  cbv zeta. split; [exact A|split; [exact B|split; [exact T|exact E]]].
Qed.

End P.
