(* C03, consume at the end of the list: "with consume on a track that finished playing and was
   succeeded by ... the end of the list is no longer in the tracklist": at the last entry of a
   tracklist with at least one more entry, consume on (random, repeat, single off), the end of
   the track stops the player and removes exactly that entry. *)
From Coq Require Import ZArith List Bool Lia ZifyBool.
From RecordUpdate Require Import RecordSet.
From Common Require Import Res.
From Core Require Import World Hoare Model Step Reach ListLemmas Proofs_C01 Proofs_C03b Proofs_C02b Proofs_C10b Proofs_C02c Proofs_C03c Proofs_C03d Proofs_C03e.
Import ListNotations RecordSetNotations.
Open Scope Z_scope.

Section P.
Variable shuf : Z -> list tlt -> list tlt.

Definition fx_eos_consume (c : tlt) (w : world) : world :=
  fx_consumed c (w <| pstate := Stopped |> <| events := EvStateChanged (pstate w) Stopped :: events w |>
                   <| bcalls := bcalls w + 1 |>)
    <| previous_flag := false |>
    <| events := EvEnded c (a_pos w) :: EvTracklistChanged :: EvStateChanged (pstate w) Stopped :: events w |>.

Lemma end_of_stream_consume_run c x w :
  current w = Some c -> pending_position w = None -> tkind_has_backend (kind_of w (trk c)) = true ->
  consume w = true -> random w = false -> previous_flag w = false ->
  NoDup (map tlid (World.tl w)) -> In x (World.tl w) -> tlid x <> tlid c ->
  on_end_of_stream shuf w = (Ok tt, fx_eos_consume c w).
Proof.
  intros Hc Hpp Hb Hco Hr Hpf Hnd Hin Hne.
  unfold on_end_of_stream.
  set (w1 := w <| pstate := Stopped |> <| events := EvStateChanged (pstate w) Stopped :: events w |>).
  assert (E1 : set_state Stopped w = (Ok tt, w1)) by reflexivity. step E1.
  assert (E2 : get w1 = (Ok w1, w1)) by reflexivity. step E2.
  change (current w1) with (current w). rewrite Hc. cbn [is_some].
  assert (G : get_time_position w1 = (Ok (a_pos w1), fx_gtp w1)).
  { apply (gtp_run w1 c); [exact Hpp|exact Hc|exact Hb]. }
  rewrite (bind_bind_ok _ _ _ w1 _ _ G).
  set (w2 := fx_gtp w1).
  assert (E3 : trigger_ended shuf (a_pos w1) w2 =
               (Ok tt, fx_consumed c w2 <| previous_flag := false |>
                         <| events := EvEnded c (a_pos w1) :: events (fx_consumed c w2) |>)).
  { unfold trigger_ended. assert (G0 : get w2 = (Ok w2, w2)) by reflexivity. step G0.
    change (current w2) with (current w). rewrite Hc.
    change (previous_flag w2) with (previous_flag w). rewrite Hpf. cbn [negb]. cbv beta iota.
    assert (M : mark_played shuf (Some c) w2 = (Ok tt, fx_consumed c w2)).
    { apply (mark_played_consume_run shuf c x w2); assumption. }
    step M. reflexivity. }
  rewrite (bind_ok _ _ w2 tt _ E3).
  unfold modify. f_equal; reflexivity.
Qed.

Theorem consume_last_entry_removed f pre c x len w :
  World.tl w = pre ++ [c] -> In x pre -> NoDup (map tlid (World.tl w)) ->
  consume w = true -> random w = false -> repeat w = false -> single w = false ->
  settled_on w c -> pstate w = Playing -> a_atf_done w = false -> len_of w (trk c) = Some len ->
  let w' := run_world shuf (S f) w [AboutToFinish; Deliver] in
  current w' = None /\ pstate w' = Stopped /\ pending w' = None /\ queue w' = []
  /\ a_uri w' = None
  /\ World.tl w' = filter (fun t => negb (tlid t =? tlid c)) (World.tl w)
  /\ events w' = EvEnded c (a_pos w) :: EvTracklistChanged :: EvStateChanged Playing Stopped :: events w.
Proof.
  intros Ht Hx Hnd Hco Hr Hrp Hsg [Hq Hp Hpp Hsa Hsp Hpf Hc Hb Ha] Hst Hd Hlen. rewrite Hst in Ha. destruct Ha as [Hu Has].
  cbv zeta. unfold run_world. cbn [fold_left].
  assert (Hns : pstate w <> Stopped) by (rewrite Hst; discriminate).
  assert (Hnone : forall l, eot_track shuf (Some c) (w <| a_uri := None |> <| last_position := l |>)
                            = (Ok None, w <| a_uri := None |> <| last_position := l |>)).
  { intros l. set (w0 := w <| a_uri := None |> <| last_position := l |>).
    unfold eot_track. unfold bind at 1. unfold get at 1.
    change (single w0) with (single w). change (repeat w0) with (repeat w). rewrite Hsg, Hrp. cbn [andb].
    apply (next_seq_last shuf pre c w0); assumption. }
  pose proof (about_to_finish_none_gen shuf f c len w Hnone Hns Hc Hlen Hu Has Hd) as E1.
  set (w1 := fx_atf_none len w) in *.
  assert (G1 : get_time_position w1 = (Ok (a_pos w1), fx_gtp w1)).
  { apply (gtp_run w1 c); [exact Hpp|exact Hc|exact Hb]. }
  rewrite (stepw_eq shuf (S f) AboutToFinish w RNone w1 _ _ (run_op_bind_none _ w tt w1 E1) G1).
  set (w1' := fx_gtp w1).
  assert (Q1 : queue w1' = [NReachedEos]) by (unfold w1', w1, fx_gtp, fx_atf_none; cbn; rewrite Hq; reflexivity).
  pose proof (deliver_run shuf (S f) _ _ w1' Q1) as D1. cbv beta iota in D1.
  set (w1q := w1' <| queue := [] |>) in *.
  assert (Hxin : In x (World.tl w)) by (rewrite Ht; apply in_or_app; left; exact Hx).
  assert (Hne : tlid x <> tlid c).
  { apply (nodup_prefix_ne pre c []); [rewrite <- Ht; exact Hnd|exact Hx]. }
  assert (S1 : on_end_of_stream shuf w1q = (Ok tt, fx_eos_consume c w1q)).
  { apply (end_of_stream_consume_run c x w1q); try assumption. }
  rewrite S1 in D1.
  set (w2 := fx_eos_consume c w1q) in *.
  assert (G2 : get_time_position w2 = (Ok 0, w2)).
  { apply gtp_none_run; [exact Hpp|reflexivity]. }
  rewrite (stepw_eq shuf (S f) Deliver w1' RNone w2 _ _ (run_op_bind_none _ w1' tt w2 D1) G2).
  repeat split; try reflexivity.
  - exact Hp.
  - cbn. apply without_spec. exact Hnd.
  - cbn. rewrite Hst. reflexivity.
Qed.

End P.
