(* C10 proofs: what a restore (fresh Core + _load_state) yields, as a function of the saved
   snapshot and the coverage, for the sections that do not involve the playback backend. *)
From Coq Require Import ZArith List Bool Lia ZifyBool Permutation Sorted.
From RecordUpdate Require Import RecordSet.
From Common Require Import Res.
From Core Require Import World Hoare Model Step Reach Inv_Tl Proofs_C01.
Import ListNotations RecordSetNotations.
Open Scope Z_scope.

Definition vol_ok (s : snapshot) : Prop :=
  match s_volume s with Some v => 0 <= v <= 100 | None => True end.

Section P.
Variable shuf : Z -> list tlt -> list tlt.
Variable fuel : nat.

(* The snapshot written by Save is the observable session state. *)
Lemma save_snapshot_lemma w :
  exists w' p, save_state w = (Ok tt, w') /\
    saved w' = Some {| s_tl := World.tl w; s_next_tlid := next_tlid w;
                       s_consume := consume w; s_random := random w; s_repeat := repeat w;
                       s_single := single w; s_history := firstn 500 (history w);
                       s_tlid := option_map tlid (current w); s_pos := p; s_state := pstate w;
                       s_volume := volume w; s_mute := mute w |}
    /\ World.tl w' = World.tl w /\ next_tlid w' = next_tlid w.
Proof.
  unfold save_state, get_time_position, env_get_position, bcall, bind, get, modify, ret.
  destruct (pending_position w); [|destruct (has_backend w (current w))]; cbn;
    eexists; eexists; repeat split.
Qed.

(* The fields a client can observe of the session. *)
Definition sess (w : world) :=
  (World.tl w, next_tlid w, (consume w, random w, repeat w, single w), history w,
   (volume w, mute w), (pstate w, current w, pending w)).

Definition set_modes_of (which : Z) (v : bool) (m : bool * bool * bool * bool) : bool * bool * bool * bool :=
  let '(c, r, rp, sg) := m in
  if which =? 0 then (v, r, rp, sg) else if which =? 1 then (c, v, rp, sg)
  else if which =? 2 then (c, r, v, sg) else (c, r, rp, v).

Lemma set_mode_sess which v w :
  exists w', set_mode shuf which v w = (Ok tt, w') /\
    sess w' = (World.tl w, next_tlid w, set_modes_of which v (consume w, random w, repeat w, single w),
               history w, (volume w, mute w), (pstate w, current w, pending w)).
Proof.
  unfold set_mode, do_shuffle, emit, bind, get, modify, ret, sess, set_modes_of.
  destruct (which =? 0) eqn:E0; [|destruct (which =? 1) eqn:E1; [|destruct (which =? 2) eqn:E2]];
    cbn; repeat match goal with |- context [if ?b then _ else _] => destruct b; cbn end;
    eexists; split; reflexivity.
Qed.

(* _increase_version on a stopped core without current track touches no session field *)
Lemma increase_version_sess w :
  pstate w = Stopped -> current w = None ->
  exists w', increase_version shuf w = (Ok tt, w') /\ sess w' = sess w.
Proof.
  intros Hs Hc.
  unfold increase_version, on_tracklist_change, stop, trigger_tracklist_changed, do_shuffle, emit,
    bind, get, modify, ret, sess. cbn.
  destruct (World.tl w) eqn:Et; destruct (random w) eqn:Er;
    repeat (progress (cbn; rewrite ?Hs, ?Hc, ?Et, ?Er));
    (eexists; split; [reflexivity|cbn; rewrite ?Hs, ?Hc, ?Et, ?Er; reflexivity]).
Qed.

Lemma mixer_block_sess (sm : option bool) (sv : option Z) w :
  (match sv with Some v => 0 <= v <= 100 | None => True end) ->
  exists w', ((match sm with Some m => _ <- set_mute m ;; ret tt | None => ret tt end) ;;
              (match sv with Some v => _ <- set_volume v ;; ret tt | None => ret tt end))%M w = (Ok tt, w') /\
    sess w' = (World.tl w, next_tlid w, (consume w, random w, repeat w, single w), history w,
               (match sv with Some v => Some v | None => volume w end,
                match sm with Some m => Some m | None => mute w end),
               (pstate w, current w, pending w)).
Proof.
  intros Hv. unfold set_mute, set_volume, bind, get, modify, ret, sess.
  destruct sm as [m|]; destruct sv as [v|]; cbn;
    try (replace ((v <? 0) || (100 <? v)) with false by lia); cbn; eexists; split; reflexivity.
Qed.

(* Restoring everything except the playback position (coverage without play-last): the new
   process has exactly the saved tracklist (same entries, order and IDs), modes, history,
   volume and mute, is stopped, will issue IDs from max(saved next_tlid, 1); sections that
   are not selected stay at their defaults. *)
Lemma restore_sections_lemma cov s w :
  cov_play_last cov = false -> vol_ok s ->
  exists w', load_state shuf fuel cov s (restart w) = (Ok tt, w') /\
    sess w' =
      ((if cov_tracklist cov then s_tl s else []),
       (if cov_tracklist cov then Z.max (s_next_tlid s) 1 else 1),
       (if cov_mode cov then (s_consume s, s_random s, s_repeat s, s_single s) else (false, false, false, false)),
       (if cov_history cov then s_history s else []),
       (if cov_mixer cov then (s_volume s, s_mute s) else (None, None)),
       (Stopped, None, None)).
Proof.
  intros Hpl Hvol. unfold load_state. rewrite Hpl.
  (* block 1: history *)
  set (w1 := if cov_history cov then restart w <| history := s_history s |> else restart w).
  assert (E1 : (when cov_history cov do modify (fun w => w <| history := s_history s |>))%M (restart w) = (Ok tt, w1)).
  { unfold w1. destruct (cov_history cov); reflexivity. }
  assert (S1 : sess w1 = ([], 1, (false, false, false, false), (if cov_history cov then s_history s else []),
                          (None, None), (Stopped, None, None))).
  { unfold w1. destruct (cov_history cov); reflexivity. }
  rewrite (bind_ok _ _ _ tt w1 E1). clear E1.
  (* block 2: modes *)
  assert (H2 : exists w2, (when cov_mode cov do
                 (set_mode shuf 0 (s_consume s) ;; set_mode shuf 1 (s_random s) ;;
                  set_mode shuf 2 (s_repeat s) ;; set_mode shuf 3 (s_single s)))%M w1 = (Ok tt, w2)
            /\ sess w2 = ([], 1, (if cov_mode cov then (s_consume s, s_random s, s_repeat s, s_single s)
                                 else (false, false, false, false)),
                          (if cov_history cov then s_history s else []), (None, None), (Stopped, None, None))).
  { destruct (cov_mode cov); [|exists w1; split; [reflexivity|exact S1]].
    destruct (set_mode_sess 0 (s_consume s) w1) as (wa & Ea & Sa).
    destruct (set_mode_sess 1 (s_random s) wa) as (wb & Eb & Sb).
    destruct (set_mode_sess 2 (s_repeat s) wb) as (wc & Ec & Sc).
    destruct (set_mode_sess 3 (s_single s) wc) as (wd & Ed & Sd).
    exists wd. split.
    - rewrite (bind_ok _ _ _ tt wa Ea), (bind_ok _ _ _ tt wb Eb), (bind_ok _ _ _ tt wc Ec). exact Ed.
    - unfold sess in *. inversion S1. inversion Sa. inversion Sb. inversion Sc. inversion Sd.
      cbn. repeat f_equal; congruence. }
  destruct H2 as (w2 & E2 & S2). rewrite (bind_ok _ _ _ tt w2 E2). clear E2.
  (* block 3: tracklist *)
  assert (H3 : exists w3, (when cov_tracklist cov do
                 (modify (fun w => w <| next_tlid := Z.max (s_next_tlid s) (next_tlid w) |> <| tl := s_tl s |>) ;;
                  increase_version shuf))%M w2 = (Ok tt, w3)
            /\ sess w3 = ((if cov_tracklist cov then s_tl s else []),
                          (if cov_tracklist cov then Z.max (s_next_tlid s) 1 else 1),
                          (if cov_mode cov then (s_consume s, s_random s, s_repeat s, s_single s)
                           else (false, false, false, false)),
                          (if cov_history cov then s_history s else []), (None, None), (Stopped, None, None))).
  { destruct (cov_tracklist cov); [|exists w2; split; [reflexivity|exact S2]].
    unfold sess in S2. inversion S2 as [[T2 N2 M2 Hh2 V2 Mu2 P2 C2 Pe2]].
    set (wm := w2 <| next_tlid := Z.max (s_next_tlid s) (next_tlid w2) |> <| tl := s_tl s |>).
    destruct (increase_version_sess wm) as (w3 & E3 & S3); [exact P2|exact C2|].
    exists w3. split.
    - assert (Em : modify (fun w => w <| next_tlid := Z.max (s_next_tlid s) (next_tlid w) |> <| tl := s_tl s |>) w2
                   = (Ok tt, wm)) by reflexivity.
      rewrite (bind_ok _ _ _ _ _ Em). exact E3.
    - rewrite S3. unfold sess, wm. cbn. rewrite N2, Hh2, V2, Mu2, P2, C2, Pe2. repeat f_equal; congruence. }
  destruct H3 as (w3 & E3 & S3). rewrite (bind_ok _ _ _ tt w3 E3). clear E3.
  (* block 4: mixer *)
  assert (H4 : exists w4, (when cov_mixer cov do
                 ((match s_mute s with Some m => _ <- set_mute m ;; ret tt | None => ret tt end) ;;
                  (match s_volume s with Some v => _ <- set_volume v ;; ret tt | None => ret tt end)))%M w3 = (Ok tt, w4)
            /\ sess w4 = ((if cov_tracklist cov then s_tl s else []),
                          (if cov_tracklist cov then Z.max (s_next_tlid s) 1 else 1),
                          (if cov_mode cov then (s_consume s, s_random s, s_repeat s, s_single s)
                           else (false, false, false, false)),
                          (if cov_history cov then s_history s else []),
                          (if cov_mixer cov then (s_volume s, s_mute s) else (None, None)),
                          (Stopped, None, None))).
  { destruct (cov_mixer cov); [|exists w3; split; [reflexivity|exact S3]].
    destruct (mixer_block_sess (s_mute s) (s_volume s) w3 Hvol) as (w4 & E4 & S4).
    exists w4. split; [exact E4|]. rewrite S4. unfold sess in S3. inversion S3.
    destruct (s_volume s), (s_mute s); repeat f_equal; congruence. }
  destruct H4 as (w4 & E4 & S4). rewrite (bind_ok _ _ _ tt w4 E4). clear E4.
  exists w4. split; [reflexivity|exact S4].
Qed.
End P.

Section Q.
Variable shuf : Z -> list tlt -> list tlt.
Variable fuel : nat.

(* Save followed by a restart with any coverage that leaves play-last out. *)
Lemma save_restore_lemma w cov :
  cov_play_last cov = false ->
  (match volume w with Some v => 0 <= v <= 100 | None => True end) ->
  exists w1 w2, save_state w = (Ok tt, w1) /\ do_load shuf fuel cov w1 = (Ok tt, w2) /\
    sess w2 =
      ((if cov_tracklist cov then World.tl w else []),
       (if cov_tracklist cov then Z.max (next_tlid w) 1 else 1),
       (if cov_mode cov then (consume w, random w, repeat w, single w) else (false, false, false, false)),
       (if cov_history cov then firstn 500 (history w) else []),
       (if cov_mixer cov then (volume w, mute w) else (None, None)),
       (Stopped, None, None)).
Proof.
  intros Hpl Hv. destruct (save_snapshot_lemma w) as (w1 & p & E1 & S1 & _).
  set (s := {| s_tl := World.tl w; s_next_tlid := next_tlid w; s_consume := consume w;
               s_random := random w; s_repeat := repeat w; s_single := single w;
               s_history := firstn 500 (history w); s_tlid := option_map tlid (current w);
               s_pos := p; s_state := pstate w; s_volume := volume w; s_mute := mute w |}) in *.
  destruct (restore_sections_lemma shuf fuel cov s w1 Hpl Hv) as (w2 & E2 & S2).
  exists w1, w2. split; [exact E1|]. split; [|exact S2].
  unfold do_load. unfold bind at 1. unfold get at 1. cbv beta iota.
  assert (Em : modify restart w1 = (Ok tt, restart w1)) by reflexivity.
  rewrite (bind_ok _ _ _ _ _ Em). rewrite S1. exact E2.
Qed.
End Q.

Example c10_nonvacuous :
  let w := run_world shuf_concrete 20 (init_world 50 [Playable; Playable] [Some 1000; Some 1000] [] (Some 40) (Some false))
             [Add [0; 1; 0] None; Remove (mkCrit (Some [2]) None); SetMode 2 true; Play None; Deliver; SetVolume 37;
              Save; Load (mkCov true true false true true); Add [1] None] in
  map tlid (World.tl w) = [1; 3; 4] /\ repeat w = true /\ volume w = Some 37 /\ history w = [0] /\ pstate w = Stopped.
Proof. vm_compute. repeat split. Qed.
