(* C10 — Saved state restores the session exactly. *)
From Coq Require Import ZArith List Bool Permutation Sorted.
From Common Require Import Res.
From Core Require Import World Model Step Reach Proofs_C01 Proofs_C10 Proofs_C03b Proofs_C10b Proofs_C10c Proofs_C10d.
Import ListNotations.
Open Scope Z_scope.

(* T1 + T2: from ANY core state: saving and starting a new process that restores any subset of
   {tracklist, mode, mixer, history} yields exactly the saved tracklist (same tracks, order and
   tracklist IDs), options, volume, mute and the (500-entry) history for the selected sections
   and the defaults for the others; the new process is stopped. *)
Theorem C10_save_restore_sections :
  forall shuf fuel w cov, cov_play_last cov = false ->
  (match volume w with Some v => 0 <= v <= 100 | None => True end) ->
  exists w1 w2, save_state w = (Ok tt, w1) /\ do_load shuf fuel cov w1 = (Ok tt, w2) /\
    sess w2 =
      ((if cov_tracklist cov then World.tl w else []),
       (if cov_tracklist cov then Z.max (next_tlid w) 1 else 1),
       (if cov_mode cov then (consume w, random w, repeat w, single w) else (false, false, false, false)),
       (if cov_history cov then firstn 500 (history w) else []),
       (if cov_mixer cov then (volume w, mute w) else (None, None)),
       (Stopped, None, None)).
Proof. exact save_restore_lemma. Qed.
Print Assumptions C10_save_restore_sections.

(* T3: IDs issued after a restore never collide with restored ones: the ID invariant of C01
   holds in every state reachable through any number of Save/Load operations. *)
Theorem C10_ids_fresh_after_restore :
  forall shuf, (forall sd l, Permutation (shuf sd l) l) -> forall fuel mx kinds lens scr vol mut ops, 0 <= mx ->
  let w := run_world shuf fuel (init_world mx kinds lens scr vol mut) ops in
  NoDup (map tlid (World.tl w))
  /\ Forall (fun x => tlid x < next_tlid w) (World.tl w)
  /\ Forall (fun i => i < next_tlid w) (issued w)
  /\ StronglySorted Z.gt (issued w)
  /\ zlen (World.tl w) <= mx.
Proof. exact ids_unique_fresh_lemma. Qed.
Print Assumptions C10_ids_fresh_after_restore.

(* T4 (play-last, playing): a new process in which the tracklist is present and nothing has
   been played yet (fresh_stopped: e.g. the state T1 describes) restores "playing tlid i at
   position p" - for every tracklist, every playable entry x with that ID and every position
   0 < p <= length: once the audio layer's notifications have been delivered the current entry
   is the one with the saved ID, the core and the audio layer are playing, the reported
   position is the saved one, nothing is pending and the tracklist is untouched. *)
Theorem C10_restore_playing_at_position :
  forall shuf f s i x p len w,
  s_tlid s = Some i -> s_state s = Playing -> s_pos s = p ->
  fresh_stopped w -> 1 <= i -> find (fun y => tlid y =? i) (World.tl w) = Some x -> accepts w x ->
  len_of w (trk x) = Some len -> 0 < p -> p <= len ->
  let w0 := snd (load_state shuf (S f) play_last_cov s w) in
  let w' := run_world shuf (S f) w0 [Deliver; Deliver; Deliver; Deliver; Deliver] in
  option_map tlid (current w') = Some i /\ pstate w' = Playing /\ pending w' = None /\ queue w' = []
  /\ a_pos w' = p /\ fst (get_time_position w') = Ok p
  /\ a_uri w' = Some (trk x) /\ a_state w' = Playing /\ World.tl w' = World.tl w.
Proof. exact restore_playing_at_position. Qed.
Print Assumptions C10_restore_playing_at_position.

(* T5 (play-last, paused): same for a session saved while paused; the restored process ends
   paused (core and audio layer) on the saved entry at the saved position. *)
Theorem C10_restore_paused_at_position :
  forall shuf f s i x p len w,
  s_tlid s = Some i -> s_state s = Paused -> s_pos s = p ->
  fresh_stopped w -> 1 <= i -> find (fun y => tlid y =? i) (World.tl w) = Some x -> accepts w x ->
  len_of w (trk x) = Some len -> 0 < p -> p <= len ->
  let w0 := snd (load_state shuf (S f) play_last_cov s w) in
  let w' := run_world shuf (S f) w0 [Deliver; Deliver; Deliver; Deliver; Deliver; Deliver; Deliver] in
  option_map tlid (current w') = Some i /\ pstate w' = Paused /\ pending w' = None /\ queue w' = []
  /\ a_pos w' = p /\ fst (get_time_position w') = Ok p
  /\ a_uri w' = Some (trk x) /\ a_state w' = Paused /\ World.tl w' = World.tl w.
Proof. exact restore_paused_at_position. Qed.
Print Assumptions C10_restore_paused_at_position.

(* T6 (the headline, playing): a session saved while PLAYING entry c - any settled state, any
   tracklist without duplicate IDs containing c, any modes, position 0 < p <= length - and
   restored in a new process with any coverage that includes the tracklist and play-last comes
   back, once the notifications are delivered, on the entry with the same ID, playing, at the
   same position (audio layer and reported time position), with the same tracklist. *)
Theorem C10_save_restore_playing :
  forall shuf f cov c p len w,
  cov_tracklist cov = true -> cov_play_last cov = true ->
  settled_on w c -> pstate w = Playing -> In c (World.tl w) -> NoDup (map tlid (World.tl w)) ->
  1 <= tlid c -> a_pos w = p -> 0 < p -> p <= len -> len_of w (trk c) = Some len -> accepts w c ->
  (match volume w with Some v => 0 <= v <= 100 | None => True end) ->
  let w' := run_world shuf (S f) w [Save; Load cov; Deliver; Deliver; Deliver; Deliver; Deliver] in
  option_map tlid (current w') = Some (tlid c) /\ pstate w' = Playing /\ pending w' = None /\ queue w' = []
  /\ a_pos w' = p /\ fst (get_time_position w') = Ok p
  /\ a_uri w' = Some (trk c) /\ a_state w' = Playing /\ World.tl w' = World.tl w.
Proof. exact save_restore_playing. Qed.
Print Assumptions C10_save_restore_playing.

(* T7 (the headline, paused) *)
Theorem C10_save_restore_paused :
  forall shuf f cov c p len w,
  cov_tracklist cov = true -> cov_play_last cov = true ->
  settled_on w c -> pstate w = Paused -> In c (World.tl w) -> NoDup (map tlid (World.tl w)) ->
  1 <= tlid c -> a_pos w = p -> 0 < p -> p <= len -> len_of w (trk c) = Some len -> accepts w c ->
  (match volume w with Some v => 0 <= v <= 100 | None => True end) ->
  let w' := run_world shuf (S f) w [Save; Load cov; Deliver; Deliver; Deliver; Deliver; Deliver; Deliver; Deliver] in
  option_map tlid (current w') = Some (tlid c) /\ pstate w' = Paused /\ pending w' = None /\ queue w' = []
  /\ a_pos w' = p /\ fst (get_time_position w') = Ok p
  /\ a_uri w' = Some (trk c) /\ a_state w' = Paused /\ World.tl w' = World.tl w.
Proof. exact save_restore_paused. Qed.
Print Assumptions C10_save_restore_paused.

(* T8/T9: the same at position 0 (a session saved right at the start of a track): no seek is
   issued; a paused session is paused as soon as the restored stream starts. *)
Theorem C10_save_restore_playing_at_zero :
  forall shuf f cov c w,
  cov_tracklist cov = true -> cov_play_last cov = true ->
  settled_on w c -> pstate w = Playing -> In c (World.tl w) -> NoDup (map tlid (World.tl w)) ->
  1 <= tlid c -> a_pos w = 0 -> accepts w c ->
  (match volume w with Some v => 0 <= v <= 100 | None => True end) ->
  let w' := run_world shuf (S f) w [Save; Load cov; Deliver; Deliver; Deliver; Deliver] in
  option_map tlid (current w') = Some (tlid c) /\ pstate w' = Playing /\ pending w' = None /\ queue w' = []
  /\ a_pos w' = 0
  /\ a_uri w' = Some (trk c) /\ a_state w' = Playing /\ World.tl w' = World.tl w.
Proof. exact save_restore_playing_at_zero. Qed.
Print Assumptions C10_save_restore_playing_at_zero.

Theorem C10_save_restore_paused_at_zero :
  forall shuf f cov c w,
  cov_tracklist cov = true -> cov_play_last cov = true ->
  settled_on w c -> pstate w = Paused -> In c (World.tl w) -> NoDup (map tlid (World.tl w)) ->
  1 <= tlid c -> a_pos w = 0 -> accepts w c ->
  (match volume w with Some v => 0 <= v <= 100 | None => True end) ->
  let w' := run_world shuf (S f) w [Save; Load cov; Deliver; Deliver; Deliver; Deliver; Deliver; Deliver] in
  option_map tlid (current w') = Some (tlid c) /\ pstate w' = Paused /\ pending w' = None /\ queue w' = []
  /\ a_pos w' = 0
  /\ a_uri w' = Some (trk c) /\ a_state w' = Paused /\ World.tl w' = World.tl w.
Proof. exact save_restore_paused_at_zero. Qed.
Print Assumptions C10_save_restore_paused_at_zero.
