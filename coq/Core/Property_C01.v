(* C01 — Tracklist is a faithful, versioned sequence with never-reused track IDs.
   Only statements, `exact`, and Print Assumptions.  Model: World/Model/Step; the oracle
   `shuf` is ANY function returning a permutation of its argument. *)
From Coq Require Import ZArith List Bool Permutation Sorted.
From Common Require Import Res.
From Core Require Import World Model Step ListLemmas Reach Inv_Tl Proofs_C01 Proofs_C01b.
Import ListNotations.
Open Scope Z_scope.

Definition perm_oracle (shuf : Z -> list tlt -> list tlt) : Prop := forall sd l, Permutation (shuf sd l) l.

(* T7 + T10: in every state reachable from the empty state by ANY list of operations (client
   calls with any arguments, notification deliveries, Save and Load of any coverage): the
   tracklist IDs are pairwise distinct and below next_tlid, the IDs issued by this process are
   strictly increasing (never reissued), and the length is within max_tracklist_length. *)
Theorem C01_ids_unique_fresh_bounded :
  forall shuf, perm_oracle shuf -> forall fuel mx kinds lens scr vol mut ops, 0 <= mx ->
  let w := run_world shuf fuel (init_world mx kinds lens scr vol mut) ops in
  NoDup (map tlid (World.tl w))
  /\ Forall (fun x => tlid x < next_tlid w) (World.tl w)
  /\ Forall (fun i => i < next_tlid w) (issued w)
  /\ StronglySorted Z.gt (issued w)
  /\ zlen (World.tl w) <= mx.
Proof. exact ids_unique_fresh_lemma. Qed.
Print Assumptions C01_ids_unique_fresh_bounded.

(* T8: the version never decreases (any operation of a running process, any state). *)
Theorem C01_version_monotone :
  forall shuf fuel o w, (forall c, o <> Load c) -> version w <= version (stepw shuf fuel w o).
Proof. exact version_monotone_lemma. Qed.
Print Assumptions C01_version_monotone.

(* T9: whenever an operation changes content or order, the version strictly increases and a
   tracklist_changed event is emitted during that operation (any state, any operation). *)
Theorem C01_version_tracks_change :
  forall shuf fuel o w, (forall c, o <> Load c) ->
  let w' := stepw shuf fuel w o in
  World.tl w' <> World.tl w ->
  version w < version w' /\ exists new, events w' = new ++ events w /\ In EvTracklistChanged new.
Proof. exact version_tracks_change_lemma. Qed.
Print Assumptions C01_version_tracks_change.

(* T1: add inserts the new entries as ONE contiguous block at the requested position (clamped
   to the end), with the next consecutive IDs; everything else keeps its relative order. *)
Theorem C01_add_block :
  forall shuf fuel ts pos w, ts <> [] -> existsb (fun t => t <? 0) ts = false ->
  (match pos with Some p => 0 <= p | None => True end) ->
  zlen (World.tl w) + zlen ts <= max_len w ->
  let new := fresh_block (next_tlid w) ts in
  exists w', run_op shuf fuel (Add ts pos) w = (Ok (RTlts new), w')
    /\ World.tl w' = (match pos with
                      | Some p => firstn (Z.to_nat p) (World.tl w) ++ new ++ skipn (Z.to_nat p) (World.tl w)
                      | None => World.tl w ++ new
                      end)
    /\ next_tlid w' = next_tlid w + zlen ts.
Proof. exact add_block_lemma. Qed.
Print Assumptions C01_add_block.

Theorem C01_add_negative_position_rejected :
  forall shuf fuel ts p w, p < 0 -> run_op shuf fuel (Add ts (Some p)) w = (Raise ValidationError, w).
Proof. exact add_negative_rejected_lemma. Qed.
Print Assumptions C01_add_negative_position_rejected.

(* an argument list holding something that is not a Track (modelled as a negative track) is
   rejected before anything is inserted: no entry, no ID, no version, no event *)
Theorem C01_add_ill_typed_rejected :
  forall shuf fuel ts pos w, existsb (fun t => t <? 0) ts = true ->
  run_op shuf fuel (Add ts pos) w = (Raise ValidationError, w).
Proof. exact add_ill_typed_lemma. Qed.
Print Assumptions C01_add_ill_typed_rejected.

(* T2: move relocates the slice, keeping its order, to position p of the remaining list;
   invalid arguments are rejected and change nothing. *)
Theorem C01_move_spec :
  forall shuf fuel s e p w, move_valid (zlen (World.tl w)) s e p = true ->
  let e' := if s =? e then e + 1 else e in
  let l := World.tl w in
  let rest := firstn (Z.to_nat s) l ++ skipn (Z.to_nat e') l in
  let block := firstn (Z.to_nat (e' - s)) (skipn (Z.to_nat s) l) in
  exists w', run_op shuf fuel (Move s e p) w = (Ok RNone, w')
    /\ World.tl w' = firstn (Z.to_nat p) rest ++ block ++ skipn (Z.to_nat p) rest
    /\ next_tlid w' = next_tlid w.
Proof. exact move_spec_lemma. Qed.
Print Assumptions C01_move_spec.

Theorem C01_move_rejected :
  forall shuf fuel s e p w, move_valid (zlen (World.tl w)) s e p = false ->
  run_op shuf fuel (Move s e p) w = (Raise AssertionError, w).
Proof. exact move_rejected_lemma. Qed.
Print Assumptions C01_move_rejected.

(* T3: shuffle permutes only the chosen slice, for EVERY permutation oracle (in particular an
   end of 0 selects the empty slice and changes nothing). *)
Theorem C01_shuffle_slice :
  forall shuf, perm_oracle shuf -> forall fuel s e w,
  shuffle_valid (zlen (World.tl w)) s e = true ->
  let l := World.tl w in
  let before := py_slice l None (Some (match s with Some s => s | None => 0 end)) in
  let mid := py_slice l s e in
  let after := match e with Some e => py_slice l (Some e) None | None => [] end in
  before ++ mid ++ after = l /\
  exists w' mid', run_op shuf fuel (Shuffle s e) w = (Ok RNone, w')
    /\ World.tl w' = before ++ mid' ++ after /\ Permutation mid' mid
    /\ next_tlid w' = next_tlid w.
Proof. exact shuffle_slice_lemma. Qed.
Print Assumptions C01_shuffle_slice.

Theorem C01_shuffle_rejected :
  forall shuf fuel s e w, shuffle_valid (zlen (World.tl w)) s e = false ->
  run_op shuf fuel (Shuffle s e) w = (Raise AssertionError, w).
Proof. exact shuffle_rejected_lemma. Qed.
Print Assumptions C01_shuffle_rejected.

(* T4: remove deletes exactly the entries matching every criterion (an empty tlid list matches
   nothing, no criterion matches everything) and returns them. *)
Theorem C01_remove_exact :
  forall shuf fuel c w, NoDup (map tlid (World.tl w)) ->
  exists w', run_op shuf fuel (Remove c) w = (Ok (RTlts (filter (matches c) (World.tl w))), w')
    /\ World.tl w' = filter (fun t => negb (matches c t)) (World.tl w)
    /\ next_tlid w' = next_tlid w.
Proof. exact remove_exact_lemma. Qed.
Print Assumptions C01_remove_exact.

(* T5 *)
Theorem C01_clear_spec :
  forall shuf fuel w, exists w', run_op shuf fuel Clear w = (Ok RNone, w') /\ World.tl w' = []
                              /\ next_tlid w' = next_tlid w.
Proof. exact clear_spec_lemma. Qed.
Print Assumptions C01_clear_spec.

(* T6: filter and slice report that same list and change nothing. *)
Theorem C01_queries_report_list :
  forall shuf fuel w,
  (forall c, run_op shuf fuel (Filter c) w = (Ok (RTlts (filter (matches c) (World.tl w))), w))
  /\ (forall s e, run_op shuf fuel (Slice s e) w = (Ok (RTlts (py_slice (World.tl w) (Some s) (Some e))), w)).
Proof. exact queries_report_list_lemma. Qed.
Print Assumptions C01_queries_report_list.

(* index(tl_track=x) reports the position of exactly that entry: the first position holding an
   entry with x's ID AND x's track, none when there is no such entry (an object with an entry's
   ID but another track is not an entry), and changes nothing. *)
Theorem C01_index_of_entry :
  forall shuf fuel x w,
  run_op shuf fuel (IndexOf x) w = (Ok (ROptZ (py_index x (World.tl w))), w)
  /\ (forall i, py_index x (World.tl w) = Some i -> nth_z (World.tl w) i = Some x)
  /\ (py_index x (World.tl w) = None -> ~ In x (World.tl w)).
Proof. exact index_of_entry_lemma. Qed.
Print Assumptions C01_index_of_entry.

(* add() running into max_tracklist_length (`fits` = the tracks that still fit, k the first one
   that does not): the entries that fit are inserted as one contiguous block with consecutive
   fresh IDs, the version is bumped and tracklist_changed announced for them, the call raises
   TracklistFull, nothing of the rest is inserted, the length is exactly the maximum; when
   nothing fits, nothing at all changes. *)
Theorem C01_add_overflow :
  forall shuf fuel (fits : list track) (k : track) (over : list track) pos w,
  existsb (fun t => t <? 0) (fits ++ k :: over) = false ->
  (match pos with Some p => 0 <= p | None => True end) ->
  zlen (World.tl w) + zlen fits = max_len w ->
  let new := fresh_block (next_tlid w) fits in
  exists w', run_op shuf fuel (Add (fits ++ k :: over) pos) w = (Raise TracklistFull, w')
    /\ World.tl w' = (match pos with
                      | Some p => firstn (Z.to_nat p) (World.tl w) ++ new ++ skipn (Z.to_nat p) (World.tl w)
                      | None => World.tl w ++ new
                      end)
    /\ next_tlid w' = next_tlid w + zlen fits
    /\ zlen (World.tl w') = max_len w
    /\ (fits = [] -> w' = w)
    /\ (fits <> [] -> version w < version w'
                      /\ exists evs, events w' = evs ++ events w /\ In EvTracklistChanged evs).
Proof. exact add_overflow_lemma. Qed.
Print Assumptions C01_add_overflow.

Example C01_add_overflow_example :
  let w := run_world shuf_concrete 10 (init_world 3 [Playable; Playable; Playable; Playable] [None; None; None; None] [] None None)
             [Add [0] None] in
  let '(r, w') := run_op shuf_concrete 10 (Add [1; 2; 3; 0] (Some 0)) w in
  r = Raise TracklistFull /\ map tlid (World.tl w') = [2; 3; 1] /\ version w' = version w + 1 /\ next_tlid w' = 4.
Proof. vm_compute. repeat split; reflexivity. Qed.
Print Assumptions C01_add_overflow_example.

(* Never reissued, also when a snapshot is restored into a LIVE tracklist (the operation `Load`
   starts a new process, as Core._setup does; TracklistController._load_state itself keeps
   max(saved next_tlid, current)): through load_state from ANY state the counter never goes
   back and the record of issued IDs only grows ... *)
Theorem C01_live_restore_keeps_issued_ids :
  forall shuf fuel cov s w r w',
  load_state shuf fuel cov s w = (r, w') ->
  next_tlid w <= next_tlid w' /\ exists l, issued w' = l ++ issued w.
Proof. exact live_restore_keeps_ids. Qed.
Print Assumptions C01_live_restore_keeps_issued_ids.

(* ... so every ID issued before the restore is below the counter afterwards: add() (which hands
   out next_tlid, next_tlid+1, ...: C01_add_block) cannot hand it out again. *)
Theorem C01_live_restore_ids_stay_used :
  forall shuf fuel mx cov s w r w',
  tl_inv_mx mx w -> load_state shuf fuel cov s w = (r, w') ->
  forall i, In i (issued w) -> i < next_tlid w'.
Proof. exact live_restore_ids_stay_used. Qed.
Print Assumptions C01_live_restore_ids_stay_used.

(* the same for every single operation of a running process *)
Theorem C01_step_keeps_issued_ids :
  forall shuf fuel o w, (forall c, o <> Load c) ->
  let w' := snd (run_op shuf fuel o w) in
  next_tlid w <= next_tlid w' /\ exists l, issued w' = l ++ issued w.
Proof. exact step_keeps_ids. Qed.
Print Assumptions C01_step_keeps_issued_ids.

Example C01_live_restore_example :
  let w := run_world shuf_concrete 10 (init_world 50 [Playable; Playable] [None; None] [] None None)
             [Add [0; 1] None; Save; Add [0; 0; 1] None; Clear] in
  match saved w with
  | Some s => let w' := snd (load_state shuf_concrete 10 (mkCov true true true true true) s w) in
              next_tlid w = 6 /\ s_next_tlid s = 3 /\ next_tlid w' = 6 /\ map tlid (World.tl w') = [1; 2]
              /\ issued w' = issued w
  | None => False
  end.
Proof. vm_compute. repeat split; reflexivity. Qed.
Print Assumptions C01_live_restore_example.
