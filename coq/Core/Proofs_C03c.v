(* C03, order clause: playing through an unchanged tracklist (sequential modes off, consume off)
   visits the entries in list order, announcing each with ended/started events, and stops after
   the last one.  One end-of-track block [AboutToFinish; Deliver; Deliver] is symbolically
   executed once (eot_block), with a conclusion strong enough to be iterated; the play-through
   theorem is an induction over the rest of the list. *)
From Coq Require Import ZArith List Bool Lia ZifyBool.
From RecordUpdate Require Import RecordSet.
From Common Require Import Res.
From Core Require Import World Hoare Model Step Reach ListLemmas Proofs_C03b Proofs_C02b Proofs_C10b Proofs_C02c.
Import ListNotations RecordSetNotations.
Open Scope Z_scope.

Section P.
Variable shuf : Z -> list tlt -> list tlt.

(* everything one block leaves unchanged *)
Definition same_setup (w w' : world) : Prop :=
  World.tl w' = World.tl w /\ tkinds w' = tkinds w /\ tlens w' = tlens w
  /\ consume w' = consume w /\ random w' = random w /\ repeat w' = repeat w /\ single w' = single w
  /\ script w' = List.tl (script w).

Theorem eot_block f x c len w :
  settled_on w c -> pstate w = Playing -> consume w = false -> a_atf_done w = false ->
  len_of w (trk c) = Some len -> accepts w x -> announces_eot shuf w c x ->
  let w' := run_world shuf (S f) w [AboutToFinish; Deliver; Deliver] in
  settled_on w' x /\ pstate w' = Playing /\ a_atf_done w' = false /\ same_setup w w'
  /\ events w' = EvStarted x :: EvStateChanged Playing Playing :: EvEnded c len :: events w
  /\ shuffled w' = (if random w && mem_tlt x (shuffled w) then remove_first x (shuffled w) else shuffled w).
Proof.
  intros [Hq Hp Hpp Hsa Hsp Hpf Hc Hb Ha] Hst Hco Hd Hlen Hacc Hann. rewrite Hst in Ha. destruct Ha as [Hu Has].
  cbv zeta. unfold run_world. cbn [fold_left].
  assert (Hk := proj1 Hacc).
  assert (Hbx : forall w0, tkinds w0 = tkinds w -> tkind_has_backend (kind_of w0 (trk x)) = true).
  { intros w0 E. unfold kind_of in *. rewrite E, Hk. reflexivity. }
  assert (Hns : pstate w <> Stopped) by (rewrite Hst; discriminate).
  pose proof (about_to_finish_run shuf f x c len w Hns Hc Hlen Hu Has Hd Hacc Hann) as E1.
  set (w1 := fx_about_to_finish x len w) in *.
  assert (G1 : get_time_position w1 = (Ok (a_pos w1), fx_gtp w1)).
  { apply (gtp_run w1 c); [exact Hpp|exact Hc|exact Hb]. }
  rewrite (stepw_eq shuf (S f) AboutToFinish w RNone w1 _ _ (run_op_bind_none _ w tt w1 E1) G1).
  set (w1' := fx_gtp w1).
  assert (Q1 : queue w1' = [NPositionChanged 0; NStreamChanged (Some (trk x))]).
  { unfold w1', w1, fx_gtp, fx_about_to_finish, fx_attempt. cbn. rewrite Hq. reflexivity. }
  pose proof (deliver_run shuf (S f) _ _ w1' Q1) as D1. cbv beta iota in D1.
  rewrite position_changed_noop in D1 by exact Hpp.
  set (w2 := w1' <| queue := [NStreamChanged (Some (trk x))] |>) in *.
  assert (G2 : get_time_position w2 = (Ok (a_pos w2), fx_gtp w2)).
  { apply (gtp_run w2 c); [exact Hpp|exact Hc|exact Hb]. }
  rewrite (stepw_eq shuf (S f) Deliver w1' RNone w2 _ _ (run_op_bind_none _ w1' tt w2 D1) G2).
  set (w2' := fx_gtp w2).
  assert (Q2 : queue w2' = [NStreamChanged (Some (trk x))]) by reflexivity.
  pose proof (deliver_run shuf (S f) _ _ w2' Q2) as D2. cbv beta iota in D2.
  set (w2q := w2' <| queue := [] |>) in *.
  assert (S2 : on_stream_changed shuf (S f) w2q = (Ok tt, fx_promote x c len w2q)).
  { apply stream_changed_run; try reflexivity; unfold w2q, w2', w2, w1', w1; cbn; assumption. }
  rewrite S2 in D2.
  set (w3 := fx_promote x c len w2q) in *.
  assert (G3 : get_time_position w3 = (Ok (a_pos w3), fx_gtp w3)).
  { apply (gtp_run w3 x); [exact Hpp|reflexivity|apply Hbx; reflexivity]. }
  rewrite (stepw_eq shuf (S f) Deliver w2' RNone w3 _ _ (run_op_bind_none _ w2' tt w3 D2) G3).
  split; [|split; [reflexivity|split; [reflexivity|split; [|split]]]].
  - constructor; try reflexivity; try assumption.
    + apply Hbx. reflexivity.
    + cbn. split; [reflexivity|exact Has].
  - unfold same_setup. repeat split; reflexivity.
  - cbn. rewrite Hst. reflexivity.
  - reflexivity.
Qed.

(* the sequential successor *)
Lemma index_from_skip x pre : forall rest i,
  (forall y, In y pre -> tlid y <> tlid x) ->
  index_from tlt_eqb x (pre ++ x :: rest) i = Some (i + zlen pre).
Proof.
  induction pre as [|y pre IH]; intros rest i Hne; cbn [app index_from].
  - unfold tlt_eqb. rewrite !Z.eqb_refl. cbn. f_equal. cbn. lia.
  - assert (E : tlt_eqb x y = false).
    { unfold tlt_eqb. assert (tlid y <> tlid x) by (apply Hne; left; reflexivity).
      replace (tlid x =? tlid y) with false by lia. reflexivity. }
    rewrite E. rewrite IH by (intros z Hz; apply Hne; right; exact Hz). rewrite zlen_cons. f_equal. lia.
Qed.

Lemma nodup_prefix_ne pre (c : tlt) rest :
  NoDup (map tlid (pre ++ c :: rest)) -> forall y, In y pre -> tlid y <> tlid c.
Proof.
  intros H y Hy E. rewrite map_app in H. cbn [map] in H.
  apply NoDup_remove_2 in H. apply H. apply in_or_app. left. rewrite <- E. apply in_map. exact Hy.
Qed.

Lemma nth_z_app_succ {A} (pre : list A) c x post : nth_z (pre ++ c :: x :: post) (zlen pre + 1) = Some x.
Proof.
  unfold nth_z. pose proof (zlen_nonneg pre). replace (zlen pre + 1 <? 0) with false by lia.
  unfold zlen. replace (Z.to_nat (Z.of_nat (length pre) + 1)) with (length pre + 1)%nat by lia.
  rewrite nth_error_app2 by lia. replace (length pre + 1 - length pre)%nat with 1%nat by lia. reflexivity.
Qed.

Definition sequential (w : world) : Prop :=
  consume w = false /\ random w = false /\ repeat w = false /\ single w = false.

Lemma match_nonempty {A B} (pre : list A) c rest (a b : B) :
  match pre ++ c :: rest with [] => a | _ :: _ => b end = b.
Proof. destruct pre; reflexivity. Qed.

Lemma next_seq pre c x post w :
  World.tl w = pre ++ c :: x :: post -> NoDup (map tlid (World.tl w)) ->
  random w = false -> repeat w = false ->
  next_track shuf (Some c) w = (Ok (Some x), w).
Proof.
  intros Ht Hnd Hr Hrp.
  unfold next_track, tl_index, bind, get, ret. rewrite Ht, match_nonempty. rewrite Hr. cbn [andb].
  rewrite Hr, Hrp, Ht.
  unfold py_index. rewrite index_from_skip.
  2: { apply (nodup_prefix_ne pre c (x :: post)). rewrite <- Ht. exact Hnd. }
  rewrite zlen_app, !zlen_cons.
  pose proof (zlen_nonneg pre). pose proof (zlen_nonneg post).
  replace (zlen pre + (zlen post + 1 + 1) <=? 0 + zlen pre + 1) with false by lia.
  replace (0 + zlen pre + 1) with (zlen pre + 1) by lia.
  rewrite nth_z_app_succ. reflexivity.
Qed.

Lemma eot_seq pre c x post w :
  World.tl w = pre ++ c :: x :: post -> NoDup (map tlid (World.tl w)) -> sequential w ->
  announces_eot shuf w c x.
Proof.
  intros Ht Hnd (Hco & Hr & Hrp & Hs) u l.
  set (w0 := w <| a_uri := u |> <| last_position := l |>).
  unfold eot_track. unfold bind at 1. unfold get at 1.
  change (single w0) with (single w). change (repeat w0) with (repeat w). rewrite Hs, Hrp. cbn [andb].
  apply (next_seq pre c x post w0); assumption.
Qed.

(* the events announced by one block *)
Definition block_events (c x : tlt) (len : Z) : list event :=
  [EvStarted x; EvStateChanged Playing Playing; EvEnded c len].

Fixpoint through_events (c : tlt) (post : list tlt) (lens : track -> Z) : list event :=
  match post with
  | [] => []
  | x :: rest => through_events x rest lens ++ block_events c x (lens (trk c))
  end.

Definition blocks (n : nat) : list op := concat (List.repeat [AboutToFinish; Deliver; Deliver] n).

Lemma run_world_app' f w a b : run_world shuf f w (a ++ b) = run_world shuf f (run_world shuf f w a) b.
Proof. unfold run_world. apply fold_left_app. Qed.

Lemma last_cons_default {A} (l : list A) : forall x a b, last (x :: l) a = last (x :: l) b.
Proof. induction l as [|y l IH]; intros x a b; [reflexivity|]. change (last (y :: l) a = last (y :: l) b). apply IH. Qed.

(* Playing through: from the entry c, the following entries are visited in list order *)
Theorem play_through f (lens : track -> Z) : forall post pre c w,
  World.tl w = pre ++ c :: post -> NoDup (map tlid (World.tl w)) ->
  settled_on w c -> pstate w = Playing -> sequential w -> a_atf_done w = false -> script w = [] ->
  (forall y, In y (c :: post) -> kind_of w (trk y) = Playable /\ len_of w (trk y) = Some (lens (trk y))) ->
  let w' := run_world shuf (S f) w (blocks (length post)) in
  settled_on w' (last post c) /\ pstate w' = Playing /\ World.tl w' = World.tl w
  /\ events w' = through_events c post lens ++ events w.
Proof.
  induction post as [|x post IH]; intros pre c w Ht Hnd Hso Hst Hseq Hd Hscr Hall.
  - cbn. split; [exact Hso|split; [exact Hst|split; reflexivity]].
  - cbv zeta. unfold blocks. cbn [length List.repeat concat]. rewrite run_world_app'.
    destruct (Hall c (or_introl eq_refl)) as [Hkc Hlc].
    destruct (Hall x (or_intror (or_introl eq_refl))) as [Hkx Hlx].
    assert (Hacc : accepts w x) by (split; [exact Hkx|rewrite Hscr; reflexivity]).
    assert (Hann : announces_eot shuf w c x) by (apply (eot_seq pre c x post w Ht Hnd Hseq)).
    pose proof (eot_block f x c (lens (trk c)) w Hso Hst (proj1 Hseq) Hd Hlc Hacc Hann) as Hb.
    cbv zeta in Hb.
    set (w1 := run_world shuf (S f) w [AboutToFinish; Deliver; Deliver]) in *.
    destruct Hb as (Hso1 & Hst1 & Hd1 & (T1 & K1 & L1 & C1 & R1 & P1 & S1 & Sc1) & Ev1 & _).
    assert (Hseq1 : sequential w1).
    { destruct Hseq as (A & B & C & D). unfold sequential. rewrite C1, R1, P1, S1. auto. }
    assert (Hscr1 : script w1 = []) by (rewrite Sc1, Hscr; reflexivity).
    assert (Ht1 : World.tl w1 = (pre ++ [c]) ++ x :: post).
    { rewrite T1, Ht, <- app_assoc. reflexivity. }
    assert (Hall1 : forall y, In y (x :: post) -> kind_of w1 (trk y) = Playable /\ len_of w1 (trk y) = Some (lens (trk y))).
    { intros y Hy. unfold kind_of, len_of. rewrite K1, L1. apply (Hall y). right. exact Hy. }
    assert (Hnd1 : NoDup (map tlid (World.tl w1))) by (rewrite T1; exact Hnd).
    specialize (IH (pre ++ [c]) x w1 Ht1 Hnd1 Hso1 Hst1 Hseq1 Hd1 Hscr1 Hall1). cbv zeta in IH.
    unfold blocks in IH.
    destruct IH as (I1 & I2 & I3 & I4).
    split; [|split; [exact I2|split]].
    + destruct post as [|t post]; [exact I1|]. change (last (x :: t :: post) c) with (last (t :: post) c).
      rewrite (last_cons_default post t c x). exact I1.
    + rewrite I3. exact T1.
    + rewrite I4, Ev1. cbn [through_events block_events]. rewrite <- app_assoc. reflexivity.
Qed.


(* ---- ... and then stops: the last entry has no successor *)
Lemma nth_z_past {A} (l : list A) : nth_z l (zlen l) = None.
Proof.
  unfold nth_z. pose proof (zlen_nonneg l). replace (zlen l <? 0) with false by lia.
  unfold zlen. rewrite Nat2Z.id. apply nth_error_None. lia.
Qed.

Lemma next_seq_last pre c w :
  World.tl w = pre ++ [c] -> NoDup (map tlid (World.tl w)) -> random w = false -> repeat w = false ->
  next_track shuf (Some c) w = (Ok None, w).
Proof.
  intros Ht Hnd Hr Hrp.
  unfold next_track, tl_index, bind, get, ret. rewrite Ht, match_nonempty. rewrite Hr. cbn [andb].
  rewrite Hr, Hrp, Ht.
  unfold py_index. rewrite index_from_skip.
  2: { apply (nodup_prefix_ne pre c []). rewrite <- Ht. exact Hnd. }
  rewrite zlen_app, zlen_cons. change (zlen (@nil tlt)) with 0.
  pose proof (zlen_nonneg pre).
  replace (zlen pre + (0 + 1) <=? 0 + zlen pre + 1) with true by lia. reflexivity.
Qed.

Definition fx_atf_none (len : Z) (w : world) : world :=
  w <| a_uri := None |> <| last_position := Some len |> <| queue := queue w ++ [NReachedEos] |>.

Lemma about_to_finish_none_run f pre c len w :
  World.tl w = pre ++ [c] -> NoDup (map tlid (World.tl w)) -> sequential w ->
  pstate w <> Stopped -> current w = Some c -> len_of w (trk c) = Some len ->
  a_uri w = Some (trk c) -> a_state w = Playing -> a_atf_done w = false ->
  about_to_finish shuf (S f) w = (Ok tt, fx_atf_none len w).
Proof.
  intros Ht Hnd (Hco & Hr & Hrp & Hs) Hst Hc Hlen Hu Has Hd. unfold about_to_finish.
  assert (E0 : get w = (Ok w, w)) by reflexivity. step E0.
  rewrite Hu, Has, Hd. cbn [ps_eqb negb andb].
  set (wa := w <| a_uri := None |>).
  assert (E1 : modify (fun w => w <| a_uri := None |>) w = (Ok tt, wa)) by reflexivity. step E1.
  set (wl := wa <| last_position := Some len |>).
  assert (E2 : on_about_to_finish shuf (S f) wa = (Ok tt, wl)).
  { unfold on_about_to_finish.
    assert (G0 : get wa = (Ok wa, wa)) by reflexivity. step G0.
    change (pstate wa) with (pstate w). rewrite (ps_neq_stopped _ Hst).
    change (current wa) with (current w). rewrite Hc.
    assert (G1 : modify (fun w0 => w0 <| last_position := len_of w0 (trk c) |>) wa = (Ok tt, wl)).
    { unfold wl, modify. change (len_of wa (trk c)) with (len_of w (trk c)). rewrite Hlen. reflexivity. }
    step G1.
    assert (G2 : get wl = (Ok wl, wl)) by reflexivity. step G2.
    change (current wl) with (current w). rewrite Hc.
    assert (G3 : eot_track shuf (Some c) wl = (Ok None, wl)).
    { unfold eot_track. unfold bind at 1. unfold get at 1.
      change (single wl) with (single w). change (repeat wl) with (repeat w). rewrite Hs, Hrp. cbn [andb].
      apply (next_seq_last pre c wl); assumption. }
    step G3. step G2. reflexivity. }
  step E2.
  assert (E3 : get wl = (Ok wl, wl)) by reflexivity. step E3.
  change (a_uri wl) with (@None track). change (a_state wl) with (a_state w). rewrite Has. cbn [ps_eqb].
  unfold enqueue, modify. f_equal.
Qed.

Definition fx_eos (c : tlt) (w : world) : world :=
  w <| pstate := Stopped |> <| bcalls := bcalls w + 1 |> <| previous_flag := false |>
    <| events := EvEnded c (a_pos w) :: EvStateChanged (pstate w) Stopped :: events w |>
    <| current := None |>.

Lemma end_of_stream_run c w :
  current w = Some c -> pending_position w = None -> tkind_has_backend (kind_of w (trk c)) = true ->
  consume w = false ->
  on_end_of_stream shuf w = (Ok tt, fx_eos c w).
Proof.
  intros Hc Hpp Hb Hco.
  unfold on_end_of_stream, set_state, trigger_ended, mark_played, get_time_position, env_get_position,
    bcall, has_backend, emit, bind, get, modify, ret.
  repeat (progress (cbn -[fx_eos kind_of]; rewrite ?Hc, ?Hpp, ?Hco)).
  change (kind_of (w <| pstate := Stopped |> <| events := EvStateChanged (pstate w) Stopped :: events w |>) (trk c))
    with (kind_of w (trk c)). rewrite Hb.
  destruct (previous_flag w) eqn:Hpf;
    repeat (progress (cbn -[fx_eos kind_of]; rewrite ?Hc, ?Hpp, ?Hco, ?Hpf));
    (match goal with |- (_, ?a) = (_, ?b) => assert (Hw : a = b); [|rewrite Hw; reflexivity] end);
    unfold fx_eos; world_eq.
Qed.

Theorem last_entry_stops f pre c len w :
  World.tl w = pre ++ [c] -> NoDup (map tlid (World.tl w)) -> sequential w ->
  settled_on w c -> pstate w = Playing -> a_atf_done w = false -> len_of w (trk c) = Some len ->
  let w' := run_world shuf (S f) w [AboutToFinish; Deliver] in
  current w' = None /\ pstate w' = Stopped /\ pending w' = None /\ queue w' = []
  /\ a_uri w' = None /\ World.tl w' = World.tl w
  /\ events w' = EvEnded c (a_pos w) :: EvStateChanged Playing Stopped :: events w.
Proof.
  intros Ht Hnd Hseq [Hq Hp Hpp Hsa Hsp Hpf Hc Hb Ha] Hst Hd Hlen. rewrite Hst in Ha. destruct Ha as [Hu Has].
  cbv zeta. unfold run_world. cbn [fold_left].
  assert (Hns : pstate w <> Stopped) by (rewrite Hst; discriminate).
  pose proof (about_to_finish_none_run f pre c len w Ht Hnd Hseq Hns Hc Hlen Hu Has Hd) as E1.
  set (w1 := fx_atf_none len w) in *.
  assert (G1 : get_time_position w1 = (Ok (a_pos w1), fx_gtp w1)).
  { apply (gtp_run w1 c); [exact Hpp|exact Hc|exact Hb]. }
  rewrite (stepw_eq shuf (S f) AboutToFinish w RNone w1 _ _ (run_op_bind_none _ w tt w1 E1) G1).
  set (w1' := fx_gtp w1).
  assert (Q1 : queue w1' = [NReachedEos]) by (unfold w1', w1, fx_gtp, fx_atf_none; cbn; rewrite Hq; reflexivity).
  pose proof (deliver_run shuf (S f) _ _ w1' Q1) as D1. cbv beta iota in D1.
  set (w1q := w1' <| queue := [] |>) in *.
  assert (S1 : on_end_of_stream shuf w1q = (Ok tt, fx_eos c w1q)).
  { apply end_of_stream_run; [exact Hc|exact Hpp|exact Hb|exact (proj1 Hseq)]. }
  rewrite S1 in D1.
  set (w2 := fx_eos c w1q) in *.
  assert (G2 : get_time_position w2 = (Ok 0, w2)).
  { apply gtp_none_run; [exact Hpp|reflexivity]. }
  rewrite (stepw_eq shuf (S f) Deliver w1' RNone w2 _ _ (run_op_bind_none _ w1' tt w2 D1) G2).
  repeat split; try reflexivity; [exact Hp|cbn; rewrite Hst; reflexivity].
Qed.


(* ---- repeat: after the last entry the first one follows *)
Lemma next_seq_wrap x mid c w :
  World.tl w = x :: mid ++ [c] -> NoDup (map tlid (World.tl w)) ->
  random w = false -> repeat w = true -> consume w = false ->
  next_track shuf (Some c) w = (Ok (Some x), w).
Proof.
  intros Ht Hnd Hr Hrp Hco.
  unfold next_track, tl_index, bind, get, ret. rewrite Ht. cbv iota. rewrite Hr. cbn [andb].
  rewrite Hr, Hrp, Hco, Ht. cbn [andb].
  unfold py_index. change (x :: mid ++ [c]) with ((x :: mid) ++ [c]). rewrite index_from_skip.
  2: { apply (nodup_prefix_ne (x :: mid) c []). change ((x :: mid) ++ [c]) with (x :: mid ++ [c]). rewrite <- Ht. exact Hnd. }
  rewrite zlen_app, !zlen_cons. change (zlen (@nil tlt)) with 0.
  pose proof (zlen_nonneg mid).
  replace ((0 + (zlen mid + 1) + 1) mod (zlen mid + 1 + (0 + 1))) with 0.
  2: { replace (0 + (zlen mid + 1) + 1) with (zlen mid + 1 + (0 + 1)) by lia. rewrite Z_mod_same_full. reflexivity. }
  reflexivity.
Qed.

Theorem repeat_wraps f (x c : tlt) mid len w :
  World.tl w = x :: mid ++ [c] -> NoDup (map tlid (World.tl w)) ->
  consume w = false -> random w = false -> single w = false -> repeat w = true ->
  settled_on w c -> pstate w = Playing -> a_atf_done w = false -> len_of w (trk c) = Some len ->
  accepts w x ->
  let w' := run_world shuf (S f) w [AboutToFinish; Deliver; Deliver] in
  settled_on w' x /\ pstate w' = Playing /\ World.tl w' = World.tl w
  /\ events w' = EvStarted x :: EvStateChanged Playing Playing :: EvEnded c len :: events w.
Proof.
  intros Ht Hnd Hco Hr Hs Hrp Hso Hst Hd Hlen Hacc.
  assert (Hann : announces_eot shuf w c x).
  { intros u l. set (w0 := w <| a_uri := u |> <| last_position := l |>).
    unfold eot_track. unfold bind at 1. unfold get at 1.
    change (single w0) with (single w). rewrite Hs. cbn [andb].
    apply (next_seq_wrap x mid c w0); assumption. }
  destruct (eot_block f x c len w Hso Hst Hco Hd Hlen Hacc Hann) as (A & B & _ & (T & _) & E & _).
  cbv zeta. split; [exact A|split; [exact B|split; [exact T|exact E]]].
Qed.

(* ---- random: one pass visits the shuffle order, entry by entry, each exactly once *)
Lemma remove_first_head x l : remove_first x (x :: l) = l.
Proof. cbn. unfold tlt_eqb. rewrite !Z.eqb_refl. reflexivity. Qed.

Lemma mem_tlt_head x l : mem_tlt x (x :: l) = true.
Proof. unfold mem_tlt. cbn. unfold tlt_eqb. rewrite !Z.eqb_refl. reflexivity. Qed.

Lemma eot_random c x rest w :
  World.tl w <> [] -> random w = true -> single w = false -> shuffled w = x :: rest ->
  announces_eot shuf w c x.
Proof.
  intros Hne Hr Hs Hsh u l. set (w0 := w <| a_uri := u |> <| last_position := l |>).
  unfold eot_track. unfold bind at 1. unfold get at 1.
  change (single w0) with (single w). rewrite Hs. cbn [andb].
  unfold next_track, bind, get, ret.
  change (World.tl w0) with (World.tl w). destruct (World.tl w) eqn:Et; [contradiction|].
  change (random w0) with (random w). change (shuffled w0) with (shuffled w). rewrite Hr, Hsh. cbn. 
  rewrite Hr, Hsh. reflexivity.
Qed.

Theorem random_pass f (lens : track -> Z) : forall order c w,
  World.tl w <> [] -> shuffled w = order ->
  settled_on w c -> pstate w = Playing -> consume w = false -> random w = true -> single w = false ->
  a_atf_done w = false -> script w = [] ->
  (forall y, In y (c :: order) -> kind_of w (trk y) = Playable /\ len_of w (trk y) = Some (lens (trk y))) ->
  let w' := run_world shuf (S f) w (blocks (length order)) in
  settled_on w' (last order c) /\ pstate w' = Playing /\ World.tl w' = World.tl w /\ shuffled w' = []
  /\ events w' = through_events c order lens ++ events w.
Proof.
  induction order as [|x order IH]; intros c w Hne Hsh Hso Hst Hco Hr Hs Hd Hscr Hall.
  - cbn. split; [exact Hso|split; [exact Hst|split; [reflexivity|split; [exact Hsh|reflexivity]]]].
  - cbv zeta. unfold blocks. cbn [length List.repeat concat]. rewrite run_world_app'.
    destruct (Hall c (or_introl eq_refl)) as [Hkc Hlc].
    destruct (Hall x (or_intror (or_introl eq_refl))) as [Hkx Hlx].
    assert (Hacc : accepts w x) by (split; [exact Hkx|rewrite Hscr; reflexivity]).
    assert (Hann : announces_eot shuf w c x) by (apply (eot_random c x order w Hne Hr Hs Hsh)).
    pose proof (eot_block f x c (lens (trk c)) w Hso Hst Hco Hd Hlc Hacc Hann) as Hb.
    cbv zeta in Hb.
    set (w1 := run_world shuf (S f) w [AboutToFinish; Deliver; Deliver]) in *.
    destruct Hb as (Hso1 & Hst1 & Hd1 & (T1 & K1 & L1 & C1 & R1 & P1 & S1 & Sc1) & Ev1 & Sh1).
    rewrite Hr, Hsh, mem_tlt_head, remove_first_head in Sh1. cbn [andb] in Sh1.
    assert (Hscr1 : script w1 = []) by (rewrite Sc1, Hscr; reflexivity).
    assert (Hall1 : forall y, In y (x :: order) -> kind_of w1 (trk y) = Playable /\ len_of w1 (trk y) = Some (lens (trk y))).
    { intros y Hy. unfold kind_of, len_of. rewrite K1, L1. apply (Hall y). right. exact Hy. }
    assert (Hne1 : World.tl w1 <> []) by (rewrite T1; exact Hne).
    specialize (IH x w1 Hne1 Sh1 Hso1 Hst1 (eq_trans C1 Hco) (eq_trans R1 Hr) (eq_trans S1 Hs) Hd1 Hscr1 Hall1).
    cbv zeta in IH. unfold blocks in IH.
    destruct IH as (I1 & I2 & I3 & I4 & I5).
    split; [|split; [exact I2|split; [|split; [exact I4|]]]].
    + destruct order as [|t order]; [exact I1|]. change (last (x :: t :: order) c) with (last (t :: order) c).
      rewrite (last_cons_default order t c x). exact I1.
    + rewrite I3. exact T1.
    + rewrite I5, Ev1. cbn [through_events block_events]. rewrite <- app_assoc. reflexivity.
Qed.

End P.
