(* C05 / C03 (skipping at the natural end of a track): for a tracklist
   pre ++ c :: us ++ x :: post in which every entry of us is unplayable in any of the four ways
   (refused, no URI, raises, no backend) and x is playable, the end-of-track handler walks over
   us - asking each backend at most once - and preloads x; after the two notifications of the
   gapless switch the player is on x, playing, and the events of the block are exactly
   ended(c) / state / started(x): none of the skipped entries was announced or left pending.
   (sequential order, consume off) *)
From Coq Require Import ZArith List Bool Lia ZifyBool.
From RecordUpdate Require Import RecordSet.
From Common Require Import Res.
From Core Require Import World Hoare Model Step Reach ListLemmas Proofs_C03b Proofs_C02b Proofs_C10b Proofs_C02c Proofs_C03c Proofs_C03d Proofs_C10c Proofs_C05b.
Import ListNotations RecordSetNotations.
Open Scope Z_scope.

Section P.
Variable shuf : Z -> list tlt -> list tlt.

(* what asking the backend for an unplayable candidate leaves behind: one refused attempt in
   the log when the URI has a backend, nothing at all otherwise *)
Definition refuse1 (u : tlt) (w : world) : world :=
  if tkind_has_backend (kind_of w (trk u)) then fx_attempt_refused (trk u) w else w.

Fixpoint refuse_all (us : list tlt) (w : world) : world :=
  match us with
  | [] => w
  | u :: r => refuse_all r (refuse1 u w)
  end.

Definition logged (n : Z) (l : list (track * bool)) (w : world) : world :=
  w <| bcalls := bcalls w + n |> <| script := [] |> <| attempts := l ++ attempts w |>.

Lemma refuse1_form u w : script w = [] -> exists n l, refuse1 u w = logged n l w.
Proof.
  intros Hs. unfold refuse1. destruct (tkind_has_backend (kind_of w (trk u))).
  - exists 1, [(trk u, false)]. unfold fx_attempt_refused, logged. rewrite Hs. reflexivity.
  - exists 0, []. unfold logged. world_eq; first [lia|exact Hs].
Qed.

Lemma refuse_all_form us : forall w, script w = [] -> exists n l, refuse_all us w = logged n l w.
Proof.
  induction us as [|u r IH]; intros w Hs; cbn [refuse_all].
  - exists 0, []. unfold logged. world_eq; first [lia|exact Hs].
  - destruct (refuse1_form u w Hs) as (n1 & l1 & E1). rewrite E1.
    destruct (IH (logged n1 l1 w) eq_refl) as (n2 & l2 & E2). rewrite E2.
    exists (n1 + n2), (l2 ++ l1). unfold logged. world_eq; first [lia|rewrite app_assoc; reflexivity].
Qed.

Lemma eot_seq' pre c x post w :
  World.tl w = pre ++ c :: x :: post -> NoDup (map tlid (World.tl w)) -> sequential w ->
  eot_track shuf (Some c) w = (Ok (Some x), w).
Proof.
  intros Ht Hnd (Hco & Hr & Hrp & Hs).
  unfold eot_track. unfold bind at 1. unfold get at 1. rewrite Hs, Hrp. cbn [andb].
  apply (next_seq shuf pre c x post w); assumption.
Qed.

Lemma refuse1_run u w :
  kind_of w (trk u) <> Playable ->
  (if has_backend w (Some u) then attempt_change (trk u) else ret false) w = (Ok false, refuse1 u w).
Proof.
  intros Hk. unfold has_backend, refuse1. destruct (tkind_has_backend (kind_of w (trk u))) eqn:Hb.
  - apply attempt_refused_run. destruct (kind_of w (trk u)); [contradiction|reflexivity..].
  - reflexivity.
Qed.

Lemma refuse1_fields u w :
  World.tl (refuse1 u w) = World.tl w /\ tkinds (refuse1 u w) = tkinds w
  /\ consume (refuse1 u w) = consume w /\ random (refuse1 u w) = random w
  /\ repeat (refuse1 u w) = repeat w /\ single (refuse1 u w) = single w
  /\ a_uri (refuse1 u w) = a_uri w /\ (script w = [] -> script (refuse1 u w) = []).
Proof.
  unfold refuse1. destruct (tkind_has_backend (kind_of w (trk u))); repeat split; auto.
  intros Hs. cbn. rewrite Hs. reflexivity.
Qed.

(* the loop walks over the unplayable run and preloads the first playable entry *)
Lemma atf_loop_skips : forall us f pre x post count w,
  World.tl w = pre ++ us ++ x :: post -> NoDup (map tlid (World.tl w)) -> sequential w ->
  (forall u, In u us -> kind_of w (trk u) <> Playable) ->
  kind_of w (trk x) = Playable -> script w = [] -> a_uri w = None ->
  zlen us < count ->
  atf_loop shuf (S (length us + f)) (Some (hd x us)) count w
  = (Ok tt, fx_attempt (trk x) (refuse_all us w) <| pending := Some x |>).
Proof.
  induction us as [|u r IH]; intros f pre x post count w Ht Hnd Hseq Hus Hkx Hscr Hu Hcount.
  - cbn [length Nat.add atf_loop hd refuse_all].
    assert (E0 : get w = (Ok w, w)) by reflexivity. step E0.
    assert (Hb : has_backend w (Some x) = true) by (unfold has_backend; rewrite Hkx; reflexivity).
    rewrite Hb.
    assert (E1 : attempt_change (trk x) w = (Ok true, fx_attempt (trk x) w)).
    { apply attempt_run; [exact Hkx|rewrite Hscr; reflexivity|exact Hu]. }
    step E1. reflexivity.
  - cbn [length Nat.add atf_loop hd refuse_all].
    assert (E0 : get w = (Ok w, w)) by reflexivity. step E0.
    pose proof (refuse1_run u w (Hus u (or_introl eq_refl))) as E1. step E1.
    set (w1 := refuse1 u w) in *.
    destruct (refuse1_fields u w) as (F1 & F2 & F3 & F4 & F5 & F6 & F7 & F8). fold w1 in F1, F2, F3, F4, F5, F6, F7, F8.
    destruct Hseq as (Hco & Hr & Hrp & Hsg).
    assert (Hseq1 : sequential w1) by (unfold sequential; repeat split; congruence).
    rewrite (bind_ok _ _ w1 tt w1 (mark_unplayable_noop shuf u w1 (eq_trans F3 Hco) (eq_trans F4 Hr))).
    assert (Ht1 : World.tl w1 = pre ++ u :: hd x r :: List.tl (r ++ x :: post)).
    { rewrite F1, Ht. destruct r; reflexivity. }
    assert (Hn : eot_track shuf (Some u) w1 = (Ok (Some (hd x r)), w1)).
    { apply (eot_seq' pre u (hd x r) (List.tl (r ++ x :: post)) w1); [exact Ht1|rewrite F1; exact Hnd|exact Hseq1]. }
    step Hn. cbv zeta.
    pose proof (zlen_nonneg r). rewrite zlen_cons in Hcount.
    assert (Hc1 : (count - 1 <=? 0) = false) by (clear - H Hcount; lia). rewrite Hc1.
    assert (Hk1 : forall y, kind_of w1 (trk y) = kind_of w (trk y)) by (intros y; unfold kind_of; rewrite F2; reflexivity).
    apply (IH f (pre ++ [u]) x post (count - 1) w1).
    + rewrite F1, Ht, <- app_assoc. reflexivity.
    + rewrite F1. exact Hnd.
    + exact Hseq1.
    + intros y Hy. rewrite Hk1. apply Hus. right. exact Hy.
    + rewrite Hk1. exact Hkx.
    + apply F8. exact Hscr.
    + congruence.
    + clear - H Hcount; lia.
Qed.

(* the handler, called by the audio layer with the old URI already dropped *)
Lemma atf_handler_skips f us pre c x post len w :
  World.tl w = pre ++ c :: us ++ x :: post -> NoDup (map tlid (World.tl w)) -> sequential w ->
  pstate w <> Stopped -> current w = Some c -> len_of w (trk c) = Some len -> a_uri w = None ->
  (forall u, In u us -> kind_of w (trk u) <> Playable) -> kind_of w (trk x) = Playable -> script w = [] ->
  on_about_to_finish shuf (S (length us + f)) w =
    (Ok tt, fx_attempt (trk x) (refuse_all us (w <| last_position := Some len |>)) <| pending := Some x |>).
Proof.
  intros Ht Hnd Hseq Hst Hc Hlen Hu Hus Hkx Hscr. unfold on_about_to_finish.
  assert (E0 : get w = (Ok w, w)) by reflexivity. step E0.
  destruct (pstate w) eqn:Ep; [contradiction| |]; cbn [ps_eqb]; rewrite Hc.
  all: set (wl := w <| last_position := Some len |>).
  all: assert (E1 : modify (fun w0 => w0 <| last_position := len_of w0 (trk c) |>) w = (Ok tt, wl))
         by (unfold wl, modify; rewrite Hlen; reflexivity).
  all: step E1.
  all: assert (E2 : get wl = (Ok wl, wl)) by reflexivity; step E2.
  all: change (current wl) with (current w); rewrite Hc.
  all: assert (Hseql : sequential wl) by exact Hseq.
  all: assert (Htl : World.tl wl = pre ++ c :: hd x us :: List.tl (us ++ x :: post))
         by (change (World.tl wl) with (World.tl w); rewrite Ht; destruct us; reflexivity).
  all: assert (He : eot_track shuf (Some c) wl = (Ok (Some (hd x us)), wl))
         by (apply (eot_seq' pre c (hd x us) (List.tl (us ++ x :: post)) wl); [exact Htl|exact Hnd|exact Hseql]).
  all: step He; step E2.
  all: apply (atf_loop_skips us f (pre ++ [c]) x post (zlen (World.tl wl) * 2) wl);
         [change (World.tl wl) with (World.tl w); rewrite Ht, <- app_assoc; reflexivity
         |exact Hnd|exact Hseql|exact Hus|exact Hkx|exact Hscr|exact Hu|].
  all: change (World.tl wl) with (World.tl w); rewrite Ht, zlen_app, zlen_cons, zlen_app, zlen_cons.
  all: pose proof (zlen_nonneg pre) as Hz1; pose proof (zlen_nonneg us) as Hz2; pose proof (zlen_nonneg post) as Hz3.
  all: clear - Hz1 Hz2 Hz3; lia.
Qed.

(* the block, stated for the world the refusals leave behind *)
Lemma eot_block_from f x c len w wt :
  settled_on wt c -> pstate wt = Playing -> consume wt = false ->
  kind_of wt (trk x) = Playable ->
  about_to_finish shuf (S f) w = (Ok tt, fx_about_to_finish x len wt) ->
  let w' := run_world shuf (S f) w [AboutToFinish; Deliver; Deliver] in
  settled_on w' x /\ pstate w' = Playing /\ World.tl w' = World.tl wt
  /\ events w' = EvStarted x :: EvStateChanged Playing Playing :: EvEnded c len :: events wt.
Proof.
  intros [Hq Hp Hpp Hsa Hsp Hpf Hc Hb Ha] Hst Hco Hk E1. rewrite Hst in Ha. destruct Ha as [Hu Has].
  cbv zeta. unfold run_world. cbn [fold_left].
  assert (Hbx : forall w0, tkinds w0 = tkinds wt -> tkind_has_backend (kind_of w0 (trk x)) = true).
  { intros w0 E. unfold kind_of in *. rewrite E, Hk. reflexivity. }
  set (w1 := fx_about_to_finish x len wt) in *.
  assert (G1 : get_time_position w1 = (Ok (a_pos w1), fx_gtp w1)).
  { apply (gtp_run w1 c); [exact Hpp|exact Hc|exact Hb]. }
  rewrite (stepw_eq shuf (S f) AboutToFinish w RNone w1 _ _ (run_op_bind_none _ w tt w1 E1) G1).
  set (w1' := fx_gtp w1).
  assert (Q1 : queue w1' = [NPositionChanged 0; NStreamChanged (Some (trk x))]).
  { unfold w1', w1, fx_gtp, fx_about_to_finish, fx_tail, fx_handler, fx_attempt. cbn. rewrite Hq. reflexivity. }
  pose proof (deliver_run shuf (S f) _ _ w1' Q1) as D1. cbv beta iota in D1.
  rewrite position_changed_noop in D1 by exact Hpp.
  set (w2 := w1' <| queue := [NStreamChanged (Some (trk x))] |>) in *.
  assert (G2 : get_time_position w2 = (Ok (a_pos w2), fx_gtp w2)).
  { apply (gtp_run w2 c); [exact Hpp|exact Hc|exact Hb]. }
  rewrite (stepw_eq shuf (S f) Deliver w1' RNone w2 _ _ (run_op_bind_none _ w1' tt w2 D1) G2).
  set (w2' := fx_gtp w2).
  assert (Q2 : queue w2' = [NStreamChanged (Some (trk x))]) by reflexivity.
  pose proof (deliver_run shuf (S f) _ _ w2' Q2) as D2. cbv beta iota in D2.
  set (w2q := w2' <| queue := [] |>) in *.
  assert (S2 : on_stream_changed shuf (S f) w2q = (Ok tt, fx_promote x c len w2q)).
  { apply stream_changed_run; try reflexivity; unfold w2q, w2', w2, w1', w1; cbn; assumption. }
  rewrite S2 in D2.
  set (w3 := fx_promote x c len w2q) in *.
  assert (G3 : get_time_position w3 = (Ok (a_pos w3), fx_gtp w3)).
  { apply (gtp_run w3 x); [exact Hpp|reflexivity|apply Hbx; reflexivity]. }
  rewrite (stepw_eq shuf (S f) Deliver w2' RNone w3 _ _ (run_op_bind_none _ w2' tt w3 D2) G3).
  split; [|split; [reflexivity|split; [reflexivity|]]].
  - constructor; try reflexivity; try assumption.
    + apply Hbx. reflexivity.
    + cbn. split; [reflexivity|exact Has].
  - cbn. rewrite Hst. reflexivity.
Qed.

Theorem eot_skips_unplayable f us pre c x post len w :
  World.tl w = pre ++ c :: us ++ x :: post -> NoDup (map tlid (World.tl w)) ->
  settled_on w c -> pstate w = Playing -> sequential w -> a_atf_done w = false ->
  len_of w (trk c) = Some len -> script w = [] ->
  (forall u, In u us -> kind_of w (trk u) <> Playable) -> kind_of w (trk x) = Playable ->
  let w' := run_world shuf (S (length us + f)) w [AboutToFinish; Deliver; Deliver] in
  current w' = Some x /\ pstate w' = Playing /\ pending w' = None /\ queue w' = []
  /\ a_uri w' = Some (trk x) /\ a_state w' = Playing /\ World.tl w' = World.tl w
  /\ events w' = EvStarted x :: EvStateChanged Playing Playing :: EvEnded c len :: events w.
Proof.
  intros Ht Hnd Hso Hst Hseq Hd Hlen Hscr Hus Hkx.
  pose proof Hso as [Hq Hp Hpp Hsa Hsp Hpf Hc Hb Ha]. rewrite Hst in Ha. destruct Ha as [Hu Has].
  set (w0 := w <| a_uri := None |>).
  assert (Hscr0 : script (w0 <| last_position := Some len |>) = []) by exact Hscr.
  destruct (refuse_all_form us _ Hscr0) as (n & l & EF).
  set (wt := logged n l w).
  (* the handler's result is the accepted preload on top of the refusals *)
  assert (EH : on_about_to_finish shuf (S (length us + f)) w0 = (Ok tt, fx_handler x len wt)).
  { assert (Hns : pstate w0 <> Stopped) by (change (pstate w0) with (pstate w); rewrite Hst; discriminate).
    pose proof (atf_handler_skips f us pre c x post len w0 Ht Hnd Hseq Hns Hc Hlen eq_refl Hus Hkx Hscr) as EH0.
    rewrite EH0. rewrite EF. reflexivity. }
  assert (E1 : about_to_finish shuf (S (length us + f)) w = (Ok tt, fx_about_to_finish x len wt)).
  { unfold about_to_finish.
    assert (E0 : get w = (Ok w, w)) by reflexivity. step E0.
    rewrite Hu, Has, Hd. cbn [ps_eqb negb andb].
    assert (E2 : modify (fun w => w <| a_uri := None |>) w = (Ok tt, w0)) by reflexivity. step E2.
    step EH.
    exact (atf_tail_run (trk c) (trk x) (fx_handler x len wt) eq_refl Has). }
  assert (Hsot : settled_on wt c).
  { constructor; try assumption. change (pstate wt) with (pstate w). rewrite Hst. split; assumption. }
  destruct (eot_block_from (length us + f) x c len w wt Hsot Hst (proj1 Hseq) Hkx E1) as (R1 & R2 & R3 & R4).
  destruct R1 as [Q1 Q2 Q3 Q4 Q5 Q6 Q7 Q8 Q9]. cbv zeta.
  rewrite R2 in Q9. destruct Q9 as [Q9 Q10].
  repeat split; assumption.
Qed.


(* ---- play(tlid) of an unplayable entry: the loop goes on to the following entries *)

Lemma play_loop_skips : forall us f pre c0 x post count w,
  World.tl w = pre ++ us ++ x :: post -> NoDup (map tlid (World.tl w)) ->
  consume w = false -> random w = false -> repeat w = false ->
  pending_position w = None -> current w = Some c0 -> tkind_has_backend (kind_of w (trk c0)) = true ->
  (forall u, In u us -> kind_of w (trk u) <> Playable) ->
  kind_of w (trk x) = Playable -> script w = [] ->
  zlen us < count ->
  exists wk, play_loop shuf (S (length us + f)) (Some (hd x us)) count w = (Ok tt, fx_change x Playing wk)
             /\ skipped w wk.
Proof.
  induction us as [|u r IH]; intros f pre c0 x post count w Ht Hnd Hco Hr Hrp Hpp Hc Hb Hus Hkx Hscr Hcount.
  - cbn [length Nat.add play_loop hd].
    assert (Hacc : accepts w x) by (split; [exact Hkx|rewrite Hscr; reflexivity]).
    rewrite (bind_ok _ _ w true _ (change_run shuf x Playing w c0 Hpp Hc Hb Hacc)).
    exists w. split; [reflexivity|apply skipped_refl].
  - cbn [length Nat.add play_loop hd].
    destruct (change_refused_run shuf u Playing c0 w (Hus u (or_introl eq_refl)) Hpp Hc Hb) as (w1 & E1 & S1).
    rewrite (bind_ok _ _ w false w1 E1).
    pose proof S1 as S1'. destruct S1 as [A1 A2 A3 A4 A5 A7 A8 A9 A10 A11 A12 A13 A14 A15 A16 A17 A18 A19].
    rewrite (bind_ok _ _ w1 tt w1 (mark_unplayable_noop shuf u w1 (eq_trans A9 Hco) (eq_trans A10 Hr))).
    assert (Ht1 : World.tl w1 = pre ++ u :: hd x r :: List.tl (r ++ x :: post)).
    { rewrite A13, Ht. destruct r; reflexivity. }
    assert (Hn : next_track shuf (Some u) w1 = (Ok (Some (hd x r)), w1)).
    { apply (next_seq shuf pre u (hd x r) (List.tl (r ++ x :: post)) w1); [exact Ht1|rewrite A13; exact Hnd|congruence|congruence]. }
    rewrite (bind_ok _ _ w1 _ w1 Hn). cbv zeta.
    pose proof (zlen_nonneg r) as Hz. rewrite zlen_cons in Hcount.
    assert (Hc1 : (count - 1 =? 0) = false) by (clear - Hz Hcount; lia). rewrite Hc1.
    assert (Hk1 : forall y, kind_of w1 (trk y) = kind_of w (trk y)) by (intros y; unfold kind_of; rewrite A7; reflexivity).
    destruct (IH f (pre ++ [u]) c0 x post (count - 1) w1) as (wk & Ek & Sk).
    + rewrite A13, Ht, <- app_assoc. reflexivity.
    + rewrite A13. exact Hnd.
    + congruence.
    + congruence.
    + congruence.
    + congruence.
    + congruence.
    + rewrite Hk1. exact Hb.
    + intros y Hy. rewrite Hk1. apply Hus. right. exact Hy.
    + rewrite Hk1. exact Hkx.
    + apply A17. exact Hscr.
    + clear - Hz Hcount; lia.
    + exists wk. split; [exact Ek|]. eapply skipped_trans; [exact S1'|exact Sk].
Qed.

Theorem play_skips_unplayable f u us pre c x post w :
  World.tl w = pre ++ (u :: us) ++ x :: post -> NoDup (map tlid (World.tl w)) -> 1 <= tlid u ->
  settled_on w c -> consume w = false -> random w = false -> repeat w = false ->
  script w = [] -> (forall y, In y (u :: us) -> kind_of w (trk y) <> Playable) -> kind_of w (trk x) = Playable ->
  let w' := run_world shuf (S (length (u :: us) + f)) w [Play (Some (tlid u)); Deliver; Deliver; Deliver; Deliver] in
  current w' = Some x /\ pstate w' = Playing /\ pending w' = None /\ queue w' = []
  /\ a_uri w' = Some (trk x) /\ a_state w' = Playing /\ World.tl w' = World.tl w.
Proof.
  intros Ht Hnd Hi [Hq Hp Hpp Hsa Hsp Hpf Hc Hb Ha] Hco Hr Hrp Hscr Hus Hkx.
  assert (Hcount : zlen (u :: us) < zlen (World.tl w) * 2).
  { rewrite Ht, zlen_app, zlen_app, !zlen_cons.
    pose proof (zlen_nonneg pre) as Hz1. pose proof (zlen_nonneg us) as Hz2. pose proof (zlen_nonneg post) as Hz3.
    clear - Hz1 Hz2 Hz3. lia. }
  destruct (play_loop_skips (u :: us) f pre c x post (zlen (World.tl w) * 2) w Ht Hnd Hco Hr Hrp Hpp Hc Hb Hus Hkx Hscr Hcount)
    as (wk & Ek & Sk).
  cbn [hd] in Ek.
  assert (Hf : find (fun y => tlid y =? tlid u) (World.tl w) = Some u).
  { apply find_by_tlid; [exact Hnd|]. rewrite Ht. apply in_or_app. right. left. reflexivity. }
  assert (E1 : play shuf (S (length (u :: us) + f)) (Some (tlid u)) w = (Ok tt, fx_change x Playing wk)).
  { unfold play.
    assert (E0 : get w = (Ok w, w)) by reflexivity. step E0. cbv beta iota.
    replace (tlid u <? 1) with false by lia.
    assert (E2 : ret tt w = (Ok tt, w)) by reflexivity. step E2.
    rewrite Hf. cbn [orelse].
    assert (E3 : ret (Some u) w = (Ok (Some u), w)) by reflexivity. step E3.
    step E0. exact Ek. }
  destruct Sk as [A1 A2 A3 A4 A5 A7 A8 A9 A10 A11 A12 A13 A14 A15 A16 A17 A18 A19].
  assert (Hbk : tkind_has_backend (kind_of wk (trk c)) = true) by (unfold kind_of in *; rewrite A7; exact Hb).
  assert (Hacc : accepts wk x).
  { split; [unfold kind_of in *; rewrite A7; exact Hkx|rewrite (A17 Hscr); reflexivity]. }
  set (w1 := fx_change x Playing wk) in *.
  assert (G1 : get_time_position w1 = (Ok (a_pos w1), fx_gtp w1)).
  { apply (gtp_run w1 c); [change (pending_position wk = None); rewrite A2; exact Hpp|change (current wk = Some c); rewrite A5; exact Hc|exact Hbk]. }
  cbv zeta. rewrite run_world_cons.
  rewrite (stepw_eq shuf _ (Play (Some (tlid u))) w RNone w1 _ _ (run_op_bind_none _ w tt w1 E1) G1).
  destruct (change_settles shuf (length (u :: us) + f) x c wk) as (R1 & R2 & R3 & R4 & R5 & R6 & R7); try congruence.
  repeat split; try assumption. rewrite <- A13. exact R7.
Qed.


(* ---- previous(): the loop walks backwards over a run of unplayable entries *)

Lemma nth_z_app_at {A} (pre : list A) x rest : nth_z (pre ++ x :: rest) (zlen pre) = Some x.
Proof.
  unfold nth_z. pose proof (zlen_nonneg pre). replace (zlen pre <? 0) with false by lia.
  unfold zlen. rewrite Nat2Z.id. rewrite nth_error_app2 by lia. rewrite Nat.sub_diag. reflexivity.
Qed.

Lemma previous_seq pre x c post w :
  World.tl w = pre ++ x :: c :: post -> NoDup (map tlid (World.tl w)) ->
  consume w = false -> random w = false -> repeat w = false ->
  previous_track (Some c) w = (Ok (Some x), w).
Proof.
  intros Ht Hnd Hco Hr Hrp.
  unfold previous_track, tl_index, bind, get, ret. rewrite Hrp, Hco, Hr. cbn [orb].
  rewrite Ht. unfold py_index.
  replace (pre ++ x :: c :: post) with ((pre ++ [x]) ++ c :: post) by (rewrite <- app_assoc; reflexivity).
  rewrite index_from_skip.
  2: { apply (nodup_prefix_ne (pre ++ [x]) c post). rewrite <- app_assoc. cbn [app]. rewrite <- Ht. exact Hnd. }
  rewrite zlen_app, zlen_cons. change (zlen (@nil tlt)) with 0. pose proof (zlen_nonneg pre) as Hz.
  replace (0 + (zlen pre + (0 + 1)) =? 0) with false by (clear - Hz; lia).
  replace (0 + (zlen pre + (0 + 1)) - 1) with (zlen pre) by (clear - Hz; lia).
  rewrite <- app_assoc. cbn [app]. rewrite nth_z_app_at. reflexivity.
Qed.

Lemma previous_loop_skips : forall us f pre c0 c x post count w,
  World.tl w = pre ++ x :: rev us ++ c :: post -> NoDup (map tlid (World.tl w)) ->
  consume w = false -> random w = false -> repeat w = false ->
  pending_position w = None -> current w = Some c0 -> tkind_has_backend (kind_of w (trk c0)) = true ->
  (forall u, In u us -> kind_of w (trk u) <> Playable) ->
  kind_of w (trk x) = Playable -> script w = [] ->
  zlen us < count ->
  exists wk, previous_loop shuf (S (length us + f)) (Some c) (pstate w) count w = (Ok tt, fx_change x (pstate w) wk)
             /\ skipped w wk.
Proof.
  induction us as [|u r IH]; intros f pre c0 c x post count w Ht Hnd Hco Hr Hrp Hpp Hc Hb Hus Hkx Hscr Hcount.
  - cbn [length Nat.add previous_loop rev app] in *.
    assert (Hn : previous_track (Some c) w = (Ok (Some x), w)) by (apply (previous_seq pre x c post w); assumption).
    rewrite (bind_ok _ _ w (Some x) w Hn).
    assert (Hacc : accepts w x) by (split; [exact Hkx|rewrite Hscr; reflexivity]).
    rewrite (bind_ok _ _ w true _ (change_run shuf x (pstate w) w c0 Hpp Hc Hb Hacc)).
    exists w. split; [reflexivity|apply skipped_refl].
  - cbn [length Nat.add previous_loop rev] in *.
    assert (Ht' : World.tl w = (pre ++ x :: rev r) ++ u :: c :: post).
    { rewrite Ht. rewrite <- !app_assoc. reflexivity. }
    assert (Hn : previous_track (Some c) w = (Ok (Some u), w)).
    { apply (previous_seq (pre ++ x :: rev r) u c post w); assumption. }
    rewrite (bind_ok _ _ w (Some u) w Hn).
    destruct (change_refused_run shuf u (pstate w) c0 w (Hus u (or_introl eq_refl)) Hpp Hc Hb) as (w1 & E1 & S1).
    rewrite (bind_ok _ _ w false w1 E1).
    pose proof S1 as S1'. destruct S1 as [A1 A2 A3 A4 A5 A7 A8 A9 A10 A11 A12 A13 A14 A15 A16 A17 A18 A19].
    rewrite (bind_ok _ _ w1 tt w1 (mark_unplayable_noop shuf u w1 (eq_trans A9 Hco) (eq_trans A10 Hr))).
    cbv zeta. pose proof (zlen_nonneg r) as Hz. rewrite zlen_cons in Hcount.
    assert (Hc1 : (count - 1 <=? 0) = false) by (clear - Hz Hcount; lia). rewrite Hc1.
    assert (Hk1 : forall y, kind_of w1 (trk y) = kind_of w (trk y)) by (intros y; unfold kind_of; rewrite A7; reflexivity).
    destruct (IH f pre c0 u x (c :: post) (count - 1) w1) as (wk & Ek & Sk).
    + rewrite A13, Ht'. rewrite <- app_assoc. reflexivity.
    + rewrite A13. exact Hnd.
    + congruence.
    + congruence.
    + congruence.
    + congruence.
    + congruence.
    + rewrite Hk1. exact Hb.
    + intros y Hy. rewrite Hk1. apply Hus. right. exact Hy.
    + rewrite Hk1. exact Hkx.
    + apply A17. exact Hscr.
    + clear - Hz Hcount; lia.
    + rewrite A15 in Ek. exists wk. split; [exact Ek|]. eapply skipped_trans; [exact S1'|exact Sk].
Qed.

Theorem previous_skips_unplayable f us pre c x post w :
  World.tl w = pre ++ x :: rev us ++ c :: post -> NoDup (map tlid (World.tl w)) ->
  settled_on w c -> pstate w = Playing -> consume w = false -> random w = false -> repeat w = false ->
  script w = [] -> (forall u, In u us -> kind_of w (trk u) <> Playable) -> kind_of w (trk x) = Playable ->
  let w' := run_world shuf (S (length us + f)) w [Previous; Deliver; Deliver; Deliver; Deliver] in
  current w' = Some x /\ pstate w' = Playing /\ pending w' = None /\ queue w' = []
  /\ a_uri w' = Some (trk x) /\ a_state w' = Playing /\ World.tl w' = World.tl w.
Proof.
  intros Ht Hnd [Hq Hp Hpp Hsa Hsp Hpf Hc Hb Ha] Hst Hco Hr Hrp Hscr Hus Hkx.
  assert (Hcount : zlen us < zlen (World.tl w) * 2).
  { assert (Hrev : zlen (rev us) = zlen us) by (unfold zlen; rewrite rev_length; reflexivity).
    rewrite Ht, zlen_app, zlen_cons, zlen_app, zlen_cons, Hrev.
    pose proof (zlen_nonneg pre) as Hz1. pose proof (zlen_nonneg us) as Hz2. pose proof (zlen_nonneg post) as Hz3.
    clear - Hz1 Hz2 Hz3. lia. }
  set (wf := w <| previous_flag := true |>).
  destruct (previous_loop_skips us f pre c c x post (zlen (World.tl w) * 2) wf Ht Hnd Hco Hr Hrp Hpp Hc Hb Hus Hkx Hscr Hcount)
    as (wk & Ek & Sk).
  assert (E1 : previous shuf (S (length us + f)) w = (Ok tt, fx_change x Playing wk)).
  { unfold previous.
    assert (E0 : modify (fun w => w <| previous_flag := true |>) w = (Ok tt, wf)) by reflexivity. step E0.
    assert (E2 : get wf = (Ok wf, wf)) by reflexivity. step E2.
    change (pending wf) with (pending w). change (current wf) with (current w). rewrite Hp, Hc. cbn [orelse].
    change (pstate wf) with (pstate w) in *. rewrite Hst in Ek. rewrite Hst. exact Ek. }
  destruct Sk as [A1 A2 A3 A4 A5 A7 A8 A9 A10 A11 A12 A13 A14 A15 A16 A17 A18 A19].
  assert (Hbk : tkind_has_backend (kind_of wk (trk c)) = true) by (unfold kind_of in *; rewrite A7; exact Hb).
  assert (Hacc : accepts wk x).
  { split; [unfold kind_of in *; rewrite A7; exact Hkx|rewrite (A17 Hscr); reflexivity]. }
  set (w1 := fx_change x Playing wk) in *.
  assert (G1 : get_time_position w1 = (Ok (a_pos w1), fx_gtp w1)).
  { apply (gtp_run w1 c); [change (pending_position wk = None); rewrite A2; exact Hpp|change (current wk = Some c); rewrite A5; exact Hc|exact Hbk]. }
  cbv zeta. rewrite run_world_cons.
  rewrite (stepw_eq shuf _ Previous w RNone w1 _ _ (run_op_bind_none _ w tt w1 E1) G1).
  assert (F1 : queue wf = queue w) by reflexivity. assert (F2 : pending_position wf = pending_position w) by reflexivity.
  assert (F3 : start_at_position wf = start_at_position w) by reflexivity. assert (F4 : start_paused wf = start_paused w) by reflexivity.
  assert (F5 : current wf = current w) by reflexivity. assert (F6 : consume wf = consume w) by reflexivity.
  assert (F7 : World.tl wf = World.tl w) by reflexivity.
  destruct (change_settles shuf (length us + f) x c wk) as (R1 & R2 & R3 & R4 & R5 & R6 & R7); try congruence.
  repeat split; try assumption. transitivity (World.tl wk); [exact R7|rewrite A13; reflexivity].
Qed.

End P.

(* ---- random mode: next() walks over unplayable entries at the head of the shuffle order *)
Section R.
Variable shuf : Z -> list tlt -> list tlt.

Lemma change_refused_run_sh u st c w :
  kind_of w (trk u) <> Playable -> pending_position w = None -> current w = Some c ->
  tkind_has_backend (kind_of w (trk c)) = true ->
  exists w', change shuf (Some u) st w = (Ok false, w') /\ skipped w w' /\ shuffled w' = shuffled w.
Proof.
  intros Hk Hpp Hc Hb. unfold change.
  set (w0 := w <| pending := Some u |>).
  assert (E0 : modify (fun w => w <| pending := Some u |>) w = (Ok tt, w0)) by reflexivity.
  rewrite (bind_ok _ _ w tt w0 E0).
  assert (E1 : get w0 = (Ok w0, w0)) by reflexivity. rewrite (bind_ok _ _ w0 w0 w0 E1).
  unfold has_backend. change (kind_of w0 (trk u)) with (kind_of w (trk u)).
  destruct (tkind_has_backend (kind_of w (trk u))) eqn:Ehb; cbn [negb].
  - assert (E2 : get_time_position w0 = (Ok (a_pos w0), fx_gtp w0)).
    { apply (gtp_run w0 c); [exact Hpp|exact Hc|exact Hb]. }
    rewrite (bind_ok _ _ w0 _ _ E2).
    set (w2 := (fx_gtp w0) <| last_position := Some (a_pos w0) |>).
    assert (E3 : modify (fun w => w <| last_position := Some (a_pos w0) |>) (fx_gtp w0) = (Ok tt, w2)) by reflexivity.
    rewrite (bind_ok _ _ _ tt w2 E3).
    rewrite (bind_ok _ _ w2 tt _ (prepare_run w2)).
    set (w3 := fx_prepare w2).
    set (w4 := fx_attempt_refused (trk u) w3).
    assert (E4 : attempt_change (trk u) w3 = (Ok false, w4)).
    { apply attempt_refused_run. change (kind_of w3 (trk u)) with (kind_of w (trk u)).
      destruct (kind_of w (trk u)); [contradiction|reflexivity..]. }
    rewrite (bind_ok _ _ w3 false w4 E4). cbn [negb].
    eexists. split; [reflexivity|]. split; [|reflexivity].
    constructor; try reflexivity. intros Hs. cbn. cbn in Hs. rewrite Hs. reflexivity.
  - eexists. split; [reflexivity|]. split; [|reflexivity]. constructor; try reflexivity. intros Hs. exact Hs.
Qed.

Lemma mark_unplayable_random u r w :
  consume w = false -> random w = true -> shuffled w = u :: r ->
  mark_unplayable shuf (Some u) w = (Ok tt, w <| shuffled := r |>).
Proof.
  intros Hco Hr Hsh. unfold mark_unplayable, bind, get, modify, ret. rewrite Hco. cbn -[mem_tlt remove_first].
  rewrite Hr, Hsh, mem_tlt_head. cbn -[remove_first]. rewrite Hsh, remove_first_head. reflexivity.
Qed.

Lemma next_random_head cur x rest w :
  World.tl w <> [] -> random w = true -> shuffled w = x :: rest ->
  next_track shuf cur w = (Ok (Some x), w).
Proof.
  intros Hne Hr Hsh. unfold next_track, bind, get, ret.
  destruct (World.tl w) eqn:Et; [contradiction|]. rewrite Hr, Hsh. cbn. rewrite Hr, Hsh. reflexivity.
Qed.

Lemma next_loop_skips_random : forall us f c0 cur x rest count w,
  World.tl w <> [] -> shuffled w = us ++ x :: rest ->
  consume w = false -> random w = true ->
  pending_position w = None -> current w = Some c0 -> tkind_has_backend (kind_of w (trk c0)) = true ->
  (forall u, In u us -> kind_of w (trk u) <> Playable) ->
  kind_of w (trk x) = Playable -> script w = [] ->
  zlen us < count ->
  exists wk, next_loop shuf (S (length us + f)) (Some cur) (pstate w) count w = (Ok tt, fx_change x (pstate w) wk)
             /\ skipped w wk /\ shuffled wk = x :: rest.
Proof.
  induction us as [|u r IH]; intros f c0 cur x rest count w Hne Hsh Hco Hr Hpp Hc Hb Hus Hkx Hscr Hcount.
  - cbn [length Nat.add next_loop app] in *.
    rewrite (bind_ok _ _ w (Some x) w (next_random_head (Some cur) x rest w Hne Hr Hsh)).
    assert (Hacc : accepts w x) by (split; [exact Hkx|rewrite Hscr; reflexivity]).
    rewrite (bind_ok _ _ w true _ (change_run shuf x (pstate w) w c0 Hpp Hc Hb Hacc)).
    exists w. split; [reflexivity|split; [apply skipped_refl|exact Hsh]].
  - cbn [length Nat.add next_loop app] in *.
    rewrite (bind_ok _ _ w (Some u) w (next_random_head (Some cur) u (r ++ x :: rest) w Hne Hr Hsh)).
    destruct (change_refused_run_sh u (pstate w) c0 w (Hus u (or_introl eq_refl)) Hpp Hc Hb) as (w1 & E1 & S1 & Sh1).
    rewrite (bind_ok _ _ w false w1 E1).
    pose proof S1 as S1'. destruct S1 as [A1 A2 A3 A4 A5 A7 A8 A9 A10 A11 A12 A13 A14 A15 A16 A17 A18 A19].
    set (w2 := w1 <| shuffled := r ++ x :: rest |>).
    assert (E2 : mark_unplayable shuf (Some u) w1 = (Ok tt, w2)).
    { apply mark_unplayable_random; [congruence|congruence|rewrite Sh1; exact Hsh]. }
    rewrite (bind_ok _ _ w1 tt w2 E2).
    cbv zeta. pose proof (zlen_nonneg r) as Hz. rewrite zlen_cons in Hcount.
    assert (Hc1 : (count - 1 =? 0) = false) by (clear - Hz Hcount; lia). rewrite Hc1.
    assert (S2 : skipped w w2).
    { eapply skipped_trans; [exact S1'|]. constructor; try reflexivity. intros Hs; exact Hs. }
    assert (Hk1 : forall y, kind_of w2 (trk y) = kind_of w (trk y)) by (intros y; unfold kind_of; change (tkinds w2) with (tkinds w1); rewrite A7; reflexivity).
    destruct (IH f c0 u x rest (count - 1) w2) as (wk & Ek & Sk & Shk).
    + change (World.tl w2) with (World.tl w1). rewrite A13. exact Hne.
    + reflexivity.
    + change (consume w2) with (consume w1). congruence.
    + change (random w2) with (random w1). congruence.
    + change (pending_position w2) with (pending_position w1). congruence.
    + change (current w2) with (current w1). congruence.
    + rewrite Hk1. exact Hb.
    + intros y Hy. rewrite Hk1. apply Hus. right. exact Hy.
    + rewrite Hk1. exact Hkx.
    + change (script w2) with (script w1). apply A17. exact Hscr.
    + clear - Hz Hcount; lia.
    + change (pstate w2) with (pstate w1) in Ek. rewrite A15 in Ek. exists wk. split; [exact Ek|].
      split; [eapply skipped_trans; [exact S2|exact Sk]|exact Shk].
Qed.

Theorem next_skips_unplayable_random f us c x rest w :
  World.tl w <> [] -> shuffled w = us ++ x :: rest -> zlen us < zlen (World.tl w) * 2 ->
  settled_on w c -> pstate w = Playing -> consume w = false -> random w = true ->
  script w = [] -> (forall u, In u us -> kind_of w (trk u) <> Playable) -> kind_of w (trk x) = Playable ->
  let w' := run_world shuf (S (length us + f)) w [Next; Deliver; Deliver; Deliver; Deliver] in
  current w' = Some x /\ pstate w' = Playing /\ pending w' = None /\ queue w' = []
  /\ a_uri w' = Some (trk x) /\ a_state w' = Playing /\ World.tl w' = World.tl w.
Proof.
  intros Hne Hsh Hcount [Hq Hp Hpp Hsa Hsp Hpf Hc Hb Ha] Hst Hco Hr Hscr Hus Hkx.
  destruct (next_loop_skips_random us f c c x rest (zlen (World.tl w) * 2) w Hne Hsh Hco Hr Hpp Hc Hb Hus Hkx Hscr Hcount)
    as (wk & Ek & Sk & _).
  assert (E1 : next shuf (S (length us + f)) w = (Ok tt, fx_change x Playing wk)).
  { unfold next. assert (E0 : get w = (Ok w, w)) by reflexivity. rewrite (bind_ok _ _ w w w E0).
    rewrite Hp, Hc. cbn [orelse]. rewrite Hst in Ek. rewrite Hst. exact Ek. }
  destruct Sk as [A1 A2 A3 A4 A5 A7 A8 A9 A10 A11 A12 A13 A14 A15 A16 A17 A18 A19].
  assert (Hbk : tkind_has_backend (kind_of wk (trk c)) = true) by (unfold kind_of in *; rewrite A7; exact Hb).
  assert (Hacc : accepts wk x).
  { split; [unfold kind_of in *; rewrite A7; exact Hkx|rewrite (A17 Hscr); reflexivity]. }
  set (w1 := fx_change x Playing wk) in *.
  assert (G1 : get_time_position w1 = (Ok (a_pos w1), fx_gtp w1)).
  { apply (gtp_run w1 c); [change (pending_position wk = None); rewrite A2; exact Hpp|change (current wk = Some c); rewrite A5; exact Hc|exact Hbk]. }
  cbv zeta. rewrite run_world_cons.
  rewrite (stepw_eq shuf _ Next w RNone w1 _ _ (run_op_bind_none _ w tt w1 E1) G1).
  destruct (change_settles shuf (length us + f) x c wk) as (R1 & R2 & R3 & R4 & R5 & R6 & R7); try congruence.
  repeat split; try assumption. transitivity (World.tl wk); [exact R7|exact A13].
Qed.

End R.

(* ---- random mode, natural end of a track: the handler walks over unplayable entries at the
   head of the shuffle order *)
Section RE.
Variable shuf : Z -> list tlt -> list tlt.

Lemma eot_random_head u x rest w :
  World.tl w <> [] -> random w = true -> single w = false -> shuffled w = x :: rest ->
  eot_track shuf u w = (Ok (Some x), w).
Proof.
  intros Hne Hr Hs Hsh. unfold eot_track. unfold bind at 1. unfold get at 1. rewrite Hs. cbn [andb].
  apply (next_random_head shuf u x rest w); assumption.
Qed.

Lemma refuse1_fields_sh u w :
  World.tl (refuse1 u w) = World.tl w /\ tkinds (refuse1 u w) = tkinds w
  /\ consume (refuse1 u w) = consume w /\ random (refuse1 u w) = random w
  /\ single (refuse1 u w) = single w /\ shuffled (refuse1 u w) = shuffled w
  /\ a_uri (refuse1 u w) = a_uri w /\ (script w = [] -> script (refuse1 u w) = []).
Proof.
  unfold refuse1. destruct (tkind_has_backend (kind_of w (trk u))); repeat split; auto.
  intros Hs. cbn. rewrite Hs. reflexivity.
Qed.

Lemma refuse_all_shuffled us : forall w sh, refuse_all us (w <| shuffled := sh |>) = refuse_all us w <| shuffled := sh |>.
Proof.
  induction us as [|u r IH]; intros w sh; cbn [refuse_all]; [reflexivity|].
  assert (E : refuse1 u (w <| shuffled := sh |>) = refuse1 u w <| shuffled := sh |>).
  { unfold refuse1. change (kind_of (w <| shuffled := sh |>) (trk u)) with (kind_of w (trk u)).
    destruct (tkind_has_backend (kind_of w (trk u))); reflexivity. }
  rewrite E. apply IH.
Qed.

Lemma atf_loop_skips_random : forall us f x rest count w,
  World.tl w <> [] -> shuffled w = us ++ x :: rest ->
  consume w = false -> random w = true -> single w = false ->
  (forall u, In u us -> kind_of w (trk u) <> Playable) ->
  kind_of w (trk x) = Playable -> script w = [] -> a_uri w = None ->
  zlen us < count ->
  atf_loop shuf (S (length us + f)) (Some (hd x us)) count w
  = (Ok tt, fx_attempt (trk x) (refuse_all us w <| shuffled := x :: rest |>) <| pending := Some x |>).
Proof.
  induction us as [|u r IH]; intros f x rest count w Hne Hsh Hco Hr Hsg Hus Hkx Hscr Hu Hcount.
  - cbn [length Nat.add atf_loop hd refuse_all app] in *.
    assert (E0 : get w = (Ok w, w)) by reflexivity. step E0.
    assert (Hb : has_backend w (Some x) = true) by (unfold has_backend; rewrite Hkx; reflexivity).
    rewrite Hb.
    assert (E1 : attempt_change (trk x) w = (Ok true, fx_attempt (trk x) w)).
    { apply attempt_run; [exact Hkx|rewrite Hscr; reflexivity|exact Hu]. }
    step E1. unfold modify. f_equal. unfold fx_attempt. world_eq. exact Hsh.
  - cbn [length Nat.add atf_loop hd refuse_all app] in *.
    assert (E0 : get w = (Ok w, w)) by reflexivity. step E0.
    pose proof (refuse1_run u w (Hus u (or_introl eq_refl))) as E1. step E1.
    set (w1 := refuse1 u w) in *.
    destruct (refuse1_fields_sh u w) as (F1 & F2 & F3 & F4 & F5 & F6 & F7 & F8). fold w1 in F1, F2, F3, F4, F5, F6, F7, F8.
    set (w2 := w1 <| shuffled := r ++ x :: rest |>).
    assert (E2 : mark_unplayable shuf (Some u) w1 = (Ok tt, w2)).
    { apply (mark_unplayable_random shuf u (r ++ x :: rest) w1); [congruence|congruence|rewrite F6; exact Hsh]. }
    step E2.
    assert (Hn : eot_track shuf (Some u) w2 = (Ok (Some (hd x r)), w2)).
    { apply (eot_random_head (Some u) (hd x r) (List.tl (r ++ x :: rest)) w2).
      - change (World.tl w2) with (World.tl w1). rewrite F1. exact Hne.
      - change (random w2) with (random w1). congruence.
      - change (single w2) with (single w1). congruence.
      - cbn. destruct r; reflexivity. }
    step Hn. cbv zeta.
    pose proof (zlen_nonneg r) as Hz. rewrite zlen_cons in Hcount.
    assert (Hc1 : (count - 1 <=? 0) = false) by (clear - Hz Hcount; lia). rewrite Hc1.
    assert (Hk1 : forall y, kind_of w2 (trk y) = kind_of w (trk y)) by (intros y; unfold kind_of; change (tkinds w2) with (tkinds w1); rewrite F2; reflexivity).
    rewrite (IH f x rest (count - 1) w2).
    + unfold w2. rewrite refuse_all_shuffled. reflexivity.
    + change (World.tl w2) with (World.tl w1). rewrite F1. exact Hne.
    + reflexivity.
    + change (consume w2) with (consume w1). congruence.
    + change (random w2) with (random w1). congruence.
    + change (single w2) with (single w1). congruence.
    + intros y Hy. rewrite Hk1. apply Hus. right. exact Hy.
    + rewrite Hk1. exact Hkx.
    + change (script w2) with (script w1). apply F8. exact Hscr.
    + change (a_uri w2) with (a_uri w1). congruence.
    + clear - Hz Hcount; lia.
Qed.

Theorem eot_skips_unplayable_random f us c x rest len w :
  World.tl w <> [] -> shuffled w = us ++ x :: rest -> zlen us < zlen (World.tl w) * 2 ->
  settled_on w c -> pstate w = Playing -> consume w = false -> random w = true -> single w = false ->
  a_atf_done w = false -> len_of w (trk c) = Some len -> script w = [] ->
  (forall u, In u us -> kind_of w (trk u) <> Playable) -> kind_of w (trk x) = Playable ->
  let w' := run_world shuf (S (length us + f)) w [AboutToFinish; Deliver; Deliver] in
  current w' = Some x /\ pstate w' = Playing /\ pending w' = None /\ queue w' = []
  /\ a_uri w' = Some (trk x) /\ a_state w' = Playing /\ World.tl w' = World.tl w
  /\ events w' = EvStarted x :: EvStateChanged Playing Playing :: EvEnded c len :: events w.
Proof.
  intros Hne Hsh Hcount Hso Hst Hco Hr Hsg Hd Hlen Hscr Hus Hkx.
  pose proof Hso as [Hq Hp Hpp Hsa Hsp Hpf Hc Hb Ha]. rewrite Hst in Ha. destruct Ha as [Hu Has].
  set (w0 := w <| a_uri := None |>).
  set (wl := w0 <| last_position := Some len |>).
  assert (Hscr0 : script wl = []) by exact Hscr.
  destruct (refuse_all_form us wl Hscr0) as (n & l & EF).
  set (wt := logged n l w <| shuffled := x :: rest |>).
  assert (EH : on_about_to_finish shuf (S (length us + f)) w0 = (Ok tt, fx_handler x len wt)).
  { unfold on_about_to_finish.
    assert (E0 : get w0 = (Ok w0, w0)) by reflexivity. step E0.
    change (pstate w0) with (pstate w). rewrite Hst. cbn [ps_eqb].
    change (current w0) with (current w). rewrite Hc.
    assert (E1 : modify (fun w1 => w1 <| last_position := len_of w1 (trk c) |>) w0 = (Ok tt, wl)).
    { unfold wl, modify. change (len_of w0 (trk c)) with (len_of w (trk c)). rewrite Hlen. reflexivity. }
    step E1.
    assert (E2 : get wl = (Ok wl, wl)) by reflexivity. step E2.
    change (current wl) with (current w). rewrite Hc.
    assert (He : eot_track shuf (Some c) wl = (Ok (Some (hd x us)), wl)).
    { apply (eot_random_head (Some c) (hd x us) (List.tl (us ++ x :: rest)) wl); try assumption.
      change (shuffled wl) with (shuffled w). rewrite Hsh. destruct us; reflexivity. }
    step He. step E2.
    rewrite (atf_loop_skips_random us f x rest (zlen (World.tl wl) * 2) wl); try assumption; try reflexivity.
    rewrite EF. reflexivity. }
  assert (E1 : about_to_finish shuf (S (length us + f)) w = (Ok tt, fx_about_to_finish x len wt)).
  { unfold about_to_finish.
    assert (E0 : get w = (Ok w, w)) by reflexivity. step E0.
    rewrite Hu, Has, Hd. cbn [ps_eqb negb andb].
    assert (E2 : modify (fun w => w <| a_uri := None |>) w = (Ok tt, w0)) by reflexivity. step E2.
    step EH.
    exact (atf_tail_run (trk c) (trk x) (fx_handler x len wt) eq_refl Has). }
  assert (Hsot : settled_on wt c).
  { constructor; try assumption. change (pstate wt) with (pstate w). rewrite Hst. split; assumption. }
  destruct (eot_block_from shuf (length us + f) x c len w wt Hsot Hst Hco Hkx E1) as (R1 & R2 & R3 & R4).
  destruct R1 as [Q1 Q2 Q3 Q4 Q5 Q6 Q7 Q8 Q9]. cbv zeta.
  rewrite R2 in Q9. destruct Q9 as [Q9 Q10].
  repeat split; assumption.
Qed.

End RE.

(* ---- consume: a refused entry that is dropped from the tracklist is forgotten as current entry *)
Section CD.
Variable shuf : Z -> list tlt -> list tlt.

Lemma mark_unplayable_consume_run u x w :
  consume w = true -> random w = false -> current w = Some u ->
  NoDup (map tlid (World.tl w)) -> In x (World.tl w) -> tlid x <> tlid u ->
  mark_unplayable shuf (Some u) w = (Ok tt, Proofs_C03d.fx_consumed u w).
Proof.
  intros Hco Hr Hc Hnd Hin Hne.
  pose proof (Proofs_C03d.mark_played_consume_run shuf u x w Hco Hr Hc Hnd Hin Hne) as M.
  unfold mark_played in M. unfold bind at 1, get at 1 in M. cbv beta iota in M.
  unfold mark_unplayable. unfold bind at 1. unfold get at 1. cbv beta iota.
  rewrite (bind_ok _ _ w tt _ M).
  unfold bind, get, ret. cbn. rewrite Hr. reflexivity.
Qed.

Theorem consume_dropped_not_current u x w :
  consume w = true -> random w = false -> current w = Some u ->
  NoDup (map tlid (World.tl w)) -> In x (World.tl w) -> tlid x <> tlid u ->
  let w' := snd (mark_unplayable shuf (Some u) w) in
  current w' = None /\ mem_tlt u (World.tl w') = false /\ In x (World.tl w')
  /\ version w' = version w + 1 /\ events w' = EvTracklistChanged :: events w.
Proof.
  intros Hco Hr Hc Hnd Hin Hne. cbv zeta.
  rewrite (mark_unplayable_consume_run u x w Hco Hr Hc Hnd Hin Hne). cbn [snd].
  unfold Proofs_C03d.fx_consumed. cbn. repeat split.
  - apply Proofs_C03d.without_drops. exact Hnd.
  - apply Proofs_C03d.without_keeps; assumption.
Qed.

End CD.
