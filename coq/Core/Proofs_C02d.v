(* C02 agreement clause for edits of the tracklist that leave the playing entry in place:
   add / move / shuffle / remove never touch the playback state, the audio layer or the queue of
   notifications as long as the current entry is still in the tracklist afterwards. *)
From Coq Require Import ZArith List Bool Lia.
From RecordUpdate Require Import RecordSet.
From Common Require Import Res.
From Core Require Import World Hoare Model Step Reach Proofs_C03b CostN.
Import ListNotations RecordSetNotations.
Open Scope Z_scope.

(* everything the agreement clause and the notification handlers look at *)
Record pb_same (w w' : world) : Prop := {
  pb_pstate : pstate w' = pstate w; pb_cur : current w' = current w; pb_pend : pending w' = pending w;
  pb_pp : pending_position w' = pending_position w; pb_sa : start_at_position w' = start_at_position w;
  pb_sp : start_paused w' = start_paused w; pb_prev : previous_flag w' = previous_flag w;
  pb_queue : queue w' = queue w; pb_uri : a_uri w' = a_uri w; pb_astate : a_state w' = a_state w;
  pb_apos : a_pos w' = a_pos w; pb_fresh : a_fresh w' = a_fresh w; pb_atf : a_atf_done w' = a_atf_done w;
  pb_kinds : tkinds w' = tkinds w; pb_lens : tlens w' = tlens w; pb_hist : history w' = history w;
  pb_last : last_position w' = last_position w; pb_bcalls : bcalls w' = bcalls w; pb_acalls : acalls w' = acalls w;
  pb_consume : consume w' = consume w; pb_script : script w' = script w
}.

Lemma pb_refl w : pb_same w w.
Proof. constructor; reflexivity. Qed.
Lemma pb_trans a b c : pb_same a b -> pb_same b c -> pb_same a c.
Proof. intros [] []. constructor; congruence. Qed.

Ltac pb_solver := let w := fresh "w" in intros w; constructor; reflexivity.
Ltac go := relp pb_refl pb_trans pb_solver.

Definition tl_same (w w' : world) : Prop := World.tl w' = World.tl w.
Lemma ts_refl w : tl_same w w. Proof. reflexivity. Qed.
Lemma ts_trans a b c : tl_same a b -> tl_same b c -> tl_same a c.
Proof. unfold tl_same. congruence. Qed.
Ltac ts_solver := let w := fresh "w" in intros w; unfold tl_same; reflexivity.

Section P.
Variable shuf : Z -> list tlt -> list tlt.

Lemma trigger_tracklist_changed_pb : rel pb_same (trigger_tracklist_changed shuf).
Proof. unfold trigger_tracklist_changed, do_shuffle, emit. go. Qed.

Lemma increase_version_tl_same : rel tl_same (increase_version shuf).
Proof.
  unfold increase_version, on_tracklist_change, stop, get_time_position, env_get_position, env_set_state,
    set_state, trigger_tracklist_changed, do_shuffle, emit, bcall, acall_log, enqueue.
  relp ts_refl ts_trans ts_solver.
Qed.

(* the version bump leaves playback alone when the current entry is still in the list *)
Lemma increase_version_keeps c w r w' :
  current w = Some c -> mem_tlt c (World.tl w) = true ->
  increase_version shuf w = (r, w') -> pb_same w w'.
Proof.
  intros Hc Hm E. unfold increase_version in E.
  set (w1 := w <| version := version w + 1 |>) in *.
  unfold bind at 1, modify at 1 in E. cbv beta iota in E. fold w1 in E.
  assert (E2 : on_tracklist_change w1 = (Ok tt, w1)).
  { unfold on_tracklist_change, bind, get, ret. change (World.tl w1) with (World.tl w). change (current w1) with (current w).
    destruct (World.tl w) eqn:Et; [discriminate|]. rewrite Hc, Hm. reflexivity. }
  unfold bind at 1 in E. rewrite E2 in E.
  apply trigger_tracklist_changed_pb in E.
  eapply pb_trans; [|exact E]. constructor; reflexivity.
Qed.

Lemma edit_then_version {A} (pre : M A) c w r w' :
  rel pb_same pre -> current w = Some c ->
  (pre ;; increase_version shuf)%M w = (r, w') -> mem_tlt c (World.tl w') = true -> pb_same w w'.
Proof.
  intros Hpre Hc E Hm. unfold bind in E. destruct (pre w) as [[a|e|] w1] eqn:E1.
  - pose proof (Hpre _ _ _ E1) as P1.
    pose proof (increase_version_tl_same _ _ _ E) as T. unfold tl_same in T.
    eapply pb_trans; [exact P1|]. eapply (increase_version_keeps c w1 r w'); [|rewrite <- T; exact Hm|exact E].
    rewrite (pb_cur _ _ P1). exact Hc.
  - inversion E; subst. exact (Hpre _ _ _ E1).
  - inversion E; subst. exact (Hpre _ _ _ E1).
Qed.

Lemma add_loop_pb ts : forall pos added, rel pb_same (add_loop ts pos added).
Proof.
  induction ts as [|k ts IH]; intros pos added; cbn [add_loop]; [go|].
  apply rel_bind; [exact pb_trans|go|intro w0].
  destruct (max_len w0 <=? zlen (World.tl w0)); [go|].
  apply rel_bind; [exact pb_trans| |intros _; apply IH].
  apply rel_modify. intros w. constructor; reflexivity.
Qed.

Definition is_edit (o : op) : bool :=
  match o with Add _ _ | Move _ _ _ | Shuffle _ _ | Remove _ => true | _ => false end.

(* a trailing pure step does not matter *)
Lemma tail_ret {A B} (m : M A) (g : A -> B) w r w' :
  (x <- m ;; ret (g x))%M w = (r, w') -> exists r1, m w = (r1, w').
Proof.
  intros E. apply bind_cases in E. destruct E as [(a & w1 & E1 & E2)|(r1 & E1)].
  - inversion E2; subst. eauto.
  - eauto.
Qed.

Lemma version_step c w r w' :
  current w = Some c -> increase_version shuf w = (r, w') -> mem_tlt c (World.tl w') = true -> pb_same w w'.
Proof.
  intros Hc E Hm. pose proof (increase_version_tl_same _ _ _ E) as T. unfold tl_same in T.
  apply (increase_version_keeps c w r w' Hc); [rewrite <- T; exact Hm|exact E].
Qed.

Theorem edit_keeps_playback f o c w r w' :
  is_edit o = true -> current w = Some c -> run_op shuf f o w = (r, w') ->
  mem_tlt c (World.tl w') = true -> pb_same w w'.
Proof.
  intros He Hc E Hm. destruct o; try discriminate; unfold run_op in E.
  - (* Add *)
    destruct (existsb (fun t => t <? 0) ts); [inversion E; subst; apply pb_refl|].
    apply tail_ret in E. destruct E as (r1 & E). unfold tl_add in E.
    apply bind_cases in E. destruct E as [([] & w0 & E0 & E)|(r0 & E0)].
    2: { destruct pos as [p|]; [destruct (p <? 0)|]; inversion E0; subst; apply pb_refl. }
    assert (w0 = w) by (destruct pos as [p|]; [destruct (p <? 0)|]; inversion E0; reflexivity). subst w0.
    apply bind_cases in E. destruct E as [([added err] & w1 & E1 & E)|(r2 & E1)].
    2: { exact (add_loop_pb ts pos [] _ _ _ E1). }
    pose proof (add_loop_pb ts pos [] _ _ _ E1) as P1.
    apply bind_cases in E. destruct E as [([] & w2 & E2 & E)|(r2 & E2)].
    + assert (w' = w2) by (destruct err; inversion E; reflexivity). subst w'.
      destruct added as [|a added]; [inversion E2; subst; exact P1|].
      eapply pb_trans; [exact P1|]. apply (version_step c w1 (Ok tt) w2); [rewrite (pb_cur _ _ P1); exact Hc|exact E2|exact Hm].
    + destruct added as [|a added]; [inversion E2; subst; exact P1|].
      eapply pb_trans; [exact P1|]. apply (version_step c w1 r2 w'); [rewrite (pb_cur _ _ P1); exact Hc|exact E2|exact Hm].
  - (* Move *)
    apply tail_ret in E. destruct E as (r1 & E). unfold tl_move in E.
    unfold bind at 1, get at 1 in E. cbv beta iota zeta in E.
    repeat match type of E with (if ?b then _ else _) _ = _ => destruct b; [inversion E; subst; apply pb_refl|] end.
    match type of E with bind ?pre _ _ = _ => apply (edit_then_version pre c w r1 w') end;
      [apply rel_modify; pb_solver|exact Hc|exact E|exact Hm].
  - (* Remove *)
    apply tail_ret in E. destruct E as (r1 & E). unfold tl_remove in E.
    unfold bind at 1, get at 1 in E. cbv beta iota zeta in E.
    unfold bind at 1, modify at 1 in E. cbv beta iota in E.
    set (w1 := w <| tl := remove_all (tl_filter c0 (World.tl w)) (World.tl w) |>) in *.
    assert (P1 : pb_same w w1) by (constructor; reflexivity).
    apply bind_cases in E. destruct E as [([] & w2 & E2 & E)|(r2 & E2)].
    + inversion E; subst w'. eapply pb_trans; [exact P1|]. apply (version_step c w1 (Ok tt) w2); [exact Hc|exact E2|exact Hm].
    + eapply pb_trans; [exact P1|]. apply (version_step c w1 r2 w'); [exact Hc|exact E2|exact Hm].
  - (* Shuffle *)
    apply tail_ret in E. destruct E as (r1 & E). unfold tl_shuffle in E.
    unfold bind at 1, get at 1 in E. cbv beta iota zeta in E.
    match type of E with (if ?b then _ else _) _ = _ => destruct b; [inversion E; subst; apply pb_refl|] end.
    match type of E with bind ?pre _ _ = _ => apply (edit_then_version pre c w r1 w') end;
      [apply rel_modify; pb_solver|exact Hc|exact E|exact Hm].
Qed.

(* the agreement clause for such an edit: a settled player stays settled on the same entry, in
   the same state, the audio layer untouched *)
Corollary edit_agreement f o c w r w' :
  is_edit o = true -> settled_on w c -> run_op shuf f o w = (r, w') ->
  mem_tlt c (World.tl w') = true ->
  settled_on w' c /\ pstate w' = pstate w /\ a_uri w' = a_uri w /\ a_state w' = a_state w /\ a_pos w' = a_pos w.
Proof.
  intros He [Hq Hp Hpp Hsa Hsp Hpf Hc Hb Ha] E Hm.
  destruct (edit_keeps_playback f o c w r w' He Hc E Hm) as [].
  split; [|repeat split; assumption].
  constructor; try congruence.
  - unfold kind_of in *. rewrite pb_kinds0. exact Hb.
  - rewrite pb_pstate0, pb_uri0, pb_astate0. exact Ha.
Qed.
End P.
