(* C17 property theorems.  Nothing but statements, `exact`, and Print Assumptions.
   Model: Broadcast.v (do_step / run over step lists); proofs: Proofs_Broadcast.v.
   All statements quantify over every step list (every schedule of emits (snapshots), single
   hand-overs of a callback from the actor thread to the IO loop, connects, disconnects,
   socket failures/recoveries and IO-loop callback runs) and every client. *)
From Coq Require Import ZArith List Bool.
From Common Require Import Str.
From Http Require Import Broadcast Proofs_Broadcast.
Import ListNotations.
Open Scope Z_scope.

(* T1 as liveness-over-complete-runs, for EVERY client (faulty or not) and every schedule:
   each event emitted while c was connected gets exactly one write attempt on c, in emission
   order - at every moment attempted ++ in-flight is exactly that sequence, and in a complete
   run (nothing in flight) all of it has been attempted.  An attempt succeeds iff c's
   connection is open and its socket is not failing at that moment, and the deliveries are
   exactly the successful attempts. *)
Theorem C17_every_event_attempted_exactly_once : forall l c,
  att c (run l) ++ pending c (run l) = sent c l.
Proof. exact attempted_exactly_once. Qed.
Print Assumptions C17_every_event_attempted_exactly_once.

Theorem C17_all_attempted_in_complete_run : forall l c,
  idle (run l) = true -> att c (run l) = sent c l.
Proof. exact attempted_all_when_idle. Qed.
Print Assumptions C17_all_attempted_in_complete_run.

Theorem C17_all_attempted_after_drain : forall l c, att c (drained_run l) = sent c l.
Proof. exact attempted_all_drained. Qed.
Print Assumptions C17_all_attempted_after_drain.

Theorem C17_attempt_outcome : forall s c m q,
  queue s = (c, m) :: q ->
  attempted (do_step s RunCallback)
  = attempted s ++ [((c, m), negb (memz c (closed s) || memz c (failing s)))].
Proof. exact attempt_outcome. Qed.
Print Assumptions C17_attempt_outcome.

Theorem C17_delivered_are_the_successful_attempts : forall l,
  delivered (run l) = map fst (filter snd (attempted (run l))).
Proof. exact delivered_are_successful_attempts. Qed.
Print Assumptions C17_delivered_are_the_successful_attempts.

Theorem C17_received_are_attempts : forall l c, subseq (recv c (run l)) (att c (run l)).
Proof. exact recv_subseq_att. Qed.
Print Assumptions C17_received_are_attempts.

Theorem C17_healthy_every_attempt_delivered : forall l c,
  no_faults c l = true -> recv c (run l) = att c (run l).
Proof. exact healthy_recv_att. Qed.
Print Assumptions C17_healthy_every_attempt_delivered.

(* T1 exactly_once_in_order, part 1: what a client received is, position by position, a
   subsequence of the events emitted while it was connected (so: emission order, and no
   emission is delivered twice) *)
Theorem C17_received_in_order_at_most_once : forall l c, subseq (recv c (run l)) (sent c l).
Proof. exact recv_subseq_sent. Qed.
Print Assumptions C17_received_in_order_at_most_once.

Theorem C17_sent_is_emitted_while_connected : forall c l, subseq (sent c l) (emitted l).
Proof. exact sent_subseq_emitted. Qed.
Print Assumptions C17_sent_is_emitted_while_connected.

(* ... duplicate-free whenever the emitted events are distinct *)
Theorem C17_received_duplicate_free : forall l c, NoDup (emitted l) -> NoDup (recv c (run l)).
Proof. exact recv_nodup. Qed.
Print Assumptions C17_received_duplicate_free.

(* T1 part 2: a client that neither disconnected nor failed has, at every moment, received
   or still queued everything emitted while it was connected, and once the loop has drained
   it has received ALL of it *)
Theorem C17_healthy_nothing_lost : forall l c,
  no_faults c l = true -> recv c (run l) ++ pending c (run l) = sent c l.
Proof. exact healthy_nothing_lost. Qed.
Print Assumptions C17_healthy_nothing_lost.

Theorem C17_healthy_complete : forall l c,
  no_faults c l = true -> idle (run l) = true -> recv c (run l) = sent c l.
Proof. exact healthy_complete. Qed.
Print Assumptions C17_healthy_complete.

Theorem C17_healthy_complete_after_drain : forall l c,
  no_faults c l = true -> recv c (drained_run l) = sent c l.
Proof. exact healthy_complete_drained. Qed.
Print Assumptions C17_healthy_complete_after_drain.

Theorem C17_drain_empties_the_loop : forall l, idle (drained_run l) = true.
Proof. exact drained_idle. Qed.
Print Assumptions C17_drain_empties_the_loop.

(* T1 part 3: from any point at which the socket of c works (not failing, not closed) and
   for as long as c has no further fault, nothing sent to c - nor anything still queued for
   it - is lost; a connected c gets every event emitted from that point on.  In particular
   a client whose write failed transiently (SocketFails ... SocketRecovers, still connected)
   receives every event emitted after the recovery. *)
Theorem C17_working_socket_nothing_lost : forall l1 l2 c,
  memz c (failing (run l1)) = false -> memz c (closed (run l1)) = false ->
  no_faults c l2 = true ->
  exists new,
    recv c (run (l1 ++ l2)) ++ pending c (run (l1 ++ l2))
      = (recv c (run l1) ++ pending c (run l1)) ++ new /\
    sent c (l1 ++ l2) = sent c l1 ++ new /\
    (memz c (clients (run l1)) = true -> new = emitted l2).
Proof. exact working_nothing_lost. Qed.
Print Assumptions C17_working_socket_nothing_lost.

Theorem C17_complete_after_recovery : forall l1 l2 c,
  memz c (clients (run l1)) = true -> no_faults c l2 = true ->
  idle (run (l1 ++ SocketRecovers c :: l2)) = true ->
  exists before, recv c (run (l1 ++ SocketRecovers c :: l2)) = before ++ emitted l2.
Proof. exact recovered_complete. Qed.
Print Assumptions C17_complete_after_recovery.

Theorem C17_monitor_recovered_predicate_holds : forall l c,
  idle (run l) = true -> t1_recovered_ok c l (recv c (run l)) = true.
Proof. exact t1_recovered_ok_holds. Qed.
Print Assumptions C17_monitor_recovered_predicate_holds.

(* T2 isolation: erasing the other clients' Disconnect / SocketFails / SocketRecovers steps
   does not change what c receives *)
Theorem C17_isolation : forall l c,
  no_faults c l = true ->
  recv c (drained_run l) = recv c (drained_run (erase_other_faults c l)).
Proof. exact isolation. Qed.
Print Assumptions C17_isolation.

Theorem C17_isolation_before_drain : forall l c,
  no_faults c l = true ->
  exists p1 p2, recv c (run l) ++ p1 = sent c l /\
                recv c (run (erase_other_faults c l)) ++ p2 = sent c l.
Proof. exact isolation_prefix. Qed.
Print Assumptions C17_isolation_before_drain.

(* the sequence c's deliveries are drawn from depends on no step of any other client *)
Theorem C17_reference_independent_of_others : forall c l,
  sent c (filter (concerns c) l) = sent c l.
Proof. exact sent_only_own_steps. Qed.
Print Assumptions C17_reference_independent_of_others.

(* T2, complete form (also for clients with faults of their own): the global run projects
   onto the client's own small machine; what c receives is determined by the emits, c's own
   steps and the instants at which c's own callbacks run *)
Theorem C17_view_refines : forall c l,
  view c (run l) = l_run (view c init) (trace_proj c init l).
Proof. exact view_refines. Qed.
Print Assumptions C17_view_refines.

Theorem C17_received_determined_by_own_history : forall c l1 l2,
  trace_proj c init l1 = trace_proj c init l2 -> recv c (run l1) = recv c (run l2).
Proof. exact recv_determined_by_own_history. Qed.
Print Assumptions C17_received_determined_by_own_history.

Theorem C17_other_clients_faults_invisible : forall c s x,
  is_fault_of_other c x = true -> proj c s x = [].
Proof. exact proj_other_fault. Qed.
Print Assumptions C17_other_clients_faults_invisible.

(* T3 nothing_after_disconnect *)
Theorem C17_nothing_after_disconnect : forall l1 l2 c,
  memz c (clients (run l1)) = true ->
  recv c (run (l1 ++ Disconnect c :: l2)) = recv c (run l1).
Proof. exact nothing_after_disconnect. Qed.
Print Assumptions C17_nothing_after_disconnect.

Theorem C17_never_a_target_again : forall c l s,
  memz c (closed s) = true -> memz c (clients s) = false ->
  memz c (clients (run_from s l)) = false.
Proof. exact never_target_again. Qed.
Print Assumptions C17_never_a_target_again.

(* T4 message_shape: the event name under "event", every argument under its own name,
   nothing else *)
Theorem C17_message_event : forall (P : Type) (inj : str -> P) name args,
  dict_get key_event (message inj name args) = Some (inj name).
Proof. exact (@message_event). Qed.
Print Assumptions C17_message_event.

Theorem C17_message_args : forall (P : Type) (inj : str -> P) name args k,
  k <> key_event -> dict_get k (message inj name args) = dict_get k args.
Proof. exact (@message_args). Qed.
Print Assumptions C17_message_args.

Theorem C17_message_keys : forall (P : Type) (inj : str -> P) name args,
  dict_get key_event args = None ->
  map fst (message inj name args) = map fst args ++ [key_event].
Proof. exact (@message_keys). Qed.
Print Assumptions C17_message_keys.

(* the boolean predicates evaluated by the monitors hold of the model for every schedule *)
Theorem C17_monitor_log_predicate_holds : forall l c, t1_log_ok c l (recv c (run l)) = true.
Proof. exact t1_log_ok_holds. Qed.
Print Assumptions C17_monitor_log_predicate_holds.

Theorem C17_monitor_complete_predicate_holds : forall l c,
  idle (run l) = true -> t1_complete_ok c l (recv c (run l)) = true.
Proof. exact t1_complete_ok_holds. Qed.
Print Assumptions C17_monitor_complete_predicate_holds.
