(* Model of the event fan-out from the core to the WebSocket clients:

     mopidy.listener.send            -> HttpFrontend.on_event (actor thread)
     mopidy.http.actor.on_event      -> message = {**kwargs, "event": name} dumped to JSON
     WebSocketHandler.broadcast      -> one IO-loop callback per client in a snapshot
                                        (clients.copy()) of the class-level client set
     _send_broadcast                 -> client.write_message(msg), every exception swallowed
     WebSocketHandler.open/on_close  -> clients.add / clients.discard

   Clients are identified by integers (one id per handler object, never reused); a message
   is identified by the value carried by its Emit step (the harness uses the emission
   index).  The IO loop is a FIFO of (client, message) callbacks.  The cross-thread hand-off
   is NOT atomic: [Emit] takes the snapshot (one C-level set.copy(), atomic in CPython - the
   harness checks that by interleaving injection) into the actor thread's [outbox], and every
   [HandOver] step passes one callback to the loop, arbitrarily interleaved with the loop's
   own steps (callbacks running, clients connecting and disconnecting, sockets failing). *)
From Coq Require Import ZArith List Bool.
From Common Require Import Str.
Import ListNotations.
Open Scope Z_scope.

Inductive step : Type :=
| Emit (e : Z) (ord : list Z)
                           (* the core emits an event; the frontend broadcasts it.  [ord] is
                              an oracle for the iteration order of the Python set snapshot
                              (clients.copy()): clients listed in it come first, in that order *)
| Connect (c : Z)          (* WebSocketHandler.open *)
| Disconnect (c : Z)       (* connection closed, WebSocketHandler.on_close *)
| SocketFails (c : Z)      (* from now on write_message on c raises *)
| SocketRecovers (c : Z)   (* ... and stops doing so (transient failure) *)
| HandOver                 (* the actor thread hands the next callback of its snapshot to
                              io_loop.add_callback (one call per client: the loop thread
                              may run callbacks and (dis)connect clients in between) *)
| RunCallback.             (* the IO loop runs the oldest pending callback *)

Record state : Type := mkState {
  clients : list Z;           (* WebSocketHandler.clients *)
  outbox : list (Z * Z);      (* actor thread: callbacks of the snapshot(s) already taken that
                                 broadcast() has not yet handed to io_loop.add_callback *)
  queue : list (Z * Z);       (* IO loop: pending callbacks, oldest first *)
  closed : list Z;            (* handlers whose connection is closed: write_message raises *)
  failing : list Z;           (* handlers with an injected write failure *)
  delivered : list (Z * Z);   (* successful write_message calls, oldest first *)
  attempted : list (Z * Z * bool)
                              (* ghost: every write_message call made by a callback, with
                                 its outcome (true = the write succeeded) *)
}.

Definition init : state := mkState [] [] [] [] [] [] [].

Definition memz (c : Z) (l : list Z) : bool := existsb (Z.eqb c) l.
Definition removez (c : Z) (l : list Z) : list Z := filter (fun d => negb (d =? c)) l.

(* keep the last occurrence of every element *)
Fixpoint dedup (l : list Z) : list Z :=
  match l with
  | [] => []
  | x :: t => if memz x t then dedup t else x :: dedup t
  end.

(* the snapshot of the client set in the iteration order suggested by [ord]: always a
   rearrangement of [cl], whatever [ord] is *)
Definition snapshot (ord cl : list Z) : list Z :=
  filter (fun c => memz c cl) (dedup ord) ++ filter (fun c => negb (memz c ord)) cl.

Definition do_step (s : state) (x : step) : state :=
  match x with
  | Emit e ord =>
      mkState (clients s) (outbox s ++ map (fun c => (c, e)) (snapshot ord (clients s)))
              (queue s) (closed s) (failing s) (delivered s) (attempted s)
  | HandOver =>
      match outbox s with
      | [] => s
      | p :: o => mkState (clients s) o (queue s ++ [p]) (closed s) (failing s) (delivered s)
                          (attempted s)
      end
  | Connect c =>
      if memz c (clients s) || memz c (closed s) then s
      else mkState (c :: clients s) (outbox s) (queue s) (closed s) (failing s) (delivered s)
                   (attempted s)
  | Disconnect c =>
      if memz c (clients s)
      then mkState (removez c (clients s)) (outbox s) (queue s) (c :: closed s) (failing s)
                   (delivered s) (attempted s)
      else s
  | SocketFails c =>
      mkState (clients s) (outbox s) (queue s) (closed s) (c :: failing s) (delivered s)
              (attempted s)
  | SocketRecovers c =>
      mkState (clients s) (outbox s) (queue s) (closed s) (removez c (failing s)) (delivered s)
              (attempted s)
  | RunCallback =>
      match queue s with
      | [] => s
      | (c, m) :: q =>
          if memz c (closed s) || memz c (failing s)
          then mkState (clients s) (outbox s) q (closed s) (failing s) (delivered s)
                       (attempted s ++ [((c, m), false)])                 (* swallowed *)
          else mkState (clients s) (outbox s) q (closed s) (failing s) (delivered s ++ [(c, m)])
                       (attempted s ++ [((c, m), true)])
      end
  end.

Definition run_from (s : state) (l : list step) : state := fold_left do_step l s.
Definition run (l : list step) : state := run_from init l.

(* what client c has received / what is still queued for it *)
Definition for_client (c : Z) (l : list (Z * Z)) : list Z :=
  map snd (filter (fun p => fst p =? c) l).
Definition recv (c : Z) (s : state) : list Z := for_client c (delivered s).
(* still on its way to c: on the loop, or not yet handed over by the actor thread *)
Definition inflight (s : state) : list (Z * Z) := queue s ++ outbox s.
Definition pending (c : Z) (s : state) : list Z := for_client c (inflight s).
(* every write attempted on c (successful or not) *)
Definition attempts (s : state) : list (Z * Z) := map fst (attempted s).
Definition att (c : Z) (s : state) : list Z := for_client c (attempts s).
(* nothing in flight: the actor has handed everything over and the loop has run it *)
Definition idle (s : state) : bool :=
  match queue s, outbox s with [], [] => true | _, _ => false end.

(* ------------------------------------------------------------------------
   Specification side, independent of the machine: the events emitted while c was
   connected, read off the step list alone. *)

Record spec : Type := mkSpec { sp_conn : bool; sp_used : bool; sp_sent : list Z }.

Definition spec_step (c : Z) (g : spec) (x : step) : spec :=
  match x with
  | Emit e _ => if sp_conn g then mkSpec (sp_conn g) (sp_used g) (sp_sent g ++ [e]) else g
  | Connect d => if (d =? c) && negb (sp_used g) then mkSpec true true (sp_sent g) else g
  | Disconnect d => if (d =? c) && sp_conn g then mkSpec false (sp_used g) (sp_sent g) else g
  | _ => g
  end.

Definition spec_init : spec := mkSpec false false [].
Definition spec_from (c : Z) (g : spec) (l : list step) : spec := fold_left (spec_step c) l g.
Definition sent (c : Z) (l : list step) : list Z := sp_sent (spec_from c spec_init l).

(* all emitted values, in order *)
Definition emitted (l : list step) : list Z :=
  flat_map (fun x => match x with Emit e _ => [e] | _ => [] end) l.

(* steps that are a fault of client c *)
Definition is_fault_of (c : Z) (x : step) : bool :=
  match x with
  | Disconnect d | SocketFails d | SocketRecovers d => d =? c
  | _ => false
  end.
Definition no_faults (c : Z) (l : list step) : bool := forallb (fun x => negb (is_fault_of c x)) l.

(* erase the fault steps of every client other than c *)
Definition is_fault_of_other (c : Z) (x : step) : bool :=
  match x with
  | Disconnect d | SocketFails d | SocketRecovers d => negb (d =? c)
  | _ => false
  end.
Definition erase_other_faults (c : Z) (l : list step) : list step :=
  filter (fun x => negb (is_fault_of_other c x)) l.

(* steps that concern client c at all (every Emit, and c's own steps) *)
Definition concerns (c : Z) (x : step) : bool :=
  match x with
  | Emit _ _ => true
  | Connect d | Disconnect d | SocketFails d | SocketRecovers d => d =? c
  | HandOver | RunCallback => false
  end.

(* subsequence (order-preserving, each position used at most once) *)
Inductive subseq {A : Type} : list A -> list A -> Prop :=
| sub_nil : subseq [] []
| sub_skip x l1 l2 : subseq l1 l2 -> subseq l1 (x :: l2)
| sub_take x l1 l2 : subseq l1 l2 -> subseq (x :: l1) (x :: l2).

Fixpoint subseqb (a b : list Z) : bool :=
  match a, b with
  | [], _ => true
  | _ :: _, [] => false
  | x :: a', y :: b' => if x =? y then subseqb a' b' else subseqb a b'
  end.

Fixpoint nodupb (l : list Z) : bool :=
  match l with
  | [] => true
  | x :: t => negb (memz x t) && nodupb t
  end.

(* ------------------------------------------------------------------------
   The message built by mopidy.http.actor.on_event:  event = kwargs; event["event"] = name.
   Payloads are opaque (type P); [inj] embeds the event name as a payload (a JSON string). *)

Section Message.
  Context {P : Type}.

  Fixpoint dict_set (k : str) (v : P) (d : list (str * P)) : list (str * P) :=
    match d with
    | [] => [(k, v)]
    | (k', v') :: t => if str_eqb k' k then (k, v) :: t else (k', v') :: dict_set k v t
    end.

  Fixpoint dict_get (k : str) (d : list (str * P)) : option P :=
    match d with
    | [] => None
    | (k', v') :: t => if str_eqb k' k then Some v' else dict_get k t
    end.

  Definition key_event : str := [101; 118; 101; 110; 116].

  Definition message (inj : str -> P) (name : str) (args : list (str * P)) : list (str * P) :=
    dict_set key_event (inj name) args.
End Message.

(* ------------------------------------------------------------------------
   Monitor predicates (boolean, evaluated on observed traces by the harness) *)

(* T1 on an observed per-client log: it is a subsequence of what the model says was sent
   while the client was connected, and duplicate-free when the emitted values are distinct *)
Definition t1_log_ok (c : Z) (l : list step) (log : list Z) : bool :=
  subseqb log (sent c l) && (negb (nodupb (emitted l)) || nodupb log).

(* T1 completeness for a client without faults once the loop has drained *)
Definition t1_complete_ok (c : Z) (l : list step) (log : list Z) : bool :=
  negb (no_faults c l) || list_eqb Z.eqb log (sent c l).

(* T1 completeness after a recovery.  [split_last_fault c l] = (a, b) with l = a ++ b where
   b is the longest suffix without a fault step of c (so a is empty or ends with c's last
   fault step).  If that last fault step is a SocketRecovers and c is connected at that
   point, the socket of c works for the whole of b: once the loop has drained, c's log must
   END with every event emitted in b. *)
Fixpoint split_last_fault (c : Z) (l : list step) : list step * list step :=
  match l with
  | [] => ([], [])
  | x :: t =>
      let '(a, b) := split_last_fault c t in
      match a with
      | [] => if is_fault_of c x then ([x], b) else ([], x :: b)
      | _ => (x :: a, b)
      end
  end.

Definition is_recover_of (c : Z) (x : step) : bool :=
  match x with SocketRecovers d => d =? c | _ => false end.

Definition is_suffixb (x log : list Z) : bool :=
  (length x <=? length log)%nat && list_eqb Z.eqb (skipn (length log - length x) log) x.

Definition t1_recovered_ok (c : Z) (l : list step) (log : list Z) : bool :=
  let '(a, b) := split_last_fault c l in
  match rev a with
  | x :: _ =>
      if is_recover_of c x && sp_conn (spec_from c spec_init a)
      then is_suffixb (emitted b) log else true
  | [] => true
  end.

(* ------------------------------------------------------------------------
   The view of a single client: a small machine over the client's OWN history.  The global
   run projects onto it (Proofs_Broadcast.view_refines): what c receives is determined by
   the emits, c's own connect / disconnect / fail / recover steps and the instants at which
   c's own callbacks run - no step of another client occurs in the projection. *)

Inductive lstep : Type := LEmit (e : Z) | LConnect | LDisconnect | LFail | LRecover | LRun.

Record lstate : Type := mkL {
  l_conn : bool; l_closed : bool; l_failing : bool; l_queue : list Z; l_recv : list Z }.

Definition l_do (v : lstate) (x : lstep) : lstate :=
  match x with
  | LEmit e => if l_conn v then mkL true (l_closed v) (l_failing v) (l_queue v ++ [e]) (l_recv v) else v
  | LConnect => if l_conn v || l_closed v then v
                else mkL true (l_closed v) (l_failing v) (l_queue v) (l_recv v)
  | LDisconnect => if l_conn v then mkL false true (l_failing v) (l_queue v) (l_recv v) else v
  | LFail => mkL (l_conn v) (l_closed v) true (l_queue v) (l_recv v)
  | LRecover => mkL (l_conn v) (l_closed v) false (l_queue v) (l_recv v)
  | LRun => match l_queue v with
            | [] => v
            | m :: q => if l_closed v || l_failing v
                        then mkL (l_conn v) (l_closed v) (l_failing v) q (l_recv v)
                        else mkL (l_conn v) (l_closed v) (l_failing v) q (l_recv v ++ [m])
            end
  end.

Definition l_run (v : lstate) (l : list lstep) : lstate := fold_left l_do l v.

Definition view (c : Z) (s : state) : lstate :=
  mkL (memz c (clients s)) (memz c (closed s)) (memz c (failing s)) (pending c s) (recv c s).

(* the local steps a global step amounts to for client c, in global state s *)
Definition proj (c : Z) (s : state) (x : step) : list lstep :=
  match x with
  | Emit e _ => [LEmit e]
  | Connect d => if d =? c then [LConnect] else []
  | Disconnect d => if d =? c then [LDisconnect] else []
  | SocketFails d => if d =? c then [LFail] else []
  | SocketRecovers d => if d =? c then [LRecover] else []
  | HandOver => []
  | RunCallback => match queue s with
                   | (c', _) :: _ => if c' =? c then [LRun] else []
                   | [] => []
                   end
  end.

Fixpoint trace_proj (c : Z) (s : state) (l : list step) : list lstep :=
  match l with
  | [] => []
  | x :: t => proj c s x ++ trace_proj c (do_step s x) t
  end.
