(* Model of the CSRF / cross-origin policy of mopidy.http.handlers
   (src/mopidy/http/handlers.py: check_origin, JsonRpcHandler.post / options /
   set_cors_headers, WebSocketHandler.check_origin) together with the two library pieces
   the decision depends on:

   * urllib.parse.urlsplit's netloc extraction (CPython 3.12: lstrip of C0 controls and
     space, removal of TAB/CR/LF, scheme recognition, the "//" prefix, cut at the first of
     "/", "?", "#"), transcribed as [raw_netloc];  the additional validation CPython
     performs (unbalanced brackets: always ValueError; balanced brackets: ipaddress
     validation; non-ASCII: NFKC check) is NOT transcribed: [netloc_of] answers
     [MustRaise] / [MayRaise], and the decision functions take the outcome of that
     validation as an oracle bit [r_orc] (true = CPython raised ValueError).
   * tornado.websocket.WebSocketHandler.get's choice of the origin to check (Origin, else
     Sec-Websocket-Origin, none => no check).

   Strings are the header values as tornado hands them to the handler (latin-1 decoded,
   so code points 0..255); [lower] is str.lower() restricted to that range. *)
From Coq Require Import ZArith List Bool.
From Common Require Import Res Str.
Import ListNotations.
Open Scope Z_scope.

(* ---------------------------------------------------------------- characters *)

Definition is_upper (c : Z) : bool := (65 <=? c) && (c <=? 90).
Definition is_lower_az (c : Z) : bool := (97 <=? c) && (c <=? 122).
Definition is_ascii_alpha (c : Z) : bool := is_upper c || is_lower_az c.
Definition is_digit (c : Z) : bool := (48 <=? c) && (c <=? 57).
(* urllib.parse.scheme_chars: letters, digits, "+", "-", "." *)
Definition is_scheme_char (c : Z) : bool :=
  is_ascii_alpha c || is_digit c || (c =? 43) || (c =? 45) || (c =? 46).
(* _WHATWG_C0_CONTROL_OR_SPACE *)
Definition is_c0_or_space (c : Z) : bool := (0 <=? c) && (c <=? 32).
(* _UNSAFE_URL_BYTES_TO_REMOVE = TAB, CR, LF *)
Definition is_tcn (c : Z) : bool := (c =? 9) || (c =? 10) || (c =? 13).
(* "/", "?", "#" *)
Definition is_delim (c : Z) : bool := (c =? 47) || (c =? 63) || (c =? 35).

(* str.lower() on code points 0..255: A-Z and the Latin-1 capitals U+00C0..U+00DE except
   the multiplication sign U+00D7. *)
Definition py_lower_c (c : Z) : Z :=
  if is_upper c then c + 32
  else if (192 <=? c) && (c <=? 222) && negb (c =? 215) then c + 32
  else c.
Definition lower (s : str) : str := map py_lower_c s.

(* ------------------------------------------------- urlsplit(origin).netloc *)

Fixpoint lstrip_c0 (s : str) : str :=
  match s with
  | c :: t => if is_c0_or_space c then lstrip_c0 t else s
  | [] => []
  end.

Definition remove_tcn (s : str) : str := filter (fun c => negb (is_tcn c)) s.

(* i = url.find(":")  ->  (url[:i], url[i+1:]) *)
Fixpoint split_at_colon (s : str) : option (str * str) :=
  match s with
  | [] => None
  | c :: t =>
      if c =? 58 then Some ([], t)
      else match split_at_colon t with
           | Some (p, r) => Some (c :: p, r)
           | None => None
           end
  end.

(* if i > 0 and url[0].isascii() and url[0].isalpha() and all(c in scheme_chars ...) *)
Definition strip_scheme (u : str) : str :=
  match split_at_colon u with
  | Some (c :: p, r) =>
      if is_ascii_alpha c && forallb is_scheme_char (c :: p) then r else u
  | _ => u
  end.

(* _splitnetloc(url, 2)[0] once the leading "//" is removed *)
Fixpoint until_delim (s : str) : str :=
  match s with
  | [] => []
  | c :: t => if is_delim c then [] else c :: until_delim t
  end.

Definition raw_netloc (origin : str) : str :=
  match strip_scheme (remove_tcn (lstrip_c0 origin)) with
  | c1 :: c2 :: t => if (c1 =? 47) && (c2 =? 47) then until_delim t else []
  | _ => []
  end.

Inductive nl : Type :=
| Netloc (n : str)      (* urlsplit returns this netloc, no further validation applies *)
| MustRaise             (* exactly one kind of square bracket: ValueError("Invalid IPv6 URL") *)
| MayRaise (n : str).   (* CPython validates further (bracketed host, NFKC): returns n or raises *)

Definition has (c : Z) (s : str) : bool := existsb (Z.eqb c) s.
Definition is_ascii_str (s : str) : bool := forallb (fun c => c <? 128) s.

Definition netloc_of (origin : str) : nl :=
  let n := raw_netloc origin in
  let lb := has 91 n in
  let rb := has 93 n in
  if xorb lb rb then MustRaise
  else if lb || negb (is_ascii_str n) then MayRaise n
  else Netloc n.

(* ------------------------------------------------------------ check_origin *)

Inductive exn : Type := ValueError | AssertionError.



(* `if parsed_origin and parsed_origin not in allowed_origins | {host_header}: False` *)
Definition origin_ok (allow : list str) (host : option str) (n : str) : bool :=
  match lower n with
  | [] => true
  | p => mem_str p allow || opt_eqb str_eqb (Some p) host
  end.

Definition check_origin (orc : bool) (allow : list str) (origin : option str)
           (host : option str) : res exn bool :=
  match origin with
  | None => Ok false
  | Some o =>
      match netloc_of o with
      | MustRaise => Raise ValueError
      | MayRaise n => if orc then Raise ValueError else Ok (origin_ok allow host n)
      | Netloc n => Ok (origin_ok allow host n)
      end
  end.

(* http/__init__.py: allowed_origins = List(unique, String(transformer = str.lower)) *)
Definition config_allow (items : list str) : list str := map lower items.

(* The whole path from the text of the config value to the set the handlers hold
   (mopidy.config.types):
     List.deserialize:   raw = decode(text); split on newlines if raw contains one, else on
                         commas (re.split(r"\s*\n\s*") / r"\s*,\s*" followed by .strip() is
                         split + strip); empty entries dropped;
     String.deserialize: decode AGAIN, strip, "must be set" (ValueError) if that leaves
                         nothing, then the transformer str.lower;
     frozenset of the results.
   decode undoes the escapes backslash-backslash, backslash-n, backslash-t in one
   left-to-right pass. *)
Fixpoint cfg_decode (s : str) : str :=
  match s with
  | [] => []
  | c :: t =>
      if c =? 92 then
        match t with
        | d :: t' =>
            if d =? 92 then 92 :: cfg_decode t'
            else if d =? 110 then 10 :: cfg_decode t'
            else if d =? 116 then 9 :: cfg_decode t'
            else c :: cfg_decode t
        | [] => [c]
        end
      else c :: cfg_decode t
  end.

Definition nonempty (s : str) : bool := match s with [] => false | _ => true end.

Definition cfg_items (raw : str) : list str :=
  filter nonempty (map strip (if has 10 raw then split1 10 raw else split1 44 raw)).

Fixpoint cfg_values (items : list str) : res exn (list str) :=
  match items with
  | [] => Ok []
  | it :: t =>
      match strip (cfg_decode it) with
      | [] => Raise ValueError                       (* "must be set." *)
      | r => rbind (cfg_values t) (fun vs => Ok (lower r :: vs))
      end
  end.

Definition parse_allowed_origins (text : str) : res exn (list str) :=
  cfg_values (cfg_items (cfg_decode text)).

(* ---------------------------------------------------------------- handlers *)

Inductive kind : Type :=
| Post | Options | WsHandshake
| Head            (* HEAD /rpc: JsonRpcHandler.head *)
| OtherMethod.    (* GET / PUT / DELETE / PATCH on /rpc: not implemented -> tornado's 405 *)

Definition kind_eqb (a b : kind) : bool :=
  match a, b with
  | Post, Post | Options, Options | WsHandshake, WsHandshake | Head, Head
  | OtherMethod, OtherMethod => true
  | _, _ => false
  end.

Record request : Type := mkReq {
  r_kind : kind;
  r_csrf : bool;               (* http/csrf_protection *)
  r_allow : list str;          (* http/allowed_origins as held by the handler *)
  r_origin : option str;       (* Origin header *)
  r_ws_origin : option str;    (* Sec-Websocket-Origin header (consulted by tornado on /ws) *)
  r_host : option str;         (* Host header *)
  r_ctype : option str;        (* Content-Type header *)
  r_body : bool;               (* request body non-empty *)
  r_orc : bool                 (* oracle: CPython's extra netloc validation raised *)
}.

Record response : Type := mkResp {
  status : Z;
  acao : option str;           (* Access-Control-Allow-Origin *)
  acah : bool;                 (* Access-Control-Allow-Headers: Content-Type present *)
  reaches_core : bool;         (* the JSON-RPC wrapper is (post) / will be (ws) invoked *)
  extra : bool;                (* set_extra_headers ran and its headers are sent: Cache-Control:
                                  no-cache, X-Mopidy-Version, Accept: application/json,
                                  Content-Type: application/json; utf-8 *)
  registered : bool            (* the handler joined WebSocketHandler.clients (open ran) *)
}.

Definition app_json : str :=
  [97; 112; 112; 108; 105; 99; 97; 116; 105; 111; 110; 47; 106; 115; 111; 110].

(* headers.get("Content-Type", "").split(";")[0].strip() *)
Definition media_type (ctype : option str) : str :=
  strip (hd [] (split1 59 (match ctype with Some s => s | None => [] end))).

Definition is_some {A} (o : option A) : bool := match o with Some _ => true | None => false end.

Definition refuse (code : Z) : response := mkResp code None false false false false.

Definition handle_post (r : request) : response :=
  if r_csrf r then
    if negb (str_eqb (media_type (r_ctype r)) app_json) then refuse 415
    else mkResp 200 (r_origin r) (is_some (r_origin r)) (r_body r) (r_body r) false
  else mkResp 200 None false (r_body r) (r_body r) false.

Definition handle_options (r : request) : response :=
  if r_csrf r then
    match check_origin (r_orc r) (r_allow r) (r_origin r) (r_host r) with
    | Raise _ | Diverge => refuse 500
    | Ok false => refuse 403
    | Ok true =>
        match r_origin r with
        | None | Some [] => refuse 500            (* `assert origin` *)
        | Some o => mkResp 204 (Some o) true false false false
        end
    end
  else mkResp 204 None false false false false.

(* tornado: Origin if present, else Sec-Websocket-Origin; no origin => no check *)
Definition effective_ws_origin (r : request) : option str :=
  match r_origin r with Some o => Some o | None => r_ws_origin r end.

Definition ws_accept : response := mkResp 101 None false true false true.

Definition handle_ws (r : request) : response :=
  match effective_ws_origin r with
  | None => ws_accept
  | Some o =>
      if negb (r_csrf r) then ws_accept
      else match check_origin (r_orc r) (r_allow r) (Some o) (r_host r) with
           | Raise _ | Diverge => refuse 500
           | Ok false => refuse 403
           | Ok true => ws_accept
           end
  end.

Definition handle (r : request) : response :=
  match r_kind r with
  | Post => handle_post r
  | Options => handle_options r
  | WsHandshake => handle_ws r
  | Head => mkResp 200 None false false true false
  | OtherMethod => refuse 405
  end.

Definition resp_eqb (a b : response) : bool :=
  (status a =? status b) && opt_eqb str_eqb (acao a) (acao b)
  && Bool.eqb (acah a) (acah b) && Bool.eqb (reaches_core a) (reaches_core b)
  && Bool.eqb (extra a) (extra b) && Bool.eqb (registered a) (registered b).

(* prefix of [s] before the first [sep], and the leading run of str.strip() blanks *)
Fixpoint until_c (sep : Z) (s : str) : str :=
  match s with
  | [] => []
  | c :: t => if c =? sep then [] else c :: until_c sep t
  end.

Fixpoint take_space (s : str) : str :=
  match s with
  | c :: t => if py_isspace c then c :: take_space t else []
  | [] => []
  end.

(* The browser side of T1 (Fetch / MIME Sniffing standards, transcribed): "parse a MIME
   type" and the CORS-safelisted Content-Type essences.  (The additional "no CORS-unsafe
   request-header byte" condition of Fetch is dropped, which only makes more values
   safelisted and the theorem stronger.) *)
Definition is_http_ws (c : Z) : bool := (c =? 9) || (c =? 10) || (c =? 13) || (c =? 32).

Fixpoint http_lstrip (s : str) : str :=
  match s with
  | c :: t => if is_http_ws c then http_lstrip t else s
  | [] => []
  end.
Definition http_rstrip (s : str) : str := rev (http_lstrip (rev s)).

(* HTTP token code points *)
Definition is_token_char (c : Z) : bool :=
  is_ascii_alpha c || is_digit c
  || (c =? 33) || ((35 <=? c) && (c <=? 39)) || (c =? 42) || (c =? 43) || (c =? 45) || (c =? 46)
  || (c =? 94) || (c =? 95) || (c =? 96) || (c =? 124) || (c =? 126).

Fixpoint after_c (sep : Z) (s : str) : option str :=
  match s with
  | [] => None
  | c :: t => if c =? sep then Some t else after_c sep t
  end.

Definition mime_essence (v : str) : option str :=
  let v1 := http_rstrip (http_lstrip v) in
  let ty := until_c 47 v1 in
  match after_c 47 v1 with
  | None => None
  | Some rest =>
      if nonempty ty && forallb is_token_char ty then
        let sub := http_rstrip (until_c 59 rest) in
        if nonempty sub && forallb is_token_char sub
        then Some (map ascii_lower ty ++ [47] ++ map ascii_lower sub)
        else None
      else None
  end.

Definition ct_urlencoded : str :=
  [97;112;112;108;105;99;97;116;105;111;110;47;120;45;119;119;119;45;102;111;114;109;45;117;114;108;101;110;99;111;100;101;100].
Definition ct_formdata : str := [109;117;108;116;105;112;97;114;116;47;102;111;114;109;45;100;97;116;97].
Definition ct_textplain : str := [116;101;120;116;47;112;108;97;105;110].

Definition cors_safelisted_ctype (v : str) : bool :=
  match mime_essence v with
  | Some e => mem_str e [ct_urlencoded; ct_formdata; ct_textplain]
  | None => false
  end.

(* ------------------------------------------------------------------------
   The property's predicates as boolean functions of (request, response).  The same
   functions are proved to hold of [handle r] for every request (Proofs_Origin.v) and are
   evaluated by the harness on the responses of the real server (monitors T1..T5). *)

(* the acceptance condition of the property text, on the transcribed netloc.  It is the
   reading most favourable to the implementation (host names and allow-list entries compared
   case-insensitively on both sides), so that a monitor built on it never alarms on a
   behaviour the property text permits; the theorems about the model prove the stricter
   condition the code really implements (Host compared as sent). *)
Definition origin_permitted (allow : list str) (host : option str) (o : str) : bool :=
  let n := raw_netloc o in
  match n with
  | [] => true
  | _ => opt_eqb str_eqb (Some (lower n)) (option_map lower host)
         || mem_str (lower n) (map lower allow)
  end.

Definition cors_granted (p : response) : bool := is_some (acao p) || acah p.
Definition is_refused (p : response) : bool := 400 <=? status p.

Definition t1_post_gate (r : request) (p : response) : bool :=
  implb (kind_eqb (r_kind r) Post && r_csrf r && reaches_core p)
        (str_eqb (lower (media_type (r_ctype r))) app_json).

Definition t2_preflight_sound (r : request) (p : response) : bool :=
  implb (kind_eqb (r_kind r) Options && r_csrf r)
        (match r_origin r with
         | None => (status p =? 403) && negb (cors_granted p)
         | Some o =>
             implb (cors_granted p || (status p <? 400))
                   (origin_permitted (r_allow r) (r_host r) o)
         end).

Definition t3_ws_sound (r : request) (p : response) : bool :=
  implb (kind_eqb (r_kind r) WsHandshake)
        (match effective_ws_origin r with
         | None => (status p =? 101) && reaches_core p
         | Some o =>
             implb (r_csrf r && (reaches_core p || (status p <? 400)))
                   (origin_permitted (r_allow r) (r_host r) o)
         end).

Definition t4_refused_inert (r : request) (p : response) : bool :=
  implb (is_refused p)
        (negb (reaches_core p) && negb (cors_granted p) && negb (registered p)).

(* the state a request can change: calls into the core, members of the WebSocket client set *)
Record server_state : Type := mkSrv { core_calls : Z; ws_clients : Z }.
Definition apply_response (st : server_state) (p : response) : server_state :=
  mkSrv (core_calls st + (if reaches_core p then 1 else 0))
        (ws_clients st + (if registered p then 1 else 0)).

Definition t5_off_accepts_all (r : request) (p : response) : bool :=
  implb (negb (r_csrf r))
        (match r_kind r with
         | Post => (status p =? 200) && Bool.eqb (reaches_core p) (r_body r)
         | Options => status p =? 204
         | WsHandshake => (status p =? 101) && reaches_core p
         | Head => status p =? 200
         | OtherMethod => status p =? 405
         end).

Definition all_monitors (r : request) (p : response) : list bool :=
  [t1_post_gate r p; t2_preflight_sound r p; t3_ws_sound r p; t4_refused_inert r p;
   t5_off_accepts_all r p].
