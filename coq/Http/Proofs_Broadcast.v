(* Proofs about the event fan-out model (Broadcast.v). *)
From Coq Require Import ZArith List Bool Lia.
From Common Require Import Str.
From Http Require Import Broadcast.
Import ListNotations.
Open Scope Z_scope.

(* ------------------------------------------------------------------ subseq *)

Lemma subseq_refl {A} (l : list A) : subseq l l.
Proof. induction l; [apply sub_nil|apply sub_take; auto]. Qed.

Lemma subseq_nil_l {A} (l : list A) : subseq [] l.
Proof. induction l; [apply sub_nil|apply sub_skip; auto]. Qed.

Lemma subseq_app {A} (a1 a2 b1 b2 : list A) :
  subseq a1 b1 -> subseq a2 b2 -> subseq (a1 ++ a2) (b1 ++ b2).
Proof.
  induction 1; cbn; intros; auto; [apply sub_skip|apply sub_take]; auto.
Qed.

Lemma subseq_app_tail {A} (a b : list A) e : subseq a b -> subseq (a ++ [e]) (b ++ [e]).
Proof. intros H. apply subseq_app; [assumption|apply subseq_refl]. Qed.

Lemma subseq_skip_r {A} (a b : list A) e : subseq a b -> subseq a (b ++ [e]).
Proof.
  intros H. rewrite <- (app_nil_r a). apply subseq_app; [assumption|]. apply sub_skip, sub_nil.
Qed.

Lemma subseq_cons_inv {A} (x : A) a l : subseq (x :: a) l -> subseq a l.
Proof.
  remember (x :: a) as xa eqn:E. intros H. revert x a E.
  induction H; intros y a E; try discriminate.
  - apply sub_skip. eapply IHsubseq; eauto.
  - injection E as -> ->. apply sub_skip. assumption.
Qed.

Lemma subseq_drop_middle {A} (a : list A) m b l :
  subseq (a ++ m ++ b) l -> subseq (a ++ b) l.
Proof.
  revert l. induction a as [|x a IH]; cbn; intros l H.
  - induction m as [|y m IHm]; cbn in H; [assumption|]. apply IHm. eapply subseq_cons_inv; eauto.
  - remember (x :: a ++ m ++ b) as xs eqn:E. revert E. induction H; intros E; try discriminate.
    + apply sub_skip. auto.
    + injection E as -> ->. apply sub_take. auto.
Qed.

Lemma subseq_prefix {A} (a b l : list A) : subseq (a ++ b) l -> subseq a l.
Proof.
  intros H. rewrite <- (app_nil_r a). apply (subseq_drop_middle a b []). now rewrite app_nil_r.
Qed.

Lemma subseq_In {A} (a b : list A) x : subseq a b -> In x a -> In x b.
Proof. induction 1; cbn; intros; auto. destruct H0; auto. Qed.

Lemma subseq_NoDup {A} (a b : list A) : subseq a b -> NoDup b -> NoDup a.
Proof.
  induction 1; intros N; auto.
  - inversion N; subst. auto.
  - inversion N; subst. constructor; auto. intros I. apply H2. eapply subseq_In; eauto.
Qed.

Lemma subseq_trans {A} (a b c : list A) : subseq a b -> subseq b c -> subseq a c.
Proof.
  intros H1 H2. revert a H1. induction H2; intros a H1.
  - assumption.
  - apply sub_skip. auto.
  - inversion H1; subst; [apply sub_skip|apply sub_take]; auto.
Qed.

Lemma subseqb_sound a b : subseqb a b = true -> subseq a b.
Proof.
  revert a. induction b as [|y b IH]; intros [|x a]; cbn; intros H;
    try discriminate; try apply subseq_nil_l.
  destruct (x =? y) eqn:E.
  - apply Z.eqb_eq in E. subst. apply sub_take. auto.
  - apply sub_skip. auto.
Qed.

(* -------------------------------------------------------------- list facts *)

Lemma for_client_app c a b : for_client c (a ++ b) = for_client c a ++ for_client c b.
Proof. unfold for_client. now rewrite filter_app, map_app. Qed.

Lemma for_client_map c e l :
  for_client c (map (fun d => (d, e)) l) = map (fun _ => e) (filter (fun d => d =? c) l).
Proof.
  unfold for_client. induction l as [|d l IH]; cbn; [reflexivity|].
  destruct (d =? c); cbn; now rewrite IH.
Qed.

Lemma memz_filter c l :
  memz c l = match filter (fun d => d =? c) l with [] => false | _ => true end.
Proof.
  induction l as [|d l IH]; cbn; [reflexivity|]. rewrite (Z.eqb_sym c d).
  destruct (d =? c); cbn; [reflexivity|assumption].
Qed.

Lemma filter_comm {A} (f g : A -> bool) l : filter f (filter g l) = filter g (filter f l).
Proof.
  induction l as [|x l IH]; cbn; [reflexivity|].
  destruct (f x) eqn:F, (g x) eqn:G; cbn; rewrite ?F, ?G, IH; reflexivity.
Qed.

Lemma filter_eq_dedup c l :
  filter (fun d => d =? c) (dedup l) = if memz c l then [c] else [].
Proof.
  induction l as [|x l IH]; cbn; [reflexivity|]. rewrite (Z.eqb_sym c x).
  destruct (memz x l) eqn:M.
  - rewrite IH. destruct (x =? c) eqn:E; cbn; [|reflexivity].
    apply Z.eqb_eq in E. subst. now rewrite M.
  - cbn. rewrite IH. destruct (x =? c) eqn:E; cbn; [|reflexivity].
    apply Z.eqb_eq in E. subst. now rewrite M.
Qed.

Lemma snapshot_count c ord cl (conn : bool) :
  filter (fun d => d =? c) cl = (if conn then [c] else []) ->
  filter (fun d => d =? c) (snapshot ord cl) = (if conn then [c] else []).
Proof.
  intros H. unfold snapshot. rewrite filter_app.
  rewrite (filter_comm (fun d => d =? c) (fun c0 => memz c0 cl)), filter_eq_dedup.
  rewrite (filter_comm (fun d => d =? c) (fun c0 => negb (memz c0 ord))), H.
  assert (M : memz c cl = conn) by (rewrite memz_filter, H; now destruct conn).
  destruct (memz c ord) eqn:O, conn; cbn; rewrite ?M, ?O; reflexivity.
Qed.

Lemma memz_removez_other c d l : (c =? d) = false -> memz c (removez d l) = memz c l.
Proof.
  intros N. unfold removez. induction l as [|x l IH]; [reflexivity|].
  cbn [filter memz existsb]. destruct (x =? d) eqn:E; cbn [negb].
  - apply Z.eqb_eq in E. subst. rewrite N. exact IH.
  - cbn [memz existsb]. fold (memz c (filter (fun d0 => negb (d0 =? d)) l)). fold (memz c l).
    now rewrite IH.
Qed.

Lemma memz_removez_self c l : memz c (removez c l) = false.
Proof.
  unfold removez, memz. induction l as [|x l IH]; [reflexivity|]. cbn [filter].
  destruct (x =? c) eqn:E; cbn [negb existsb]; [assumption|].
  now rewrite (Z.eqb_sym c x), E, IH.
Qed.

Lemma memz_cons_other c d l : (d =? c) = false -> memz c (d :: l) = memz c l.
Proof. intros E. unfold memz. cbn [existsb]. now rewrite (Z.eqb_sym c d), E. Qed.

Lemma memz_cons_self c l : memz c (c :: l) = true.
Proof. unfold memz. cbn [existsb]. now rewrite Z.eqb_refl. Qed.

Lemma for_client_cons_other c c' m q : (c' =? c) = false -> for_client c ((c', m) :: q) = for_client c q.
Proof. intros E. unfold for_client. cbn. now rewrite E. Qed.

Lemma for_client_cons_self c m q : for_client c ((c, m) :: q) = m :: for_client c q.
Proof. unfold for_client. cbn. now rewrite Z.eqb_refl. Qed.

Lemma for_client_snoc_other c c' m q : (c' =? c) = false -> for_client c (q ++ [(c', m)]) = for_client c q.
Proof. intros E. rewrite for_client_app, (for_client_cons_other c c' m [] E). apply app_nil_r. Qed.

Lemma for_client_snoc_self c m q : for_client c (q ++ [(c, m)]) = for_client c q ++ [m].
Proof. now rewrite for_client_app, for_client_cons_self. Qed.

Lemma memz_removez_false c d l : memz c l = false -> memz c (removez d l) = false.
Proof.
  unfold removez, memz. induction l as [|x l IH]; [reflexivity|].
  cbn [existsb filter]. intros H. apply orb_false_iff in H. destruct H as [H1 H2].
  destruct (negb (x =? d)); cbn [existsb]; [rewrite H1|]; auto.
Qed.


Ltac fields := cbn [clients outbox queue closed failing delivered attempted].

Lemma subseq_app_r {A} (a b x : list A) : subseq a b -> subseq a (b ++ x).
Proof.
  intros H. rewrite <- (app_nil_r a). apply subseq_app; [assumption|apply subseq_nil_l].
Qed.

Lemma att_snoc c s c' m b :
  for_client c (map fst (attempted s ++ [((c', m), b)])) = att c s ++ (if c' =? c then [m] else []).
Proof.
  unfold att, attempts. rewrite map_app, for_client_app. f_equal.
  unfold for_client. cbn. destruct (c' =? c); reflexivity.
Qed.

Lemma pending_cons c s c' m q :
  queue s = (c', m) :: q ->
  pending c s = (if c' =? c then [m] else []) ++ for_client c (q ++ outbox s).
Proof.
  intros Q. unfold pending, inflight. rewrite Q. cbn [app].
  destruct (c' =? c) eqn:E; [apply Z.eqb_eq in E; subst; apply for_client_cons_self|].
  now apply for_client_cons_other.
Qed.

(* --------------------------------------------------- the main invariant (T1) *)

Definition Inv (c : Z) (s : state) (g : spec) : Prop :=
  filter (fun d => d =? c) (clients s) = (if sp_conn g then [c] else []) /\
  sp_used g = sp_conn g || memz c (closed s) /\
  (sp_conn g = true -> memz c (closed s) = false) /\
  att c s ++ pending c s = sp_sent g /\
  subseq (recv c s) (att c s).

Lemma Inv_memz c s g : Inv c s g -> memz c (clients s) = sp_conn g.
Proof. intros [H _]. rewrite memz_filter, H. now destruct (sp_conn g). Qed.

Lemma Inv_init c : Inv c init spec_init.
Proof. repeat split; cbn; auto; try discriminate. apply sub_nil. Qed.

Lemma Inv_step c s g x : Inv c s g -> Inv c (do_step s x) (spec_step c g x).
Proof.
  intros I. pose proof (Inv_memz _ _ _ I) as M. destruct I as (I1 & I2 & I3 & I4 & I5).
  destruct x as [e ord|d|d|d|d| |]; cbn [do_step spec_step].
  - (* Emit *)
    unfold Inv, recv, att, attempts, pending, inflight in *. fields.
    rewrite app_assoc, for_client_app, for_client_map, (snapshot_count c ord _ _ I1).
    destruct (sp_conn g) eqn:C; cbn [sp_conn sp_used sp_sent map].
    + repeat split; auto; try congruence. now rewrite app_assoc, I4.
    + rewrite C, app_nil_r. repeat split; auto; try congruence.
  - (* Connect *)
    destruct (d =? c) eqn:E.
    + apply Z.eqb_eq in E. subst d. rewrite M. rewrite <- I2.
      destruct (sp_used g) eqn:U; cbn [negb andb]; [repeat split; auto; try congruence|].
      symmetry in I2. apply orb_false_iff in I2. destruct I2 as [C K].
      unfold Inv, recv, att, attempts, pending, inflight in *. fields. cbn [sp_conn sp_used sp_sent].
      rewrite C in I1. cbn [filter]. rewrite Z.eqb_refl, I1. repeat split; auto; try congruence.
    + cbn [andb]. destruct (memz d (clients s) || memz d (closed s)); [repeat split; auto; try congruence|].
      unfold Inv, recv, att, attempts, pending, inflight in *. fields. cbn [filter]. rewrite E.
      repeat split; auto; try congruence.
  - (* Disconnect *)
    destruct (d =? c) eqn:E.
    + apply Z.eqb_eq in E. subst d. rewrite M.
      destruct (sp_conn g) eqn:C; cbn [andb]; [|repeat split; auto; try congruence; now rewrite C].
      unfold Inv, recv, att, attempts, pending, inflight in *. fields. cbn [sp_conn sp_used sp_sent].
      rewrite memz_cons_self.
      split; [|repeat split; auto; try congruence; try discriminate].
      unfold removez. rewrite filter_comm, I1. cbn. now rewrite Z.eqb_refl.
    + cbn [andb]. destruct (memz d (clients s)); [|repeat split; auto; try congruence].
      unfold Inv, recv, att, attempts, pending, inflight in *. fields.
      rewrite (memz_cons_other c d _ E).
      repeat split; auto; try congruence.
      unfold removez. rewrite filter_comm, I1.
      destruct (sp_conn g); cbn; [|reflexivity]. rewrite (Z.eqb_sym c d), E. reflexivity.
  - repeat split; auto; try congruence.
  - repeat split; auto; try congruence.
  - (* HandOver *)
    destruct (outbox s) as [|p o] eqn:O; [repeat split; auto; try congruence|].
    unfold Inv, recv, att, attempts, pending, inflight in *. fields. rewrite O in I4.
    rewrite <- app_assoc. cbn [app]. repeat split; auto; try congruence.
  - (* RunCallback *)
    destruct (queue s) as [|[c' m] q] eqn:Q; [repeat split; auto; try congruence|].
    rewrite (pending_cons c s c' m q Q) in I4.
    destruct (memz c' (closed s) || memz c' (failing s));
      unfold Inv; unfold recv, att, attempts, pending, inflight; fields;
      rewrite att_snoc; fold (att c s); fold (recv c s).
    + repeat split; auto; try congruence.
      * now rewrite <- app_assoc.
      * now apply subseq_app_r.
    + repeat split; auto; try congruence.
      * now rewrite <- app_assoc.
      * rewrite for_client_app.
        replace (for_client c [(c', m)]) with (if c' =? c then [m] else [])
          by (unfold for_client; cbn; destruct (c' =? c); reflexivity).
        apply subseq_app; [assumption|apply subseq_refl].
Qed.

Lemma Inv_run c l s g : Inv c s g -> Inv c (run_from s l) (spec_from c g l).
Proof.
  revert s g. induction l as [|x l IH]; intros s g I; [assumption|].
  cbn. apply IH. now apply Inv_step.
Qed.

Lemma Inv_reach c l : Inv c (run l) (spec_from c spec_init l).
Proof. apply (Inv_run c l init spec_init (Inv_init c)). Qed.

(* T1 (liveness as safety): every event emitted while c was connected has had exactly one
   write attempt on c, in emission order, or is still in flight - for EVERY client, faulty
   or not, at every moment of every schedule *)
Lemma attempted_exactly_once l c : att c (run l) ++ pending c (run l) = sent c l.
Proof. now destruct (Inv_reach c l) as (_ & _ & _ & H & _). Qed.

Lemma pending_idle c s : idle s = true -> pending c s = [].
Proof.
  unfold idle, pending, inflight. destruct (queue s); [|discriminate].
  destruct (outbox s); [reflexivity|discriminate].
Qed.

(* ... and in a complete run (nothing in flight) every one of them HAS been attempted *)
Lemma attempted_all_when_idle l c : idle (run l) = true -> att c (run l) = sent c l.
Proof.
  intros H. pose proof (attempted_exactly_once l c) as E.
  now rewrite (pending_idle c _ H), app_nil_r in E.
Qed.

(* what c received are attempts (in order) *)
Lemma recv_subseq_att l c : subseq (recv c (run l)) (att c (run l)).
Proof. now destruct (Inv_reach c l) as (_ & _ & _ & _ & H). Qed.

(* T1 (order, at most once): what c received is a subsequence of the events emitted while
   it was connected *)
Lemma recv_subseq_sent l c : subseq (recv c (run l)) (sent c l).
Proof.
  eapply subseq_trans; [apply recv_subseq_att|].
  rewrite <- (attempted_exactly_once l c). rewrite <- (app_nil_r (att c (run l))) at 1.
  apply subseq_app; [apply subseq_refl|apply subseq_nil_l].
Qed.

(* the successful attempts are exactly the deliveries; an attempt succeeds iff the
   connection is open and the socket is not failing at that moment *)
Lemma delivered_are_successful_attempts_from s l :
  delivered s = map fst (filter snd (attempted s)) ->
  delivered (run_from s l) = map fst (filter snd (attempted (run_from s l))).
Proof.
  revert s. induction l as [|x l IH]; intros s H; [assumption|].
  change (run_from s (x :: l)) with (run_from (do_step s x) l). apply IH.
  destruct x as [e ord|d|d|d|d| |]; cbn [do_step]; try assumption.
  - destruct (memz d (clients s) || memz d (closed s)); assumption.
  - destruct (memz d (clients s)); assumption.
  - destruct (outbox s); assumption.
  - destruct (queue s) as [|[c m] q]; [assumption|].
    destruct (memz c (closed s) || memz c (failing s)); fields;
      rewrite filter_app, map_app; cbn; rewrite H; [now rewrite app_nil_r|reflexivity].
Qed.

Lemma delivered_are_successful_attempts l :
  delivered (run l) = map fst (filter snd (attempted (run l))).
Proof. now apply delivered_are_successful_attempts_from. Qed.

Lemma attempt_outcome s c m q :
  queue s = (c, m) :: q ->
  attempted (do_step s RunCallback)
  = attempted s ++ [((c, m), negb (memz c (closed s) || memz c (failing s)))].
Proof. intros Q. cbn [do_step]. rewrite Q. destruct (_ || _); reflexivity. Qed.

Lemma sent_subseq_emitted_gen c l g acc :
  subseq (sp_sent g) acc -> subseq (sp_sent (spec_from c g l)) (acc ++ emitted l).
Proof.
  revert g acc. induction l as [|x l IH]; intros g acc H; cbn; [now rewrite app_nil_r|].
  destruct x as [e ord|d|d|d|d| |]; cbn [spec_step emitted flat_map app];
    try (apply IH; assumption).
  - change (acc ++ e :: flat_map (fun x => match x with Emit e0 _ => [e0] | _ => [] end) l)
      with (acc ++ [e] ++ emitted l). rewrite app_assoc. apply IH.
    destruct (sp_conn g); cbn; [now apply subseq_app_tail|now apply subseq_skip_r].
  - apply IH. destruct (_ && _); assumption.
  - apply IH. destruct (_ && _); assumption.
Qed.

Lemma sent_subseq_emitted c l : subseq (sent c l) (emitted l).
Proof. apply (sent_subseq_emitted_gen c l spec_init []). constructor. Qed.

Lemma recv_subseq_emitted l c : subseq (recv c (run l)) (emitted l).
Proof. eapply subseq_trans; [apply recv_subseq_sent|apply sent_subseq_emitted]. Qed.

(* T1 (exactly once): distinct events are never delivered twice *)
Lemma recv_nodup l c : NoDup (emitted l) -> NoDup (recv c (run l)).
Proof. intros H. eapply subseq_NoDup; [apply recv_subseq_emitted|assumption]. Qed.


(* ------------------------------------ healthy clients: nothing is ever lost *)

(* one step that is not a fault of c, taken while c's socket works: every attempt made is a
   delivery *)
Lemma working_step c s x :
  is_fault_of c x = false ->
  memz c (failing s) = false -> memz c (closed s) = false ->
  exists d,
    att c (do_step s x) = att c s ++ d /\ recv c (do_step s x) = recv c s ++ d /\
    memz c (failing (do_step s x)) = false /\ memz c (closed (do_step s x)) = false.
Proof.
  intros NF F C.
  destruct x as [e ord|d|d|d|d| |]; cbn [do_step is_fault_of] in *.
  - exists []. rewrite !app_nil_r. repeat split; auto.
  - exists []. rewrite !app_nil_r. destruct (memz d (clients s) || memz d (closed s)); repeat split; auto.
  - exists []. rewrite !app_nil_r. destruct (memz d (clients s)); repeat split; auto.
    fields. now rewrite memz_cons_other.
  - exists []. rewrite !app_nil_r. repeat split; auto. fields. now rewrite memz_cons_other.
  - exists []. rewrite !app_nil_r. repeat split; auto. fields.
    rewrite memz_removez_other; [assumption|]. now rewrite Z.eqb_sym.
  - exists []. rewrite !app_nil_r. destruct (outbox s); repeat split; auto.
  - destruct (queue s) as [|[c' m] q] eqn:Q; [exists []; rewrite !app_nil_r; repeat split; auto|].
    exists (if c' =? c then [m] else []).
    destruct (c' =? c) eqn:EC.
    + apply Z.eqb_eq in EC. subst c'. rewrite C, F. cbn [orb].
      unfold att, attempts, recv. fields. rewrite att_snoc, Z.eqb_refl, for_client_snoc_self.
      repeat split; auto.
    + destruct (memz c' (closed s) || memz c' (failing s));
        unfold att, attempts, recv; fields; rewrite att_snoc, EC, ?app_nil_r;
        [repeat split; auto|].
      rewrite (for_client_snoc_other c c' m _ EC). repeat split; auto.
Qed.

Lemma working_run c l s :
  no_faults c l = true -> memz c (failing s) = false -> memz c (closed s) = false ->
  exists d, att c (run_from s l) = att c s ++ d /\ recv c (run_from s l) = recv c s ++ d /\
            memz c (failing (run_from s l)) = false /\ memz c (closed (run_from s l)) = false.
Proof.
  revert s. induction l as [|x l IH]; intros s NF F C.
  - exists []. rewrite !app_nil_r. repeat split; auto.
  - cbn in NF. apply andb_true_iff in NF. destruct NF as [N1 N2]. apply negb_true_iff in N1.
    destruct (working_step c s x N1 F C) as (d & E1 & E2 & F' & C').
    destruct (IH _ N2 F' C') as (d' & E3 & E4 & F'' & C'').
    exists (d ++ d'). change (run_from s (x :: l)) with (run_from (do_step s x) l).
    rewrite E3, E1, E4, E2, !app_assoc. repeat split; auto.
Qed.

(* a client without any fault has received every attempt *)
Lemma healthy_recv_att l c : no_faults c l = true -> recv c (run l) = att c (run l).
Proof.
  intros NF. destruct (working_run c l init NF eq_refl eq_refl) as (d & E1 & E2 & _).
  cbn in E1, E2. unfold run. now rewrite E1, E2.
Qed.

(* at every moment, received ++ still in flight = everything sent to a healthy client *)
Lemma healthy_nothing_lost l c :
  no_faults c l = true -> recv c (run l) ++ pending c (run l) = sent c l.
Proof. intros NF. rewrite (healthy_recv_att l c NF). apply attempted_exactly_once. Qed.

(* T1 (all of them): in a complete run a healthy client has received exactly the events
   emitted while it was connected *)
Lemma healthy_complete l c :
  no_faults c l = true -> idle (run l) = true -> recv c (run l) = sent c l.
Proof. intros NF Q. rewrite (healthy_recv_att l c NF). now apply attempted_all_when_idle. Qed.

(* draining: the actor hands everything over, then the loop runs everything *)
Definition drain_steps (s : state) : list step :=
  repeat HandOver (length (outbox s)) ++ repeat RunCallback (length (queue s) + length (outbox s)).
Definition drained_run (l : list step) : state := run (l ++ drain_steps (run l)).

Lemma run_from_app s l1 l2 : run_from s (l1 ++ l2) = run_from (run_from s l1) l2.
Proof. unfold run_from. apply fold_left_app. Qed.

Lemma run_app l1 l2 : run (l1 ++ l2) = run_from (run l1) l2.
Proof. apply run_from_app. Qed.

Lemma handovers_empty n s :
  (length (outbox s) <= n)%nat ->
  outbox (run_from s (repeat HandOver n)) = [] /\
  length (queue (run_from s (repeat HandOver n))) = (length (queue s) + length (outbox s))%nat.
Proof.
  revert s. induction n as [|n IH]; intros s H; cbn [repeat].
  - change (run_from s []) with s.
    destruct (outbox s) eqn:O; [split; [reflexivity|cbn; lia]|cbn in H; lia].
  - change (run_from s (HandOver :: repeat HandOver n)) with (run_from (do_step s HandOver) (repeat HandOver n)).
    cbn [do_step]. destruct (outbox s) as [|p o] eqn:O.
    + destruct (IH s) as [A B]; [rewrite O; cbn; lia|]. rewrite O in B. split; assumption.
    + destruct (IH (mkState (clients s) o (queue s ++ [p]) (closed s) (failing s) (delivered s) (attempted s)))
        as [A B]; [cbn in *; lia|]. split; [assumption|].
      rewrite B. fields. rewrite app_length. cbn. lia.
Qed.

Lemma run_callbacks_empty n s :
  outbox s = [] -> (length (queue s) <= n)%nat ->
  queue (run_from s (repeat RunCallback n)) = [] /\ outbox (run_from s (repeat RunCallback n)) = [].
Proof.
  revert s. induction n as [|n IH]; intros s O H; cbn [repeat].
  - change (run_from s []) with s.
    destruct (queue s) eqn:Q; [split; [reflexivity|assumption]|cbn in H; lia].
  - change (run_from s (RunCallback :: repeat RunCallback n)) with (run_from (do_step s RunCallback) (repeat RunCallback n)).
    apply IH; cbn [do_step]; destruct (queue s) as [|[c m] q] eqn:Q; try assumption.
    + destruct (_ || _); assumption.
    + rewrite Q. cbn. lia.
    + cbn in H. destruct (_ || _); cbn; lia.
Qed.

Lemma drained_idle l : idle (drained_run l) = true.
Proof.
  unfold drained_run, drain_steps. rewrite run_app, run_from_app.
  destruct (handovers_empty (length (outbox (run l))) (run l) (le_n _)) as [A B].
  destruct (run_callbacks_empty (length (queue (run l)) + length (outbox (run l)))
              (run_from (run l) (repeat HandOver (length (outbox (run l))))) A) as [C D];
    [rewrite B; lia|].
  unfold idle. now rewrite C, D.
Qed.

Lemma spec_from_app c g l1 l2 : spec_from c g (l1 ++ l2) = spec_from c (spec_from c g l1) l2.
Proof. unfold spec_from. apply fold_left_app. Qed.

Lemma spec_from_drain c g n m : spec_from c g (repeat HandOver n ++ repeat RunCallback m) = g.
Proof.
  rewrite spec_from_app.
  assert (H1 : forall g k, spec_from c g (repeat HandOver k) = g) by (intros g0 k; induction k; cbn; auto).
  assert (H2 : forall g k, spec_from c g (repeat RunCallback k) = g) by (intros g0 k; induction k; cbn; auto).
  now rewrite H1, H2.
Qed.

Lemma sent_drain c l n m : sent c (l ++ repeat HandOver n ++ repeat RunCallback m) = sent c l.
Proof. unfold sent. now rewrite spec_from_app, spec_from_drain. Qed.

Lemma no_faults_drain c l n m :
  no_faults c (l ++ repeat HandOver n ++ repeat RunCallback m) = no_faults c l.
Proof.
  unfold no_faults. rewrite !forallb_app.
  assert (forallb (fun x => negb (is_fault_of c x)) (repeat HandOver n) = true) as ->
    by (induction n; cbn; auto).
  assert (forallb (fun x => negb (is_fault_of c x)) (repeat RunCallback m) = true) as ->
    by (induction m; cbn; auto).
  now rewrite !andb_true_r.
Qed.

Lemma healthy_complete_drained l c :
  no_faults c l = true -> recv c (drained_run l) = sent c l.
Proof.
  intros NF. unfold drained_run, drain_steps.
  rewrite <- (sent_drain c l (length (outbox (run l))) (length (queue (run l)) + length (outbox (run l)))).
  apply healthy_complete; [now rewrite no_faults_drain|apply drained_idle].
Qed.

(* every event emitted while c was connected has been attempted on c exactly once, in order,
   once the run is complete - whatever c's own faults *)
Lemma attempted_all_drained l c : att c (drained_run l) = sent c l.
Proof.
  unfold drained_run, drain_steps.
  rewrite <- (sent_drain c l (length (outbox (run l))) (length (queue (run l)) + length (outbox (run l)))).
  apply attempted_all_when_idle. apply drained_idle.
Qed.

(* ---------------------------------------------------------- T2 isolation *)

Lemma spec_step_other_fault c g x : is_fault_of_other c x = true -> spec_step c g x = g.
Proof.
  destruct x as [e ord|d|d|d|d| |]; cbn; try discriminate; auto.
  intros H. apply negb_true_iff in H. now rewrite H.
Qed.

Lemma spec_from_erase c g l : spec_from c g (erase_other_faults c l) = spec_from c g l.
Proof.
  revert g. induction l as [|x l IH]; intros g; cbn; [reflexivity|].
  destruct (is_fault_of_other c x) eqn:E; cbn.
  - rewrite (spec_step_other_fault c g x E). apply IH.
  - apply IH.
Qed.

Lemma sent_erase c l : sent c (erase_other_faults c l) = sent c l.
Proof. unfold sent. now rewrite spec_from_erase. Qed.

Lemma no_faults_erase c l : no_faults c l = true -> no_faults c (erase_other_faults c l) = true.
Proof.
  unfold no_faults, erase_other_faults. intros H. rewrite forallb_forall in *.
  intros x Hx. apply filter_In in Hx. apply H. tauto.
Qed.

(* erasing the disconnects / socket failures / recoveries of the other clients changes
   nothing for a healthy client c once the loop has drained ... *)
(* erasing the disconnects / socket failures / recoveries of the other clients changes
   nothing for a healthy client c once the run is complete ... *)
Lemma isolation l c :
  no_faults c l = true ->
  recv c (drained_run l) = recv c (drained_run (erase_other_faults c l)).
Proof.
  intros NF. rewrite (healthy_complete_drained l c NF).
  rewrite (healthy_complete_drained _ c (no_faults_erase c l NF)). now rewrite sent_erase.
Qed.

(* ... and before that, both runs have delivered prefixes of the same sequence *)
Lemma isolation_prefix l c :
  no_faults c l = true ->
  exists p1 p2, recv c (run l) ++ p1 = sent c l /\
                recv c (run (erase_other_faults c l)) ++ p2 = sent c l.
Proof.
  intros NF. exists (pending c (run l)), (pending c (run (erase_other_faults c l))). split.
  - now apply healthy_nothing_lost.
  - rewrite <- (sent_erase c l). apply healthy_nothing_lost. now apply no_faults_erase.
Qed.

(* the reference sequence of c depends on no step of any other client *)
Lemma spec_step_unconcerned c g x : concerns c x = false -> spec_step c g x = g.
Proof.
  destruct x as [e ord|d|d|d|d| |]; cbn; try discriminate; auto; intros ->; reflexivity.
Qed.

Lemma sent_only_own_steps c l : sent c (filter (concerns c) l) = sent c l.
Proof.
  unfold sent. generalize spec_init. induction l as [|x l IH]; intros g; cbn; [reflexivity|].
  destruct (concerns c x) eqn:E; cbn.
  - apply IH.
  - rewrite (spec_step_unconcerned c g x E). apply IH.
Qed.

(* --------------------------------------------- T3 nothing after disconnect *)

Lemma closed_mono c s x : memz c (closed s) = true -> memz c (closed (do_step s x)) = true.
Proof.
  intros H. destruct x as [e ord|d|d|d|d| |]; cbn [do_step]; auto.
  - destruct (_ || _); auto.
  - destruct (memz d (clients s)); auto. fields. unfold memz in *. cbn [existsb].
    now rewrite H, orb_true_r.
  - destruct (outbox s); auto.
  - destruct (queue s) as [|[c' m] q]; auto. destruct (_ || _); auto.
Qed.

Lemma closed_recv_step c s x : memz c (closed s) = true -> recv c (do_step s x) = recv c s.
Proof.
  intros H. destruct x as [e ord|d|d|d|d| |]; cbn [do_step]; auto.
  - destruct (_ || _); auto.
  - destruct (memz d (clients s)); auto.
  - destruct (outbox s); auto.
  - destruct (queue s) as [|[c' m] q]; auto.
    destruct (memz c' (closed s) || memz c' (failing s)) eqn:E; auto.
    unfold recv. fields. rewrite for_client_app.
    destruct (c' =? c) eqn:EC.
    + apply Z.eqb_eq in EC. subst c'. rewrite H in E. discriminate.
    + unfold for_client at 2. cbn. rewrite EC. cbn. apply app_nil_r.
Qed.

Lemma closed_recv_run c l s : memz c (closed s) = true -> recv c (run_from s l) = recv c s.
Proof.
  revert s. induction l as [|x l IH]; intros s H; [reflexivity|].
  change (run_from s (x :: l)) with (run_from (do_step s x) l).
  rewrite IH; [now apply closed_recv_step|now apply closed_mono].
Qed.

Lemma nothing_after_disconnect l1 l2 c :
  memz c (clients (run l1)) = true ->
  recv c (run (l1 ++ Disconnect c :: l2)) = recv c (run l1).
Proof.
  intros H. rewrite run_app.
  change (run_from (run l1) (Disconnect c :: l2)) with (run_from (do_step (run l1) (Disconnect c)) l2).
  rewrite closed_recv_run.
  - cbn [do_step]. now rewrite H.
  - cbn [do_step]. rewrite H. fields. apply memz_cons_self.
Qed.

(* a disconnected client is never a broadcast target again *)
Lemma closed_not_client_step c s x :
  memz c (closed s) = true -> memz c (clients s) = false ->
  memz c (clients (do_step s x)) = false.
Proof.
  intros H N. destruct x as [e ord|d|d|d|d| |]; cbn [do_step]; auto.
  - destruct (memz d (clients s) || memz d (closed s)) eqn:E; auto.
    fields. unfold memz in *. cbn [existsb]. rewrite N, orb_false_r.
    destruct (c =? d) eqn:EC; [|reflexivity].
    apply Z.eqb_eq in EC. subst d. rewrite H, orb_true_r in E. discriminate.
  - destruct (memz d (clients s)); auto. fields. now apply memz_removez_false.
  - destruct (outbox s); auto.
  - destruct (queue s) as [|[c' m] q]; auto.
    destruct (memz c' (closed s) || memz c' (failing s)); auto.
Qed.

Lemma never_target_again c l s :
  memz c (closed s) = true -> memz c (clients s) = false ->
  memz c (clients (run_from s l)) = false.
Proof.
  revert s. induction l as [|x l IH]; intros s H N; [assumption|].
  change (run_from s (x :: l)) with (run_from (do_step s x) l).
  apply IH; [now apply closed_mono|now apply closed_not_client_step].
Qed.

(* ------------------------------------------------------- T4 message shape *)

Section MessageProofs.
  Context {P : Type}.

  Lemma str_eqb_sym a b : str_eqb a b = str_eqb b a.
  Proof.
    destruct (str_eqb a b) eqn:E1, (str_eqb b a) eqn:E2; auto.
    - apply str_eqb_eq in E1. subst. assert (str_eqb b b = true) by now apply str_eqb_eq. congruence.
    - apply str_eqb_eq in E2. subst. assert (str_eqb a a = true) by now apply str_eqb_eq. congruence.
  Qed.

  Lemma dict_get_set (k k' : str) (v : P) d :
    dict_get k (dict_set k' v d) = if str_eqb k' k then Some v else dict_get k d.
  Proof.
    induction d as [|[k0 v0] d IH]; cbn.
    - destruct (str_eqb k' k); reflexivity.
    - destruct (str_eqb k0 k') eqn:E0; cbn.
      + apply str_eqb_eq in E0. subst k0. destruct (str_eqb k' k); reflexivity.
      + rewrite IH. destruct (str_eqb k0 k) eqn:E1; [|reflexivity].
        apply str_eqb_eq in E1. subst k0. now rewrite str_eqb_sym, E0.
  Qed.

  (* the event name is under "event" ... *)
  Lemma message_event (inj : str -> P) name args :
    dict_get key_event (message inj name args) = Some (inj name).
  Proof.
    unfold message. rewrite dict_get_set.
    assert (str_eqb key_event key_event = true) as -> by now apply str_eqb_eq. reflexivity.
  Qed.

  (* ... every argument is under its own name ... *)
  Lemma message_args (inj : str -> P) name args k :
    k <> key_event -> dict_get k (message inj name args) = dict_get k args.
  Proof.
    intros N. unfold message. rewrite dict_get_set.
    destruct (str_eqb key_event k) eqn:E; [|reflexivity].
    apply str_eqb_eq in E. congruence.
  Qed.

  (* ... and the keys are exactly the argument names plus "event" *)
  Lemma message_keys (inj : str -> P) name args :
    dict_get key_event args = None ->
    map fst (message inj name args) = map fst args ++ [key_event].
  Proof.
    unfold message. induction args as [|[k v] d IH]; cbn; [reflexivity|].
    destruct (str_eqb k key_event); [discriminate|]. intros H. cbn. now rewrite IH.
  Qed.
End MessageProofs.

(* ------------------------------------------- the view of a single client *)

Lemma view_step c s g x : Inv c s g -> view c (do_step s x) = l_run (view c s) (proj c s x).
Proof.
  intros I. pose proof (Inv_memz _ _ _ I) as M. destruct I as (I1 & _).
  destruct x as [e ord|d|d|d|d| |]; cbn [do_step proj].
  - unfold view, pending, inflight, recv. fields. cbn [l_run fold_left l_do l_conn].
    rewrite app_assoc, for_client_app, for_client_map, (snapshot_count c ord _ _ I1), M.
    destruct (sp_conn g); cbn [map]; [reflexivity|now rewrite app_nil_r].
  - destruct (d =? c) eqn:E.
    + apply Z.eqb_eq in E. subst d. cbn [l_run fold_left l_do view l_conn l_closed].
      destruct (memz c (clients s) || memz c (closed s)); [reflexivity|].
      unfold view, pending, inflight, recv. fields. now rewrite memz_cons_self.
    + cbn [l_run fold_left]. destruct (memz d (clients s) || memz d (closed s)); [reflexivity|].
      unfold view, pending, inflight, recv. fields. now rewrite memz_cons_other.
  - destruct (d =? c) eqn:E.
    + apply Z.eqb_eq in E. subst d. cbn [l_run fold_left l_do view l_conn].
      destruct (memz c (clients s)); [|reflexivity].
      unfold view, pending, inflight, recv. fields.
      now rewrite memz_removez_self, memz_cons_self.
    + cbn [l_run fold_left]. destruct (memz d (clients s)); [|reflexivity].
      unfold view, pending, inflight, recv. fields.
      rewrite memz_cons_other by assumption. rewrite memz_removez_other; [reflexivity|].
      now rewrite Z.eqb_sym.
  - destruct (d =? c) eqn:E.
    + apply Z.eqb_eq in E. subst d. unfold view, pending, inflight, recv. fields.
      cbn [l_run fold_left l_do l_conn l_closed l_queue l_recv]. now rewrite memz_cons_self.
    + unfold view, pending, inflight, recv. fields. cbn [l_run fold_left]. now rewrite memz_cons_other.
  - destruct (d =? c) eqn:E.
    + apply Z.eqb_eq in E. subst d. unfold view, pending, inflight, recv. fields.
      cbn [l_run fold_left l_do l_conn l_closed l_queue l_recv]. now rewrite memz_removez_self.
    + unfold view, pending, inflight, recv. fields. cbn [l_run fold_left].
      rewrite memz_removez_other; [reflexivity|]. now rewrite Z.eqb_sym.
  - (* HandOver: nothing changes for any client *)
    cbn [l_run fold_left]. destruct (outbox s) as [|p o] eqn:O; [reflexivity|].
    unfold view, pending, inflight, recv. fields. rewrite O, <- app_assoc. reflexivity.
  - destruct (queue s) as [|[c' m] q] eqn:Q; [reflexivity|].
    destruct (c' =? c) eqn:E.
    + apply Z.eqb_eq in E. subst c'.
      cbn [l_run fold_left l_do view l_queue l_closed l_failing l_conn l_recv].
      rewrite (pending_cons c s c m q Q), Z.eqb_refl. cbn [app].
      destruct (memz c (closed s) || memz c (failing s));
        unfold view, pending, inflight, recv; fields;
        [reflexivity|now rewrite for_client_snoc_self].
    + cbn [l_run fold_left]. unfold view. rewrite (pending_cons c s c' m q Q), E. cbn [app].
      destruct (memz c' (closed s) || memz c' (failing s));
        unfold pending, inflight, recv; fields; [reflexivity|].
      now rewrite (for_client_snoc_other c c' m _ E).
Qed.

Lemma l_run_app v a b : l_run v (a ++ b) = l_run (l_run v a) b.
Proof. unfold l_run. apply fold_left_app. Qed.

Lemma view_run c l s g :
  Inv c s g -> view c (run_from s l) = l_run (view c s) (trace_proj c s l).
Proof.
  revert s g. induction l as [|x l IH]; intros s g I; [reflexivity|].
  change (run_from s (x :: l)) with (run_from (do_step s x) l).
  cbn [trace_proj]. rewrite l_run_app, <- (view_step c s g x I).
  apply (IH _ _ (Inv_step c s g x I)).
Qed.

(* T2, complete form: the global run refines the client's own local machine *)
Lemma view_refines c l : view c (run l) = l_run (view c init) (trace_proj c init l).
Proof. apply (view_run c l init spec_init (Inv_init c)). Qed.

Lemma recv_determined_by_own_history c l1 l2 :
  trace_proj c init l1 = trace_proj c init l2 -> recv c (run l1) = recv c (run l2).
Proof.
  intros H. change (recv c (run l1)) with (l_recv (view c (run l1))).
  change (recv c (run l2)) with (l_recv (view c (run l2))).
  now rewrite !view_refines, H.
Qed.

Lemma proj_other_fault c s x : is_fault_of_other c x = true -> proj c s x = [].
Proof.
  destruct x as [e ord|d|d|d|d| |]; cbn; try discriminate; intros H;
    apply negb_true_iff in H; now rewrite H.
Qed.

(* ----------------------- completeness from any point where the socket works *)

Lemma spec_sent_extends c l g : exists new, sp_sent (spec_from c g l) = sp_sent g ++ new.
Proof.
  revert g. induction l as [|x l IH]; intros g; [exists []; now rewrite app_nil_r|].
  change (spec_from c g (x :: l)) with (spec_from c (spec_step c g x) l).
  destruct (IH (spec_step c g x)) as (n & E). rewrite E.
  destruct x as [e ord|d|d|d|d| |]; cbn [spec_step]; try (now exists n).
  - destruct (sp_conn g); cbn [sp_sent]; [exists ([e] ++ n); now rewrite app_assoc|now exists n].
  - destruct (_ && _); cbn [sp_sent]; now exists n.
  - destruct (_ && _); cbn [sp_sent]; now exists n.
Qed.

Lemma spec_conn_no_faults c l g :
  sp_conn g = true -> no_faults c l = true ->
  sp_sent (spec_from c g l) = sp_sent g ++ emitted l.
Proof.
  revert g. induction l as [|x l IH]; intros g C NF; [now rewrite app_nil_r|].
  cbn in NF. apply andb_true_iff in NF. destruct NF as [N1 N2]. apply negb_true_iff in N1.
  change (spec_from c g (x :: l)) with (spec_from c (spec_step c g x) l).
  destruct x as [e ord|d|d|d|d| |]; cbn [spec_step is_fault_of emitted flat_map app] in *;
    try (now apply IH).
  - rewrite C. rewrite IH; auto. cbn [sp_sent]. now rewrite <- app_assoc.
  - destruct ((d =? c) && negb (sp_used g)); [rewrite IH; auto|now apply IH].
  - rewrite N1. cbn [andb]. now apply IH.
Qed.

(* T1, from any point on: if after l1 the socket of c works (not failing, not closed) and l2
   contains no fault step of c, nothing sent to c during l2 - nor anything still in flight
   to it - is lost; a connected c gets every event emitted in l2 *)
Lemma working_nothing_lost l1 l2 c :
  memz c (failing (run l1)) = false -> memz c (closed (run l1)) = false ->
  no_faults c l2 = true ->
  exists new,
    recv c (run (l1 ++ l2)) ++ pending c (run (l1 ++ l2))
      = (recv c (run l1) ++ pending c (run l1)) ++ new /\
    sent c (l1 ++ l2) = sent c l1 ++ new /\
    (memz c (clients (run l1)) = true -> new = emitted l2).
Proof.
  intros F C NF.
  destruct (working_run c l2 (run l1) NF F C) as (d & E1 & E2 & _).
  destruct (spec_sent_extends c l2 (spec_from c spec_init l1)) as (new & EN).
  exists new.
  assert (S2 : sent c (l1 ++ l2) = sent c l1 ++ new) by (unfold sent; now rewrite spec_from_app).
  pose proof (attempted_exactly_once (l1 ++ l2) c) as A2.
  pose proof (attempted_exactly_once l1 c) as A1.
  rewrite run_app in *. rewrite E1, S2, <- A1, <- !app_assoc in A2. apply app_inv_head in A2.
  repeat split; auto.
  - now rewrite E2, <- !app_assoc, A2.
  - intros M. unfold sent in EN.
    rewrite spec_conn_no_faults in EN; auto.
    + now apply app_inv_head in EN.
    + now rewrite <- (Inv_memz _ _ _ (Inv_reach c l1)).
Qed.

(* in particular after a recovery: SocketFails ... SocketRecovers c, c still connected *)
Lemma recovered_complete l1 l2 c :
  memz c (clients (run l1)) = true -> no_faults c l2 = true ->
  idle (run (l1 ++ SocketRecovers c :: l2)) = true ->
  exists before, recv c (run (l1 ++ SocketRecovers c :: l2)) = before ++ emitted l2.
Proof.
  intros M NF Q.
  pose proof (Inv_reach c l1) as I.
  assert (C : memz c (closed (run l1)) = false).
  { destruct I as (_ & _ & I3 & _). apply I3. now rewrite <- (Inv_memz _ _ _ (Inv_reach c l1)). }
  replace (l1 ++ SocketRecovers c :: l2) with ((l1 ++ [SocketRecovers c]) ++ l2) in *
    by now rewrite <- app_assoc.
  destruct (working_nothing_lost (l1 ++ [SocketRecovers c]) l2 c) as (new & E1 & _ & K); auto.
  - rewrite run_app. cbn. apply memz_removez_self.
  - rewrite run_app. cbn. exact C.
  - rewrite (pending_idle c _ Q), app_nil_r in E1.
    eexists. rewrite E1, K; [reflexivity|]. rewrite run_app. cbn. exact M.
Qed.

(* the split used by the monitor predicate *)
Lemma split_last_fault_spec c l :
  let '(a, b) := split_last_fault c l in
  l = a ++ b /\ no_faults c b = true /\
  (a = [] \/ exists a' x, a = a' ++ [x] /\ is_fault_of c x = true).
Proof.
  induction l as [|x t IH]; cbn; [repeat split; auto|].
  destruct (split_last_fault c t) as [a b]. destruct IH as (E & NF & L).
  destruct a as [|y a].
  - destruct (is_fault_of c x) eqn:F.
    + repeat split; auto; [now rewrite E|]. right. exists [], x. auto.
    + repeat split; auto; [now rewrite E|]. unfold no_faults in *. cbn [forallb]. now rewrite F, NF.
  - repeat split; auto; [now rewrite E|]. right.
    destruct L as [L|(a' & z & L & F)]; [discriminate|].
    exists (x :: a'), z. split; [|assumption]. cbn. now rewrite L.
Qed.

Lemma is_suffixb_app p x : is_suffixb x (p ++ x) = true.
Proof.
  unfold is_suffixb. rewrite app_length.
  replace (length p + length x - length x)%nat with (length p) by lia.
  rewrite skipn_app, skipn_all, Nat.sub_diag. cbn [skipn app].
  apply andb_true_iff. split; [apply Nat.leb_le; lia|].
  apply (proj2 (list_eqb_spec Z.eqb Z.eqb_eq _ _)). reflexivity.
Qed.

Lemma t1_recovered_ok_holds l c :
  idle (run l) = true -> t1_recovered_ok c l (recv c (run l)) = true.
Proof.
  intros Q. unfold t1_recovered_ok.
  pose proof (split_last_fault_spec c l) as S. destruct (split_last_fault c l) as [a b].
  destruct S as (E & NF & L).
  destruct L as [->|(a' & x & -> & F)]; [reflexivity|].
  rewrite rev_app_distr. cbn [rev app].
  destruct (is_recover_of c x) eqn:R; [|reflexivity]. cbn [andb].
  destruct x as [e ord|d|d|d|d| |]; try discriminate. cbn in R. apply Z.eqb_eq in R. subst d.
  destruct (sp_conn (spec_from c spec_init (a' ++ [SocketRecovers c]))) eqn:SC; [|reflexivity].
  assert (M : memz c (clients (run a')) = true).
  { rewrite (Inv_memz _ _ _ (Inv_reach c a')).
    rewrite spec_from_app in SC. exact SC. }
  subst l. rewrite <- app_assoc in *. cbn [app] in *.
  destruct (recovered_complete a' b c M NF Q) as (before & ->). apply is_suffixb_app.
Qed.

(* --------------------------------------------------------------- monitors *)

Lemma subseqb_complete a b : subseq a b -> subseqb a b = true.
Proof.
  induction 1; cbn; auto.
  - destruct l1 as [|y l1]; [reflexivity|]. destruct (y =? x) eqn:E; [|assumption].
    apply Z.eqb_eq in E. subst. cbn in IHsubseq.
    (* y = x taken greedily: the rest is still a subsequence *)
    clear IHsubseq. apply subseq_cons_inv in H. clear -H.
    revert l1 H. induction l2 as [|z l2 IH]; intros l1 H.
    + inversion H; subst. reflexivity.
    + destruct l1 as [|w l1]; [reflexivity|]. cbn. inversion H; subst.
      * destruct (w =? z) eqn:E; [|now apply IH].
        apply Z.eqb_eq in E. subst. apply IH. eapply subseq_cons_inv; eauto.
      * rewrite Z.eqb_refl. now apply IH.
  - now rewrite Z.eqb_refl.
Qed.

Lemma nodupb_NoDup l : NoDup l -> nodupb l = true.
Proof.
  induction 1; cbn; [reflexivity|]. rewrite IHNoDup, andb_true_r. apply negb_true_iff.
  destruct (memz x l) eqn:M; [|reflexivity]. exfalso. apply H.
  unfold memz in M. apply existsb_exists in M. destruct M as [y [Hy E]].
  apply Z.eqb_eq in E. now subst.
Qed.

Lemma nodupb_sound l : nodupb l = true -> NoDup l.
Proof.
  induction l as [|x l IH]; cbn; intros H; constructor.
  - apply andb_true_iff in H. destruct H as [H _]. apply negb_true_iff in H. intros I.
    assert (memz x l = true) as M; [|congruence].
    unfold memz. apply existsb_exists. exists x. split; [assumption|apply Z.eqb_refl].
  - apply IH. apply andb_true_iff in H. tauto.
Qed.

(* the boolean predicates the harness evaluates on observed logs hold of the model's own
   logs, for every step list and client *)
Lemma t1_log_ok_holds l c : t1_log_ok c l (recv c (run l)) = true.
Proof.
  unfold t1_log_ok. rewrite (subseqb_complete _ _ (recv_subseq_sent l c)). cbn [andb].
  destruct (nodupb (emitted l)) eqn:N; [|reflexivity]. cbn [negb orb].
  apply nodupb_NoDup, recv_nodup. now apply nodupb_sound.
Qed.

Lemma t1_complete_ok_holds l c :
  idle (run l) = true -> t1_complete_ok c l (recv c (run l)) = true.
Proof.
  intros Q. unfold t1_complete_ok. destruct (no_faults c l) eqn:NF; [|reflexivity].
  cbn [negb orb]. rewrite (healthy_complete l c NF Q).
  apply (proj2 (list_eqb_spec Z.eqb Z.eqb_eq _ _)). reflexivity.
Qed.

(* --------------------------------------------------------------- non-vacuity *)

(* hand-overs interleaved with the loop: client 3 connects between the snapshot of event 11
   and its hand-over (and does not get it), client 2's write of 11 fails, ... *)
Definition ex_steps : list step :=
  [Connect 1; Connect 2; Emit 10 []; HandOver; Connect 3; HandOver; Emit 11 [2; 1]; RunCallback;
   HandOver; SocketFails 2; RunCallback; HandOver; RunCallback; RunCallback; Disconnect 3;
   Emit 12 []; SocketRecovers 2; HandOver; HandOver; Emit 13 []].

Example nonvac_healthy :
  no_faults 1 ex_steps = true /\ recv 1 (drained_run ex_steps) = [10; 11; 12; 13]
  /\ recv 2 (drained_run ex_steps) = [10; 12; 13] /\ att 2 (drained_run ex_steps) = [10; 11; 12; 13]
  /\ recv 3 (drained_run ex_steps) = []
  /\ sent 2 ex_steps = [10; 11; 12; 13] /\ sent 3 ex_steps = [11].
Proof. vm_compute. repeat split. Qed.

Example nonvac_recovered :
  let l1 := [Connect 1; Connect 2; Emit 10 []; HandOver; HandOver; RunCallback; RunCallback;
             SocketFails 2; Emit 11 []; HandOver; HandOver; RunCallback; RunCallback] in
  let l2 := [Emit 12 []; HandOver; RunCallback; HandOver; RunCallback; Emit 13 []; HandOver; HandOver;
             RunCallback; RunCallback] in
  memz 2 (clients (run l1)) = true /\ no_faults 2 l2 = true /\
  idle (run (l1 ++ SocketRecovers 2 :: l2)) = true /\
  recv 2 (run (l1 ++ SocketRecovers 2 :: l2)) = [10; 12; 13] /\
  t1_recovered_ok 2 (l1 ++ SocketRecovers 2 :: l2) [10; 12] = false.
Proof. vm_compute. repeat split. Qed.

Example nonvac_disconnect :
  memz 3 (clients (run [Connect 1; Connect 2; Emit 10 []; Connect 3; Emit 11 [3; 1]; HandOver;
                        RunCallback; SocketFails 2; RunCallback])) = true.
Proof. reflexivity. Qed.

Example nonvac_nodup : NoDup (emitted ex_steps).
Proof. vm_compute. repeat constructor; cbn; intuition discriminate. Qed.
