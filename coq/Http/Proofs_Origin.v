(* Proofs about the CSRF / cross-origin policy model (Origin.v). *)
From Coq Require Import ZArith List Bool Lia.
From Common Require Import Res Str.
From Http Require Import Origin.
Import ListNotations.
Open Scope Z_scope.

(* ------------------------------------------------------------ small facts *)

Lemma mem_str_In x l : mem_str x l = true <-> In x l.
Proof.
  induction l as [|y l IH]; cbn; [split; [discriminate|tauto]|].
  rewrite orb_true_iff, IH, str_eqb_eq. split; intros [H|H]; auto.
Qed.

Lemma str_eqb_refl s : str_eqb s s = true.
Proof. apply str_eqb_eq. reflexivity. Qed.

Lemma lower_nil_iff n : lower n = [] <-> n = [].
Proof. destruct n; cbn; split; intros H; try reflexivity; discriminate. Qed.

Lemma opt_some_eqb p (host : option str) :
  opt_eqb str_eqb (Some p) host = true <-> host = Some p.
Proof.
  destruct host as [h|]; cbn; [|split; discriminate].
  rewrite str_eqb_eq. split; [intros ->; reflexivity|intros [= ->]; reflexivity].
Qed.

Lemma py_lower_c_idem c : py_lower_c (py_lower_c c) = py_lower_c c.
Proof.
  unfold py_lower_c, is_upper.
  destruct ((65 <=? c) && (c <=? 90)) eqn:E1.
  - replace ((65 <=? c + 32) && (c + 32 <=? 90)) with false by lia.
    replace ((192 <=? c + 32) && (c + 32 <=? 222) && negb (c + 32 =? 215)) with false by lia.
    reflexivity.
  - destruct ((192 <=? c) && (c <=? 222) && negb (c =? 215)) eqn:E2.
    + replace ((65 <=? c + 32) && (c + 32 <=? 90)) with false by lia.
      replace ((192 <=? c + 32) && (c + 32 <=? 222) && negb (c + 32 =? 215)) with false by lia.
      reflexivity.
    + now rewrite E1, E2.
Qed.

Lemma lower_idem s : lower (lower s) = lower s.
Proof. unfold lower. rewrite map_map. apply map_ext. intros c. apply py_lower_c_idem. Qed.

Lemma origin_ok_spec allow host n :
  origin_ok allow host n = true <-> (n = [] \/ host = Some (lower n) \/ In (lower n) allow).
Proof.
  unfold origin_ok. destruct n as [|c n].
  - cbn. split; auto.
  - cbn [lower map]. rewrite orb_true_iff, opt_some_eqb, mem_str_In. split.
    + intros [H|H]; auto.
    + intros [H|[H|H]]; [discriminate|auto|auto].
Qed.

(* the condition the code implements implies the (more liberal) condition the monitors test *)
Lemma origin_ok_permitted allow host o :
  origin_ok allow host (raw_netloc o) = true -> origin_permitted allow host o = true.
Proof.
  intros H. apply origin_ok_spec in H. unfold origin_permitted.
  destruct (raw_netloc o) as [|c n] eqn:E; [reflexivity|].
  destruct H as [H|[H|H]]; [discriminate| |]; apply orb_true_iff.
  - left. rewrite H. cbn [option_map]. rewrite lower_idem. apply opt_some_eqb. reflexivity.
  - right. apply mem_str_In. rewrite <- lower_idem. now apply in_map.
Qed.

Lemma check_origin_ok_true orc allow o host :
  check_origin orc allow (Some o) host = Ok true -> origin_ok allow host (raw_netloc o) = true.
Proof.
  unfold check_origin, netloc_of.
  destruct (xorb _ _); [discriminate|].
  destruct (_ || _).
  - destruct orc; [discriminate|]. now intros [= ->].
  - now intros [= ->].
Qed.

Lemma check_origin_true orc allow o host :
  check_origin orc allow (Some o) host = Ok true -> origin_permitted allow host o = true.
Proof. intros H. apply origin_ok_permitted. eapply check_origin_ok_true; eauto. Qed.

Lemma check_origin_none orc allow host : check_origin orc allow None host = Ok false.
Proof. reflexivity. Qed.

(* ------------------------------------- the monitor predicates hold of the model *)

Lemma t1_holds r : t1_post_gate r (handle r) = true.
Proof.
  unfold t1_post_gate, handle. destruct (r_kind r); cbn [kind_eqb andb implb]; try reflexivity.
  unfold handle_post. destruct (r_csrf r); cbn [andb implb]; [|reflexivity].
  destruct (str_eqb (media_type (r_ctype r)) app_json) eqn:E; cbn; [|reflexivity].
  apply str_eqb_eq in E. rewrite E. destruct (r_body r); reflexivity.
Qed.

Lemma t2_holds r : t2_preflight_sound r (handle r) = true.
Proof.
  unfold t2_preflight_sound, handle. destruct (r_kind r); cbn [kind_eqb andb implb]; try reflexivity.
  unfold handle_options. destruct (r_csrf r); cbn [andb implb]; [|reflexivity].
  destruct (r_origin r) as [o|] eqn:EO.
  - destruct (check_origin (r_orc r) (r_allow r) (Some o) (r_host r)) as [[|]|e|] eqn:EC;
      try reflexivity.
    destruct o as [|c o']; [reflexivity|].
    apply check_origin_true in EC. cbn. now rewrite EC.
  - rewrite check_origin_none. reflexivity.
Qed.

Lemma t3_holds r : t3_ws_sound r (handle r) = true.
Proof.
  unfold t3_ws_sound, handle. destruct (r_kind r); cbn [kind_eqb implb]; try reflexivity.
  unfold handle_ws. destruct (effective_ws_origin r) as [o|]; [|reflexivity].
  destruct (r_csrf r); cbn [negb andb implb]; [|reflexivity].
  destruct (check_origin (r_orc r) (r_allow r) (Some o) (r_host r)) as [[|]|e|] eqn:EC;
    try reflexivity.
  apply check_origin_true in EC. cbn. now rewrite EC.
Qed.

Lemma t4_holds r : t4_refused_inert r (handle r) = true.
Proof.
  unfold t4_refused_inert, handle, handle_post, handle_options, handle_ws, ws_accept, refuse.
  destruct (r_kind r).
  - destruct (r_csrf r); [destruct (negb _)|]; reflexivity.
  - destruct (r_csrf r); [|reflexivity].
    destruct (check_origin _ _ _ _) as [[|]|e|]; try reflexivity.
    destruct (r_origin r) as [[|c o]|]; reflexivity.
  - destruct (effective_ws_origin r); [|reflexivity].
    destruct (negb _); [reflexivity|].
    destruct (check_origin _ _ _ _) as [[|]|e|]; reflexivity.
  - reflexivity.
  - reflexivity.
Qed.

Lemma t5_holds r : t5_off_accepts_all r (handle r) = true.
Proof.
  unfold t5_off_accepts_all, handle, handle_post, handle_options, handle_ws, ws_accept.
  destruct (r_csrf r); cbn [negb implb]; [reflexivity|].
  destruct (r_kind r); cbn.
  - apply eqb_reflx.
  - reflexivity.
  - destruct (effective_ws_origin r); reflexivity.
  - reflexivity.
  - reflexivity.
Qed.

Lemma all_monitors_hold r : forallb (fun b => b) (all_monitors r (handle r)) = true.
Proof.
  unfold all_monitors. cbn [forallb].
  now rewrite t1_holds, t2_holds, t3_holds, t4_holds, t5_holds.
Qed.

(* ------------------------------------------------------ Prop-level statements *)

(* T1 *)
Lemma post_gate r :
  r_kind r = Post -> r_csrf r = true -> reaches_core (handle r) = true ->
  media_type (r_ctype r) = app_json.
Proof.
  intros K C H. unfold handle in H. rewrite K in H. unfold handle_post in H. rewrite C in H.
  destruct (str_eqb (media_type (r_ctype r)) app_json) eqn:E; [now apply str_eqb_eq|].
  cbn in H. discriminate.
Qed.

(* T2 *)
Lemma preflight_sound r :
  r_kind r = Options -> r_csrf r = true ->
  (cors_granted (handle r) = true \/ status (handle r) < 400) ->
  exists o, r_origin r = Some o /\ o <> [] /\
            (raw_netloc o = [] \/ r_host r = Some (lower (raw_netloc o))
             \/ In (lower (raw_netloc o)) (r_allow r)).
Proof.
  intros K C H. unfold handle in H. rewrite K in H. unfold handle_options in H. rewrite C in H.
  destruct (r_origin r) as [o|] eqn:EO.
  - exists o. split; [reflexivity|].
    destruct (check_origin (r_orc r) (r_allow r) (Some o) (r_host r)) as [[|]|e|] eqn:EC;
      try (cbn in H; destruct H as [H|H]; [discriminate|lia]).
    destruct o as [|c o']; [cbn in H; destruct H as [H|H]; [discriminate|lia]|].
    split; [discriminate|]. apply origin_ok_spec. eapply check_origin_ok_true; eauto.
  - rewrite check_origin_none in H. cbn in H. destruct H as [H|H]; [discriminate|lia].
Qed.

Lemma preflight_without_origin_refused r :
  r_kind r = Options -> r_csrf r = true -> r_origin r = None -> handle r = refuse 403.
Proof.
  intros K C O. unfold handle, handle_options. now rewrite K, C, O.
Qed.

(* T3 *)
Lemma ws_sound r :
  r_kind r = WsHandshake -> r_csrf r = true ->
  (reaches_core (handle r) = true \/ status (handle r) < 400) ->
  effective_ws_origin r = None \/
  exists o, effective_ws_origin r = Some o /\
            (raw_netloc o = [] \/ r_host r = Some (lower (raw_netloc o))
             \/ In (lower (raw_netloc o)) (r_allow r)).
Proof.
  intros K C H. unfold handle in H. rewrite K in H. unfold handle_ws in H.
  destruct (effective_ws_origin r) as [o|]; [right|now left].
  exists o. split; [reflexivity|]. rewrite C in H. cbn [negb] in H.
  destruct (check_origin (r_orc r) (r_allow r) (Some o) (r_host r)) as [[|]|e|] eqn:EC;
    try (cbn in H; destruct H as [H|H]; [discriminate|lia]).
  apply origin_ok_spec. eapply check_origin_ok_true; eauto.
Qed.

Lemma ws_without_origin_accepted r :
  r_kind r = WsHandshake -> effective_ws_origin r = None -> handle r = ws_accept.
Proof.
  intros K E. unfold handle, handle_ws. now rewrite K, E.
Qed.

(* T4 *)
Lemma refused_is_inert r :
  400 <= status (handle r) ->
  reaches_core (handle r) = false /\ acao (handle r) = None /\ acah (handle r) = false.
Proof.
  intros H. pose proof (t4_holds r) as T. unfold t4_refused_inert, is_refused in T.
  apply Z.leb_le in H. rewrite H in T. cbn in T.
  apply andb_true_iff in T. destruct T as [T _].
  apply andb_true_iff in T. destruct T as [T1 T2].
  apply negb_true_iff in T1. apply negb_true_iff in T2. unfold cors_granted in T2.
  apply orb_false_iff in T2. destruct T2 as [T2 T3].
  repeat split; auto. destruct (acao (handle r)); [discriminate|reflexivity].
Qed.

(* non-interference over the whole handler model: a refused request changes no state (no
   call into the core, no new member of the WebSocket client set) and carries none of the
   handlers' headers (no Access-Control-Allow-*, no Mopidy / JSON headers) *)
Lemma refused_changes_nothing r st :
  400 <= status (handle r) ->
  apply_response st (handle r) = st /\
  acao (handle r) = None /\ acah (handle r) = false /\ extra (handle r) = false.
Proof.
  intros H. pose proof (t4_holds r) as T. unfold t4_refused_inert, is_refused in T.
  assert (H' := H). apply Z.leb_le in H. rewrite H in T. cbn in T.
  apply andb_true_iff in T. destruct T as [T T3].
  apply andb_true_iff in T. destruct T as [T1 T2].
  apply negb_true_iff in T1, T2, T3. unfold cors_granted in T2.
  apply orb_false_iff in T2. destruct T2 as [T2 T2'].
  unfold apply_response. rewrite T1, T3, !Z.add_0_r. destruct st. repeat split; auto.
  - destruct (acao (handle r)); [discriminate|reflexivity].
  - clear - H'. revert H'.
    unfold handle, handle_post, handle_options, handle_ws, ws_accept, refuse.
    destruct (r_kind r); try (cbn; intros; lia || reflexivity).
    + destruct (r_csrf r); [destruct (negb _)|]; cbn; intros; try reflexivity; lia.
    + destruct (r_csrf r); [|reflexivity].
      destruct (check_origin _ _ _ _) as [[|]|e|]; try reflexivity.
      destruct (r_origin r) as [[|c o]|]; reflexivity.
    + destruct (effective_ws_origin r); [|reflexivity].
      destruct (negb _); [reflexivity|].
      destruct (check_origin _ _ _ _) as [[|]|e|]; reflexivity.
Qed.

(* ... and conversely only the three accepting outcomes change anything *)
Lemma state_change_needs_acceptance r st :
  apply_response st (handle r) <> st ->
  (r_kind r = Post /\ status (handle r) = 200 /\ r_body r = true) \/
  (r_kind r = WsHandshake /\ status (handle r) = 101).
Proof.
  unfold apply_response, handle, handle_post, handle_options, handle_ws, ws_accept, refuse.
  destruct st as [a b]. intros H.
  destruct (r_kind r).
  - left. destruct (r_csrf r); [destruct (negb _)|]; cbn in *;
      try (exfalso; apply H; now rewrite !Z.add_0_r);
      (destruct (r_body r); [auto|exfalso; apply H; cbn; now rewrite !Z.add_0_r]).
  - exfalso. apply H. destruct (r_csrf r); [|cbn; now rewrite !Z.add_0_r].
    destruct (check_origin _ _ _ _) as [[|]|e|]; try (cbn; now rewrite !Z.add_0_r).
    destruct (r_origin r) as [[|c o]|]; cbn; now rewrite !Z.add_0_r.
  - right. destruct (effective_ws_origin r); [|auto].
    destruct (negb _); [auto|].
    destruct (check_origin _ _ _ _) as [[|]|e|]; cbn in *; auto;
      exfalso; apply H; now rewrite !Z.add_0_r.
  - exfalso. apply H. cbn. now rewrite !Z.add_0_r.
  - exfalso. apply H. cbn. now rewrite !Z.add_0_r.
Qed.

(* a request the policy rejects is answered with a refusal status (so T4 applies to it) *)
Lemma policy_reject_is_refusal r :
  r_csrf r = true ->
  match r_kind r with
  | Post => media_type (r_ctype r) <> app_json
  | Options => check_origin (r_orc r) (r_allow r) (r_origin r) (r_host r) <> Ok true
  | WsHandshake => exists o, effective_ws_origin r = Some o /\
                             check_origin (r_orc r) (r_allow r) (Some o) (r_host r) <> Ok true
  | Head => False
  | OtherMethod => True
  end ->
  400 <= status (handle r).
Proof.
  intros C. unfold handle, handle_post, handle_options, handle_ws, refuse.
  destruct (r_kind r); try rewrite C.
  - intros H. destruct (str_eqb _ _) eqn:E; [apply str_eqb_eq in E; contradiction|cbn; lia].
  - intros H. destruct (check_origin _ _ _ _) as [[|]|e|]; cbn; try lia. now contradiction H.
  - intros [o [E H]]. rewrite E. cbn [negb].
    destruct (check_origin _ _ _ _) as [[|]|e|]; cbn; try lia. now contradiction H.
  - intros [].
  - intros _. cbn. lia.
Qed.

(* T5 *)
Lemma protection_off_accepts_all r :
  r_csrf r = false ->
  match r_kind r with
  | Post => status (handle r) = 200 /\ reaches_core (handle r) = r_body r
  | Options => status (handle r) = 204
  | WsHandshake => status (handle r) = 101 /\ reaches_core (handle r) = true
  | Head => status (handle r) = 200
  | OtherMethod => status (handle r) = 405
  end.
Proof.
  intros C. unfold handle, handle_post, handle_options, handle_ws, ws_accept.
  destruct (r_kind r); try rewrite C; cbn; auto.
  destruct (effective_ws_origin r); cbn; auto.
Qed.

(* the allow-list is compared case-insensitively: the schema lower-cases the configured
   entries, check_origin lower-cases the netloc *)
Lemma allow_case_insensitive items n :
  In (lower n) (config_allow items) <-> exists i, In i items /\ lower i = lower n.
Proof.
  unfold config_allow. rewrite in_map_iff. split; intros [i [A B]]; exists i; auto.
Qed.

(* ------------------------------------------ the shape of an accepted Content-Type *)

Lemma hd_split1_aux sep cur s : hd [] (split1_aux sep cur s) = rev cur ++ until_c sep s.
Proof.
  revert cur. induction s as [|c t IH]; intros cur; cbn.
  - now rewrite app_nil_r.
  - destruct (c =? sep); cbn; [now rewrite app_nil_r|].
    rewrite IH. cbn. now rewrite <- app_assoc.
Qed.

Lemma hd_split1 sep s : hd [] (split1 sep s) = until_c sep s.
Proof. unfold split1. now rewrite hd_split1_aux. Qed.

Lemma until_c_split sep s :
  exists tail, s = until_c sep s ++ tail /\ (tail = [] \/ exists t, tail = sep :: t).
Proof.
  induction s as [|c t IH]; cbn.
  - exists []. auto.
  - destruct (c =? sep) eqn:E.
    + apply Z.eqb_eq in E. subst. exists (sep :: t). split; [reflexivity|right; eauto].
    + destruct IH as (tail & E1 & E2). exists tail. split; [cbn; now rewrite <- E1|assumption].
Qed.

Lemma lstrip_decomp s : s = take_space s ++ lstrip s /\ forallb py_isspace (take_space s) = true.
Proof.
  induction s as [|c t [IH1 IH2]]; cbn; [auto|].
  destruct (py_isspace c) eqn:E; cbn; [|auto].
  rewrite E, IH2. split; [now rewrite <- IH1|reflexivity].
Qed.

Lemma forallb_rev {A} (f : A -> bool) l : forallb f (rev l) = forallb f l.
Proof.
  induction l as [|x l IH]; cbn; [reflexivity|].
  rewrite forallb_app, IH. cbn. rewrite andb_true_r. apply andb_comm.
Qed.

Lemma strip_decomp s :
  exists w1 w2, s = w1 ++ strip s ++ w2 /\
                forallb py_isspace w1 = true /\ forallb py_isspace w2 = true.
Proof.
  destruct (lstrip_decomp s) as [E1 F1].
  destruct (lstrip_decomp (rev (lstrip s))) as [E2 F2].
  exists (take_space s), (rev (take_space (rev (lstrip s)))).
  split; [|split; [assumption|now rewrite forallb_rev]].
  unfold strip, rstrip. rewrite <- rev_app_distr, <- E2, rev_involutive. exact E1.
Qed.

(* T1, shape form: with protection on, a POST is executed only if its Content-Type value is
   blanks* "application/json" blanks* followed by nothing or by ";..." - the literal media
   type, case-sensitively, and nothing else in front of the first ";" *)
Lemma post_gate_shape r :
  r_kind r = Post -> r_csrf r = true -> reaches_core (handle r) = true ->
  exists v w1 w2 tail,
    r_ctype r = Some v /\ v = w1 ++ app_json ++ w2 ++ tail /\
    forallb py_isspace w1 = true /\ forallb py_isspace w2 = true /\
    (tail = [] \/ exists t, tail = 59 :: t).
Proof.
  intros K C H. pose proof (post_gate r K C H) as M. unfold media_type in M.
  destruct (r_ctype r) as [v|]; [|discriminate].
  rewrite hd_split1 in M.
  destruct (until_c_split 59 v) as (tail & E & T).
  destruct (strip_decomp (until_c 59 v)) as (w1 & w2 & D & F1 & F2).
  exists v, w1, w2, tail. rewrite M in D. repeat split; auto.
  rewrite E at 1. rewrite D. now rewrite <- !app_assoc.
Qed.

(* the browser side: a value of that shape is never a CORS-safelisted Content-Type *)

Lemma space_not_token c : py_isspace c = true -> is_token_char c = false /\ (c =? 47) = false.
Proof.
  unfold py_isspace, is_token_char, is_ascii_alpha, is_upper, is_lower_az, is_digit. intros H.
  split; lia.
Qed.

Lemma http_lstrip_keeps m x n :
  is_http_ws x = false -> exists m', http_lstrip (m ++ x :: n) = m' ++ x :: n.
Proof.
  intros X. induction m as [|c m [m' IH]]; cbn.
  - rewrite X. now exists [].
  - destruct (is_http_ws c); [now exists m'|]. now exists (c :: m).
Qed.

Lemma http_rstrip_keeps a x b :
  is_http_ws x = false -> exists b', http_rstrip (a ++ x :: b) = a ++ x :: b'.
Proof.
  intros X. unfold http_rstrip. rewrite rev_app_distr. cbn [rev]. rewrite <- app_assoc. cbn [app].
  destruct (http_lstrip_keeps (rev b) x (rev a) X) as [m' ->].
  exists (rev m'). rewrite rev_app_distr. cbn [rev]. rewrite rev_involutive, <- app_assoc. reflexivity.
Qed.

Lemma http_lstrip_spaces w rest :
  forallb py_isspace w = true ->
  http_lstrip (w ++ app_json ++ rest) = app_json ++ rest \/
  exists c t, http_lstrip (w ++ app_json ++ rest) = c :: t /\ py_isspace c = true /\ is_http_ws c = false.
Proof.
  induction w as [|c w IH]; cbn [app forallb]; intros H.
  - left. reflexivity.
  - apply andb_true_iff in H. destruct H as [H1 H2]. cbn [http_lstrip].
    destruct (is_http_ws c) eqn:E; [now apply IH|]. right. exists c, (w ++ app_json ++ rest). auto.
Qed.

Lemma shape_not_safelisted w1 w2 tail :
  forallb py_isspace w1 = true ->
  cors_safelisted_ctype (w1 ++ app_json ++ w2 ++ tail) = false.
Proof.
  intros F1. unfold cors_safelisted_ctype, mime_essence.
  destruct (http_lstrip_spaces w1 (w2 ++ tail) F1) as [->|(c & t & -> & SP & NW)].
  - (* the value starts with application/json *)
    change (app_json ++ w2 ++ tail)
      with ([97; 112; 112; 108; 105; 99; 97; 116; 105; 111; 110; 47; 106; 115; 111] ++ 110 :: (w2 ++ tail)).
    destruct (http_rstrip_keeps [97; 112; 112; 108; 105; 99; 97; 116; 105; 111; 110; 47; 106; 115; 111]
                110 (w2 ++ tail) eq_refl) as [b' ->].
    cbn [app until_c after_c Z.eqb Pos.eqb].
    cbn [nonempty forallb is_token_char is_ascii_alpha is_upper is_lower_az is_digit
         Z.leb Z.eqb Z.compare Pos.compare Pos.compare_cont Pos.eqb andb orb].
    change (106 :: 115 :: 111 :: 110 :: until_c 59 b') with ([106; 115; 111] ++ 110 :: until_c 59 b').
    destruct (http_rstrip_keeps [106; 115; 111] 110 (until_c 59 b') eq_refl) as [b'' ->].
    cbn [app].
    destruct (nonempty _ && forallb is_token_char _); [|reflexivity].
    reflexivity.
  - (* a blank that is not HTTP whitespace comes first: not a token, the parse fails *)
    destruct (http_rstrip_keeps [] c t NW) as [b' E]. cbn [app] in E. rewrite E.
    destruct (space_not_token c SP) as [NT N47].
    cbn [until_c after_c]. rewrite N47.
    destruct (after_c 47 b'); [|reflexivity].
    cbn [nonempty forallb andb]. rewrite NT. reflexivity.
Qed.

(* T1, browser form: with protection on, a POST whose Content-Type a browser would send
   without a preflight (a CORS-safelisted one) is never executed *)
Lemma post_gate_not_safelisted r v :
  r_kind r = Post -> r_csrf r = true -> reaches_core (handle r) = true ->
  r_ctype r = Some v -> cors_safelisted_ctype v = false.
Proof.
  intros K C H V. destruct (post_gate_shape r K C H) as (v' & w1 & w2 & tail & E & -> & F1 & _).
  rewrite V in E. injection E as ->. now apply shape_not_safelisted.
Qed.

Example nonvac_safelisted :
  cors_safelisted_ctype ([32] ++ [84;69;88;84;47;80;108;97;105;110] ++ [32;59;32;120]) = true /\
  cors_safelisted_ctype ct_urlencoded = true /\ cors_safelisted_ctype app_json = false.
Proof. vm_compute. auto. Qed.

Example nonvac_post_gate_shape :
  exists v, media_type (Some v) = app_json /\ v <> app_json.
Proof. exists ([32; 160] ++ app_json ++ [9; 59; 120]). split; [reflexivity|discriminate]. Qed.

(* ------------------------------------- from the config text to the allow-list *)

Lemma cfg_values_spec items vs :
  cfg_values items = Ok vs ->
  vs = config_allow (map (fun it => strip (cfg_decode it)) items) /\
  (forall it, In it items -> strip (cfg_decode it) <> []).
Proof.
  revert vs. induction items as [|it t IH]; cbn; intros vs H.
  - injection H as <-. split; [reflexivity|intros ? []].
  - destruct (strip (cfg_decode it)) as [|c r] eqn:E; [discriminate|].
    destruct (cfg_values t) as [ws|e|]; cbn in H; try discriminate.
    injection H as <-. destruct (IH ws eq_refl) as [-> K]. split; [reflexivity|].
    intros x [<-|Hx]; [rewrite E; discriminate|now apply K].
Qed.

Lemma cfg_values_raises items :
  (exists it, In it items /\ strip (cfg_decode it) = []) <-> cfg_values items = Raise ValueError.
Proof.
  induction items as [|it t IH]; cbn.
  - split; [intros [? [[] _]]|discriminate].
  - destruct (strip (cfg_decode it)) as [|c r] eqn:E.
    + split; [reflexivity|]. intros _. exists it. auto.
    + split.
      * intros [x [[<-|Hx] Hs]]; [rewrite E in Hs; discriminate|].
        assert (cfg_values t = Raise ValueError) as -> by (apply IH; eauto). reflexivity.
      * destruct (cfg_values t) as [ws|[]|] eqn:V; cbn; try discriminate.
        intros _. destruct (proj2 IH eq_refl) as [x [Hx Hs]]. exists x. auto.
Qed.

Lemma parse_allowed_origins_raises text :
  (exists it, In it (cfg_items (cfg_decode text)) /\ strip (cfg_decode it) = []) <->
  parse_allowed_origins text = Raise ValueError.
Proof. apply cfg_values_raises. Qed.

(* every entry the handlers hold is non-empty and already lower-case, and membership of a
   lower-cased netloc means: some configured entry equals it modulo case *)
Lemma parse_allowed_origins_sound text vs :
  parse_allowed_origins text = Ok vs ->
  (forall v, In v vs -> lower v = v /\ v <> []) /\
  (forall n, In (lower n) vs <->
             exists it, In it (cfg_items (cfg_decode text)) /\
                        lower (strip (cfg_decode it)) = lower n).
Proof.
  unfold parse_allowed_origins. intros H. apply cfg_values_spec in H. destruct H as [-> K]. split.
  - intros v Hv. unfold config_allow in Hv. rewrite map_map in Hv. apply in_map_iff in Hv.
    destruct Hv as [it [<- Hit]]. split; [apply lower_idem|].
    intros E. apply (proj1 (lower_nil_iff _)) in E. exact (K it Hit E).
  - intros n. rewrite allow_case_insensitive. split.
    + intros [i [Hi E]]. apply in_map_iff in Hi. destruct Hi as [it [<- Hit]]. eauto.
    + intros [it [Hit E]]. exists (strip (cfg_decode it)). split; [|assumption].
      apply in_map_iff. eauto.
Qed.

(* ------------------------------------------------ what urlsplit's netloc is *)

Lemma until_delim_clean s c : In c (until_delim s) -> is_delim c = false.
Proof.
  induction s as [|x s IH]; cbn; [tauto|].
  destruct (is_delim x) eqn:E; cbn; [tauto|]. intros [<-|H]; auto.
Qed.

Lemma until_delim_In s c : In c (until_delim s) -> In c s.
Proof.
  induction s as [|x s IH]; cbn; [tauto|].
  destruct (is_delim x); cbn; [tauto|]. intros [H|H]; auto.
Qed.

Lemma split_at_colon_rest s p r : split_at_colon s = Some (p, r) -> forall c, In c r -> In c s.
Proof.
  revert p r. induction s as [|x s IH]; cbn; [discriminate|]. intros p r.
  destruct (x =? 58).
  - intros [= <- <-] c H. now right.
  - destruct (split_at_colon s) as [[p' r']|]; [|discriminate].
    intros [= <- <-] c H. right. eapply IH; eauto.
Qed.

Lemma strip_scheme_In u c : In c (strip_scheme u) -> In c u.
Proof.
  unfold strip_scheme. destruct (split_at_colon u) as [[[|x p] r]|] eqn:E; auto.
  destruct (_ && _); auto. intros H. eapply split_at_colon_rest; eauto.
Qed.

(* the netloc never contains a path/query/fragment delimiter nor TAB/CR/LF *)
Lemma raw_netloc_clean o c :
  In c (raw_netloc o) -> is_delim c = false /\ is_tcn c = false.
Proof.
  unfold raw_netloc.
  destruct (strip_scheme (remove_tcn (lstrip_c0 o))) as [|c1 [|c2 t]] eqn:E; cbn; try tauto.
  destruct ((c1 =? 47) && (c2 =? 47)); cbn; [|tauto].
  intros H. split; [eapply until_delim_clean; eauto|].
  apply until_delim_In in H.
  assert (In c (strip_scheme (remove_tcn (lstrip_c0 o)))) as H1 by (rewrite E; right; right; exact H).
  apply strip_scheme_In in H1. unfold remove_tcn in H1. apply filter_In in H1.
  destruct H1 as [_ H1]. now apply negb_true_iff in H1.
Qed.

(* Origins as browsers serialise them: scheme "://" host[:port] *)
Definition scheme_wf (s : str) : Prop :=
  match s with
  | c :: _ => is_ascii_alpha c = true /\ forallb is_scheme_char s = true
  | [] => False
  end.

Definition hostport_wf (hp : str) : Prop :=
  forall c, In c hp -> is_delim c = false /\ is_tcn c = false.

Definition browser_origin (scheme hp : str) : str := scheme ++ [58; 47; 47] ++ hp.

Lemma scheme_char_props c :
  is_scheme_char c = true -> (c =? 58) = false /\ is_tcn c = false /\ is_c0_or_space c = false.
Proof.
  unfold is_scheme_char, is_ascii_alpha, is_upper, is_lower_az, is_digit, is_tcn, is_c0_or_space.
  intros H. repeat split; lia.
Qed.

Lemma split_at_colon_scheme s rest :
  forallb is_scheme_char s = true -> split_at_colon (s ++ 58 :: rest) = Some (s, rest).
Proof.
  induction s as [|c s IH]; cbn; [reflexivity|].
  intros H. apply andb_true_iff in H. destruct H as [H1 H2].
  destruct (scheme_char_props c H1) as [-> _]. now rewrite IH.
Qed.

Lemma filter_id {A} (f : A -> bool) l : (forall x, In x l -> f x = true) -> filter f l = l.
Proof.
  induction l as [|x l IH]; cbn; [reflexivity|]. intros H.
  rewrite (H x (or_introl eq_refl)). f_equal. apply IH. intros y Hy. apply H. now right.
Qed.

Lemma until_delim_id hp : (forall c, In c hp -> is_delim c = false) -> until_delim hp = hp.
Proof.
  induction hp as [|c hp IH]; cbn; [reflexivity|]. intros H.
  rewrite (H c (or_introl eq_refl)). f_equal. apply IH. intros y Hy. apply H. now right.
Qed.

Lemma raw_netloc_browser scheme hp :
  scheme_wf scheme -> hostport_wf hp -> raw_netloc (browser_origin scheme hp) = hp.
Proof.
  intros S HP. destruct scheme as [|c s]; [destruct S|]. destruct S as [A F].
  assert (FC := F). cbn [forallb] in FC. apply andb_true_iff in FC. destruct FC as [FC _].
  destruct (scheme_char_props c FC) as [_ [_ NS]].
  assert (E : browser_origin (c :: s) hp = (c :: s) ++ 58 :: 47 :: 47 :: hp) by reflexivity.
  unfold raw_netloc. rewrite E.
  assert (L : lstrip_c0 ((c :: s) ++ 58 :: 47 :: 47 :: hp) = (c :: s) ++ 58 :: 47 :: 47 :: hp).
  { cbn [app lstrip_c0]. now rewrite NS. }
  rewrite L.
  assert (R : remove_tcn ((c :: s) ++ 58 :: 47 :: 47 :: hp) = (c :: s) ++ 58 :: 47 :: 47 :: hp).
  { unfold remove_tcn. apply filter_id. intros x Hx. apply negb_true_iff.
    apply in_app_or in Hx. destruct Hx as [Hx|Hx].
    - rewrite forallb_forall in F. now destruct (scheme_char_props x (F x Hx)) as [_ [T _]].
    - cbn in Hx. destruct Hx as [<-|[<-|[<-|Hx]]]; try reflexivity.
      now destruct (HP x Hx). }
  rewrite R. unfold strip_scheme. rewrite (split_at_colon_scheme (c :: s) _ F).
  rewrite A, F. cbn [andb]. cbn [Z.eqb Pos.eqb andb].
  apply until_delim_id. intros x Hx. now destruct (HP x Hx).
Qed.

(* T6: a browser page served from another host cannot pass the preflight nor open the
   WebSocket while protection is on - whatever validation oracle, Host and allow-list. *)
Lemma cross_origin_browser_refused r scheme hp :
  r_csrf r = true -> scheme_wf scheme -> hostport_wf hp -> hp <> [] ->
  r_host r <> Some (lower hp) -> ~ In (lower hp) (r_allow r) ->
  (r_kind r = Options -> r_origin r = Some (browser_origin scheme hp) ->
     400 <= status (handle r) /\ acao (handle r) = None /\ acah (handle r) = false
     /\ reaches_core (handle r) = false) /\
  (r_kind r = WsHandshake -> effective_ws_origin r = Some (browser_origin scheme hp) ->
     400 <= status (handle r) /\ reaches_core (handle r) = false).
Proof.
  intros C S HP NE NH NA.
  assert (NP : origin_ok (r_allow r) (r_host r) (raw_netloc (browser_origin scheme hp)) = false).
  { destruct (origin_ok _ _ _) eqn:E; [|reflexivity].
    apply origin_ok_spec in E. rewrite (raw_netloc_browser _ _ S HP) in E.
    destruct E as [E|[E|E]]; contradiction. }
  split.
  - intros K O.
    assert (R : 400 <= status (handle r)).
    { apply policy_reject_is_refusal; [assumption|]. rewrite K, O. intros H.
      apply check_origin_ok_true in H. congruence. }
    destruct (refused_is_inert r R) as [A [B D]]. auto.
  - intros K O.
    assert (R : 400 <= status (handle r)).
    { apply policy_reject_is_refusal; [assumption|]. rewrite K. eexists. split; [exact O|].
      intros H. apply check_origin_ok_true in H. congruence. }
    destruct (refused_is_inert r R) as [A _]. auto.
Qed.

(* ... and the same page served by this server (Origin host = Host header) passes *)
Lemma same_origin_browser_accepted r scheme hp :
  r_csrf r = true -> r_kind r = Options -> scheme_wf scheme -> hostport_wf hp -> hp <> [] ->
  is_ascii_str hp = true -> has 91 hp = false -> has 93 hp = false ->
  r_origin r = Some (browser_origin scheme hp) -> r_host r = Some (lower hp) ->
  handle r = mkResp 204 (Some (browser_origin scheme hp)) true false false false.
Proof.
  intros C K S HP NE A LB RB O H.
  unfold handle, handle_options. rewrite K, C, O.
  unfold check_origin, netloc_of. rewrite (raw_netloc_browser _ _ S HP), LB, RB, A. cbn [xorb orb negb].
  unfold origin_ok. rewrite H.
  destruct (lower hp) as [|c p] eqn:E.
  { apply (proj1 (lower_nil_iff hp)) in E. contradiction. }
  cbn [opt_eqb]. rewrite str_eqb_refl, orb_true_r.
  unfold browser_origin. destruct scheme; [destruct S|]. reflexivity.
Qed.

(* --------------------------------------------------------------- non-vacuity *)

Definition s_http : str := [104; 116; 116; 112].
Definition s_localhost : str := [108; 111; 99; 97; 108; 104; 111; 115; 116].
Definition s_evil : str := [101; 118; 105; 108; 46; 99; 111; 109].

Definition ex_req (k : kind) (origin : option str) (ctype : option str) : request :=
  mkReq k true [] origin None (Some s_localhost) ctype true false.

Example nonvac_post_gate :
  let r := ex_req Post (Some (browser_origin s_http s_evil)) (Some (app_json ++ [59; 32; 120])) in
  r_kind r = Post /\ r_csrf r = true /\ reaches_core (handle r) = true.
Proof. vm_compute. auto. Qed.

Example nonvac_preflight_granted :
  let r := ex_req Options (Some (browser_origin s_http (map (fun c => c - 32) s_localhost))) None in
  r_kind r = Options /\ r_csrf r = true /\ cors_granted (handle r) = true.
Proof. vm_compute. auto. Qed.

Example nonvac_ws_granted :
  let r := ex_req WsHandshake (Some (browser_origin s_http s_localhost)) None in
  r_kind r = WsHandshake /\ r_csrf r = true /\ reaches_core (handle r) = true.
Proof. vm_compute. auto. Qed.

Example nonvac_refused :
  let r := ex_req Options (Some (browser_origin s_http s_evil)) None in
  400 <= status (handle r).
Proof. vm_compute. discriminate. Qed.

Example nonvac_cross_origin :
  scheme_wf s_http /\ hostport_wf s_evil /\ s_evil <> [] /\
  Some s_localhost <> Some (lower s_evil) /\ ~ In (lower s_evil) [].
Proof.
  split; [split; reflexivity|]. split.
  { intros x H. cbn in H. repeat (destruct H as [<-|H]; [split; reflexivity|]). destruct H. }
  split; [discriminate|]. split; [vm_compute; discriminate|intros []].
Qed.

Example nonvac_mustraise : netloc_of (browser_origin s_http [91; 58; 58; 49]) = MustRaise.
Proof. reflexivity. Qed.
