(* C15 property theorems.  Nothing but statements, `exact`, and Print Assumptions.
   Model: Origin.v (handle : request -> response); proofs: Proofs_Origin.v. *)
From Coq Require Import ZArith List Bool.
From Common Require Import Res Str.
From Http Require Import Origin Proofs_Origin.
Import ListNotations.
Open Scope Z_scope.

(* T1 post_gate: with protection on, a POST is executed only with media type application/json *)
Theorem C15_post_gate : forall r,
  r_kind r = Post -> r_csrf r = true -> reaches_core (handle r) = true ->
  media_type (r_ctype r) = app_json.
Proof. exact post_gate. Qed.
Print Assumptions C15_post_gate.

(* T1, shape form: the accepted Content-Type is blanks* "application/json" blanks* followed
   by nothing or ";..." (blanks = str.strip() blanks).  No value a browser may send without
   a preflight has that shape: the CORS-safelisted media types are
   application/x-www-form-urlencoded, multipart/form-data and text/plain. *)
Theorem C15_post_gate_shape : forall r,
  r_kind r = Post -> r_csrf r = true -> reaches_core (handle r) = true ->
  exists v w1 w2 tail,
    r_ctype r = Some v /\ v = w1 ++ app_json ++ w2 ++ tail /\
    forallb py_isspace w1 = true /\ forallb py_isspace w2 = true /\
    (tail = [] \/ exists t, tail = 59 :: t).
Proof. exact post_gate_shape. Qed.
Print Assumptions C15_post_gate_shape.

(* T1, browser form: [cors_safelisted_ctype] transcribes "parse a MIME type" (MIME Sniffing
   standard) and Fetch's list of CORS-safelisted Content-Type essences.  A POST carrying a
   Content-Type that a browser may send cross-origin WITHOUT a preflight is never executed
   while protection is on. *)
Theorem C15_post_gate_not_safelisted : forall r v,
  r_kind r = Post -> r_csrf r = true -> reaches_core (handle r) = true ->
  r_ctype r = Some v -> cors_safelisted_ctype v = false.
Proof. exact post_gate_not_safelisted. Qed.
Print Assumptions C15_post_gate_not_safelisted.

(* T2 preflight_sound: CORS is granted (or any non-refusal answer given) only to a present,
   non-empty Origin whose netloc is empty, equals Host after lower-casing, or is allow-listed *)
Theorem C15_preflight_sound : forall r,
  r_kind r = Options -> r_csrf r = true ->
  (cors_granted (handle r) = true \/ status (handle r) < 400) ->
  exists o, r_origin r = Some o /\ o <> [] /\
            (raw_netloc o = [] \/ r_host r = Some (lower (raw_netloc o))
             \/ In (lower (raw_netloc o)) (r_allow r)).
Proof. exact preflight_sound. Qed.
Print Assumptions C15_preflight_sound.

Theorem C15_preflight_without_origin_refused : forall r,
  r_kind r = Options -> r_csrf r = true -> r_origin r = None -> handle r = refuse 403.
Proof. exact preflight_without_origin_refused. Qed.
Print Assumptions C15_preflight_without_origin_refused.

(* T3 ws_sound *)
Theorem C15_ws_sound : forall r,
  r_kind r = WsHandshake -> r_csrf r = true ->
  (reaches_core (handle r) = true \/ status (handle r) < 400) ->
  effective_ws_origin r = None \/
  exists o, effective_ws_origin r = Some o /\
            (raw_netloc o = [] \/ r_host r = Some (lower (raw_netloc o))
             \/ In (lower (raw_netloc o)) (r_allow r)).
Proof. exact ws_sound. Qed.
Print Assumptions C15_ws_sound.

Theorem C15_ws_without_origin_accepted : forall r,
  r_kind r = WsHandshake -> effective_ws_origin r = None -> handle r = ws_accept.
Proof. exact ws_without_origin_accepted. Qed.
Print Assumptions C15_ws_without_origin_accepted.

(* T4 refused_is_inert *)
Theorem C15_refused_is_inert : forall r,
  400 <= status (handle r) ->
  reaches_core (handle r) = false /\ acao (handle r) = None /\ acah (handle r) = false.
Proof. exact refused_is_inert. Qed.
Print Assumptions C15_refused_is_inert.

(* T4 as non-interference over the whole handler model (POST, OPTIONS, HEAD, other methods,
   WebSocket handshake): a refused request changes no state - no call into the core, no new
   member of the WebSocket client set - and carries none of the handlers' headers *)
Theorem C15_refused_changes_nothing : forall r st,
  400 <= status (handle r) ->
  apply_response st (handle r) = st /\
  acao (handle r) = None /\ acah (handle r) = false /\ extra (handle r) = false.
Proof. exact refused_changes_nothing. Qed.
Print Assumptions C15_refused_changes_nothing.

Theorem C15_state_change_needs_acceptance : forall r st,
  apply_response st (handle r) <> st ->
  (r_kind r = Post /\ status (handle r) = 200 /\ r_body r = true) \/
  (r_kind r = WsHandshake /\ status (handle r) = 101).
Proof. exact state_change_needs_acceptance. Qed.
Print Assumptions C15_state_change_needs_acceptance.

Theorem C15_policy_reject_is_refusal : forall r,
  r_csrf r = true ->
  match r_kind r with
  | Post => media_type (r_ctype r) <> app_json
  | Options => check_origin (r_orc r) (r_allow r) (r_origin r) (r_host r) <> Ok true
  | WsHandshake => exists o, effective_ws_origin r = Some o /\
                             check_origin (r_orc r) (r_allow r) (Some o) (r_host r) <> Ok true
  | Head => False
  | OtherMethod => True
  end ->
  400 <= status (handle r).
Proof. exact policy_reject_is_refusal. Qed.
Print Assumptions C15_policy_reject_is_refusal.

(* T5 protection_off_accepts_all *)
Theorem C15_protection_off_accepts_all : forall r,
  r_csrf r = false ->
  match r_kind r with
  | Post => status (handle r) = 200 /\ reaches_core (handle r) = r_body r
  | Options => status (handle r) = 204
  | WsHandshake => status (handle r) = 101 /\ reaches_core (handle r) = true
  | Head => status (handle r) = 200
  | OtherMethod => status (handle r) = 405
  end.
Proof. exact protection_off_accepts_all. Qed.
Print Assumptions C15_protection_off_accepts_all.

(* the five predicates evaluated by the monitors hold of the model for every request *)
Theorem C15_monitor_predicates_hold : forall r,
  forallb (fun b => b) (all_monitors r (handle r)) = true.
Proof. exact all_monitors_hold. Qed.
Print Assumptions C15_monitor_predicates_hold.

(* allow-list entries are compared case-insensitively *)
Theorem C15_allow_case_insensitive : forall items n,
  In (lower n) (config_allow items) <-> exists i, In i items /\ lower i = lower n.
Proof. exact allow_case_insensitive. Qed.
Print Assumptions C15_allow_case_insensitive.

(* from the text of http/allowed_origins to the set the handlers hold: the parse either
   raises ValueError (exactly when an entry is empty after the second decode + strip) or
   yields non-empty, lower-case entries, and a lower-cased netloc is a member iff some
   configured entry equals it modulo case - the whole netloc, port included *)
Theorem C15_config_parse_sound : forall text vs,
  parse_allowed_origins text = Ok vs ->
  (forall v, In v vs -> lower v = v /\ v <> []) /\
  (forall n, In (lower n) vs <->
             exists it, In it (cfg_items (cfg_decode text)) /\
                        lower (strip (cfg_decode it)) = lower n).
Proof. exact parse_allowed_origins_sound. Qed.
Print Assumptions C15_config_parse_sound.

Theorem C15_config_parse_raises : forall text,
  (exists it, In it (cfg_items (cfg_decode text)) /\ strip (cfg_decode it) = []) <->
  parse_allowed_origins text = Raise ValueError.
Proof. exact parse_allowed_origins_raises. Qed.
Print Assumptions C15_config_parse_raises.

(* what the transcribed netloc is: free of "/?#" and TAB/CR/LF; and for an Origin as a
   browser serialises it (scheme "://" host[:port]) exactly host[:port] *)
Theorem C15_netloc_clean : forall o c,
  In c (raw_netloc o) -> is_delim c = false /\ is_tcn c = false.
Proof. exact raw_netloc_clean. Qed.
Print Assumptions C15_netloc_clean.

Theorem C15_netloc_of_browser_origin : forall scheme hp,
  scheme_wf scheme -> hostport_wf hp -> raw_netloc (browser_origin scheme hp) = hp.
Proof. exact raw_netloc_browser. Qed.
Print Assumptions C15_netloc_of_browser_origin.

(* T6: a page from another host can neither pass the preflight nor open the WebSocket *)
Theorem C15_cross_origin_browser_refused : forall r scheme hp,
  r_csrf r = true -> scheme_wf scheme -> hostport_wf hp -> hp <> [] ->
  r_host r <> Some (lower hp) -> ~ In (lower hp) (r_allow r) ->
  (r_kind r = Options -> r_origin r = Some (browser_origin scheme hp) ->
     400 <= status (handle r) /\ acao (handle r) = None /\ acah (handle r) = false
     /\ reaches_core (handle r) = false) /\
  (r_kind r = WsHandshake -> effective_ws_origin r = Some (browser_origin scheme hp) ->
     400 <= status (handle r) /\ reaches_core (handle r) = false).
Proof. exact cross_origin_browser_refused. Qed.
Print Assumptions C15_cross_origin_browser_refused.

Theorem C15_same_origin_browser_accepted : forall r scheme hp,
  r_csrf r = true -> r_kind r = Options -> scheme_wf scheme -> hostport_wf hp -> hp <> [] ->
  is_ascii_str hp = true -> has 91 hp = false -> has 93 hp = false ->
  r_origin r = Some (browser_origin scheme hp) -> r_host r = Some (lower hp) ->
  handle r = mkResp 204 (Some (browser_origin scheme hp)) true false false false.
Proof. exact same_origin_browser_accepted. Qed.
Print Assumptions C15_same_origin_browser_accepted.
