(* Model of mopidy.internal.playlists (src/mopidy/internal/playlists.py).

   Line based formats (parse_extm3u, parse_urilist) are modelled on bytes / code points:
   bytes.splitlines, bytes.strip, bytes.startswith, bytes.decode() (strict UTF-8),
   str.strip, and the scheme test behind validation.check_uri (urllib.parse.urlsplit's
   scheme recognition, transcribed).

   configparser, expat/ElementTree, int() and the netloc validation inside urlsplit are
   ORACLES: the model receives their outcome (record `oracles`) and the theorems
   quantify over every outcome in the enumerated outcome sets.

   Every function takes `fx : bool`: fx = true is the code after the fix: commits
   recorded in known_findings.json, fx = false the code of the pinned tree (kept so that
   the refutations of totality for that code stay machine-checked). *)
From Coq Require Import ZArith List Bool String Ascii.
From Common Require Import Res Str.
From Untrusted Require Import Base.
Import ListNotations.
Open Scope Z_scope.

(* ------------------------------------------------------------------ bytes helpers *)

(* bytes.splitlines(): breaks at \n, \r, \r\n only; no trailing empty line *)
Fixpoint splitlines_aux (cur : bytes) (s : bytes) : list bytes :=
  match s with
  | [] => match cur with [] => [] | _ => [rev cur] end
  | c :: t =>
      if c =? 10 then rev cur :: splitlines_aux [] t
      else if c =? 13 then
        match t with
        | d :: t' => if d =? 10 then rev cur :: splitlines_aux [] t'
                     else rev cur :: splitlines_aux [] t
        | [] => [rev cur]
        end
      else splitlines_aux (c :: cur) t
  end.
Definition splitlines (s : bytes) : list bytes := splitlines_aux [] s.

(* bytes.strip() removes ASCII whitespace: space \t \n \r \x0b \x0c *)
Definition b_isspace (c : Z) : bool := ((9 <=? c) && (c <=? 13)) || (c =? 32).
(* `not line.strip()` *)
Definition b_blank (l : bytes) : bool := forallb b_isspace l.

Definition HASH : Z := 35.

(* bytes.decode(): strict UTF-8 (no overlongs, no surrogates, max U+10FFFF) *)
Definition cont (b : Z) : bool := (128 <=? b) && (b <=? 191).

Fixpoint utf8_decode (s : bytes) : option str :=
  match s with
  | [] => Some []
  | b0 :: t0 =>
      if b0 <? 128 then option_map (cons b0) (utf8_decode t0)
      else if b0 <? 194 then None
      else if b0 <? 224 then
        match t0 with
        | b1 :: t1 =>
            if cont b1
            then option_map (cons ((b0 - 192) * 64 + (b1 - 128))) (utf8_decode t1)
            else None
        | [] => None
        end
      else if b0 <? 240 then
        match t0 with
        | b1 :: b2 :: t2 =>
            if cont b1 && cont b2 && (negb (b0 =? 224) || (160 <=? b1))
               && (negb (b0 =? 237) || (b1 <=? 159))
            then option_map (cons ((b0 - 224) * 4096 + (b1 - 128) * 64 + (b2 - 128)))
                            (utf8_decode t2)
            else None
        | _ => None
        end
      else if b0 <? 245 then
        match t0 with
        | b1 :: b2 :: b3 :: t3 =>
            if cont b1 && cont b2 && cont b3 && (negb (b0 =? 240) || (144 <=? b1))
               && (negb (b0 =? 244) || (b1 <=? 143))
            then option_map (cons ((b0 - 240) * 262144 + (b1 - 128) * 4096
                                   + (b2 - 128) * 64 + (b3 - 128)))
                            (utf8_decode t3)
            else None
        | _ => None
        end
      else None
  end.

(* ------------------------------------------------------------------ check_uri *)

(* urllib.parse.urlsplit's scheme recognition (CPython 3.12):
   url.lstrip(C0 controls and space); remove \t \r \n; i = url.find(':');
   i > 0 and url[0] is an ASCII letter and url[:i] all in scheme_chars. *)
Definition c0_or_space (c : Z) : bool := (0 <=? c) && (c <=? 32).
Fixpoint lstrip_c0 (s : str) : str :=
  match s with
  | c :: t => if c0_or_space c then lstrip_c0 t else s
  | [] => []
  end.
Definition unsafe_removed (s : str) : str :=
  filter (fun c => negb ((c =? 9) || (c =? 13) || (c =? 10))) s.
Definition ascii_alpha (c : Z) : bool :=
  ((65 <=? c) && (c <=? 90)) || ((97 <=? c) && (c <=? 122)).
Definition scheme_char (c : Z) : bool :=
  ascii_alpha c || ((48 <=? c) && (c <=? 57)) || (c =? 43) || (c =? 45) || (c =? 46).
(* all characters before the first ':' are scheme characters, and there is a ':' *)
Fixpoint scheme_tail (s : str) : bool :=
  match s with
  | [] => false
  | c :: t => if c =? 58 then true else scheme_char c && scheme_tail t
  end.
Definition has_scheme (line : str) : bool :=
  match unsafe_removed (lstrip_c0 line) with
  | c :: t => ascii_alpha c && scheme_tail t
  | [] => false
  end.

(* ------------------------------------------------------------------ oracles *)

(* exceptions other than ET.ParseError that ET.iterparse was observed / documented to
   raise: LookupError (unknown or non-text encoding in the XML declaration) and
   ValueError and its subclasses UnicodeError / UnicodeDecodeError (multi-byte encodings
   are not supported; idna, punycode, undefined codecs).  UnicodeDecodeError is kept
   apart only because the observation enum does. *)
Inductive xml_exn : Type := XLookupError | XValueError | XUnicodeDecodeError.
Definition xml_exn_to_exn (e : xml_exn) : exn :=
  match e with
  | XLookupError => LookupError
  | XValueError => ValueError
  | XUnicodeDecodeError => UnicodeDecodeError
  end.

(* element tree: tag, attributes, text, children *)
Inductive xml : Type :=
| Elem (tag : str) (attrs : list (str * str)) (text : option str) (kids : list xml).
Definition xtag (e : xml) := match e with Elem t _ _ _ => t end.
Definition xattrs (e : xml) := match e with Elem _ a _ _ => a end.
Definition xtext (e : xml) := match e with Elem _ _ t _ => t end.
Definition xkids (e : xml) := match e with Elem _ _ _ k => k end.

(* outcome of `for _event, element in ET.iterparse(BytesIO(data), events=["start"])`
   up to the first event *)
Inductive head_out : Type :=
| HeadExn (e : xml_exn)
| HeadParseError
| HeadNone                 (* iterator ended without an event *)
| HeadTag (tag : str).

(* outcome of the full `for _event, element in ET.iterparse(BytesIO(data))` loop: the
   tree below the last element seen (the root), with the tags as expat delivered them
   (the code lower-cases them itself) *)
Inductive xml_out : Type :=
| XmlExn (e : xml_exn)
| XmlParseError
| XmlNone
| XmlTree (root : xml).

(* outcome of RawConfigParser(strict=False).read_string(text): configparser.Error, or
   the DEFAULT section and the named sections in order, option names already passed
   through optionxform, duplicates merged *)
Inductive ini_out : Type :=
| IniError
| IniSections (defaults : list (str * str)) (sections : list (str * list (str * str))).

Record oracles : Type := mkOracles {
  o_head50 : head_out;          (* iterparse on data[0:50], first start event *)
  o_head150 : head_out;         (* iterparse on data[0:150], first start event *)
  o_head : head_out;            (* iterparse on data, first start event *)
  o_xml : xml_out;              (* iterparse on data *)
  o_ini : ini_out;              (* configparser on data.decode() *)
  o_int : str -> option (option Z);   (* int(s): None = not in table, Some None = ValueError *)
  o_uri_raises : str -> bool    (* urlparse(line) raises ValueError (netloc validation) *)
}.

(* ------------------------------------------------------------------ lower() *)

(* str.lower(), exact on every code point whose lower-case form contains an ASCII
   character (ASCII letters, U+212A KELVIN SIGN, U+0130); other code points are left
   alone: they stay non-ASCII under the real lower() as well, and the code only compares
   lowered strings with ASCII constants. *)
Definition lower_cp (c : Z) : list Z :=
  if c =? 8490 then [107]
  else if c =? 304 then [105; 775]
  else [ascii_lower c].
Definition py_lower (s : str) : str := flat_map lower_cp s.

(* ------------------------------------------------------------------ detectors *)

Definition detect_extm3u (data : bytes) : bool :=
  str_eqb (map ascii_upper (firstn 7 data)) (lit "#EXTM3U").

Definition detect_pls (data : bytes) : bool :=
  str_eqb (map ascii_lower (firstn 10 data)) (lit "[playlist]").

Definition XSPF_NS_PLAYLIST : str := lit "{http://xspf.org/ns/0/}playlist".

(* detect_*_header.
   fx (the code after the fix: commits): _root_tag(data) == root_tag, where _root_tag is
   the lower-cased tag of the first start event of ET.iterparse over the WHOLE document,
   None on ParseError / LookupError / ValueError.
   pinned code: only data[0:n] is looked at, it must contain `marker`, and LookupError /
   ValueError escape. *)
Definition root_tag_is (root_tag : str) (head : head_out) : bool :=
  match head with
  | HeadTag t => str_eqb (py_lower t) root_tag
  | _ => false
  end.

Definition detect_xml (fx : bool) (marker : str) (n : nat) (root_tag : str)
           (head_prefix head_full : head_out) (data : bytes) : res exn bool :=
  if fx then Ok (root_tag_is root_tag head_full)
  else if negb (contains marker (map ascii_lower (firstn n data))) then Ok false
  else match head_prefix with
       | HeadExn e => Raise (xml_exn_to_exn e)
       | h => Ok (root_tag_is root_tag h)
       end.

Definition ASX_ROOT : str := lit "asx".

Definition detect_asx (fx : bool) (o : oracles) (data : bytes) : res exn bool :=
  detect_xml fx (lit "asx") 50 ASX_ROOT (o_head50 o) (o_head o) data.
Definition detect_xspf (fx : bool) (o : oracles) (data : bytes) : res exn bool :=
  detect_xml fx (lit "xspf") 150 XSPF_NS_PLAYLIST (o_head150 o) (o_head o) data.

(* ------------------------------------------------------------------ line formats *)

Definition EXTM3U : bytes := lit "#EXTM3U".

Fixpoint extm3u_lines (found : bool) (lines : list bytes) : list str :=
  match lines with
  | [] => []
  | l :: t =>
      if found || starts_with EXTM3U l then
        if b_blank l || starts_with [HASH] l then extm3u_lines true t
        else match utf8_decode l with
             | None => extm3u_lines true t
             | Some s => strip s :: extm3u_lines true t
             end
      else extm3u_lines false t
  end.
Definition parse_extm3u (data : bytes) : list str := extm3u_lines false (splitlines data).

(* validation.check_uri(line) passes *)
Definition check_uri_ok (o : oracles) (line : str) : bool :=
  negb (o_uri_raises o line) && has_scheme line.

Fixpoint urilist_lines (o : oracles) (lines : list bytes) : list str :=
  match lines with
  | [] => []
  | l :: t =>
      if b_blank l || starts_with [HASH] l then urilist_lines o t
      else match utf8_decode l with
           | None => urilist_lines o t
           | Some s => if check_uri_ok o s then strip s :: urilist_lines o t
                       else urilist_lines o t
           end
  end.
Definition parse_urilist (o : oracles) (data : bytes) : list str :=
  urilist_lines o (splitlines data).

(* ------------------------------------------------------------------ PLS *)

(* decimal text of a positive number, as in an f-string *)
Fixpoint uint_digits (u : Decimal.uint) : list Z :=
  match u with
  | Decimal.Nil => []
  | Decimal.D0 u => 48 :: uint_digits u
  | Decimal.D1 u => 49 :: uint_digits u
  | Decimal.D2 u => 50 :: uint_digits u
  | Decimal.D3 u => 51 :: uint_digits u
  | Decimal.D4 u => 52 :: uint_digits u
  | Decimal.D5 u => 53 :: uint_digits u
  | Decimal.D6 u => 54 :: uint_digits u
  | Decimal.D7 u => 55 :: uint_digits u
  | Decimal.D8 u => 56 :: uint_digits u
  | Decimal.D9 u => 57 :: uint_digits u
  end.
Definition dec_pos (p : positive) : str := uint_digits (Pos.to_uint p).

Definition file_key (p : positive) : str := lit "file" ++ dec_pos p.

(* str.strip(chars) with chars = double quote and single quote *)
Definition is_quote (c : Z) : bool := (c =? 34) || (c =? 39).
Fixpoint lstrip_q (s : str) : str :=
  match s with
  | c :: t => if is_quote c then lstrip_q t else s
  | [] => []
  end.
Definition strip_quotes (s : str) : str := rev (lstrip_q (rev (lstrip_q s))).

(* cp.get(section, key): the section's own options shadow DEFAULT *)
Definition cp_get (defaults items : list (str * str)) (key : str) : option str :=
  match assoc key items with
  | Some v => Some v
  | None => assoc key defaults
  end.

(* for i in range(count): yield cp.get(section, FILE_KEY(i+1)).strip(quotes)
   p = i + 1; `left` = count - i.  fx: a missing key ends the section (break);
   pinned code: NoOptionError escapes.  The loop is bounded by `fuel`; running out of
   fuel is Diverge (Proofs_Playlists shows fuel = number of options + 1 is enough). *)
Fixpoint pls_entries (fx : bool) (fuel : nat) (defaults items : list (str * str))
         (p : positive) (left : Z) (acc : list str) : res exn (list str) :=
  if left <=? 0 then Ok (rev acc)
  else match fuel with
       | O => Diverge
       | S f =>
           match cp_get defaults items (file_key p) with
           | Some v => pls_entries fx f defaults items (Pos.succ p) (left - 1)
                                   (strip_quotes v :: acc)
           | None => if fx then Ok (rev acc) else Raise NoOptionError
           end
       end.

Definition NUMBEROFENTRIES : str := lit "numberofentries".
Definition PLAYLIST : str := lit "playlist".

Definition pls_fuel (defaults items : list (str * str)) : nat :=
  S (List.length items + List.length defaults).

(* one section of cp.sections() *)
Definition pls_section (fx : bool) (o : oracles) (defaults : list (str * str))
           (sec : str * list (str * str)) : res exn (list str) :=
  let '(name, items) := sec in
  if negb (str_eqb (py_lower name) PLAYLIST) then Ok []
  else match cp_get defaults items NUMBEROFENTRIES with
       | None => if fx then Ok [] else Raise NoOptionError
       | Some v =>
           match o_int o v with
           | None => Raise OracleMissing
           | Some None => if fx then Ok [] else Raise ValueError
           | Some (Some n) => pls_entries fx (pls_fuel defaults items) defaults items 1%positive n []
           end
       end.

(* The generator yields the entries of earlier sections before a later section raises;
   `list(...)` then loses them, so the result is the first Raise or all entries. *)
Fixpoint pls_sections (fx : bool) (o : oracles) (defaults : list (str * str))
         (secs : list (str * list (str * str))) : res exn (list str) :=
  match secs with
  | [] => Ok []
  | s :: t =>
      match pls_section fx o defaults s with
      | Ok l => match pls_sections fx o defaults t with
                | Ok l' => Ok (l ++ l')
                | r => r
                end
      | Raise e => Raise e
      | Diverge => Diverge
      end
  end.

Definition parse_pls (fx : bool) (o : oracles) (data : bytes) : res exn (list str) :=
  match utf8_decode data with
  | None => if fx then Ok [] else Raise UnicodeDecodeError
  | Some _ =>
      match o_ini o with
      | IniError => Ok []
      | IniSections defaults secs => pls_sections fx o defaults secs
      end
  end.

(* ------------------------------------------------------------------ XML formats *)

Definition tag_is (name : str) (e : xml) : bool := str_eqb (py_lower (xtag e)) name.
Definition kids_named (name : str) (e : xml) : list xml := filter (tag_is name) (xkids e).

Definition XSPF_TRACKLIST : str := lit "{http://xspf.org/ns/0/}tracklist".
Definition XSPF_TRACK : str := lit "{http://xspf.org/ns/0/}track".
Definition XSPF_LOCATION : str := lit "{http://xspf.org/ns/0/}location".

(* Element.findtext(tag): None if there is no such child, else its text or "" *)
Definition findtext (name : str) (e : xml) : option str :=
  match kids_named name e with
  | [] => None
  | k :: _ => Some (match xtext k with None => [] | Some s => s end)
  end.

(* element.iterfind("{ns}tracklist/{ns}track") *)
Definition xspf_tracks (root : xml) : list xml :=
  flat_map (kids_named XSPF_TRACK) (kids_named XSPF_TRACKLIST root).

(* the yielded values: Python None is None here.  fx: tracks without <location> are
   skipped. *)
Definition xspf_tree (fx : bool) (root : xml) : list (option str) :=
  let vals := map (findtext XSPF_LOCATION) (xspf_tracks root) in
  if fx then filter (fun v => match v with Some _ => true | None => false end) vals
  else vals.

Definition HREF : str := lit "href".
Definition has_href (e : xml) : bool :=
  match assoc HREF (xattrs e) with Some _ => true | None => false end.
Definition href_of (e : xml) : str :=
  strip (match assoc HREF (xattrs e) with Some v => v | None => [] end).

Definition ENTRY : str := lit "entry".
Definition REF : str := lit "ref".

Definition asx_tree (root : xml) : list str :=
  map href_of (flat_map (fun en => filter has_href (kids_named REF en)) (kids_named ENTRY root))
  ++ map href_of (filter has_href (kids_named ENTRY root)).

Definition parse_xml (fx : bool) (o : oracles) (tree_fn : xml -> list (option str))
  : res exn (list (option str)) :=
  match o_xml o with
  | XmlExn e => if fx then Ok [] else Raise (xml_exn_to_exn e)
  | XmlParseError => Ok []
  | XmlNone => Ok []
  | XmlTree root => Ok (tree_fn root)
  end.

Definition parse_xspf (fx : bool) (o : oracles) := parse_xml fx o (xspf_tree fx).
Definition parse_asx (fx : bool) (o : oracles) :=
  parse_xml fx o (fun r => map Some (asx_tree r)).

(* ------------------------------------------------------------------ parse *)

Definition lift_strs (r : res exn (list str)) : res exn (list (option str)) :=
  match r with
  | Ok l => Ok (map Some l)
  | Raise e => Raise e
  | Diverge => Diverge
  end.

(* handlers dict order: extm3u, pls, asx, xspf; fallback urilist *)
Definition parse (fx : bool) (o : oracles) (data : bytes) : res exn (list (option str)) :=
  if detect_extm3u data then Ok (map Some (parse_extm3u data))
  else if detect_pls data then lift_strs (parse_pls fx o data)
  else match detect_asx fx o data with
       | Raise e => Raise e
       | Diverge => Diverge
       | Ok true => parse_asx fx o
       | Ok false =>
           match detect_xspf fx o data with
           | Raise e => Raise e
           | Diverge => Diverge
           | Ok true => parse_xspf fx o
           | Ok false => Ok (map Some (parse_urilist o data))
           end
       end.

(* ------------------------------------------------------------------ renderers (T2) *)

Definition NLb : bytes := [10].

Definition render_m3u (lines : list bytes) : bytes :=
  EXTM3U ++ NLb ++ flat_map (fun l => l ++ NLb) lines.

Definition render_urilist (lines : list bytes) : bytes :=
  flat_map (fun l => l ++ NLb) lines.

(* str.encode(): UTF-8 of a string of Unicode scalar values *)
Definition utf8_encode_cp (c : Z) : bytes :=
  if c <? 128 then [c]
  else if c <? 2048 then [192 + c / 64; 128 + c mod 64]
  else if c <? 65536 then [224 + c / 4096; 128 + (c / 64) mod 64; 128 + c mod 64]
  else [240 + c / 262144; 128 + (c / 4096) mod 64; 128 + (c / 64) mod 64; 128 + c mod 64].
Definition utf8_encode (s : str) : bytes := flat_map utf8_encode_cp s.
Definition scalar (c : Z) : bool :=
  ((0 <=? c) && (c <? 55296)) || ((57344 <=? c) && (c <=? 1114111)).

(* the abstract documents of the oracle-backed formats *)
Definition xspf_doc (locs : list str) : xml :=
  Elem (lit "{http://xspf.org/ns/0/}playlist") [] None
       [Elem (lit "{http://xspf.org/ns/0/}trackList") [] None
             (map (fun l => Elem (lit "{http://xspf.org/ns/0/}track") [] None
                                 [Elem (lit "{http://xspf.org/ns/0/}location") [] (Some l) []])
                  locs)].

Definition asx_doc (hrefs : list str) : xml :=
  Elem (lit "ASX") [(lit "version", lit "3.0")] None
       (map (fun h => Elem (lit "ENTRY") [] None [Elem (lit "REF") [(HREF, h)] None []]) hrefs).

Fixpoint pls_items (p : positive) (files : list str) : list (str * str) :=
  match files with
  | [] => []
  | f :: t => (file_key p, f) :: pls_items (Pos.succ p) t
  end.
Definition pls_doc_named (name count_text : str) (files : list str) : ini_out :=
  IniSections [] [(name, (NUMBEROFENTRIES, count_text) :: pls_items 1 files)].
Definition pls_doc := pls_doc_named (lit "playlist").
