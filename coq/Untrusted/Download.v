(* Model of the chunk loop of mopidy.internal.http.download (src/mopidy/internal/http.py):

     deadline = time.time() + timeout
     for chunk in response.iter_content(chunk_size):
         content.append(chunk)
         if time.time() > deadline: return None
     if not response.ok: return None
     return b"".join(content)

   Oracles: clock i = the i-th reading of time.time() inside download (reading 0 fixes the
   deadline, reading i is taken after chunk i has arrived); more i = the body has an
   (i+1)-th chunk (an endless body: always true).  `timeout` is what the caller wants the
   download to be bounded by, in the caller's units; the caller passes timeout / unit to
   download() (unit = 1: same units as the clock; unit = 1000: the pinned
   _unwrap_stream, which divides by 1000), so `time.time() > deadline` is
   timeout < unit * (clock i - clock 0)  in exact arithmetic.
   The loop has explicit fuel; an endless body whose clock never passes the deadline is
   the outcome DlOutOfFuel. *)
From Coq Require Import ZArith List Bool.
Import ListNotations.
Open Scope Z_scope.

Inductive dl_end : Type :=
| DlComplete     (* iter_content was exhausted in time *)
| DlSlow         (* a deadline check after a chunk failed: return None *)
| DlOutOfFuel.

Section Chunks.
  Variable unit : Z.
  Variable clock : nat -> Z.
  Variable timeout : Z.
  Variable more : nat -> bool.

  (* time.time() > deadline at reading i *)
  Definition late (i : nat) : bool := timeout <? unit * (clock i - clock O).

  (* i = chunks read so far; result: how the loop ended and how many chunks were read *)
  Fixpoint chunks (fuel i : nat) : dl_end * nat :=
    match fuel with
    | O => (DlOutOfFuel, i)
    | S f =>
        if more i then
          if late (S i) then (DlSlow, S i) else chunks f (S i)
        else (DlComplete, i)
    end.
End Chunks.

(* a finite body given by the time each chunk takes to arrive: reading i = time after
   chunk i, starting at 0 *)
Fixpoint elapsed (durs : list Z) (i : nat) : Z :=
  match i, durs with
  | O, _ => 0
  | S j, d :: t => d + elapsed t j
  | S _, [] => 0
  end.
Definition body_clock (durs : list Z) (i : nat) : Z := elapsed durs i.
Definition body_more (durs : list Z) (i : nat) : bool := Nat.ltb i (length durs).

(* did download() give up on this body because of the deadline? *)
Definition body_slow (unit : Z) (durs : list Z) (timeout : Z) : bool :=
  match fst (chunks unit (body_clock durs) timeout (body_more durs) (S (length durs)) O) with
  | DlSlow => true
  | _ => false
  end.

(* table-backed clock for the generated correspondence files *)
Definition dl_tab_clock (l : list Z) (n : nat) : Z := nth n l (last l 0).
