(* Proofs about the download chunk loop (Download.v): the deadline is re-checked after
   every chunk, so at most one chunk is read after the deadline has passed, whatever the
   body (finite or endless) and whatever the clock. *)
From Coq Require Import ZArith List Bool Lia ZifyBool.
From Untrusted Require Import Download.
Import ListNotations.
Open Scope Z_scope.

Section Facts.
  Variable unit : Z.
  Variable clock : nat -> Z.
  Variable timeout_ms : Z.
  Variable more : nat -> bool.
  Notation late := (late unit clock timeout_ms).
  Notation chunks := (chunks unit clock timeout_ms more).

  (* every chunk but the last one read was followed by a deadline check that passed *)
  Lemma chunks_checked :
    forall fuel i0,
      (forall i, (1 <= i <= i0)%nat -> late i = false) ->
      forall i, (1 <= i < snd (chunks fuel i0))%nat -> late i = false.
  Proof.
    induction fuel as [|f IH]; intros i0 H i Hi; cbn [Download.chunks] in Hi.
    - cbn in Hi. apply H. lia.
    - destruct (more i0).
      + destruct (late (S i0)) eqn:E.
        * cbn in Hi. apply H. lia.
        * apply (IH (S i0)); [|exact Hi]. intros j Hj.
          destruct (Nat.eq_dec j (S i0)); [subst; exact E|apply H; lia].
      + cbn in Hi. apply H. lia.
  Qed.

  Lemma chunks_count_ge : forall fuel i0, (i0 <= snd (chunks fuel i0))%nat.
  Proof.
    induction fuel as [|f IH]; intros i0; cbn [Download.chunks]; [cbn; lia|].
    destruct (more i0); [|cbn; lia]. destruct (late (S i0)); [cbn; lia|].
    specialize (IH (S i0)). lia.
  Qed.

  (* if reading j is beyond the deadline the loop has stopped by chunk j, endless body
     or not, and fuel j suffices *)
  Lemma chunks_stop :
    forall fuel i0 j,
      late j = true -> (i0 < j)%nat -> (j <= i0 + fuel)%nat ->
      fst (chunks fuel i0) <> DlOutOfFuel /\ (snd (chunks fuel i0) <= j)%nat.
  Proof.
    induction fuel as [|f IH]; intros i0 j Hj Hlt Hf; [lia|].
    cbn [Download.chunks]. destruct (more i0); [|cbn; split; [discriminate|lia]].
    destruct (late (S i0)) eqn:E; [cbn; split; [discriminate|lia]|].
    destruct (Nat.eq_dec j (S i0)); [subst; congruence|].
    apply IH; auto; lia.
  Qed.
End Facts.

(* ---- statements about a whole download *)

Theorem download_deadline_every_chunk_lemma :
  forall unit clock timeout_ms more fuel,
    let n := snd (chunks unit clock timeout_ms more fuel O) in
    (* the deadline check passed after each of the first n-1 chunks *)
    (forall i, (1 <= i < n)%nat -> late unit clock timeout_ms i = false)
    (* hence the time spent before the last chunk started is within the timeout *)
    /\ (0 <= timeout_ms -> (1 <= n)%nat -> unit * (clock (n - 1)%nat - clock O) <= timeout_ms).
Proof.
  intros unit clock timeout_ms more fuel n. split.
  - intros i Hi. apply (chunks_checked unit clock timeout_ms more fuel O); [intros j Hj; exfalso; lia|exact Hi].
  - intros Ht Hn. destruct (Nat.eq_dec n 1) as [E|E].
    + rewrite E. change (1 - 1)%nat with O. rewrite Z.sub_diag, Z.mul_0_r. exact Ht.
    + assert (H : late unit clock timeout_ms (n - 1) = false).
      { apply (chunks_checked unit clock timeout_ms more fuel O); [intros j Hj; exfalso; lia|fold n; lia]. }
      unfold late in H. lia.
Qed.

(* at most one chunk is read after the deadline passed: once some reading j >= 1 is beyond
   the deadline, no more than j chunks are read, for every body incl. endless ones *)
Theorem download_bounded_lemma :
  forall unit clock timeout_ms more fuel j,
    late unit clock timeout_ms j = true -> (1 <= j <= fuel)%nat ->
    fst (chunks unit clock timeout_ms more fuel O) <> DlOutOfFuel
    /\ (snd (chunks unit clock timeout_ms more fuel O) <= j)%nat.
Proof.
  intros unit clock timeout_ms more fuel j Hj Hr.
  apply (chunks_stop unit clock timeout_ms more fuel O j); auto; lia.
Qed.

(* a finite body never needs more fuel than its length + 1 *)
Lemma chunks_finite :
  forall unit durs timeout_ms fuel i0,
    (length durs < i0 + fuel)%nat -> (i0 <= length durs)%nat ->
    fst (chunks unit (body_clock durs) timeout_ms (body_more durs) fuel i0) <> DlOutOfFuel.
Proof.
  intros unit durs timeout_ms. induction fuel as [|f IH]; intros i0 H1 H2; [lia|].
  cbn [chunks]. unfold body_more at 1. destruct (Nat.ltb i0 (length durs)) eqn:E.
  - destruct (late _ _ _ (S i0)); [cbn; discriminate|].
    apply IH; [lia|]. apply Nat.ltb_lt in E. lia.
  - cbn. discriminate.
Qed.

(* non-vacuity: an endless body trickling 250 ms per chunk with a 1000 ms timeout is cut
   off at the fifth chunk (reading 5 = 1250 ms is the first one beyond the deadline) *)
Example trickle_example :
  chunks 1 (fun i => 250 * Z.of_nat i) 1000 (fun _ => true) 100 O = (DlSlow, 5%nat)
  /\ late 1 (fun i => 250 * Z.of_nat i) 1000 5 = true.
Proof. vm_compute. split; reflexivity. Qed.
