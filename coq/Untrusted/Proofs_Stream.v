(* Proofs about the providers around the unwrap loop (Stream.v): they compose T3 and T4. *)
From Coq Require Import ZArith List Bool Lia.
From Common Require Import Res Str.
From Untrusted Require Import Base Playlists Download Unwrap Tags Stream Proofs_Unwrap Proofs_Tags.
Import ListNotations.
Open Scope Z_scope.

(* the scheme test of check_uri (Playlists.has_scheme) is "scheme_of is not empty" *)
Lemma scheme_tail_prefix t : scheme_tail t = match scheme_prefix t with Some _ => true | None => false end.
Proof.
  induction t as [|c t IH]; cbn; [reflexivity|].
  destruct (c =? 58); [reflexivity|]. destruct (scheme_char c); cbn; [|reflexivity].
  rewrite IH. destruct (scheme_prefix t); reflexivity.
Qed.

Lemma has_scheme_scheme_of u : has_scheme u = negb (is_nil (scheme_of u)).
Proof.
  unfold has_scheme, scheme_of. destruct (unsafe_removed (lstrip_c0 u)) as [|c t]; [reflexivity|].
  destruct (ascii_alpha c); cbn [andb]; [|reflexivity].
  rewrite scheme_tail_prefix. destruct (scheme_prefix t); reflexivity.
Qed.

Section Total.
  Variable schemes : list str.
  Variable raises blacklisted : uri -> bool.
  Variable uuid : str -> option str.
  Variable scan : uri -> scan_out.
  Variable get : uri -> get_out.
  Variable join : uri -> str -> option uri.
  Variable tags_of : uri -> tags.
  Variable duration_of : uri -> option Z.

  (* lookup: for a request urlsplit accepts, a graph closed under the walk and scan results
     whose tags are typed, the answer is [] or exactly one track with the requested uri
     whose converted fields are valid; no exception, no divergence *)
  Theorem lookup_total_lemma :
    forall clock timeout nodes u,
      raises u = false -> In u nodes -> closed true get join nodes ->
      (forall s, typed_b (tags_of s) = true) ->
      lookup true schemes raises blacklisted uuid scan get join tags_of duration_of
             clock timeout (S (length nodes)) u = Ok LEmpty
      \/ exists t l,
          lookup true schemes raises blacklisted uuid scan get join tags_of duration_of
                 clock timeout (S (length nodes)) u = Ok (LTrack u t l)
          /\ match t with Some tr => track_valid uuid tr | None => True end.
  Proof.
    intros clock timeout nodes u Hr Hu Hc Hty. unfold lookup. rewrite Hr.
    destruct (negb (mem_str (scheme_of u) schemes)); [left; reflexivity|].
    destruct (blacklisted u); [right; exists None, None; split; [reflexivity|exact I]|].
    destruct (unwrap_terminates_lemma true scan get join clock timeout nodes u Hu Hc)
      as (Hfuel & _ & _ & _ & _ & Hnr).
    destruct (fst (unwrap true scan get join clock timeout (S (length nodes)) u)) as [s w|w|e|] eqn:E.
    - destruct w.
      + destruct (tags_total_lemma uuid (tags_of s) (Hty s)) as (tr & Etr & Vtr). rewrite Etr.
        right. exists (Some tr), (duration_of s). split; [reflexivity|exact Vtr].
      + right. exists None, None. split; [reflexivity|exact I].
    - right. exists None, None. split; [reflexivity|exact I].
    - exfalso. exact (Hnr eq_refl e eq_refl).
    - exfalso. apply Hfuel. reflexivity.
  Qed.

  Theorem translate_uri_total_lemma :
    forall clock timeout nodes u,
      raises u = false -> In u nodes -> closed true get join nodes ->
      exists r, translate_uri true schemes raises blacklisted scan get join
                              clock timeout (S (length nodes)) u = Ok r.
  Proof.
    intros clock timeout nodes u Hr Hu Hc. unfold translate_uri. rewrite Hr.
    destruct (negb (mem_str (scheme_of u) schemes)); [eauto|].
    destruct (blacklisted u); [eauto|].
    destruct (unwrap_terminates_lemma true scan get join clock timeout nodes u Hu Hc)
      as (Hfuel & _ & _ & _ & _ & Hnr).
    destruct (fst (unwrap true scan get join clock timeout (S (length nodes)) u)) as [s w|w|e|] eqn:E; eauto.
    - exfalso. exact (Hnr eq_refl e eq_refl).
    - exfalso. apply Hfuel. reflexivity.
  Qed.
End Total.
