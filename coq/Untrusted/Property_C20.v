(* C20 property theorems.  Nothing but statements, `exact`, and Print Assumptions.
   fx = true is the model of the code after the fix: commits, fx = false of the pinned
   tree (see the model files). *)
From Coq Require Import ZArith List Bool.
From Common Require Import Res Str.
From Untrusted Require Import Base Playlists Download Unwrap Tags Stream Proofs_Playlists Proofs_Download Proofs_Unwrap Proofs_Tags Proofs_Stream.
Import ListNotations.
Open Scope Z_scope.

(* T1 parse_total: for every byte string and every outcome of the configparser / expat /
   int() / urlsplit oracles, parse returns a list of strings: no Raise, no Diverge, no
   None element.  (int_total: int() has an outcome for every string.) *)
Theorem C20_parse_total :
  forall (o : oracles) (data : bytes),
    int_total o -> exists l : list str, parse true o data = Ok (map Some l).
Proof. exact parse_total_lemma. Qed.
Print Assumptions C20_parse_total.

(* the PLS entry loop is bounded by the number of options in the document, whatever
   numberofentries claims *)
Theorem C20_pls_loop_bounded :
  forall d items fuel p left acc ks,
    (forall q, (p <= q)%positive -> cp_get d items (file_key q) <> None -> In (file_key q) ks) ->
    (length ks < fuel)%nat ->
    exists l, pls_entries true fuel d items p left acc = Ok l.
Proof. exact pls_entries_ok. Qed.
Print Assumptions C20_pls_loop_bounded.

(* T1 fails for the pinned code: one witness per defect *)
Theorem C20_parse_total_pinned_refuted :
  parse false (o_plain HeadParseError XmlParseError (IniSections [] [(PLAYLIST, [])]) no_int) PLS_HDR
  = Raise NoOptionError
  /\ parse false (o_plain HeadParseError XmlParseError
                          (IniSections [] [(PLAYLIST, [(NUMBEROFENTRIES, [120])])]) no_int) PLS_HDR
     = Raise ValueError
  /\ parse false (o_plain HeadParseError XmlParseError
                          (IniSections [] [(PLAYLIST, [(NUMBEROFENTRIES, [49])])])
                          (fun _ => Some (Some 1))) PLS_HDR
     = Raise NoOptionError
  /\ parse false (o_plain HeadParseError XmlParseError IniError no_int) (PLS_HDR ++ [255])
     = Raise UnicodeDecodeError
  /\ parse false (o_plain (HeadExn XLookupError) (XmlExn XLookupError) IniError no_int) ASX_HDR
     = Raise LookupError
  /\ parse false (o_plain (HeadTag XSPF_NS_PLAYLIST)
                          (XmlTree (Elem XSPF_NS_PLAYLIST [] None
                                         [Elem XSPF_TRACKLIST [] None [Elem XSPF_TRACK [] None []]]))
                          IniError no_int) XSPF_HDR
     = Ok [None].
Proof. exact parse_pinned_refuted_lemma. Qed.
Print Assumptions C20_parse_total_pinned_refuted.

(* T2 wellformed_exact, M3U: a rendered extended M3U gives back exactly its lines *)
Theorem C20_wellformed_m3u :
  forall fx o (lines : list (bytes * str)),
    Forall safe_line lines ->
    parse fx o (render_m3u (map fst lines)) = Ok (map Some (map snd lines)).
Proof. exact wellformed_m3u_lemma. Qed.
Print Assumptions C20_wellformed_m3u.

(* T2, URI list: lines that pass check_uri, in a document no header detector claims *)
Theorem C20_wellformed_urilist :
  forall fx o (lines : list (bytes * str)),
    Forall safe_line lines ->
    Forall (fun bs => check_uri_ok o (snd bs) = true) lines ->
    no_header fx o (render_urilist (map fst lines)) ->
    parse fx o (render_urilist (map fst lines)) = Ok (map Some (map snd lines)).
Proof. exact wellformed_urilist_lemma. Qed.
Print Assumptions C20_wellformed_urilist.

(* T2 for what URIs look like: lines of printable ASCII, not starting with '#'.  No
   decoding or stripping hypotheses are left, and for the URI list the detector
   hypotheses reduce to "expat finds no root element in the sniffed prefixes". *)
Theorem C20_wellformed_m3u_ascii :
  forall fx o (ls : list bytes),
    Forall ascii_line ls -> parse fx o (render_m3u ls) = Ok (map Some ls).
Proof. exact wellformed_m3u_ascii_lemma. Qed.
Print Assumptions C20_wellformed_m3u_ascii.

Theorem C20_wellformed_urilist_ascii :
  forall fx o (l : bytes) (ls : list bytes),
    Forall ascii_line (l :: ls) ->
    match l with c :: _ => ascii_alpha c = true | [] => False end ->
    Forall (fun b => check_uri_ok o b = true) (l :: ls) ->
    o_head50 o = HeadParseError -> o_head150 o = HeadParseError -> o_head o = HeadParseError ->
    parse fx o (render_urilist (l :: ls)) = Ok (map Some (l :: ls)).
Proof. exact wellformed_urilist_ascii_lemma. Qed.
Print Assumptions C20_wellformed_urilist_ascii.

(* T2 over TEXT: for every list of lines of Unicode scalar values (no line break, no
   surrounding whitespace, not empty, not a comment), the UTF-8 encoded extended M3U / URI
   list gives back exactly these strings.  Rests on decode (encode s) = s, proved for the
   transcribed strict UTF-8 decoder. *)
Theorem C20_utf8_decode_encode :
  forall s, forallb scalar s = true -> utf8_decode (utf8_encode s) = Some s.
Proof. exact decode_encode. Qed.
Print Assumptions C20_utf8_decode_encode.

Theorem C20_wellformed_m3u_text :
  forall fx o (ls : list str),
    Forall text_line ls -> parse fx o (render_m3u (map utf8_encode ls)) = Ok (map Some ls).
Proof. exact wellformed_m3u_text_lemma. Qed.
Print Assumptions C20_wellformed_m3u_text.

Theorem C20_wellformed_urilist_text :
  forall fx o (ls : list str),
    Forall text_line ls -> Forall (fun s => check_uri_ok o s = true) ls ->
    no_header fx o (render_urilist (map utf8_encode ls)) ->
    parse fx o (render_urilist (map utf8_encode ls)) = Ok (map Some ls).
Proof. exact wellformed_urilist_text_lemma. Qed.
Print Assumptions C20_wellformed_urilist_text.

(* T2 for legacy extended M3U that is NOT UTF-8 as a whole: blank lines, comment lines with
   arbitrary bytes (Latin-1 #EXTINF titles) and entry lines that do not decode are left
   out one by one; exactly the decodable entries come back, in order *)
Theorem C20_wellformed_m3u_mixed :
  forall fx o (ls : list mline),
    Forall mline_ok ls ->
    parse fx o (render_m3u (map mline_bytes ls)) = Ok (map Some (mline_entries ls)).
Proof. exact wellformed_m3u_mixed_lemma. Qed.
Print Assumptions C20_wellformed_m3u_mixed.

(* T2, PLS over the abstract configparser result *)
Theorem C20_wellformed_pls :
  forall o data name count_text (files : list str),
    detect_extm3u data = false -> detect_pls data = true -> utf8_decode data <> None ->
    py_lower name = PLAYLIST ->
    o_ini o = pls_doc_named name count_text files ->
    o_int o count_text = Some (Some (Z.of_nat (length files))) ->
    Forall (fun f => strip_quotes f = f) files ->
    parse true o data = Ok (map Some files).
Proof. exact wellformed_pls_lemma. Qed.
Print Assumptions C20_wellformed_pls.

(* T2, XSPF and ASX over the abstract element tree *)
Theorem C20_wellformed_xspf :
  forall fx o data locs,
    detect_extm3u data = false -> detect_pls data = false ->
    detect_asx fx o data = Ok false -> detect_xspf fx o data = Ok true ->
    o_xml o = XmlTree (xspf_doc locs) ->
    parse fx o data = Ok (map Some locs).
Proof. exact wellformed_xspf_lemma. Qed.
Print Assumptions C20_wellformed_xspf.

Theorem C20_wellformed_asx :
  forall fx o data hrefs,
    detect_extm3u data = false -> detect_pls data = false -> detect_asx fx o data = Ok true ->
    o_xml o = XmlTree (asx_doc hrefs) -> Forall (fun h => strip h = h) hrefs ->
    parse fx o data = Ok (map Some hrefs).
Proof. exact wellformed_asx_lemma. Qed.
Print Assumptions C20_wellformed_asx.

(* T2 for XSPF / ASX with no detector hypotheses: after the fix the detectors look at the
   root element of the whole document, so a document whose expat outcomes are consistent
   (first start event = root of the tree) gives back its locations whatever precedes the
   root and whatever the encoding *)
Theorem C20_wellformed_xspf_full :
  forall o data locs,
    detect_extm3u data = false -> detect_pls data = false ->
    o_head o = HeadTag (xtag (xspf_doc locs)) -> o_xml o = XmlTree (xspf_doc locs) ->
    parse true o data = Ok (map Some locs).
Proof. exact wellformed_xspf_full_lemma. Qed.
Print Assumptions C20_wellformed_xspf_full.

Theorem C20_wellformed_asx_full :
  forall o data hrefs,
    detect_extm3u data = false -> detect_pls data = false ->
    o_head o = HeadTag (xtag (asx_doc hrefs)) -> o_xml o = XmlTree (asx_doc hrefs) ->
    Forall (fun h => strip h = h) hrefs ->
    parse true o data = Ok (map Some hrefs).
Proof. exact wellformed_asx_full_lemma. Qed.
Print Assumptions C20_wellformed_asx_full.

(* the pinned prefix sniffing loses a well-formed ASX document with an XML declaration *)
Theorem C20_sniffing_pinned_refuted :
  o_head o_asx_decl = HeadTag (xtag (asx_doc [[97]])) /\ o_xml o_asx_decl = XmlTree (asx_doc [[97]])
  /\ detect_extm3u ASX_DECL_DOC = false /\ detect_pls ASX_DECL_DOC = false
  /\ parse false o_asx_decl ASX_DECL_DOC = Ok []
  /\ parse true o_asx_decl ASX_DECL_DOC = Ok [Some [97]].
Proof. exact sniffing_pinned_refuted_lemma. Qed.
Print Assumptions C20_sniffing_pinned_refuted.

(* non-vacuity of the T2 hypotheses *)
Theorem C20_wellformed_nonvacuous :
  Forall safe_line [(ex_l1, ex_l1); (ex_l2, ex_s2)]
  /\ parse true ex_o (render_m3u [ex_l1; ex_l2]) = Ok [Some ex_l1; Some ex_s2]
  /\ (Forall safe_line [(ex_l1, ex_l1)]
      /\ Forall (fun bs => check_uri_ok ex_o (snd bs) = true) [(ex_l1, ex_l1)]
      /\ no_header true ex_o (render_urilist [ex_l1])).
Proof. exact (conj ex_safe_lines (conj ex_m3u_runs ex_urilist_hyps)). Qed.
Print Assumptions C20_wellformed_nonvacuous.

(* http.download re-checks its deadline after every chunk: for every clock, every timeout
   and every body (finite or endless), the check passed after each chunk but the last one
   read, so the time spent before the last chunk started is within the timeout *)
Theorem C20_download_deadline_every_chunk :
  forall unit clock timeout_ms more fuel,
    let n := snd (chunks unit clock timeout_ms more fuel O) in
    (forall i, (1 <= i < n)%nat -> late unit clock timeout_ms i = false)
    /\ (0 <= timeout_ms -> (1 <= n)%nat -> unit * (clock (n - 1)%nat - clock O) <= timeout_ms).
Proof. exact download_deadline_every_chunk_lemma. Qed.
Print Assumptions C20_download_deadline_every_chunk.

(* ... and once a reading j is beyond the deadline no more than j chunks are read and the
   loop has ended (fuel j is enough), even for an endless body: at most one chunk is read
   after the deadline passed *)
Theorem C20_download_bounded :
  forall unit clock timeout_ms more fuel j,
    late unit clock timeout_ms j = true -> (1 <= j <= fuel)%nat ->
    fst (chunks unit clock timeout_ms more fuel O) <> DlOutOfFuel
    /\ (snd (chunks unit clock timeout_ms more fuel O) <= j)%nat.
Proof. exact download_bounded_lemma. Qed.
Print Assumptions C20_download_bounded.

Theorem C20_download_nonvacuous :
  chunks 1 (fun i => 250 * Z.of_nat i) 1000 (fun _ => true) 100 O = (DlSlow, 5%nat)
  /\ late 1 (fun i => 250 * Z.of_nat i) 1000 5 = true.
Proof. exact trickle_example. Qed.
Print Assumptions C20_download_nonvacuous.

(* T3 unwrap_terminates: for every graph (scan, get, join oracles), clock and timeout,
   and every finite set of URIs closed under the walk and containing the start *)
Theorem C20_unwrap_terminates :
  forall fx scan get join clock timeout (nodes : list uri) start,
    In start nodes -> closed fx get join nodes ->
    let r := unwrap fx scan get join clock timeout (S (length nodes)) start in
    fst r <> OutOfFuel
    /\ NoDup (scanned (snd r)) /\ NoDup (downloaded (snd r))
    /\ Forall (fetch_ok clock (deadline_of fx clock timeout)) (snd r)
    /\ (all_playlists fx scan get join nodes -> exists w, fst r = NoStream w)
    /\ (fx = true -> forall e, fst r <> Raised e).
Proof. exact unwrap_terminates_lemma. Qed.
Print Assumptions C20_unwrap_terminates.

(* the configured timeout bounds the work: once the clock stays beyond the deadline from
   reading k0 on, no fetch is issued from a reading >= k0 *)
Theorem C20_no_fetch_after_deadline :
  forall fx scan get join clock timeout fuel start k0,
    (forall j, (k0 <= j)%nat -> deadline_of fx clock timeout < clock j) ->
    Forall (fun f => (fetch_tick f < k0)%nat)
           (snd (unwrap fx scan get join clock timeout fuel start)).
Proof. exact no_fetch_after_deadline_lemma. Qed.
Print Assumptions C20_no_fetch_after_deadline.

(* the whole chain of nested playlists: every fetch starts within the configured timeout
   and is handed exactly the time left; if fetches return within what they were handed
   plus slack, all work ends by clock 0 + timeout + slack (clock and timeout in the same
   units - which the fixed code ensures by converting the millisecond setting) *)
Theorem C20_unwrap_chain_deadline :
  forall scan get join clock timeout fuel start slack,
    let log := snd (unwrap true scan get join clock timeout fuel start) in
    (forall f, In f log ->
       clock (S (fetch_tick f)) <= clock (fetch_tick f) + fetch_timeout f + slack) ->
    forall f, In f log ->
      clock (fetch_tick f) <= clock O + timeout
      /\ fetch_timeout f = clock O + timeout - clock (fetch_tick f)
      /\ clock (S (fetch_tick f)) <= clock O + timeout + slack.
Proof. exact unwrap_chain_deadline_lemma. Qed.
Print Assumptions C20_unwrap_chain_deadline.

(* refuted for the pinned code (milliseconds added to seconds): clock in ms, timeout
   1000 ms, every scan returns within what it was handed, yet a scan is started 1800 ms
   in and a stream is found at 2700 ms; the fixed code gives up *)
Theorem C20_unwrap_chain_deadline_pinned_refuted :
  let r := unwrap false ex3_scan ex3_get ex3_join ex3_clock 1000 4 (ex3_uri 0) in
  fst r = Found (ex3_uri 2) false
  /\ honest_pinned_b ex3_clock (snd r) = true
  /\ existsb (fun f => ex3_clock O + 1000 <? ex3_clock (fetch_tick f)) (snd r) = true
  /\ fst (unwrap true ex3_scan ex3_get ex3_join ex3_clock 1000 4 (ex3_uri 0)) = NoStream TimedOutDownload.
Proof. exact unwrap_chain_deadline_pinned_refuted_lemma. Qed.
Print Assumptions C20_unwrap_chain_deadline_pinned_refuted.

(* the boolean monitor evaluated on implementation traces is a theorem of the model *)
Theorem C20_fetch_log_ok_model :
  forall fx scan get join clock timeout fuel start,
    fetch_log_ok_b (snd (unwrap fx scan get join clock timeout fuel start)) = true.
Proof. exact fetch_log_ok_model_lemma. Qed.
Print Assumptions C20_fetch_log_ok_model.

(* non-vacuity of T3: a two-playlist cycle satisfies the hypotheses and runs to Cycle *)
Theorem C20_unwrap_nonvacuous :
  (In ex_a [ex_a; ex_b] /\ closed true ex_get ex_join [ex_a; ex_b]
   /\ all_playlists true ex_scan ex_get ex_join [ex_a; ex_b])
  /\ unwrap true ex_scan ex_get ex_join ex_clock 100 3 ex_a =
     (NoStream Cycle,
      [FScan ex_a 1 2 98; FDownload ex_a 1 3 97; FScan ex_b 4 5 95; FDownload ex_b 4 6 94]).
Proof. exact (conj ex_cycle_hyps ex_cycle_runs). Qed.
Print Assumptions C20_unwrap_nonvacuous.

(* the pinned loop lets urljoin's ValueError escape *)
Theorem C20_unwrap_pinned_raises :
  exists scan get join clock timeout fuel start,
    fst (unwrap false scan get join clock timeout fuel start) = Raised ValueError.
Proof. exact unwrap_pinned_raises_lemma. Qed.
Print Assumptions C20_unwrap_pinned_raises.

(* T4 tags_total: for every UUID-parser oracle and every typed tag set the conversion
   returns a track whose fields satisfy the model constraints *)
Theorem C20_tags_total :
  forall (uuid : str -> option str) (t : tags),
    typed_b t = true -> exists tr, convert true uuid t = Ok tr /\ track_valid uuid tr.
Proof. exact tags_total_lemma. Qed.
Print Assumptions C20_tags_total.

(* the whole path  scanner taglist -> convert_taglist -> convert_tags_to_track : for every
   taglist whose values have the GTypes GStreamer registers for the tags (strings / bytes,
   unsigned numbers, GLib.Date incl. impossible dates, Gst.DateTime of any precision,
   samples and values of ignored types) the result is a track with valid fields *)
Theorem C20_taglist_to_track_total :
  forall (uuid : str -> option str) (raw : list (tagkey * list gvalue)),
    gst_typed_b raw = true ->
    exists tr, convert true uuid (convert_taglist raw) = Ok tr /\ track_valid uuid tr.
Proof. exact taglist_to_track_total_lemma. Qed.
Print Assumptions C20_taglist_to_track_total.

(* a GLib.Date that datetime.date accepts always becomes a representable date string *)
Theorem C20_iso_date_ok :
  forall y m d, valid_date y m d = true -> date_ok (iso_date y m d) = true.
Proof. exact iso_date_ok_lemma. Qed.
Print Assumptions C20_iso_date_ok.

(* each scalar field is the validator's verdict on the first value of its tag *)
Theorem C20_tags_fields_from_tags :
  forall fx uuid t tr,
    convert fx uuid t = Ok tr ->
    (exists v, first_of t KTrackNumber = Ok v /\ v_int fx (keep_truthy v) = Ok (tr_track_no tr))
    /\ (exists v, first_of t KDiscNumber = Ok v /\ v_int fx (keep_truthy v) = Ok (tr_disc_no tr))
    /\ (exists v, first_of t KBitrate = Ok v /\ v_int fx (keep_truthy v) = Ok (tr_bitrate tr))
    /\ (exists v, first_of t KMbTrackId = Ok v /\ v_uuid fx uuid (keep_truthy v) = Ok (tr_mbid tr)).
Proof. exact tags_fields_from_tags_lemma. Qed.
Print Assumptions C20_tags_fields_from_tags.

Theorem C20_tags_negative_omitted :
  forall uuid t tr z rest,
    convert true uuid t = Ok tr -> tget t KTrackNumber = Some (VInt z :: rest) -> z < 0 ->
    tr_track_no tr = None.
Proof. exact tags_negative_omitted_lemma. Qed.
Print Assumptions C20_tags_negative_omitted.

(* T4 fails for the pinned code: month-precision date-time, negative number, bad id *)
Theorem C20_tags_total_pinned_refuted :
  (typed_b ex_month = true /\ convert false no_uuid ex_month = Raise ValidationError)
  /\ (typed_b ex_negative = true /\ convert false no_uuid ex_negative = Raise ValidationError)
  /\ (typed_b ex_bad_mbid = true /\ convert false no_uuid ex_bad_mbid = Raise ValidationError).
Proof. exact tags_pinned_refuted_lemma. Qed.
Print Assumptions C20_tags_total_pinned_refuted.

Theorem C20_tags_nonvacuous :
  typed_b ex_tags = true
  /\ exists tr, convert true ex_uuid ex_tags = Ok tr
                /\ tr_name tr = Some [97; 59; 32; 98] /\ tr_track_no tr = Some 3
                /\ tr_date tr = Some [50; 48; 49; 52]
                /\ tr_artists tr = [mkArtist (Some [120]) None (Some [71])]
                /\ exists a, tr_album tr = Some a /\ al_num_tracks a = None /\ al_mbid a = None
                             /\ al_name a = Some [65].
Proof. exact tags_total_nonvacuous. Qed.
Print Assumptions C20_tags_nonvacuous.

(* the providers around the loop (scheme filter, blacklist, _unwrap_stream,
   convert_tags_to_track(...).replace(uri, length)): lookup answers [] or exactly one track
   with the requested uri and valid converted fields; translate_uri answers a uri or None;
   neither raises nor diverges (request accepted by urlsplit, closed graph, typed tags) *)
Theorem C20_stream_lookup_total :
  forall schemes raises blacklisted uuid scan get join tags_of duration_of clock timeout nodes u,
    raises u = false -> In u nodes -> closed true get join nodes ->
    (forall s, typed_b (tags_of s) = true) ->
    lookup true schemes raises blacklisted uuid scan get join tags_of duration_of
           clock timeout (S (length nodes)) u = Ok LEmpty
    \/ exists t l,
        lookup true schemes raises blacklisted uuid scan get join tags_of duration_of
               clock timeout (S (length nodes)) u = Ok (LTrack u t l)
        /\ match t with Some tr => track_valid uuid tr | None => True end.
Proof. exact lookup_total_lemma. Qed.
Print Assumptions C20_stream_lookup_total.

Theorem C20_stream_translate_uri_total :
  forall schemes raises blacklisted scan get join clock timeout nodes u,
    raises u = false -> In u nodes -> closed true get join nodes ->
    exists r, translate_uri true schemes raises blacklisted scan get join
                            clock timeout (S (length nodes)) u = Ok r.
Proof. exact translate_uri_total_lemma. Qed.
Print Assumptions C20_stream_translate_uri_total.

(* check_uri's scheme test and urlsplit's scheme are one transcription *)
Theorem C20_has_scheme_is_scheme_of :
  forall u, has_scheme u = negb (is_nil (scheme_of u)).
Proof. exact has_scheme_scheme_of. Qed.
Print Assumptions C20_has_scheme_is_scheme_of.
