(* Shared vocabulary of the Untrusted area (C20): exception enum, bytes, string
   literals as code points, small list helpers.  No proofs here. *)
From Coq Require Import ZArith List Bool String Ascii.
From Common Require Import Res Str.
Import ListNotations.
Open Scope Z_scope.

(* Python exception classes that can reach a caller of the modelled functions.
   UnicodeDecodeError/UnicodeError are kept apart from ValueError only where the code
   distinguishes them by raise site; `except ValueError` catches all three. *)
Inductive exn : Type :=
| LookupError        (* codecs: unknown / non-text encoding named in an XML declaration *)
| ValueError         (* int(), expat "multi-byte encodings are not supported", urljoin *)
| UnicodeDecodeError (* bytes.decode() *)
| NoOptionError      (* configparser.NoOptionError (a configparser.Error) *)
| TypeError          (* str.join on a non-str *)
| IndexError         (* [][0] *)
| AttributeError     (* int.split *)
| ValidationError    (* pydantic.ValidationError *)
| OracleMissing      (* harness table lacks an entry: fail closed, never a Python outcome *)
| OtherExn.          (* any other exception class observed on the implementation *)

Definition exn_code (e : exn) : Z :=
  match e with
  | LookupError => 1 | ValueError => 2 | UnicodeDecodeError => 3 | NoOptionError => 4
  | TypeError => 5 | IndexError => 6 | AttributeError => 7 | ValidationError => 8
  | OracleMissing => 99
  | OtherExn => 100
  end.
Definition exn_eqb (a b : exn) : bool := exn_code a =? exn_code b.

Definition bytes := list Z.

(* "literal" -> code points (ASCII literals only) *)
Definition lit (s : string) : list Z :=
  map (fun a => Z.of_nat (nat_of_ascii a)) (list_ascii_of_string s).

Definition ascii_upper (c : Z) : Z := if (97 <=? c) && (c <=? 122) then c - 32 else c.

(* `needle in hay` for sequences *)
Fixpoint contains (needle hay : list Z) : bool :=
  match hay with
  | [] => match needle with [] => true | _ => false end
  | _ :: t => starts_with needle hay || contains needle t
  end.

Fixpoint assoc {A} (k : str) (l : list (str * A)) : option A :=
  match l with
  | [] => None
  | (k', v) :: t => if str_eqb k k' then Some v else assoc k t
  end.

Fixpoint zmem (x : Z) (l : list Z) : bool :=
  match l with [] => false | y :: t => (x =? y) || zmem x t end.

Definition is_nil {A} (l : list A) : bool := match l with [] => true | _ => false end.

(* equality of observed results (used by the generated correspondence files) *)
Definition res_eqb {A} (eqb : A -> A -> bool) (a b : res exn A) : bool :=
  match a, b with
  | Ok x, Ok y => eqb x y
  | Raise e, Raise f => exn_eqb e f
  | Diverge, Diverge => true
  | _, _ => false
  end.
Definition ostr_list_eqb : list (option str) -> list (option str) -> bool :=
  list_eqb (opt_eqb str_eqb).
