(* Model of mopidy.stream.actor._unwrap_stream together with mopidy.internal.http.download
   (src/mopidy/stream/actor.py, src/mopidy/internal/http.py).

   The world outside is a finite graph given by oracles:
     scan : uri -> scan_out       what scanner.scan(uri, timeout=...) does
     get  : uri -> get_out        what requests_session.get(uri, ...) does: the chunk timing
                                  of the body and what playlists.parse returns for it
     join : uri -> str -> option uri    urllib.parse.urljoin (None = ValueError)
     clock : nat -> Z             the n-th reading of time.time()
   The loop is bounded by explicit fuel; running out of fuel is the outcome OutOfFuel, so
   that termination is a statement (Proofs_Unwrap) and not a modelling decision.

   Units.  `timeout` is the configured stream timeout expressed in clock units.  The code
   after the fix: commits (fx = true) computes deadline = time.time() + timeout / 1000 in
   seconds and hands the scanner (deadline - now) * 1000 ms and download() (deadline - now)
   seconds: in clock units, deadline = clock 0 + timeout and every fetch gets exactly the
   time left.  The pinned code (fx = false) adds the number of MILLISECONDS to
   time.time() in SECONDS: its deadline is clock 0 + 1000 * timeout, and what it hands out,
   (deadline - now) "ms" resp. (deadline - now) / 1000 seconds, is the time left to that
   inflated deadline divided by 1000 (unit_of).  The log records deadline - reading.

   fx = true also: urljoin's ValueError is caught and ends the unwrapping without a
   stream (pinned: it escapes). *)
From Coq Require Import ZArith List Bool.
From Common Require Import Res Str.
From Untrusted Require Import Base Download.
Import ListNotations.
Open Scope Z_scope.

Definition uri := str.

Inductive scan_out : Type :=
| ScanError                                   (* exceptions.ScannerError *)
| ScanResult (playable : bool) (mime : option str).

Inductive get_out : Type :=
| GetTimeout                                  (* requests.exceptions.Timeout *)
| GetInvalidSchema                            (* requests.exceptions.InvalidSchema *)
| GetRequestException                         (* any other RequestException *)
| GetResponse (ok : bool) (durs : list Z) (uris : list str).
  (* durs: how long each chunk of iter_content takes to arrive, in clock units;
     uris = playlists.parse(body) *)

Definition unit_of (fx : bool) : Z := if fx then 1 else 1000.

(* http.download(session, uri, timeout = dt / unit): the body of an ok response whose
   chunk loop (Download.chunks) was not cut off by the deadline, else None; then
   playlists.parse *)
Definition download (unit dt : Z) (g : get_out) : option (list str) :=
  match g with
  | GetResponse true durs uris => if body_slow unit durs dt then None else Some uris
  | _ => None
  end.

Definition TEXT_ : str := [116; 101; 120; 116; 47].                       (* text/ *)
Definition APPLICATION_ : str := [97; 112; 112; 108; 105; 99; 97; 116; 105; 111; 110; 47].

Definition interesting_mime (m : option str) : bool :=
  match m with
  | None => false
  | Some s => negb (starts_with TEXT_ s) && negb (starts_with APPLICATION_ s)
  end.

(* scan_result is not None and (scan_result.playable or has_interesting_mime) *)
Definition is_stream (s : scan_out) : bool :=
  match s with
  | ScanError => false
  | ScanResult p m => p || interesting_mime m
  end.

Inductive why : Type :=
| Cycle             (* uri in seen_uris: playlist referenced itself *)
| DeadlinePassed    (* while time.time() < deadline  is false *)
| TimedOutScan      (* scan_timeout < 0 *)
| TimedOutDownload  (* download_timeout < 0 *)
| DownloadFailed    (* content is None *)
| BadJoin.          (* urljoin raised ValueError (fx only) *)

Inductive outcome : Type :=
| Found (u : uri) (with_scan : bool)   (* (uri, scan_result) / (uri, None) *)
| NoStream (w : why)                   (* (None, None) *)
| Raised (e : exn)
| OutOfFuel.

(* one call of scanner.scan / session.get: the iteration's loop-head clock reading
   `top`, the reading `tick` the timeout was computed from, and the timeout passed *)
Inductive fetch : Type :=
| FScan (u : uri) (top tick : nat) (timeout : Z)
| FDownload (u : uri) (top tick : nat) (timeout : Z).

Section Unwrap.
  Variable fx : bool.
  Variable scan : uri -> scan_out.
  Variable get : uri -> get_out.
  Variable join : uri -> str -> option uri.
  Variable clock : nat -> Z.
  Variable deadline : Z.

  (* k = index of the next clock reading; log is newest-first *)
  Fixpoint loop (fuel : nat) (u : uri) (seen : list uri) (k : nat) (log : list fetch)
    : outcome * list fetch :=
    match fuel with
    | O => (OutOfFuel, log)
    | S f =>
        if clock k <? deadline then
          if mem_str u seen then (NoStream Cycle, log)
          else
            let seen' := u :: seen in
            let st := deadline - clock (k + 1) in
            if st <? 0 then (NoStream TimedOutScan, log)
            else
              let log1 := FScan u k (k + 1) st :: log in
              if is_stream (scan u) then (Found u true, log1)
              else
                let dt := deadline - clock (k + 2) in
                if dt <? 0 then (NoStream TimedOutDownload, log1)
                else
                  let log2 := FDownload u k (k + 2) dt :: log1 in
                  match download (unit_of fx) dt (get u) with
                  | None => (NoStream DownloadFailed, log2)
                  | Some [] => (Found u false, log2)
                  | Some (first :: _) =>
                      match join u first with
                      | None => (if fx then NoStream BadJoin else Raised ValueError, log2)
                      | Some next => loop f next seen' (k + 3) log2
                      end
                  end
        else (NoStream DeadlinePassed, log)
    end.
End Unwrap.

(* the deadline is computed from reading 0; the loop starts at reading 1 *)
Definition deadline_of (fx : bool) (clock : nat -> Z) (timeout : Z) : Z :=
  clock O + unit_of fx * timeout.

Definition unwrap (fx : bool) (scan : uri -> scan_out) (get : uri -> get_out)
           (join : uri -> str -> option uri) (clock : nat -> Z) (timeout : Z)
           (fuel : nat) (start : uri) : outcome * list fetch :=
  let '(o, log) := loop fx scan get join clock (deadline_of fx clock timeout) fuel start [] 1 [] in
  (o, rev log).

Definition fetch_uri (f : fetch) : uri :=
  match f with FScan u _ _ _ => u | FDownload u _ _ _ => u end.
Definition fetch_top (f : fetch) : nat :=
  match f with FScan _ t _ _ => t | FDownload _ t _ _ => t end.
Definition fetch_tick (f : fetch) : nat :=
  match f with FScan _ _ t _ => t | FDownload _ _ t _ => t end.
Definition fetch_timeout (f : fetch) : Z :=
  match f with FScan _ _ _ t => t | FDownload _ _ _ t => t end.
Definition is_scan (f : fetch) : bool := match f with FScan _ _ _ _ => true | _ => false end.

Definition scanned (log : list fetch) : list uri := map fetch_uri (filter is_scan log).
Definition downloaded (log : list fetch) : list uri :=
  map fetch_uri (filter (fun f => negb (is_scan f)) log).

(* ---- the property predicate as a boolean, evaluated on implementation traces by the
   harness (monitor) and proved of the model: no URI scanned twice, none downloaded
   twice, every timeout handed out is non-negative. *)
Fixpoint nodup_b (l : list uri) : bool :=
  match l with
  | [] => true
  | x :: t => negb (mem_str x t) && nodup_b t
  end.
Definition fetch_log_ok_b (log : list fetch) : bool :=
  nodup_b (scanned log) && nodup_b (downloaded log)
  && forallb (fun f => 0 <=? fetch_timeout f) log.

(* ---- table-backed oracles for the generated correspondence files *)
Definition tab_scan (t : list (uri * scan_out)) (u : uri) : scan_out :=
  match assoc u t with Some s => s | None => ScanError end.
Definition tab_get (t : list (uri * get_out)) (u : uri) : get_out :=
  match assoc u t with Some g => g | None => GetRequestException end.
Fixpoint tab_join (t : list (uri * str * option uri)) (u : uri) (r : str) : option uri :=
  match t with
  | [] => None
  | (u', r', v) :: rest => if str_eqb u u' && str_eqb r r' then v else tab_join rest u r
  end.
Definition tab_clock (l : list Z) (n : nat) : Z := nth n l (last l 0).
