(* Model of the code around the unwrap loop in mopidy.stream.actor:
   StreamLibraryProvider.lookup and StreamPlaybackProvider.translate_uri
   (scheme filter -> metadata blacklist -> _unwrap_stream -> convert_tags_to_track(...)
   .replace(uri=..., length=...)).

   Additional oracles: `raises uri` = urllib.parse.urlsplit(uri) raises ValueError (netloc
   validation), `blacklisted uri` = backend._blacklist_re.match(uri), `tags_of u` /
   `duration_of u` = the .tags / .duration of the scan result of u.  urlsplit's scheme is
   transcribed (scheme_of). *)
From Coq Require Import ZArith List Bool.
From Common Require Import Res Str.
From Untrusted Require Import Base Playlists Download Unwrap Tags.
Import ListNotations.
Open Scope Z_scope.

(* the characters before the first ':' if they are all scheme characters *)
Fixpoint scheme_prefix (s : str) : option str :=
  match s with
  | [] => None
  | c :: t => if c =? 58 then Some []
              else if scheme_char c then option_map (cons c) (scheme_prefix t) else None
  end.

(* urllib.parse.urlsplit(uri).scheme ("" when there is none) *)
Definition scheme_of (uri : str) : str :=
  match unsafe_removed (lstrip_c0 uri) with
  | c :: t => if ascii_alpha c
              then match scheme_prefix t with
                   | Some p => map ascii_lower (c :: p)
                   | None => []
                   end
              else []
  | [] => []
  end.

(* what lookup returns: [] or one track carrying the requested uri, the converted tags
   (None: Track(uri=uri)) and the length *)
Inductive lookup_out : Type :=
| LEmpty
| LTrack (u : uri) (t : option track) (length : option Z).

Section Providers.
  Variable fx : bool.
  Variable schemes : list str.            (* backend.uri_schemes *)
  Variable raises : uri -> bool.
  Variable blacklisted : uri -> bool.
  Variable uuid : str -> option str.
  Variable scan : uri -> scan_out.
  Variable get : uri -> get_out.
  Variable join : uri -> str -> option uri.
  Variable tags_of : uri -> tags.
  Variable duration_of : uri -> option Z.

  Definition lookup (clock : nat -> Z) (timeout : Z) (fuel : nat) (u : uri) : res exn lookup_out :=
    if raises u then Raise ValueError
    else if negb (mem_str (scheme_of u) schemes) then Ok LEmpty
    else if blacklisted u then Ok (LTrack u None None)
    else match fst (unwrap fx scan get join clock timeout fuel u) with
         | Found s true =>
             match convert fx uuid (tags_of s) with
             | Ok t => Ok (LTrack u (Some t) (duration_of s))
             | Raise e => Raise e
             | Diverge => Diverge
             end
         | Found _ false => Ok (LTrack u None None)
         | NoStream _ => Ok (LTrack u None None)
         | Raised e => Raise e
         | OutOfFuel => Diverge
         end.

  Definition translate_uri (clock : nat -> Z) (timeout : Z) (fuel : nat) (u : uri) : res exn (option uri) :=
    if raises u then Raise ValueError
    else if negb (mem_str (scheme_of u) schemes) then Ok None
    else if blacklisted u then Ok (Some u)
    else match fst (unwrap fx scan get join clock timeout fuel u) with
         | Found s _ => Ok (Some s)
         | NoStream _ => Ok None
         | Raised e => Raise e
         | OutOfFuel => Diverge
         end.
End Providers.

Definition lookup_out_eqb (a b : lookup_out) : bool :=
  match a, b with
  | LEmpty, LEmpty => true
  | LTrack u t l, LTrack v s m => str_eqb u v && opt_eqb track_eqb t s && opt_eqb Z.eqb l m
  | _, _ => false
  end.
