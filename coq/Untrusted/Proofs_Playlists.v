(* Proofs about the playlists.parse model (Playlists.v): totality for every byte string
   and every oracle outcome (T1), exactness on well-formed documents (T2), and the
   refutation of totality for the pinned code. *)
From Coq Require Import ZArith List Bool Lia ZifyBool DecimalPos.
From Coq Require String.
Import String.StringSyntax.
From Common Require Import Res Str.
From Untrusted Require Import Base Playlists.
Import ListNotations.
Open Scope Z_scope.
Local Open Scope list_scope.

(* ------------------------------------------------------------------ small facts *)

Lemma str_eqb_refl s : str_eqb s s = true.
Proof. apply str_eqb_eq. reflexivity. Qed.

Definition str_dec : forall a b : str, {a = b} + {a <> b} := list_eq_dec Z.eq_dec.

Lemma assoc_In {A} k (l : list (str * A)) v : assoc k l = Some v -> In k (map fst l).
Proof.
  induction l as [|[k' v'] t IH]; cbn; [discriminate|].
  destruct (str_eqb k k') eqn:E; [apply str_eqb_eq in E; subst; auto|auto].
Qed.

Lemma cp_get_In d items k :
  cp_get d items k <> None -> In k (map fst items ++ map fst d).
Proof.
  unfold cp_get. intros H. apply in_or_app.
  destruct (assoc k items) eqn:E; [left; eapply assoc_In; eauto|].
  destruct (assoc k d) eqn:E2; [right; eapply assoc_In; eauto|congruence].
Qed.

Lemma uint_digits_inj u v : uint_digits u = uint_digits v -> u = v.
Proof.
  revert v. induction u; destruct v; cbn; intro H; try discriminate H; try reflexivity;
    injection H as H; f_equal; auto.
Qed.

Lemma file_key_inj p q : file_key p = file_key q -> p = q.
Proof.
  unfold file_key, dec_pos. intros H. apply app_inv_head in H.
  apply uint_digits_inj in H. apply Unsigned.to_uint_inj. exact H.
Qed.

(* ------------------------------------------------------------------ PLS loop is bounded *)

Lemma pls_entries_ok d items :
  forall fuel p left acc ks,
    (forall q, (p <= q)%positive -> cp_get d items (file_key q) <> None -> In (file_key q) ks) ->
    (length ks < fuel)%nat ->
    exists l, pls_entries true fuel d items p left acc = Ok l.
Proof.
  induction fuel as [|f IH]; intros p left acc ks Hks Hlen; [lia|].
  cbn [pls_entries]. destruct (left <=? 0); [eauto|].
  destruct (cp_get d items (file_key p)) as [v|] eqn:E; [|eauto].
  assert (Hin : In (file_key p) ks) by (apply Hks; [lia|congruence]).
  apply (IH _ _ _ (remove str_dec (file_key p) ks)).
  - intros q Hq Hget. apply in_in_remove.
    + intros Heq. apply file_key_inj in Heq. lia.
    + apply Hks; [lia|exact Hget].
  - pose proof (remove_length_lt str_dec ks (file_key p) Hin). lia.
Qed.

Definition int_total (o : oracles) : Prop := forall s, o_int o s <> None.

Lemma pls_section_ok o d sec :
  int_total o -> exists l, pls_section true o d sec = Ok l.
Proof.
  intros Hint. destruct sec as [name items]. cbn [pls_section].
  destruct (negb (str_eqb (py_lower name) PLAYLIST)); [eauto|].
  destruct (cp_get d items NUMBEROFENTRIES) as [v|]; [|eauto].
  destruct (o_int o v) as [[n|]|] eqn:E; [|eauto|exfalso; exact (Hint v E)].
  apply (pls_entries_ok d items _ _ _ _ (map fst items ++ map fst d)).
  - intros q _ H. apply cp_get_In. exact H.
  - unfold pls_fuel. rewrite app_length, !map_length. lia.
Qed.

Lemma pls_sections_ok o d secs :
  int_total o -> exists l, pls_sections true o d secs = Ok l.
Proof.
  intros Hint. induction secs as [|s t [l' IH]]; cbn [pls_sections]; [eauto|].
  destruct (pls_section_ok o d s Hint) as [l E]. rewrite E, IH. eauto.
Qed.

Lemma parse_pls_ok o data :
  int_total o -> exists l, parse_pls true o data = Ok l.
Proof.
  intros Hint. unfold parse_pls. destruct (utf8_decode data); [|eauto].
  destruct (o_ini o); [eauto|apply pls_sections_ok; exact Hint].
Qed.

(* ------------------------------------------------------------------ T1 *)

Lemma filter_some_map {A} (l : list (option A)) :
  exists r, filter (fun v => match v with Some _ => true | None => false end) l = map Some r.
Proof.
  induction l as [|[x|] t [r IH]]; cbn.
  - exists []. reflexivity.
  - exists (x :: r). cbn. rewrite IH. reflexivity.
  - exists r. exact IH.
Qed.

Lemma detect_xml_fx marker n root hp hf data :
  exists b, detect_xml true marker n root hp hf data = Ok b.
Proof. unfold detect_xml. eauto. Qed.

Lemma parse_xml_fx_strs o f :
  (forall root, exists l, f root = map Some l) ->
  exists l, parse_xml true o f = Ok (map Some l).
Proof.
  intros Hf. unfold parse_xml. destruct (o_xml o); try (exists []; reflexivity).
  destruct (Hf root) as [l E]. rewrite E. eauto.
Qed.

Theorem parse_total_lemma :
  forall (o : oracles) (data : bytes),
    int_total o -> exists l : list str, parse true o data = Ok (map Some l).
Proof.
  intros o data Hint. unfold parse.
  destruct (detect_extm3u data); [eauto|].
  destruct (detect_pls data).
  { destruct (parse_pls_ok o data Hint) as [l E]. rewrite E. cbn. eauto. }
  unfold detect_asx, detect_xspf.
  destruct (detect_xml_fx (lit "asx") 50 ASX_ROOT (o_head50 o) (o_head o) data) as [b E]. rewrite E.
  destruct b.
  { apply parse_xml_fx_strs. intros root. eauto. }
  destruct (detect_xml_fx (lit "xspf") 150 XSPF_NS_PLAYLIST (o_head150 o) (o_head o) data) as [b2 E2].
  rewrite E2. destruct b2; [|eauto].
  apply parse_xml_fx_strs. intros root. unfold xspf_tree. apply filter_some_map.
Qed.

(* ------------------------------------------------------------------ pinned code *)

Definition no_int (_ : str) : option (option Z) := Some None.
Definition o_plain (h : head_out) (x : xml_out) (ini : ini_out) (int : str -> option (option Z)) :=
  mkOracles h h h x ini int (fun _ => false).

Definition PLS_HDR : bytes := lit "[playlist]".
Definition ASX_HDR : bytes := lit "<asx>".
Definition XSPF_HDR : bytes := lit "<playlist xmlns='http://xspf.org/ns/0/'>".

(* Each defect of the pinned tree, as an input on which the pinned model does not return
   a list of strings. *)
Lemma parse_pinned_refuted_lemma :
  (* PLS without numberofentries *)
  parse false (o_plain HeadParseError XmlParseError (IniSections [] [(PLAYLIST, [])]) no_int) PLS_HDR
  = Raise NoOptionError
  (* PLS with a non-numeric numberofentries *)
  /\ parse false (o_plain HeadParseError XmlParseError
                          (IniSections [] [(PLAYLIST, [(NUMBEROFENTRIES, [120])])]) no_int) PLS_HDR
     = Raise ValueError
  (* PLS with numberofentries = 1 and no File1 *)
  /\ parse false (o_plain HeadParseError XmlParseError
                          (IniSections [] [(PLAYLIST, [(NUMBEROFENTRIES, [49])])])
                          (fun _ => Some (Some 1))) PLS_HDR
     = Raise NoOptionError
  (* PLS body that is not UTF-8 *)
  /\ parse false (o_plain HeadParseError XmlParseError IniError no_int) (PLS_HDR ++ [255])
     = Raise UnicodeDecodeError
  (* XML declaration naming an unknown encoding *)
  /\ parse false (o_plain (HeadExn XLookupError) (XmlExn XLookupError) IniError no_int) ASX_HDR
     = Raise LookupError
  (* XSPF track without location: the list contains None *)
  /\ parse false (o_plain (HeadTag XSPF_NS_PLAYLIST)
                          (XmlTree (Elem XSPF_NS_PLAYLIST [] None
                                         [Elem XSPF_TRACKLIST [] None [Elem XSPF_TRACK [] None []]]))
                          IniError no_int) XSPF_HDR
     = Ok [None].
Proof. vm_compute. repeat split; reflexivity. Qed.

(* the same inputs through the fixed code *)
Example parse_fixed_examples :
  parse true (o_plain HeadParseError XmlParseError (IniSections [] [(PLAYLIST, [])]) no_int) PLS_HDR = Ok []
  /\ parse true (o_plain HeadParseError XmlParseError IniError no_int) (PLS_HDR ++ [255]) = Ok []
  /\ parse true (o_plain (HeadExn XLookupError) (XmlExn XLookupError) IniError no_int) ASX_HDR = Ok []
  /\ parse true (o_plain (HeadTag XSPF_NS_PLAYLIST)
                         (XmlTree (Elem XSPF_NS_PLAYLIST [] None
                                        [Elem XSPF_TRACKLIST [] None
                                              [Elem XSPF_TRACK [] None [];
                                               Elem XSPF_TRACK [] None [Elem XSPF_LOCATION [] (Some [97]) []]]]))
                         IniError no_int) XSPF_HDR
     = Ok [Some [97]].
Proof. vm_compute. repeat split; reflexivity. Qed.

(* ------------------------------------------------------------------ T2: line formats *)

Definition noeol (b : bytes) : Prop :=
  forallb (fun c => negb ((c =? 10) || (c =? 13))) b = true.

Lemma splitlines_aux_line :
  forall l cur rest, noeol l ->
    splitlines_aux cur (l ++ 10 :: rest) = (rev cur ++ l) :: splitlines_aux [] rest.
Proof.
  unfold noeol. induction l as [|c t IH]; intros cur rest H.
  - cbn. rewrite app_nil_r. reflexivity.
  - cbn in H. apply andb_true_iff in H. destruct H as [Hc Ht].
    apply negb_true_iff, orb_false_iff in Hc. destruct Hc as [E1 E2].
    cbn [app splitlines_aux]. rewrite E1, E2. rewrite IH by exact Ht.
    cbn [rev]. rewrite <- app_assoc. reflexivity.
Qed.

Lemma splitlines_render bs :
  Forall noeol bs -> splitlines_aux [] (flat_map (fun l => l ++ NLb) bs) = bs.
Proof.
  induction 1 as [|b t Hb Ht IH]; [reflexivity|].
  cbn [flat_map]. unfold NLb at 1. rewrite <- app_assoc. cbn [app].
  rewrite splitlines_aux_line by exact Hb. cbn [rev app]. rewrite IH. reflexivity.
Qed.

(* a line of a well-formed line-based playlist: its bytes and the text it denotes *)
Definition safe_line (bs : bytes * str) : Prop :=
  noeol (fst bs) /\ b_blank (fst bs) = false /\ starts_with [HASH] (fst bs) = false
  /\ utf8_decode (fst bs) = Some (snd bs) /\ strip (snd bs) = snd bs.

Lemma extm3u_lines_safe lines :
  Forall safe_line lines -> extm3u_lines true (map fst lines) = map snd lines.
Proof.
  induction 1 as [|[b s] t (Hn & Hb & Hh & Hd & Hs) Ht IH]; [reflexivity|].
  cbn [map fst snd extm3u_lines] in *. cbn [orb]. rewrite Hb, Hh. cbn [orb].
  rewrite Hd, Hs, IH. reflexivity.
Qed.

Lemma EXTM3U_eq : EXTM3U = [35; 69; 88; 84; 77; 51; 85].
Proof. reflexivity. Qed.

Theorem wellformed_m3u_lemma :
  forall fx o (lines : list (bytes * str)),
    Forall safe_line lines ->
    parse fx o (render_m3u (map fst lines)) = Ok (map Some (map snd lines)).
Proof.
  intros fx o lines Hs. unfold parse.
  assert (Hd : detect_extm3u (render_m3u (map fst lines)) = true).
  { unfold detect_extm3u, render_m3u. rewrite EXTM3U_eq. cbn [app firstn]. reflexivity. }
  rewrite Hd. f_equal. f_equal.
  unfold parse_extm3u, splitlines, render_m3u. unfold NLb at 1. cbn [app].
  rewrite splitlines_aux_line by reflexivity. cbn [rev app].
  rewrite splitlines_render.
  - cbn [extm3u_lines orb].
    replace (starts_with EXTM3U EXTM3U) with true by reflexivity.
    replace (b_blank EXTM3U || starts_with [HASH] EXTM3U) with true by reflexivity.
    apply extm3u_lines_safe. exact Hs.
  - rewrite Forall_map. eapply Forall_impl; [|exact Hs]. intros a H. apply H.
Qed.

Lemma urilist_lines_safe o lines :
  Forall safe_line lines -> Forall (fun bs => check_uri_ok o (snd bs) = true) lines ->
  urilist_lines o (map fst lines) = map snd lines.
Proof.
  induction 1 as [|[b s] t (Hn & Hb & Hh & Hd & Hs) Ht IH]; intros Hc; [reflexivity|].
  inversion Hc as [|? ? Hc1 Hc2]; subst.
  cbn [map fst snd urilist_lines] in *. rewrite Hb, Hh. cbn [orb].
  rewrite Hd, Hc1, Hs, IH by exact Hc2. reflexivity.
Qed.

(* the document is not claimed by one of the four header detectors *)
Definition no_header (fx : bool) (o : oracles) (data : bytes) : Prop :=
  detect_extm3u data = false /\ detect_pls data = false
  /\ detect_asx fx o data = Ok false /\ detect_xspf fx o data = Ok false.

Theorem wellformed_urilist_lemma :
  forall fx o (lines : list (bytes * str)),
    Forall safe_line lines ->
    Forall (fun bs => check_uri_ok o (snd bs) = true) lines ->
    no_header fx o (render_urilist (map fst lines)) ->
    parse fx o (render_urilist (map fst lines)) = Ok (map Some (map snd lines)).
Proof.
  intros fx o lines Hs Hc (H1 & H2 & H3 & H4). unfold parse. rewrite H1, H2, H3, H4.
  f_equal. f_equal. unfold parse_urilist, splitlines, render_urilist.
  rewrite splitlines_render.
  - apply urilist_lines_safe; assumption.
  - rewrite Forall_map. eapply Forall_impl; [|exact Hs]. intros a H. apply H.
Qed.

(* ASCII lines decode to themselves *)
Lemma utf8_decode_ascii b :
  forallb (fun c => (0 <=? c) && (c <? 128)) b = true -> utf8_decode b = Some b.
Proof.
  induction b as [|c t IH]; [reflexivity|]. cbn [forallb]. rewrite andb_true_iff.
  intros [Hc Ht]. cbn [utf8_decode].
  assert (E : (c <? 128) = true) by (apply andb_true_iff in Hc; tauto).
  rewrite E, IH by exact Ht. reflexivity.
Qed.

(* ------------------------------------------------------------------ T2: PLS *)

Lemma assoc_app_skip {A} k (pre : list (str * A)) rest :
  Forall (fun kv => fst kv <> k) pre -> assoc k (pre ++ rest) = assoc k rest.
Proof.
  induction 1 as [|[k' v] t Hk Ht IH]; [reflexivity|]. cbn [app assoc].
  destruct (str_eqb k k') eqn:E; [apply str_eqb_eq in E; cbn in Hk; congruence|exact IH].
Qed.

Lemma pls_entries_items :
  forall files fuel p pre acc,
    Forall (fun f => strip_quotes f = f) files ->
    Forall (fun kv => forall q, (p <= q)%positive -> fst kv <> file_key q) pre ->
    (length files < fuel)%nat ->
    pls_entries true fuel [] (pre ++ pls_items p files) p (Z.of_nat (length files)) acc
    = Ok (rev acc ++ files).
Proof.
  induction files as [|f t IH]; intros fuel p pre acc Hq Hpre Hlen.
  - destruct fuel; cbn; rewrite app_nil_r; reflexivity.
  - destruct fuel as [|fuel]; [cbn in Hlen; lia|].
    inversion Hq as [|? ? Hf Ht]; subst.
    cbn [pls_entries length]. replace (Z.of_nat (S (length t)) <=? 0) with false by lia.
    unfold cp_get. cbn [pls_items].
    rewrite assoc_app_skip.
    2:{ eapply Forall_impl; [|exact Hpre]. intros kv H. apply H. lia. }
    cbn [assoc]. rewrite str_eqb_refl.
    replace (Z.of_nat (S (length t)) - 1) with (Z.of_nat (length t)) by lia.
    replace (pre ++ (file_key p, f) :: pls_items (Pos.succ p) t)
      with ((pre ++ [(file_key p, f)]) ++ pls_items (Pos.succ p) t)
      by (rewrite <- app_assoc; reflexivity).
    rewrite IH.
    + cbn [rev]. rewrite Hf, <- app_assoc. reflexivity.
    + exact Ht.
    + apply Forall_app. split.
      * eapply Forall_impl; [|exact Hpre]. intros kv H q Hq'. apply H. lia.
      * constructor; [|constructor]. cbn. intros q Hq' Heq. apply file_key_inj in Heq. lia.
    + cbn in Hlen. lia.
Qed.

Lemma pls_items_length files : forall p, length (pls_items p files) = length files.
Proof. induction files as [|f t IH]; intros p; cbn; [reflexivity|rewrite IH; reflexivity]. Qed.

Lemma numberofentries_not_file q : NUMBEROFENTRIES <> file_key q.
Proof. unfold file_key. intros H. vm_compute in H. discriminate H. Qed.

Theorem wellformed_pls_lemma :
  forall o data name count_text (files : list str),
    detect_extm3u data = false -> detect_pls data = true -> utf8_decode data <> None ->
    py_lower name = PLAYLIST ->
    o_ini o = pls_doc_named name count_text files ->
    o_int o count_text = Some (Some (Z.of_nat (length files))) ->
    Forall (fun f => strip_quotes f = f) files ->
    parse true o data = Ok (map Some files).
Proof.
  intros o data name ct files H1 H2 H3 Hname Hini Hint Hq. unfold parse. rewrite H1, H2.
  unfold parse_pls. destruct (utf8_decode data); [|congruence].
  rewrite Hini. unfold pls_doc_named. cbn [pls_sections pls_section].
  rewrite Hname, str_eqb_refl. cbn [negb]. unfold cp_get. cbn [assoc]. rewrite str_eqb_refl, Hint.
  change ((NUMBEROFENTRIES, ct) :: pls_items 1 files)
    with ([(NUMBEROFENTRIES, ct)] ++ pls_items 1 files).
  rewrite pls_entries_items.
  - cbn. rewrite app_nil_r. reflexivity.
  - exact Hq.
  - constructor; [|constructor]. cbn. intros q _. apply numberofentries_not_file.
  - unfold pls_fuel. cbn [length app]. rewrite pls_items_length. lia.
Qed.

(* ------------------------------------------------------------------ T2: XSPF / ASX *)

Lemma low_tracklist : str_eqb (py_lower (lit "{http://xspf.org/ns/0/}trackList")) XSPF_TRACKLIST = true.
Proof. reflexivity. Qed.
Lemma low_track : str_eqb (py_lower (lit "{http://xspf.org/ns/0/}track")) XSPF_TRACK = true.
Proof. reflexivity. Qed.
Lemma low_location : str_eqb (py_lower (lit "{http://xspf.org/ns/0/}location")) XSPF_LOCATION = true.
Proof. reflexivity. Qed.
Lemma low_entry : str_eqb (py_lower (lit "ENTRY")) ENTRY = true.
Proof. reflexivity. Qed.
Lemma low_ref : str_eqb (py_lower (lit "REF")) REF = true.
Proof. reflexivity. Qed.

Lemma tag_is_true tg name a t k :
  str_eqb (py_lower tg) name = true -> tag_is name (Elem tg a t k) = true.
Proof. intros H. exact H. Qed.

Lemma xspf_vals locs :
  map (findtext XSPF_LOCATION) (xspf_tracks (xspf_doc locs)) = map Some locs.
Proof.
  unfold xspf_tracks, xspf_doc, kids_named. cbn [xkids filter].
  rewrite (tag_is_true _ _ _ _ _ low_tracklist).
  cbn [flat_map xkids]. rewrite app_nil_r.
  induction locs as [|x t IH]; [reflexivity|]. cbn [map filter].
  rewrite (tag_is_true _ _ _ _ _ low_track).
  cbn [map]. rewrite IH.
  unfold findtext, kids_named. cbn [xkids filter].
  rewrite (tag_is_true _ _ _ _ _ low_location). reflexivity.
Qed.

Lemma xspf_tracks_doc fx locs :
  xspf_tree fx (xspf_doc locs) = map Some locs.
Proof.
  unfold xspf_tree. rewrite xspf_vals. destruct fx; [|reflexivity].
  induction locs as [|x t IH]; [reflexivity|]. cbn. rewrite IH. reflexivity.
Qed.

Lemma asx_tree_doc hrefs :
  Forall (fun h => strip h = h) hrefs -> asx_tree (asx_doc hrefs) = hrefs.
Proof.
  intros Hs. unfold asx_tree, asx_doc, kids_named. cbn [xkids].
  assert (H1 : forall l,
             filter (tag_is ENTRY)
                    (map (fun h => Elem (lit "ENTRY") [] None [Elem (lit "REF") [(HREF, h)] None []]) l)
             = map (fun h => Elem (lit "ENTRY") [] None [Elem (lit "REF") [(HREF, h)] None []]) l).
  { induction l as [|x t IH]; [reflexivity|]. cbn [map filter].
    rewrite (tag_is_true _ _ _ _ _ low_entry). rewrite IH. reflexivity. }
  rewrite H1.
  assert (H2 : forall l,
             filter has_href (map (fun h => Elem (lit "ENTRY") [] None [Elem (lit "REF") [(HREF, h)] None []]) l) = []).
  { induction l as [|x t IH]; [reflexivity|]. cbn [map filter]. rewrite IH. reflexivity. }
  rewrite H2. cbn [map]. rewrite app_nil_r.
  induction Hs as [|x t Hx Ht IH]; [reflexivity|].
  cbn [map flat_map xkids filter].
  rewrite (tag_is_true _ _ _ _ _ low_ref).
  cbn [filter]. unfold has_href at 1. cbn [xattrs assoc]. rewrite str_eqb_refl.
  cbn [app map]. rewrite IH. f_equal.
  unfold href_of. cbn [xattrs assoc]. rewrite str_eqb_refl. exact Hx.
Qed.

Theorem wellformed_xspf_lemma :
  forall fx o data locs,
    detect_extm3u data = false -> detect_pls data = false ->
    detect_asx fx o data = Ok false -> detect_xspf fx o data = Ok true ->
    o_xml o = XmlTree (xspf_doc locs) ->
    parse fx o data = Ok (map Some locs).
Proof.
  intros fx o data locs H1 H2 H3 H4 Hx. unfold parse. rewrite H1, H2, H3, H4.
  unfold parse_xspf, parse_xml. rewrite Hx, xspf_tracks_doc. reflexivity.
Qed.

Theorem wellformed_asx_lemma :
  forall fx o data hrefs,
    detect_extm3u data = false -> detect_pls data = false -> detect_asx fx o data = Ok true ->
    o_xml o = XmlTree (asx_doc hrefs) -> Forall (fun h => strip h = h) hrefs ->
    parse fx o data = Ok (map Some hrefs).
Proof.
  intros fx o data hrefs H1 H2 H3 Hx Hs. unfold parse. rewrite H1, H2, H3.
  unfold parse_asx, parse_xml. rewrite Hx, asx_tree_doc by exact Hs. reflexivity.
Qed.

(* ------------------------------------------------------------------ non-vacuity *)

Definition ex_o : oracles := o_plain HeadParseError XmlParseError IniError no_int.
(* "http://a/b" and "caf\xc3\xa9.mp3" *)
Definition ex_l1 : bytes := lit "http://a/b".
Definition ex_l2 : bytes := lit "caf" ++ [195; 169] ++ lit ".mp3".
Definition ex_s2 : str := lit "caf" ++ [233] ++ lit ".mp3".

Example ex_safe_lines : Forall safe_line [(ex_l1, ex_l1); (ex_l2, ex_s2)].
Proof. repeat constructor. Qed.

Example ex_m3u_runs :
  parse true ex_o (render_m3u [ex_l1; ex_l2]) = Ok [Some ex_l1; Some ex_s2].
Proof. vm_compute. reflexivity. Qed.

Example ex_urilist_hyps :
  Forall safe_line [(ex_l1, ex_l1)] /\ Forall (fun bs => check_uri_ok ex_o (snd bs) = true) [(ex_l1, ex_l1)]
  /\ no_header true ex_o (render_urilist [ex_l1]).
Proof. repeat split; repeat constructor. Qed.

Example ex_pls_hyps :
  let o := o_plain HeadParseError XmlParseError
                   (pls_doc_named (lit "Playlist") [50] [lit "http://a/1"; lit "b.mp3"])
                   (fun _ => Some (Some 2)) in
  let data := lit "[Playlist]" in
  detect_extm3u data = false /\ detect_pls data = true /\ utf8_decode data <> None
  /\ py_lower (lit "Playlist") = PLAYLIST
  /\ parse true o data = Ok [Some (lit "http://a/1"); Some (lit "b.mp3")].
Proof. vm_compute. repeat split; discriminate. Qed.

(* ------------------------------------------------------------------ T2 for printable ASCII *)

(* a line of printable ASCII (no space), not starting with '#': what a URI looks like *)
Definition printable (c : Z) : bool := (33 <=? c) && (c <=? 126).
Definition ascii_line (b : bytes) : Prop :=
  forallb printable b = true /\ match b with [] => False | c :: _ => c <> HASH end.

Lemma printable_not_space c : printable c = true -> py_isspace c = false.
Proof. unfold printable, py_isspace. lia. Qed.

Lemma lstrip_id l : Forall (fun c => py_isspace c = false) l -> lstrip l = l.
Proof. destruct 1 as [|c t Hc Ht]; [reflexivity|]. cbn. rewrite Hc. reflexivity. Qed.

Lemma strip_id l : Forall (fun c => py_isspace c = false) l -> strip l = l.
Proof.
  intros H. unfold strip, rstrip. rewrite (lstrip_id l H).
  rewrite lstrip_id by (apply Forall_rev; exact H). apply rev_involutive.
Qed.

Lemma ascii_line_safe b : ascii_line b -> safe_line (b, b).
Proof.
  intros [Hp Hh]. unfold safe_line. cbn [fst snd].
  assert (Hall : Forall (fun c => printable c = true) b) by (apply Forall_forall, forallb_forall; exact Hp).
  split; [|split; [|split; [|split]]].
  - unfold noeol. apply forallb_forall. intros c Hc.
    rewrite Forall_forall in Hall. specialize (Hall c Hc). unfold printable in Hall. lia.
  - destruct b as [|c t]; [contradiction|]. unfold b_blank. cbn [forallb].
    inversion Hall as [|? ? Hc _]; subst.
    unfold printable in Hc. unfold b_isspace. replace (((9 <=? c) && (c <=? 13)) || (c =? 32)) with false by lia.
    reflexivity.
  - destruct b as [|c t]; [contradiction|]. cbn [starts_with]. unfold HASH in *.
    replace (35 =? c) with false by lia. reflexivity.
  - apply utf8_decode_ascii. apply forallb_forall. intros c Hc.
    rewrite Forall_forall in Hall. specialize (Hall c Hc). unfold printable in Hall. lia.
  - apply strip_id. eapply Forall_impl; [|exact Hall]. intros c. apply printable_not_space.
Qed.

Lemma map_pair_fst {A} (l : list A) : map fst (map (fun b => (b, b)) l) = l.
Proof. induction l; cbn; [reflexivity|f_equal; auto]. Qed.
Lemma map_pair_snd {A} (l : list A) : map snd (map (fun b => (b, b)) l) = l.
Proof. induction l; cbn; [reflexivity|f_equal; auto]. Qed.

Theorem wellformed_m3u_ascii_lemma :
  forall fx o (ls : list bytes),
    Forall ascii_line ls -> parse fx o (render_m3u ls) = Ok (map Some ls).
Proof.
  intros fx o ls H.
  pose proof (wellformed_m3u_lemma fx o (map (fun b => (b, b)) ls)) as W.
  rewrite map_pair_fst, map_pair_snd in W. apply W.
  rewrite Forall_map. eapply Forall_impl; [|exact H]. intros b. apply ascii_line_safe.
Qed.

(* A URI list of printable-ASCII lines that begin with a letter is never mistaken for an
   extended M3U or a PLS; if expat finds no root element in the sniffed prefixes (it
   cannot: the text does not begin with '<') it is parsed as a URI list. *)
Lemma first_alpha_no_m3u_pls (b : bytes) rest :
  match b with c :: _ => ascii_alpha c = true | [] => False end ->
  detect_extm3u (b ++ rest) = false /\ detect_pls (b ++ rest) = false.
Proof.
  destruct b as [|c t]; [contradiction|]. intros Hc. unfold detect_extm3u, detect_pls.
  cbn [app firstn map].
  change (lit "#EXTM3U") with [35; 69; 88; 84; 77; 51; 85].
  change (lit "[playlist]") with [91; 112; 108; 97; 121; 108; 105; 115; 116; 93].
  unfold str_eqb. cbn [list_eqb]. unfold ascii_alpha in Hc. unfold ascii_upper, ascii_lower.
  split.
  - destruct ((97 <=? c) && (c <=? 122)) eqn:E; replace (_ =? 35) with false by lia; reflexivity.
  - destruct ((65 <=? c) && (c <=? 90)) eqn:E; replace (_ =? 91) with false by lia; reflexivity.
Qed.

Theorem wellformed_urilist_ascii_lemma :
  forall fx o (l : bytes) (ls : list bytes),
    Forall ascii_line (l :: ls) ->
    match l with c :: _ => ascii_alpha c = true | [] => False end ->
    Forall (fun b => check_uri_ok o b = true) (l :: ls) ->
    o_head50 o = HeadParseError -> o_head150 o = HeadParseError -> o_head o = HeadParseError ->
    parse fx o (render_urilist (l :: ls)) = Ok (map Some (l :: ls)).
Proof.
  intros fx o l ls H Hl Hc H50 H150 Hfull.
  pose proof (wellformed_urilist_lemma fx o (map (fun b => (b, b)) (l :: ls))) as W.
  rewrite map_pair_fst, map_pair_snd in W. apply W.
  - rewrite Forall_map. eapply Forall_impl; [|exact H]. intros b. apply ascii_line_safe.
  - rewrite Forall_map. exact Hc.
  - unfold no_header. cbn [render_urilist flat_map]. rewrite <- app_assoc.
    destruct (first_alpha_no_m3u_pls l (NLb ++ flat_map (fun l0 => l0 ++ NLb) ls) Hl) as [E1 E2].
    rewrite E1, E2. unfold detect_asx, detect_xspf, detect_xml. rewrite H50, H150, Hfull.
    repeat split; destruct fx; try reflexivity; destruct (negb _); reflexivity.
Qed.

(* ------------------------------------------------------------------ T2 without detector hypotheses *)

(* After the fix the detectors look at the root element itself, so for a document whose
   oracle outcomes are consistent (expat's first start event is the root of the tree it
   builds) nothing about windows, declarations, comments or encodings is assumed. *)
Theorem wellformed_xspf_full_lemma :
  forall o data locs,
    detect_extm3u data = false -> detect_pls data = false ->
    o_head o = HeadTag (xtag (xspf_doc locs)) -> o_xml o = XmlTree (xspf_doc locs) ->
    parse true o data = Ok (map Some locs).
Proof.
  intros o data locs H1 H2 Hh Hx. apply wellformed_xspf_lemma; auto.
  - unfold detect_asx, detect_xml. rewrite Hh. reflexivity.
  - unfold detect_xspf, detect_xml. rewrite Hh. reflexivity.
Qed.

Theorem wellformed_asx_full_lemma :
  forall o data hrefs,
    detect_extm3u data = false -> detect_pls data = false ->
    o_head o = HeadTag (xtag (asx_doc hrefs)) -> o_xml o = XmlTree (asx_doc hrefs) ->
    Forall (fun h => strip h = h) hrefs ->
    parse true o data = Ok (map Some hrefs).
Proof.
  intros o data hrefs H1 H2 Hh Hx Hs. apply wellformed_asx_lemma; auto.
  unfold detect_asx, detect_xml. rewrite Hh. reflexivity.
Qed.

(* The pinned prefix sniffing loses a well-formed ASX document that starts with an XML
   declaration (the root start tag is cut off by data[0:50], so expat reports a parse
   error for the prefix); the fixed code returns its entry. *)
Definition ASX_DECL_DOC : bytes :=
  lit "<?xml version='1.0' encoding='UTF-8'?><ASX version='3.0'><ENTRY><REF href='a'/></ENTRY></ASX>".
Definition o_asx_decl : oracles :=
  mkOracles HeadParseError (HeadTag (lit "ASX")) (HeadTag (lit "ASX")) (XmlTree (asx_doc [[97]]))
            IniError no_int (fun _ => false).

Lemma sniffing_pinned_refuted_lemma :
  o_head o_asx_decl = HeadTag (xtag (asx_doc [[97]])) /\ o_xml o_asx_decl = XmlTree (asx_doc [[97]])
  /\ detect_extm3u ASX_DECL_DOC = false /\ detect_pls ASX_DECL_DOC = false
  /\ parse false o_asx_decl ASX_DECL_DOC = Ok []
  /\ parse true o_asx_decl ASX_DECL_DOC = Ok [Some [97]].
Proof. vm_compute. repeat split; reflexivity. Qed.

(* ------------------------------------------------------------------ T2 over text (any Unicode) *)

Ltac Zify.zify_post_hook ::= Z.to_euclidean_division_equations.

Lemma decode_encode_cp c rest :
  scalar c = true -> utf8_decode (utf8_encode_cp c ++ rest) = option_map (cons c) (utf8_decode rest).
Proof.
  intros H. unfold scalar in H. unfold utf8_encode_cp.
  destruct (c <? 128) eqn:E1.
  - cbn [app utf8_decode]. rewrite E1. reflexivity.
  - destruct (c <? 2048) eqn:E2.
    + cbn [app utf8_decode].
      replace (192 + c / 64 <? 128) with false by lia.
      replace (192 + c / 64 <? 194) with false by lia.
      replace (192 + c / 64 <? 224) with true by lia.
      unfold cont. replace ((128 <=? 128 + c mod 64) && (128 + c mod 64 <=? 191)) with true by lia.
      replace ((192 + c / 64 - 192) * 64 + (128 + c mod 64 - 128)) with c by lia. reflexivity.
    + destruct (c <? 65536) eqn:E3.
      * cbn [app utf8_decode].
        replace (224 + c / 4096 <? 128) with false by lia.
        replace (224 + c / 4096 <? 194) with false by lia.
        replace (224 + c / 4096 <? 224) with false by lia.
        replace (224 + c / 4096 <? 240) with true by lia.
        unfold cont.
        replace ((128 <=? 128 + (c / 64) mod 64) && (128 + (c / 64) mod 64 <=? 191)) with true by lia.
        replace ((128 <=? 128 + c mod 64) && (128 + c mod 64 <=? 191)) with true by lia.
        replace (negb (224 + c / 4096 =? 224) || (160 <=? 128 + (c / 64) mod 64)) with true by lia.
        replace (negb (224 + c / 4096 =? 237) || (128 + (c / 64) mod 64 <=? 159)) with true by lia.
        cbn [andb].
        replace ((224 + c / 4096 - 224) * 4096 + (128 + (c / 64) mod 64 - 128) * 64 + (128 + c mod 64 - 128)) with c by lia.
        reflexivity.
      * cbn [app utf8_decode].
        replace (240 + c / 262144 <? 128) with false by lia.
        replace (240 + c / 262144 <? 194) with false by lia.
        replace (240 + c / 262144 <? 224) with false by lia.
        replace (240 + c / 262144 <? 240) with false by lia.
        replace (240 + c / 262144 <? 245) with true by lia.
        unfold cont.
        replace ((128 <=? 128 + (c / 4096) mod 64) && (128 + (c / 4096) mod 64 <=? 191)) with true by lia.
        replace ((128 <=? 128 + (c / 64) mod 64) && (128 + (c / 64) mod 64 <=? 191)) with true by lia.
        replace ((128 <=? 128 + c mod 64) && (128 + c mod 64 <=? 191)) with true by lia.
        replace (negb (240 + c / 262144 =? 240) || (144 <=? 128 + (c / 4096) mod 64)) with true by lia.
        replace (negb (240 + c / 262144 =? 244) || (128 + (c / 4096) mod 64 <=? 143)) with true by lia.
        cbn [andb].
        replace ((240 + c / 262144 - 240) * 262144 + (128 + (c / 4096) mod 64 - 128) * 4096
                 + (128 + (c / 64) mod 64 - 128) * 64 + (128 + c mod 64 - 128)) with c by lia.
        reflexivity.
Qed.

Lemma decode_encode s : forallb scalar s = true -> utf8_decode (utf8_encode s) = Some s.
Proof.
  induction s as [|c t IH]; [reflexivity|]. cbn [forallb]. rewrite andb_true_iff. intros [Hc Ht].
  cbn [utf8_encode flat_map]. rewrite decode_encode_cp by exact Hc.
  fold (utf8_encode t). rewrite IH by exact Ht. reflexivity.
Qed.

(* every byte of the encoding of c is c itself (c < 128) or >= 128 *)
Lemma encode_cp_bytes c b :
  scalar c = true -> In b (utf8_encode_cp c) -> (c < 128 /\ b = c) \/ 128 <= b.
Proof.
  intros H Hin. unfold scalar in H. unfold utf8_encode_cp in Hin.
  destruct (c <? 128) eqn:E1; [destruct Hin as [<-|[]]; left; lia|].
  destruct (c <? 2048) eqn:E2; [right; destruct Hin as [<-|[<-|[]]]; lia|].
  destruct (c <? 65536) eqn:E3; right.
  - destruct Hin as [<-|[<-|[<-|[]]]]; lia.
  - destruct Hin as [<-|[<-|[<-|[<-|[]]]]]; lia.
Qed.

Lemma encode_cp_head c :
  scalar c = true -> exists b rest, utf8_encode_cp c = b :: rest /\ ((c < 128 /\ b = c) \/ 192 <= b).
Proof.
  intros H. unfold scalar in H. unfold utf8_encode_cp.
  destruct (c <? 128) eqn:E1; [eexists _, _; split; [reflexivity|left; lia]|].
  destruct (c <? 2048) eqn:E2; [eexists _, _; split; [reflexivity|right; lia]|].
  destruct (c <? 65536) eqn:E3; eexists _, _; (split; [reflexivity|right; lia]).
Qed.

Lemma lstrip_length l : (length (lstrip l) <= length l)%nat.
Proof. induction l as [|c t IH]; cbn; [lia|]. destruct (py_isspace c); cbn; lia. Qed.

Lemma strip_length l : (length (strip l) <= length (lstrip l))%nat.
Proof.
  unfold strip, rstrip. rewrite rev_length.
  pose proof (lstrip_length (rev (lstrip l))). rewrite rev_length in H. exact H.
Qed.

Lemma strip_fix_head c t : strip (c :: t) = c :: t -> py_isspace c = false.
Proof.
  intros H. destruct (py_isspace c) eqn:E; [|reflexivity]. exfalso.
  pose proof (strip_length (c :: t)) as H1. rewrite H in H1. cbn [lstrip] in H1. rewrite E in H1.
  pose proof (lstrip_length t). cbn [length] in H1. lia.
Qed.

(* a line of text of a well-formed M3U / URI list: Unicode scalar values, no line break,
   not empty, no surrounding whitespace, not a comment *)
Definition text_line (s : str) : Prop :=
  forallb scalar s = true
  /\ forallb (fun c => negb ((c =? 10) || (c =? 13))) s = true
  /\ strip s = s
  /\ match s with c :: _ => c <> HASH | [] => False end.

Lemma text_line_safe s : text_line s -> safe_line (utf8_encode s, s).
Proof.
  intros (Hsc & Hnl & Hst & Hh). unfold safe_line. cbn [fst snd].
  split; [|split; [|split; [|split]]].
  - unfold noeol. apply forallb_forall. intros b Hb. unfold utf8_encode in Hb.
    apply in_flat_map in Hb. destruct Hb as (c & Hc & Hb).
    rewrite forallb_forall in Hsc, Hnl. specialize (Hsc c Hc). specialize (Hnl c Hc).
    destruct (encode_cp_bytes c b Hsc Hb) as [[_ ->]|Hge]; [exact Hnl|]. clear - Hge. lia.
  - destruct s as [|c t]; [contradiction|].
    apply strip_fix_head in Hst. cbn [forallb] in Hsc. apply andb_true_iff in Hsc. destruct Hsc as [Hc _].
    destruct (encode_cp_head c Hc) as (b & rest & E & Hb).
    cbn [utf8_encode flat_map]. rewrite E. cbn [app]. unfold b_blank. cbn [forallb].
    replace (b_isspace b) with false; [reflexivity|].
    unfold b_isspace. unfold py_isspace in Hst. clear - Hb Hst.
    destruct Hb as [[Hlt ->]|Hge]; lia.
  - destruct s as [|c t]; [contradiction|].
    cbn [forallb] in Hsc. apply andb_true_iff in Hsc. destruct Hsc as [Hc _].
    destruct (encode_cp_head c Hc) as (b & rest & E & Hb).
    cbn [utf8_encode flat_map]. rewrite E. cbn [app starts_with].
    replace (HASH =? b) with false; [reflexivity|]. unfold HASH in *. clear - Hb Hh.
    destruct Hb as [[Hlt ->]|Hge]; lia.
  - apply decode_encode. exact Hsc.
  - exact Hst.
Qed.

Lemma map_enc_fst (l : list str) : map fst (map (fun s => (utf8_encode s, s)) l) = map utf8_encode l.
Proof. induction l; cbn; [reflexivity|f_equal; auto]. Qed.
Lemma map_enc_snd (l : list str) : map snd (map (fun s => (utf8_encode s, s)) l) = l.
Proof. induction l; cbn; [reflexivity|f_equal; auto]. Qed.

Theorem wellformed_m3u_text_lemma :
  forall fx o (ls : list str),
    Forall text_line ls -> parse fx o (render_m3u (map utf8_encode ls)) = Ok (map Some ls).
Proof.
  intros fx o ls H.
  pose proof (wellformed_m3u_lemma fx o (map (fun s => (utf8_encode s, s)) ls)) as W.
  rewrite map_enc_fst, map_enc_snd in W. apply W.
  rewrite Forall_map. eapply Forall_impl; [|exact H]. intros s. apply text_line_safe.
Qed.

Theorem wellformed_urilist_text_lemma :
  forall fx o (ls : list str),
    Forall text_line ls -> Forall (fun s => check_uri_ok o s = true) ls ->
    no_header fx o (render_urilist (map utf8_encode ls)) ->
    parse fx o (render_urilist (map utf8_encode ls)) = Ok (map Some ls).
Proof.
  intros fx o ls H Hc Hn.
  pose proof (wellformed_urilist_lemma fx o (map (fun s => (utf8_encode s, s)) ls)) as W.
  rewrite map_enc_fst, map_enc_snd in W. apply W; [| |exact Hn].
  - rewrite Forall_map. eapply Forall_impl; [|exact H]. intros s. apply text_line_safe.
  - rewrite Forall_map. exact Hc.
Qed.

(* non-vacuity: a line with 2-, 3- and 4-byte characters *)
Example text_line_example :
  text_line ([99; 233; 8364; 127925; 46; 109] : str)
  /\ utf8_encode [233; 8364; 127925] = [195; 169; 226; 130; 172; 240; 159; 142; 181].
Proof. split; [repeat split; discriminate|reflexivity]. Qed.

(* ------------------------------------------------------------------ T2: legacy (non UTF-8) extended M3U *)

(* A line of an extended M3U that is not an entry: blank, a comment (whatever bytes it
   carries, e.g. a Latin-1 #EXTINF title) or an entry that is not valid UTF-8.  parse
   leaves it out and goes on with the next line: the document need not be UTF-8 as a whole. *)
Inductive mline : Type :=
| MEntry (b : bytes) (s : str)
| MIgnored (b : bytes).
Definition mline_bytes (l : mline) : bytes := match l with MEntry b _ => b | MIgnored b => b end.
Definition mline_ok (l : mline) : Prop :=
  match l with
  | MEntry b s => safe_line (b, s)
  | MIgnored b => noeol b /\ (b_blank b = true \/ starts_with [HASH] b = true \/ utf8_decode b = None)
  end.
Fixpoint mline_entries (ls : list mline) : list str :=
  match ls with
  | [] => []
  | MEntry _ s :: t => s :: mline_entries t
  | MIgnored _ :: t => mline_entries t
  end.

Lemma extm3u_lines_mixed ls :
  Forall mline_ok ls -> extm3u_lines true (map mline_bytes ls) = mline_entries ls.
Proof.
  induction 1 as [|l t Hl Ht IH]; [reflexivity|].
  destruct l as [b s|b]; cbn [map mline_bytes extm3u_lines mline_entries orb].
  - destruct Hl as (Hn & Hb & Hh & Hd & Hs). cbn [fst snd] in *. rewrite Hb, Hh. cbn [orb].
    rewrite Hd, Hs, IH. reflexivity.
  - destruct Hl as (Hn & [Hb|[Hh|Hd]]).
    + rewrite Hb. cbn [orb]. exact IH.
    + rewrite Hh, orb_true_r. exact IH.
    + destruct (b_blank b || starts_with [HASH] b); [exact IH|]. rewrite Hd. exact IH.
Qed.

Theorem wellformed_m3u_mixed_lemma :
  forall fx o (ls : list mline),
    Forall mline_ok ls ->
    parse fx o (render_m3u (map mline_bytes ls)) = Ok (map Some (mline_entries ls)).
Proof.
  intros fx o ls Hs. unfold parse.
  assert (Hd : detect_extm3u (render_m3u (map mline_bytes ls)) = true).
  { unfold detect_extm3u, render_m3u. rewrite EXTM3U_eq. cbn [app firstn]. reflexivity. }
  rewrite Hd. f_equal. f_equal.
  unfold parse_extm3u, splitlines, render_m3u. unfold NLb at 1. cbn [app].
  rewrite splitlines_aux_line by reflexivity. cbn [rev app].
  rewrite splitlines_render.
  - cbn [extm3u_lines orb].
    replace (starts_with EXTM3U EXTM3U) with true by reflexivity.
    replace (b_blank EXTM3U || starts_with [HASH] EXTM3U) with true by reflexivity.
    apply extm3u_lines_mixed. exact Hs.
  - rewrite Forall_map. eapply Forall_impl; [|exact Hs]. intros l H.
    destruct l; cbn [mline_bytes]; [apply H|apply H].
Qed.

(* non-vacuity: a Latin-1 #EXTINF title and a Latin-1 entry between two ASCII entries *)
Example mixed_example :
  let ls := [MIgnored (lit "#EXTINF:-1,Caf" ++ [233]); MEntry (lit "http://a/1") (lit "http://a/1");
             MIgnored (lit "http://a/caf" ++ [233; 46]); MEntry (lit "http://a/3") (lit "http://a/3")] in
  Forall mline_ok ls
  /\ utf8_decode (render_m3u (map mline_bytes ls)) = None
  /\ parse true ex_o (render_m3u (map mline_bytes ls)) = Ok [Some (lit "http://a/1"); Some (lit "http://a/3")].
Proof.
  cbv zeta. split; [|split; vm_compute; reflexivity].
  constructor; [split; [reflexivity|right; left; reflexivity]|].
  constructor; [repeat split; reflexivity|].
  constructor; [split; [reflexivity|right; right; reflexivity]|].
  constructor; [repeat split; reflexivity|constructor].
Qed.
