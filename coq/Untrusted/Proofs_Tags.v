(* Proofs about the convert_tags_to_track model (Tags.v): totality on typed tag sets,
   validity of every field that is set, omission of unrepresentable values. *)
From Coq Require Import ZArith List Bool Lia.
From Common Require Import Res Str.
From Untrusted Require Import Base Tags.
Import ListNotations.
Open Scope Z_scope.

Lemma key_eqb_eq a b : key_eqb a b = true -> a = b.
Proof. destruct a, b; try reflexivity; intro H; discriminate H. Qed.

Lemma tget_typed t k l :
  typed_b t = true -> tget t k = Some l ->
  is_nil l = false /\ forallb (value_typed k) l = true.
Proof.
  induction t as [|[k' l'] rest IH]; cbn; [discriminate|].
  rewrite !andb_true_iff, negb_true_iff. intros [[Hn Hf] Hr].
  destruct (key_eqb k k') eqn:Hk.
  - intros E. injection E as <-. apply key_eqb_eq in Hk. subst k'. auto.
  - intros E. apply IH; auto.
Qed.

Lemma all_strs_typed k l :
  numeric_key k = false -> forallb (value_typed k) l = true -> exists ss, all_strs l = Some ss.
Proof.
  intros Hk. induction l as [|v t IH]; cbn; [eauto|].
  rewrite andb_true_iff. intros [Hv Ht]. destruct (IH Ht) as [ss E].
  destruct v as [s|z]; cbn in Hv.
  - rewrite E. cbn. eauto.
  - rewrite Hk in Hv. discriminate.
Qed.

Lemma join_tag_ok t k :
  typed_b t = true -> numeric_key k = false -> exists s, join_tag t k = Ok s.
Proof.
  intros Ht Hk. unfold join_tag. destruct (tget t k) as [l|] eqn:E; [|eauto].
  destruct (tget_typed _ _ _ Ht E) as [_ Hf].
  destruct (all_strs_typed _ _ Hk Hf) as [ss Es]. rewrite Es. eauto.
Qed.

Definition typed_opt (k : tagkey) (v : option value) : Prop :=
  match v with None => True | Some x => value_typed k x = true end.

Lemma first_of_ok t k :
  typed_b t = true -> exists v, first_of t k = Ok v /\ typed_opt k v.
Proof.
  intros Ht. unfold first_of. destruct (tget t k) as [l|] eqn:E; [|exists None; cbn; auto].
  destruct (tget_typed _ _ _ Ht E) as [Hn Hf].
  destruct l as [|v r]; [discriminate|]. cbn in Hf. apply andb_true_iff in Hf.
  exists (Some v). cbn. tauto.
Qed.

Section Fx.
  Variable uuid : str -> option str.

  Lemma v_int_ok v : exists r, v_int true v = Ok r /\ opt_P (fun z => 0 <= z) r.
  Proof.
    destruct v as [[s|z]|]; cbn; try (exists None; cbn; auto; fail).
    destruct (0 <=? z) eqn:E; [exists (Some z); cbn; split; [reflexivity|lia]|exists None; cbn; auto].
  Qed.

  Lemma v_str_ok v : exists r, v_str true v = Ok r.
  Proof. destruct v as [[s|z]|]; cbn; eauto. Qed.

  Lemma v_uuid_ok v : exists r, v_uuid true uuid v = Ok r /\ opt_P (uuid_image uuid) r.
  Proof.
    destruct v as [[s|z]|]; cbn; try (exists None; cbn; auto; fail).
    destruct (uuid s) as [c|] eqn:E; [|exists None; cbn; auto].
    exists (Some c). cbn. split; [reflexivity|exists s; exact E].
  Qed.

  Lemma v_date_ok v : exists r, v_date true v = Ok r /\ opt_P (fun s => date_ok s = true) r.
  Proof.
    destruct v as [[s|z]|]; cbn; try (exists None; cbn; auto; fail).
    destruct (date_ok s) eqn:E; [exists (Some s); cbn; auto|exists None; cbn; auto].
  Qed.

  Lemma make_artist_ok n m s :
    exists a, make_artist true uuid n m s = Ok a /\ artist_valid uuid a.
  Proof.
    unfold make_artist.
    destruct (v_str_ok n) as [rn En]. rewrite En. cbn [rbind].
    destruct (v_uuid_ok m) as (rm & Em & Vm). rewrite Em. cbn [rbind].
    destruct (v_str_ok s) as [rs Es]. rewrite Es. cbn [rbind].
    eexists. split; [reflexivity|]. exact Vm.
  Qed.

  Lemma make_artists_ok names :
    exists l, make_artists true uuid names = Ok l /\ Forall (artist_valid uuid) l.
  Proof.
    induction names as [|n t (l & El & Vl)]; cbn [make_artists]; [exists []; auto|].
    destruct (make_artist_ok (Some n) None None) as (a & Ea & Va). rewrite Ea. cbn [rbind].
    rewrite El. cbn [rbind]. eexists. split; [reflexivity|]. constructor; auto.
  Qed.

  Lemma first_present_ok t k :
    typed_b t = true -> exists v, first_present t k = Ok v.
  Proof.
    intros Ht. destruct k as [k|]; cbn; [|eauto].
    destruct (tget t k) as [l|] eqn:E; [|eauto].
    destruct (tget_typed _ _ _ Ht E) as [Hn _]. destruct l; [discriminate|eauto].
  Qed.

  Lemma artists_of_ok t name id sortname :
    typed_b t = true ->
    exists l, artists_of true uuid t name id sortname = Ok l /\ Forall (artist_valid uuid) l.
  Proof.
    intros Ht. unfold artists_of. destruct (tget t name) as [[|n0 names]|]; try (exists []; auto; fail).
    destruct (Nat.eqb (length (n0 :: names)) 1 && (opt_in t id || opt_in t sortname)).
    - destruct (first_present_ok t id Ht) as [m Em]. rewrite Em. cbn [rbind].
      destruct (first_present_ok t sortname Ht) as [s Es]. rewrite Es. cbn [rbind].
      destruct (make_artist_ok (hd_error (n0 :: names)) m s) as (a & Ea & Va). rewrite Ea.
      cbn [rbind]. eexists. split; [reflexivity|]. constructor; auto.
    - apply make_artists_ok.
  Qed.

  Lemma date_step_ok t date0 :
    typed_b t = true ->
    exists d,
      (match keep_truthy date0 with
       | Some _ => Ok date0
       | None =>
           rbind (first_of t KDateTime)
                 (fun dt => match dt with
                            | None => Ok date0
                            | Some (VStr s) => Ok (Some (VStr (before_T s)))
                            | Some (VInt _) => Raise AttributeError
                            end)
       end) = (Ok d : res exn (option value)).
  Proof.
    intros Ht. destruct (keep_truthy date0); [eauto|].
    destruct (first_of_ok t KDateTime Ht) as (dt & E & Hty). rewrite E. cbn [rbind].
    destruct dt as [[s|z]|]; eauto. cbn in Hty. discriminate.
  Qed.

  Lemma if_join_ok t k (s : str) :
    typed_b t = true -> numeric_key k = false ->
    exists r, (if is_nil s then join_tag t k else Ok s) = Ok r.
  Proof. intros Ht Hk. destruct (is_nil s); [apply join_tag_ok; auto|eauto]. Qed.

  Ltac step H :=
    let x := fresh "x" in let E := fresh "E" in
    destruct H as (x & E); rewrite E; cbn [rbind]; clear E.

  (* T4 *)
  Theorem tags_total_lemma :
    forall t, typed_b t = true ->
      exists tr, convert true uuid t = Ok tr /\ track_valid uuid tr.
  Proof.
    intros t Ht. unfold convert.
    destruct (artists_of_ok t KComposer None None Ht) as (composers & E1 & V1).
    rewrite E1; cbn [rbind]; clear E1.
    destruct (artists_of_ok t KPerformer None None Ht) as (performers & E2 & V2).
    rewrite E2; cbn [rbind]; clear E2.
    destruct (artists_of_ok t KArtist (Some KMbArtistId) (Some KMbSortname) Ht) as (artists & E3 & V3).
    rewrite E3; cbn [rbind]; clear E3.
    destruct (artists_of_ok t KAlbumArtist (Some KMbAlbumArtistId) None Ht) as (aartists & E4 & V4).
    rewrite E4; cbn [rbind]; clear E4.
    step (join_tag_ok t KGenre Ht eq_refl).
    step (join_tag_ok t KTitle Ht eq_refl).
    step (if_join_ok t KOrganization x0 Ht eq_refl).
    step (join_tag_ok t KComment Ht eq_refl).
    step (if_join_ok t KLocation x2 Ht eq_refl).
    step (if_join_ok t KCopyright x3 Ht eq_refl).
    destruct (first_of_ok t KTrackNumber Ht) as (track_no & E5 & _). rewrite E5; cbn [rbind]; clear E5.
    destruct (first_of_ok t KDiscNumber Ht) as (disc_no & E6 & _). rewrite E6; cbn [rbind]; clear E6.
    destruct (first_of_ok t KBitrate Ht) as (bitrate & E7 & _). rewrite E7; cbn [rbind]; clear E7.
    destruct (first_of_ok t KMbTrackId Ht) as (mbid & E8 & _). rewrite E8; cbn [rbind]; clear E8.
    destruct (first_of_ok t KAlbum Ht) as (album_name & E9 & _). rewrite E9; cbn [rbind]; clear E9.
    destruct (first_of_ok t KTrackCount Ht) as (num_tracks & E10 & _). rewrite E10; cbn [rbind]; clear E10.
    destruct (first_of_ok t KDiscCount Ht) as (num_discs & E11 & _). rewrite E11; cbn [rbind]; clear E11.
    destruct (first_of_ok t KMbAlbumId Ht) as (album_mbid & E12 & _). rewrite E12; cbn [rbind]; clear E12.
    destruct (first_of_ok t KDate Ht) as (date0 & E13 & _). rewrite E13; cbn [rbind]; clear E13.
    destruct (date_step_ok t date0 Ht) as (date & E14). rewrite E14; cbn [rbind]; clear E14.
    (* album *)
    assert (Halb : exists alb,
               (match keep_truthy album_name with
                | None => Ok None
                | Some _ =>
                    rbind (v_str true (keep_truthy album_name)) (fun n =>
                    rbind (v_int true (keep_truthy num_tracks)) (fun nt =>
                    rbind (v_int true (keep_truthy num_discs)) (fun nd =>
                    rbind (v_date true (keep_truthy date)) (fun d =>
                    rbind (v_uuid true uuid (keep_truthy album_mbid)) (fun m =>
                    Ok (Some (mkAlbum n aartists nt nd d m)))))))
                end) = (Ok alb : res exn (option album)) /\ opt_P (album_valid uuid) alb).
    { destruct (keep_truthy album_name); [|exists None; cbn; auto].
      destruct (v_str_ok (keep_truthy (Some v))) as [n En].
      destruct (v_str_ok (Some v)) as [n' En']. rewrite En'. cbn [rbind].
      destruct (v_int_ok (keep_truthy num_tracks)) as (nt & Ent & Vnt). rewrite Ent. cbn [rbind].
      destruct (v_int_ok (keep_truthy num_discs)) as (nd & End' & Vnd). rewrite End'. cbn [rbind].
      destruct (v_date_ok (keep_truthy date)) as (d & Ed & Vd). rewrite Ed. cbn [rbind].
      destruct (v_uuid_ok (keep_truthy album_mbid)) as (m & Em & Vm). rewrite Em. cbn [rbind].
      eexists. split; [reflexivity|]. cbn. repeat split; auto. }
    destruct Halb as (alb & Ealb & Valb).
    match goal with |- context [rbind ?a _] =>
      match a with context [mkAlbum] => replace a with (Ok alb : res exn (option album)) end end.
    cbn [rbind].
    destruct (v_int_ok (keep_truthy track_no)) as (tn & Etn & Vtn). rewrite Etn. cbn [rbind].
    destruct (v_int_ok (keep_truthy disc_no)) as (dn & Edn & Vdn). rewrite Edn. cbn [rbind].
    destruct (v_int_ok (keep_truthy bitrate)) as (br & Ebr & Vbr). rewrite Ebr. cbn [rbind].
    destruct (v_uuid_ok (keep_truthy mbid)) as (m & Em & Vm). rewrite Em. cbn [rbind].
    destruct (v_date_ok (keep_truthy date)) as (d & Ed & Vd). rewrite Ed. cbn [rbind].
    destruct (v_str_ok (nonempty x1)) as [n En]. rewrite En. cbn [rbind].
    destruct (v_str_ok (nonempty x)) as [g Eg]. rewrite Eg. cbn [rbind].
    destruct (v_str_ok (nonempty x4)) as [c Ec]. rewrite Ec. cbn [rbind].
    eexists. split; [reflexivity|]. cbn. repeat split; auto.
  Qed.
End Fx.

(* ------------------------------------------------------------------ omission *)

Ltac inv_binds H :=
  repeat (match type of H with
          | rbind ?a _ = Ok _ =>
              let E := fresh "E" in
              destruct a eqn:E; cbn [rbind] in H; [|discriminate H|discriminate H]
          end).

(* Each scalar field of the result is exactly the validator's verdict on the first value
   of its tag: a value pydantic would reject (negative number, malformed id, date not
   matching the pattern) is left out, a representable one is kept. *)
Theorem tags_fields_from_tags_lemma :
  forall fx uuid t tr,
    convert fx uuid t = Ok tr ->
    (exists v, first_of t KTrackNumber = Ok v /\ v_int fx (keep_truthy v) = Ok (tr_track_no tr))
    /\ (exists v, first_of t KDiscNumber = Ok v /\ v_int fx (keep_truthy v) = Ok (tr_disc_no tr))
    /\ (exists v, first_of t KBitrate = Ok v /\ v_int fx (keep_truthy v) = Ok (tr_bitrate tr))
    /\ (exists v, first_of t KMbTrackId = Ok v /\ v_uuid fx uuid (keep_truthy v) = Ok (tr_mbid tr)).
Proof.
  intros fx uuid t tr H. unfold convert in H. inv_binds H.
  injection H as <-. cbn. repeat split; eauto.
Qed.

Lemma v_int_negative fx z : z < 0 -> v_int fx (keep_truthy (Some (VInt z))) = @rejected fx Z.
Proof.
  intros Hz. unfold keep_truthy, truthy. destruct (z =? 0) eqn:E; [lia|]. cbn.
  destruct (0 <=? z) eqn:E2; [lia|reflexivity].
Qed.

(* a negative track number is omitted by the fixed code *)
Corollary tags_negative_omitted_lemma :
  forall uuid t tr z rest,
    convert true uuid t = Ok tr -> tget t KTrackNumber = Some (VInt z :: rest) -> z < 0 ->
    tr_track_no tr = None.
Proof.
  intros uuid t tr z rest H Hg Hz.
  destruct (tags_fields_from_tags_lemma _ _ _ _ H) as ((v & Ev & Hv) & _).
  unfold first_of in Ev. rewrite Hg in Ev. injection Ev as <-.
  rewrite v_int_negative in Hv by exact Hz. cbn in Hv. congruence.
Qed.

(* ------------------------------------------------------------------ pinned code *)

Definition no_uuid (_ : str) : option str := None.
(* datetime = "2014-01" (month precision) *)
Definition ex_month : tags := [(KDateTime, [VStr [50; 48; 49; 52; 45; 48; 49]])].
Definition ex_negative : tags := [(KTrackNumber, [VInt (-1)])].
Definition ex_bad_mbid : tags := [(KMbTrackId, [VStr [120]])].

Lemma tags_pinned_refuted_lemma :
  (typed_b ex_month = true /\ convert false no_uuid ex_month = Raise ValidationError)
  /\ (typed_b ex_negative = true /\ convert false no_uuid ex_negative = Raise ValidationError)
  /\ (typed_b ex_bad_mbid = true /\ convert false no_uuid ex_bad_mbid = Raise ValidationError).
Proof. vm_compute. repeat split; reflexivity. Qed.

(* the same tag sets through the fixed code: a track without the offending field *)
Example tags_fixed_examples :
  (exists tr, convert true no_uuid ex_month = Ok tr /\ tr_date tr = None)
  /\ (exists tr, convert true no_uuid ex_negative = Ok tr /\ tr_track_no tr = None)
  /\ (exists tr, convert true no_uuid ex_bad_mbid = Ok tr /\ tr_mbid tr = None).
Proof. vm_compute. repeat split; eexists; split; reflexivity. Qed.

(* typing is needed: an int among the titles, or an empty value list, still raises *)
Example tags_untyped_raise :
  convert true no_uuid [(KTitle, [VInt 5])] = Raise TypeError
  /\ convert true no_uuid [(KTrackNumber, [])] = Raise IndexError.
Proof. vm_compute. split; reflexivity. Qed.

(* non-vacuity of tags_total: a typed, non-trivial tag set with an album, artists,
   a valid and an invalid id, year-only date *)
Definition ex_uuid (s : str) : option str := if str_eqb s [103] then Some [71] else None.
Definition ex_tags : tags :=
  [(KTitle, [VStr [97]; VStr [98]]); (KArtist, [VStr [120]]); (KMbArtistId, [VStr [103]]);
   (KAlbum, [VStr [65]]); (KMbAlbumId, [VStr [122]]); (KTrackNumber, [VInt 3]);
   (KTrackCount, [VInt (-2)]); (KDate, [VStr [50; 48; 49; 52]])].
Example tags_total_nonvacuous :
  typed_b ex_tags = true
  /\ exists tr, convert true ex_uuid ex_tags = Ok tr
                /\ tr_name tr = Some [97; 59; 32; 98] /\ tr_track_no tr = Some 3
                /\ tr_date tr = Some [50; 48; 49; 52]
                /\ tr_artists tr = [mkArtist (Some [120]) None (Some [71])]
                /\ exists a, tr_album tr = Some a /\ al_num_tracks a = None /\ al_mbid a = None
                             /\ al_name a = Some [65].
Proof. vm_compute. split; [reflexivity|]. eexists. repeat split. eexists. repeat split. Qed.

(* ------------------------------------------------------------------ convert_taglist *)

Lemma conv_value_typed k g :
  gvalue_typed k g = true -> forallb (value_typed k) (conv_value g) = true.
Proof.
  destruct g; cbn [gvalue_typed conv_value]; intros H; try reflexivity.
  - cbn. apply andb_true_iff in H. destruct H as [H _]. apply andb_true_iff in H.
    destruct H as [H _]. rewrite H. reflexivity.
  - cbn. rewrite H. reflexivity.
  - destruct (valid_date y m d); [|reflexivity]. cbn.
    apply key_eqb_eq in H. subst k. reflexivity.
  - cbn. apply key_eqb_eq in H. subst k. reflexivity.
  - cbn. apply andb_true_iff in H. destruct H as [H _]. apply andb_true_iff in H.
    destruct H as [H _]. rewrite H. reflexivity.
Qed.

Lemma flat_conv_typed k vs :
  forallb (gvalue_typed k) vs = true -> forallb (value_typed k) (flat_map conv_value vs) = true.
Proof.
  induction vs as [|g t IH]; cbn; [reflexivity|]. rewrite andb_true_iff. intros [Hg Ht].
  rewrite forallb_app, (conv_value_typed k g Hg), (IH Ht). reflexivity.
Qed.

Lemma typed_b_cons k l t :
  typed_b ((k, l) :: t) = negb (is_nil l) && forallb (value_typed k) l && typed_b t.
Proof. reflexivity. Qed.

(* what convert_taglist produces for GStreamer-typed input is typed in the sense of
   tags_total: non-empty value lists of the right type *)
Lemma convert_taglist_typed raw : gst_typed_b raw = true -> typed_b (convert_taglist raw) = true.
Proof.
  induction raw as [|[k vs] rest IH]; cbn [gst_typed_b forallb fst snd convert_taglist]; [reflexivity|].
  rewrite andb_true_iff. intros [Hk Hr].
  pose proof (flat_conv_typed k vs Hk) as Hv.
  destruct (flat_map conv_value vs) as [|v0 vals] eqn:E; [apply IH; exact Hr|].
  rewrite typed_b_cons, Hv. cbn [is_nil negb andb]. apply IH. exact Hr.
Qed.

(* the whole path scanner taglist -> dict -> Track: never raises, every field valid *)
Theorem taglist_to_track_total_lemma :
  forall (uuid : str -> option str) (raw : list (tagkey * list gvalue)),
    gst_typed_b raw = true ->
    exists tr, convert true uuid (convert_taglist raw) = Ok tr /\ track_valid uuid tr.
Proof.
  intros uuid raw H. apply tags_total_lemma. apply convert_taglist_typed. exact H.
Qed.

(* a GLib.Date that datetime.date accepts always yields a representable date: it is never
   among the values left out *)
Lemma digit_ok n : 0 <= n <= 9 -> is_digit (48 + n) = true.
Proof. intros H. unfold is_digit. lia. Qed.

Lemma mod10_digit x : 0 <= x mod 10 <= 9.
Proof. pose proof (Z.mod_pos_bound x 10). lia. Qed.

Theorem iso_date_ok_lemma :
  forall y m d, valid_date y m d = true -> date_ok (iso_date y m d) = true.
Proof.
  intros y m d H. unfold valid_date in H.
  assert (Hy : 1 <= y <= 9999) by lia. assert (Hm : 1 <= m <= 12) by lia.
  assert (Hd : 1 <= d <= 31).
  { unfold days_in_month in H. destruct (m =? 2); [destruct (leap y)|destruct ((m =? 4) || (m =? 6) || (m =? 9) || (m =? 11))]; lia. }
  clear H. unfold iso_date, pad4, pad2, date_ok, DASH. cbn [app].
  rewrite !digit_ok; [reflexivity| | | | | | | |]; clear - Hy Hm Hd.
  all: try apply mod10_digit.
  all: split; [apply Z.div_pos; lia|apply Z.lt_succ_r; apply Z.div_lt_upper_bound; lia].
Qed.

Example taglist_example :
  convert_taglist [(KDate, [GDate 2014 2 30; GDate 2016 2 29]); (KTitle, [GDropped]);
                   (KTrackNumber, [GUInt 7]); (KDateTime, [GDateTime [50; 48; 49; 52]])]
  = [(KDate, [VStr (iso_date 2016 2 29)]); (KTrackNumber, [VInt 7]); (KDateTime, [VStr [50; 48; 49; 52]])]
  /\ iso_date 2016 2 29 = [50; 48; 49; 54; 45; 48; 50; 45; 50; 57].
Proof. vm_compute. split; reflexivity. Qed.
