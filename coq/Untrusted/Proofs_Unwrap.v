(* Proofs about the _unwrap_stream model (Unwrap.v): enough fuel, fetch-once, cycles
   give no stream, every fetch is covered by a fresh deadline check. *)
From Coq Require Import ZArith List Bool Lia ZifyBool.
From Common Require Import Res Str.
From Untrusted Require Import Base Download Unwrap.
Import ListNotations.
Open Scope Z_scope.

Lemma mem_str_In x l : mem_str x l = true <-> In x l.
Proof.
  induction l as [|y t IH]; cbn; [split; [discriminate|tauto]|].
  rewrite orb_true_iff, IH, str_eqb_eq. split; intros [H|H]; auto.
Qed.

Lemma mem_str_false x l : mem_str x l = false <-> ~ In x l.
Proof.
  rewrite <- mem_str_In. destruct (mem_str x l); split; intros; try discriminate; auto.
  exfalso; auto.
Qed.

Lemma nodup_b_spec l : nodup_b l = true <-> NoDup l.
Proof.
  induction l as [|x t IH]; cbn.
  - split; [constructor|reflexivity].
  - rewrite andb_true_iff, negb_true_iff, mem_str_false, IH. split.
    + intros [A B]. constructor; auto.
    + intros H. inversion H; auto.
Qed.

Section Facts.
  Variable fx : bool.
  Variable scan : uri -> scan_out.
  Variable get : uri -> get_out.
  Variable join : uri -> str -> option uri.
  Variable clock : nat -> Z.
  Variable deadline : Z.

  Notation loop := (loop fx scan get join clock deadline).

  (* the successor relation of the walk *)
  Definition next_of (u n : uri) : Prop :=
    exists dt first rest, download (unit_of fx) dt (get u) = Some (first :: rest) /\ join u first = Some n.

  (* a set of URIs closed under the walk *)
  Definition closed (nodes : list uri) : Prop :=
    forall u n, In u nodes -> next_of u n -> In n nodes.

  (* ---------------------------------------------------------------- fuel *)
  Lemma loop_fuel_enough nodes :
    closed nodes ->
    forall fuel u seen k log,
      In u nodes -> incl seen nodes -> NoDup seen ->
      (length nodes < fuel + length seen)%nat ->
      fst (loop fuel u seen k log) <> OutOfFuel.
  Proof.
    intros Hc. induction fuel as [|f IH]; intros u seen k log Hu Hincl Hnd Hlen.
    - exfalso. pose proof (NoDup_incl_length Hnd Hincl). lia.
    - cbn [Unwrap.loop].
      destruct (clock k <? deadline); [|cbn; discriminate].
      destruct (mem_str u seen) eqn:Hm; [cbn; discriminate|].
      destruct (deadline - clock (k + 1) <? 0); [cbn; discriminate|].
      destruct (is_stream (scan u)); [cbn; discriminate|].
      destruct (deadline - clock (k + 2) <? 0); [cbn; discriminate|].
      destruct (download (unit_of fx) (deadline - clock (k + 2)) (get u)) as [[|first rest]|] eqn:Hd; try (cbn; discriminate).
      destruct (join u first) as [n|] eqn:Hj; [|destruct fx; cbn; discriminate].
      apply IH.
      + apply (Hc u n Hu). exists (deadline - clock (k + 2)), first, rest. auto.
      + intros x [Hx|Hx]; [subst; auto|auto].
      + constructor; [apply mem_str_false; exact Hm|exact Hnd].
      + cbn [length]. lia.
  Qed.

  (* ---------------------------------------------------------------- fetch once *)
  Definition log_inv (seen : list uri) (log : list fetch) : Prop :=
    NoDup (scanned log) /\ NoDup (downloaded log)
    /\ (forall x, In x (scanned log) -> In x seen)
    /\ (forall x, In x (downloaded log) -> In x seen).

  Lemma loop_fetch_once :
    forall fuel u seen k log,
      log_inv seen log ->
      NoDup (scanned (snd (loop fuel u seen k log)))
      /\ NoDup (downloaded (snd (loop fuel u seen k log))).
  Proof.
    induction fuel as [|f IH]; intros u seen k log (Hs & Hd & Hsi & Hdi).
    - cbn. auto.
    - cbn [Unwrap.loop].
      destruct (clock k <? deadline); [|cbn; auto].
      destruct (mem_str u seen) eqn:Hm; [cbn; auto|].
      apply mem_str_false in Hm.
      destruct (deadline - clock (k + 1) <? 0); [cbn; auto|].
      set (log1 := FScan u k (k + 1) (deadline - clock (k + 1)) :: log).
      assert (Hs1 : NoDup (scanned log1)).
      { unfold log1, scanned. cbn. constructor; auto. }
      assert (Hd1 : NoDup (downloaded log1)) by (unfold log1, downloaded; cbn; exact Hd).
      destruct (is_stream (scan u)); [cbn; auto|].
      destruct (deadline - clock (k + 2) <? 0); [cbn; auto|].
      set (log2 := FDownload u k (k + 2) (deadline - clock (k + 2)) :: log1).
      assert (Hs2 : NoDup (scanned log2)) by (unfold log2, scanned; cbn; exact Hs1).
      assert (Hd2 : NoDup (downloaded log2)).
      { unfold log2, log1, downloaded. cbn. constructor; auto. }
      destruct (download (unit_of fx) (deadline - clock (k + 2)) (get u)) as [[|first rest]|]; try (cbn; auto).
      destruct (join u first) as [n|]; [|destruct fx; cbn; auto].
      apply IH. repeat split; auto.
      + unfold log2, log1, scanned. cbn. intros x [Hx|Hx]; [left; auto|right; auto].
      + unfold log2, log1, downloaded. cbn. intros x [Hx|Hx]; [left; auto|right; auto].
  Qed.

  (* ---------------------------------------------------------------- cycles *)
  (* every URI of the set is a playlist (no stream; downloads in time whatever time is
     left; parses to a non-empty list) whose first entry leads back into the set *)
  Definition all_playlists (nodes : list uri) : Prop :=
    forall u, In u nodes ->
      is_stream (scan u) = false
      /\ exists n first rest,
          (forall dt, 0 <= dt -> download (unit_of fx) dt (get u) = Some (first :: rest))
          /\ join u first = Some n /\ In n nodes.

  Lemma loop_cycle_no_stream nodes :
    all_playlists nodes ->
    forall fuel u seen k log,
      In u nodes -> incl seen nodes -> NoDup seen ->
      (length nodes < fuel + length seen)%nat ->
      exists w, fst (loop fuel u seen k log) = NoStream w.
  Proof.
    intros Hp. induction fuel as [|f IH]; intros u seen k log Hu Hincl Hnd Hlen.
    - exfalso. pose proof (NoDup_incl_length Hnd Hincl). lia.
    - cbn [Unwrap.loop].
      destruct (clock k <? deadline); [|cbn; eauto].
      destruct (mem_str u seen) eqn:Hm; [cbn; eauto|].
      destruct (deadline - clock (k + 1) <? 0); [cbn; eauto|].
      destruct (Hp u Hu) as (Hns & n & first & rest & Hd & Hj & Hn).
      rewrite Hns.
      destruct (deadline - clock (k + 2) <? 0) eqn:Hdt; [cbn; eauto|].
      rewrite Hd by lia. rewrite Hj.
      apply IH; auto.
      + intros x [Hx|Hx]; [subst; auto|auto].
      + constructor; [apply mem_str_false; exact Hm|exact Hnd].
      + cbn [length]. lia.
  Qed.

  (* ---------------------------------------------------------------- deadline *)
  (* Every fetch was issued in an iteration whose loop-head reading was before the
     deadline, with the timeout deadline - (a later, fresh reading), which is >= 0. *)
  Definition fetch_ok (f : fetch) : Prop :=
    clock (fetch_top f) < deadline
    /\ (fetch_top f < fetch_tick f)%nat
    /\ fetch_timeout f = deadline - clock (fetch_tick f)
    /\ 0 <= fetch_timeout f.

  Lemma loop_deadline :
    forall fuel u seen k log,
      Forall fetch_ok log -> Forall fetch_ok (snd (loop fuel u seen k log)).
  Proof.
    induction fuel as [|f IH]; intros u seen k log Hl; [exact Hl|].
    cbn [Unwrap.loop].
    destruct (clock k <? deadline) eqn:Ht; [|exact Hl].
    destruct (mem_str u seen); [exact Hl|].
    destruct (deadline - clock (k + 1) <? 0) eqn:H1; [exact Hl|].
    assert (Hl1 : Forall fetch_ok (FScan u k (k + 1) (deadline - clock (k + 1)) :: log)).
    { constructor; [|exact Hl]. unfold fetch_ok; cbn. repeat split; lia. }
    destruct (is_stream (scan u)); [exact Hl1|].
    destruct (deadline - clock (k + 2) <? 0) eqn:H2; [exact Hl1|].
    assert (Hl2 : Forall fetch_ok (FDownload u k (k + 2) (deadline - clock (k + 2))
                                     :: FScan u k (k + 1) (deadline - clock (k + 1)) :: log)).
    { constructor; [|exact Hl1]. unfold fetch_ok; cbn. repeat split; lia. }
    destruct (download (unit_of fx) (deadline - clock (k + 2)) (get u)) as [[|first rest]|]; try exact Hl2.
    destruct (join u first); [|destruct fx; exact Hl2].
    apply IH. exact Hl2.
  Qed.

  (* the loop never lets an exception of the oracles' outcome sets escape (fx) *)
  Lemma loop_no_raise :
    fx = true ->
    forall fuel u seen k log e, fst (loop fuel u seen k log) <> Raised e.
  Proof.
    intros Hfx. induction fuel as [|f IH]; intros u seen k log e; [cbn; discriminate|].
    cbn [Unwrap.loop].
    destruct (clock k <? deadline); [|cbn; discriminate].
    destruct (mem_str u seen); [cbn; discriminate|].
    destruct (deadline - clock (k + 1) <? 0); [cbn; discriminate|].
    destruct (is_stream (scan u)); [cbn; discriminate|].
    destruct (deadline - clock (k + 2) <? 0); [cbn; discriminate|].
    destruct (download (unit_of fx) (deadline - clock (k + 2)) (get u)) as [[|first rest]|]; try (cbn; discriminate).
    destruct (join u first); [apply IH|rewrite Hfx; cbn; discriminate].
  Qed.
End Facts.

(* ------------------------------------------------------------------ unwrap *)

Lemma unwrap_split fx scan get join clock timeout fuel start :
  unwrap fx scan get join clock timeout fuel start =
  (fst (loop fx scan get join clock (deadline_of fx clock timeout) fuel start [] 1 []),
   rev (snd (loop fx scan get join clock (deadline_of fx clock timeout) fuel start [] 1 []))).
Proof.
  unfold unwrap. destruct (loop fx scan get join clock (deadline_of fx clock timeout) fuel start [] 1 []).
  reflexivity.
Qed.

Lemma scanned_rev log : scanned (rev log) = rev (scanned log).
Proof.
  unfold scanned. induction log as [|f t IH]; [reflexivity|].
  cbn [rev]. rewrite filter_app, map_app, IH. cbn.
  destruct (is_scan f); cbn; [reflexivity|rewrite app_nil_r; reflexivity].
Qed.

Lemma downloaded_rev log : downloaded (rev log) = rev (downloaded log).
Proof.
  unfold downloaded. induction log as [|f t IH]; [reflexivity|].
  cbn [rev]. rewrite filter_app, map_app, IH. cbn.
  destruct (is_scan f); cbn; [rewrite app_nil_r; reflexivity|reflexivity].
Qed.

(* T3, all clauses, for every graph, join oracle, clock and timeout. *)
Theorem unwrap_terminates_lemma :
  forall fx scan get join clock timeout (nodes : list uri) start,
    In start nodes -> closed fx get join nodes ->
    let r := unwrap fx scan get join clock timeout (S (length nodes)) start in
    (* never out of fuel: at most |nodes| + 1 iterations *)
    fst r <> OutOfFuel
    (* no URI is scanned twice, none downloaded twice *)
    /\ NoDup (scanned (snd r)) /\ NoDup (downloaded (snd r))
    (* each fetch follows a loop-head deadline check that passed and gets the time left *)
    /\ Forall (fetch_ok clock (deadline_of fx clock timeout)) (snd r)
    (* a cycle of playlists yields no stream *)
    /\ (all_playlists fx scan get join nodes -> exists w, fst r = NoStream w)
    (* no exception escapes (after the fix) *)
    /\ (fx = true -> forall e, fst r <> Raised e).
Proof.
  intros fx scan get join clock timeout nodes start Hs Hc r. subst r.
  rewrite unwrap_split. cbn [fst snd].
  split; [|split; [|split; [|split; [|split]]]].
  - apply (loop_fuel_enough fx scan get join clock _ nodes Hc); auto.
    + intros x [].
    + constructor.
    + cbn. lia.
  - rewrite scanned_rev. apply NoDup_rev.
    apply (loop_fetch_once fx scan get join clock). repeat split; try constructor; intros x [].
  - rewrite downloaded_rev. apply NoDup_rev.
    apply (loop_fetch_once fx scan get join clock). repeat split; try constructor; intros x [].
  - apply Forall_rev. apply loop_deadline. constructor.
  - intros Hp. apply (loop_cycle_no_stream fx scan get join clock _ nodes Hp); auto.
    + intros x [].
    + constructor.
    + cbn. lia.
  - intros Hfx e. apply loop_no_raise. exact Hfx.
Qed.

(* Once the clock stays beyond the deadline from reading k0 on, nothing is fetched with
   a reading >= k0: the configured timeout bounds the work. *)
Theorem no_fetch_after_deadline_lemma :
  forall fx scan get join clock timeout fuel start k0,
    (forall j, (k0 <= j)%nat -> deadline_of fx clock timeout < clock j) ->
    Forall (fun f => (fetch_tick f < k0)%nat)
           (snd (unwrap fx scan get join clock timeout fuel start)).
Proof.
  intros fx scan get join clock timeout fuel start k0 Hlate.
  rewrite unwrap_split. cbn [snd]. apply Forall_rev.
  assert (H : Forall (fetch_ok clock (deadline_of fx clock timeout))
                     (snd (loop fx scan get join clock (deadline_of fx clock timeout) fuel start [] 1 [])))
    by (apply loop_deadline; constructor).
  eapply Forall_impl; [|exact H].
  intros f (_ & _ & Ht & Hpos).
  destruct (Nat.lt_ge_cases (fetch_tick f) k0) as [Hlt|Hge]; [exact Hlt|].
  specialize (Hlate _ Hge). lia.
Qed.

(* The boolean predicate the harness evaluates on implementation traces holds of the
   model's log. *)
Theorem fetch_log_ok_model_lemma :
  forall fx scan get join clock timeout fuel start,
    fetch_log_ok_b (snd (unwrap fx scan get join clock timeout fuel start)) = true.
Proof.
  intros. rewrite unwrap_split. cbn [snd]. unfold fetch_log_ok_b.
  rewrite !andb_true_iff. split; [split|].
  - apply nodup_b_spec. rewrite scanned_rev. apply NoDup_rev.
    apply (loop_fetch_once fx scan get join clock). repeat split; try constructor; intros x [].
  - apply nodup_b_spec. rewrite downloaded_rev. apply NoDup_rev.
    apply (loop_fetch_once fx scan get join clock). repeat split; try constructor; intros x [].
  - apply forallb_forall. intros f Hf. apply in_rev in Hf.
    assert (H : Forall (fetch_ok clock (deadline_of fx clock timeout))
                       (snd (loop fx scan get join clock (deadline_of fx clock timeout) fuel start [] 1 [])))
      by (apply loop_deadline; constructor).
    rewrite Forall_forall in H. destruct (H f Hf) as (_ & _ & _ & Hpos). lia.
Qed.

(* ------------------------------------------------------------------ non-vacuity *)

(* a two-playlist cycle: a -> b -> a, relative reference resolved by the join oracle *)
Definition ex_a : uri := [97].
Definition ex_b : uri := [98].
Definition ex_scan (u : uri) : scan_out := ScanResult false (Some TEXT_).
Definition ex_get (u : uri) : get_out :=
  if str_eqb u ex_a then GetResponse true [0; 0] [[46; 98]] else GetResponse true [] [ex_a].
Definition ex_join (u : uri) (r : str) : option uri :=
  if str_eqb r [46; 98] then Some ex_b else Some r.
Definition ex_clock (n : nat) : Z := Z.of_nat n.

Example ex_cycle_hyps :
  In ex_a [ex_a; ex_b] /\ closed true ex_get ex_join [ex_a; ex_b]
  /\ all_playlists true ex_scan ex_get ex_join [ex_a; ex_b].
Proof.
  split; [left; reflexivity|]. split.
  - intros u n [Hu|[Hu|[]]] (dt & first & rest & Hd & Hj); subst u; unfold ex_get, download in Hd;
      cbn [str_eqb list_eqb Z.eqb Pos.eqb andb ex_a ex_b] in Hd;
      destruct (body_slow _ _ dt); try discriminate Hd;
      injection Hd as <- <-; cbn in Hj; injection Hj as <-; cbn; auto.
  - intros u [Hu|[Hu|[]]]; subst u; (split; [reflexivity|]).
    + exists ex_b, [46; 98], []. split; [|split; [reflexivity|cbn; auto]].
      intros dt Hdt. unfold ex_get, download. cbn [str_eqb list_eqb Z.eqb Pos.eqb andb ex_a].
      replace (body_slow (unit_of true) [0; 0] dt) with false; [reflexivity|].
      unfold body_slow, unit_of. cbn [chunks length body_more Nat.ltb Nat.leb fst].
      unfold late, body_clock. cbn [elapsed].
      destruct (dt <? 1 * (0 + 0 - 0)) eqn:E1; [lia|].
      destruct (dt <? 1 * (0 + (0 + 0) - 0)) eqn:E2; [lia|]. reflexivity.
    + exists ex_a, ex_a, []. split; [|split; [reflexivity|cbn; auto]]. intros dt _. reflexivity.
Qed.

Example ex_cycle_runs :
  unwrap true ex_scan ex_get ex_join ex_clock 100 3 ex_a =
  (NoStream Cycle,
   [FScan ex_a 1 2 98; FDownload ex_a 1 3 97; FScan ex_b 4 5 95; FDownload ex_b 4 6 94]).
Proof. vm_compute. reflexivity. Qed.

(* the pinned code lets urljoin's ValueError escape; the fixed code does not *)
Lemma unwrap_pinned_raises_lemma :
  exists scan get join clock timeout fuel start,
    fst (unwrap false scan get join clock timeout fuel start) = Raised ValueError.
Proof.
  exists (fun _ => ScanError), (fun _ => GetResponse true [] [[91]]), (fun _ _ => None),
         ex_clock, 100, 2%nat, ex_a.
  vm_compute. reflexivity.
Qed.

(* ------------------------------------------------------------------ the whole chain *)

(* With the fixed code every fetch of the whole chain of nested playlists starts no later
   than clock 0 + timeout and is handed exactly the time left.  Hence, if every fetch
   returns within what it was handed plus `slack` (a scanner honouring its timeout;
   download(): one chunk time, by the C20_download theorems), the first reading after ANY fetch - all the
   work of the chain - is no later than clock 0 + timeout + slack. *)
Theorem unwrap_chain_deadline_lemma :
  forall scan get join clock timeout fuel start slack,
    let log := snd (unwrap true scan get join clock timeout fuel start) in
    (forall f, In f log ->
       clock (S (fetch_tick f)) <= clock (fetch_tick f) + fetch_timeout f + slack) ->
    forall f, In f log ->
      clock (fetch_tick f) <= clock O + timeout
      /\ fetch_timeout f = clock O + timeout - clock (fetch_tick f)
      /\ clock (S (fetch_tick f)) <= clock O + timeout + slack.
Proof.
  intros scan get join clock timeout fuel start slack log Hhonest f Hf.
  pose proof (Hhonest f Hf) as Hh. subst log.
  rewrite unwrap_split in Hf. cbn [snd] in Hf. apply in_rev in Hf.
  assert (H : Forall (fetch_ok clock (deadline_of true clock timeout))
                     (snd (loop true scan get join clock (deadline_of true clock timeout) fuel start [] 1 [])))
    by (apply loop_deadline; constructor).
  rewrite Forall_forall in H. destruct (H f Hf) as (_ & _ & Ht & Hpos).
  unfold deadline_of, unit_of in Ht, Hpos. lia.
Qed.

(* The pinned code adds milliseconds to seconds.  Clock in ms, timeout = 1000 ms, three
   playlists in a row whose scans each take 900 ms (well within the 999 "ms" each was
   handed): the third scan is STARTED 1800 ms after the unwrapping began, and ends at
   2700 ms; the same run through the fixed code gives up when the budget is used up. *)
Definition ex3_uri (i : Z) : uri := [112; 48 + i].
Definition ex3_scan (u : uri) : scan_out := ScanError.
Definition ex3_get (u : uri) : get_out :=
  if str_eqb u (ex3_uri 0) then GetResponse true [0] [ex3_uri 1]
  else if str_eqb u (ex3_uri 1) then GetResponse true [0] [ex3_uri 2]
  else GetResponse true [0] [].
Definition ex3_join (u : uri) (r : str) : option uri := Some r.
(* readings: 0 (deadline), then per iteration: head, before scan, after scan (+900) *)
Definition ex3_clock (n : nat) : Z := 900 * Z.of_nat (n / 3).

Definition honest_pinned_b (clock : nat -> Z) (log : list fetch) : bool :=
  forallb (fun f => 1000 * (clock (S (fetch_tick f)) - clock (fetch_tick f)) <=? fetch_timeout f) log.

Lemma unwrap_chain_deadline_pinned_refuted_lemma :
  let r := unwrap false ex3_scan ex3_get ex3_join ex3_clock 1000 4 (ex3_uri 0) in
  fst r = Found (ex3_uri 2) false
  /\ honest_pinned_b ex3_clock (snd r) = true
  /\ existsb (fun f => ex3_clock O + 1000 <? ex3_clock (fetch_tick f)) (snd r) = true
  /\ fst (unwrap true ex3_scan ex3_get ex3_join ex3_clock 1000 4 (ex3_uri 0)) = NoStream TimedOutDownload.
Proof. vm_compute. repeat split; reflexivity. Qed.
