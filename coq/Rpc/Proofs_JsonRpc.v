(* Proofs about the JSON-RPC wrapper model (JsonRpc.v).  Everything is for all mount
   tables [ms], all call oracles [call] (history dependent) and all inputs. *)
From Coq Require Import ZArith List Bool String Lia.
From Common Require Import Str.
From Rpc Require Import Json JsonRpc.
Import ListNotations.
Open Scope Z_scope.

(* ---- strings --------------------------------------------------------------- *)

Lemma break_dot_spec r a b :
  break_dot r = Some (a, b) -> r = a ++ DOT :: b /\ ~ In DOT a.
Proof.
  revert a b. induction r as [|c t IH]; intros a b H; [discriminate|].
  cbn [break_dot] in H. destruct (c =? DOT) eqn:E.
  - injection H as <- <-. apply Z.eqb_eq in E. subst c. split; [reflexivity|intros []].
  - destruct (break_dot t) as [[a' b']|] eqn:B; [|discriminate].
    injection H as <- <-. destruct (IH a' b' eq_refl) as [-> Hn]. split; [reflexivity|].
    intros [Hc|Hi]; [apply Z.eqb_neq in E; congruence|contradiction].
Qed.

Lemma break_dot_none r : break_dot r = None -> ~ In DOT r.
Proof.
  induction r as [|c t IH]; intros H; [intros []|].
  cbn [break_dot] in H. destruct (c =? DOT) eqn:E; [discriminate|].
  destruct (break_dot t) as [[a b]|]; [discriminate|].
  intros [Hc|Hi]; [apply Z.eqb_neq in E; congruence|exact (IH eq_refl Hi)].
Qed.

Lemma break_dot_app a b : ~ In DOT a -> break_dot (a ++ DOT :: b) = Some (a, b).
Proof.
  induction a as [|c a IH]; intros Hn.
  - cbn. reflexivity.
  - cbn [app break_dot]. destruct (c =? DOT) eqn:E.
    + apply Z.eqb_eq in E. exfalso. apply Hn. left. exact E.
    + rewrite IH; [reflexivity|]. intros Hi. apply Hn. right. exact Hi.
Qed.

(* rsplit(".", 1): the method name is what follows the LAST dot *)
Lemma rsplit_dot_spec s m n :
  rsplit_dot s = Some (m, n) -> s = m ++ DOT :: n /\ ~ In DOT n.
Proof.
  unfold rsplit_dot. destruct (break_dot (rev s)) as [[nr mr]|] eqn:B; [|discriminate].
  intros H. injection H as <- <-. apply break_dot_spec in B. destruct B as [B Hn].
  split.
  - rewrite <- (rev_involutive s), B, rev_app_distr. cbn [rev]. rewrite <- app_assoc. reflexivity.
  - intros Hi. apply Hn. apply in_rev. exact Hi.
Qed.

Lemma rsplit_dot_app m n : ~ In DOT n -> rsplit_dot (m ++ DOT :: n) = Some (m, n).
Proof.
  intros Hn. unfold rsplit_dot.
  replace (rev (m ++ DOT :: n)) with (rev n ++ DOT :: rev m).
  - rewrite break_dot_app.
    + rewrite !rev_involutive. reflexivity.
    + intros Hi. apply Hn. apply in_rev. exact Hi.
  - rewrite rev_app_distr. cbn [rev]. rewrite <- app_assoc. reflexivity.
Qed.

Lemma rsplit_dot_none s : ~ In DOT s -> rsplit_dot s = None.
Proof.
  intros Hn. unfold rsplit_dot. destruct (break_dot (rev s)) as [[a b]|] eqn:B; [|reflexivity].
  apply break_dot_spec in B. destruct B as [B _]. exfalso. apply Hn. apply in_rev.
  rewrite B. apply in_or_app. right. left. reflexivity.
Qed.

(* ---- request validation ------------------------------------------------------ *)

(* The exact set of JSON values accepted as a request. *)
Definition request_shape (pok : params -> bool) (j : json) (rq : request) : Prop :=
  exists o,
    j = JObj o /\
    lookup k_jsonrpc o = Some (JStr s_2_0) /\
    lookup k_method o = Some (JStr (r_method rq)) /\
    params_of o = Some (r_params rq) /\
    forallb (fun kv => known_member (fst kv)) o = true /\
    pok (r_params rq) = true /\
    id_of o = Some (r_id rq).

Lemma validate_spec pok j rq : validate pok j = VOk rq <-> request_shape pok j rq.
Proof.
  split.
  - destruct j as [| | | | |l|o]; try discriminate. cbn [validate].
    destruct (lookup k_jsonrpc o) as [[| | | |ver| |]|] eqn:Ej; try discriminate.
    destruct (str_eqb ver s_2_0) eqn:Ev; cbn [negb]; [|discriminate].
    destruct (lookup k_method o) as [[| | | |m| |]|] eqn:Em; try discriminate.
    destruct (params_of o) as [p|] eqn:Ep; [|discriminate].
    destruct (forallb (fun kv => known_member (fst kv)) o) eqn:Ek; cbn [negb]; [|discriminate].
    destruct (pok p) eqn:Epok; cbn [negb]; [|discriminate].
    destruct (id_of o) as [i|] eqn:Ei; [|discriminate].
    intros H. injection H as <-. exists o. cbn [r_method r_params r_id].
    apply str_eqb_eq in Ev. subst ver. repeat split; assumption.
  - intros (o & -> & Hj & Hm & Hp & Hk & Hpok & Hi). cbn [validate].
    rewrite Hj. replace (str_eqb s_2_0 s_2_0) with true by reflexivity. cbn [negb].
    rewrite Hm, Hp, Hk. cbn [negb]. rewrite Hpok. cbn [negb]. rewrite Hi. destruct rq. reflexivity.
Qed.

Lemma validate_not_object pok j : (forall o, j <> JObj o) -> forall rq, validate pok j <> VOk rq.
Proof. intros H rq E. apply validate_spec in E. destruct E as (o & -> & _). exact (H o eq_refl). Qed.

Lemma validate_unknown_member pok o k x :
  In (k, x) o -> known_member k = false -> forall rq, validate pok (JObj o) <> VOk rq.
Proof.
  intros Hin Hk rq E. apply validate_spec in E. destruct E as (o' & Ho & _ & _ & _ & Hall & _ & _).
  injection Ho as <-. rewrite forallb_forall in Hall. specialize (Hall _ Hin). cbn in Hall. congruence.
Qed.

Lemma validate_id_array pok o l : lookup k_id o = Some (JArr l) -> forall rq, validate pok (JObj o) <> VOk rq.
Proof.
  intros Hid rq E. apply validate_spec in E. destruct E as (o' & Ho & _ & _ & _ & _ & _ & Hi).
  injection Ho as <-. unfold id_of in Hi. rewrite Hid in Hi. discriminate.
Qed.

Lemma validate_id_object pok o l : lookup k_id o = Some (JObj l) -> forall rq, validate pok (JObj o) <> VOk rq.
Proof.
  intros Hid rq E. apply validate_spec in E. destruct E as (o' & Ho & _ & _ & _ & _ & _ & Hi).
  injection Ho as <-. unfold id_of in Hi. rewrite Hid in Hi. discriminate.
Qed.

Lemma validate_bad_params pok j rq : validate pok j = VOk rq -> pok (r_params rq) = true.
Proof. intros E. apply validate_spec in E. destruct E as (o & _ & _ & _ & _ & _ & H & _). exact H. Qed.

(* id echo: a string, integer or finite-float id is written back unchanged *)
Definition echoable (idj : json) : bool :=
  match idj with
  | JStr _ | JInt _ => true
  | JFloat t => tok_finite t
  | _ => false
  end.

Lemma id_echo pok o rq idj :
  validate pok (JObj o) = VOk rq -> lookup k_id o = Some idj -> echoable idj = true ->
  wire_id (r_id rq) = idj /\ r_id rq <> None.
Proof.
  intros E Hid He. apply validate_spec in E. destruct E as (o' & Ho & _ & _ & _ & _ & _ & Hi).
  injection Ho as <-. unfold id_of in Hi. rewrite Hid in Hi.
  destruct idj; try discriminate; injection Hi as <-; cbn [wire_id]; try (split; [reflexivity|discriminate]).
  cbn [echoable] in He. rewrite He. split; [reflexivity|discriminate].
Qed.

Lemma id_echo_refuted :
  exists o rq idj, validate (fun _ => true) (JObj o) = VOk rq /\ lookup k_id o = Some idj /\
                   (exists t, idj = JFloat t) /\ wire_id (r_id rq) <> idj.
Proof.
  exists [(k_jsonrpc, JStr s_2_0); (k_method, JStr (lit "o.pub")); (k_id, JFloat (lit "inf"))].
  eexists. exists (JFloat (lit "inf")). split; [vm_compute; reflexivity|].
  split; [vm_compute; reflexivity|]. split; [eexists; reflexivity|]. vm_compute. discriminate.
Qed.

(* ---- method lookup ------------------------------------------------------------ *)

Lemma get_method_public ms p e : get_method ms p = TCall e -> public_entry_b ms e = true.
Proof.
  unfold get_method. destruct (mount_callable ms p) eqn:Ec.
  - intros H. injection H as <-. exact Ec.
  - destruct (rsplit_dot p) as [[m n]|]; [|discriminate].
    destruct (is_private n) eqn:Ep; [discriminate|].
    destruct (lookup m ms) as [o|] eqn:Em; [|discriminate].
    destruct (lookup n (m_attrs o)) as [[|]|] eqn:En; try discriminate.
    intros H. injection H as <-. cbn [public_entry_b]. rewrite Ep, Em, En. reflexivity.
Qed.

(* An invoked attribute is named by exactly mount "." attr where mount is literally a key
   of the mount table and attr contains no dot: no deeper attribute chain is followed. *)
Lemma get_method_path ms p e :
  get_method ms p = TCall e ->
  match e with
  | EMount m => p = m
  | EAttr m a => p = m ++ DOT :: a /\ ~ In DOT a /\ has_key m ms = true
  end.
Proof.
  unfold get_method. destruct (mount_callable ms p) eqn:Ec.
  - intros H. injection H as <-. reflexivity.
  - destruct (rsplit_dot p) as [[m n]|] eqn:Er; [|discriminate].
    destruct (is_private n) eqn:Ep; [discriminate|].
    destruct (lookup m ms) as [o|] eqn:Em; [|discriminate].
    destruct (lookup n (m_attrs o)) as [[|]|] eqn:En; try discriminate.
    intros H. injection H as <-. apply rsplit_dot_spec in Er. destruct Er as [-> Hn].
    unfold has_key. rewrite Em. auto.
Qed.

Lemma private_rejected ms m n :
  is_private n = true -> ~ In DOT n -> mount_callable ms (m ++ DOT :: n) = false ->
  get_method ms (m ++ DOT :: n) = TNotFound.
Proof.
  intros Hp Hn Hc. unfold get_method. rewrite Hc, (rsplit_dot_app m n Hn), Hp. reflexivity.
Qed.

Lemma unknown_mount_rejected ms m n :
  ~ In DOT n -> lookup m ms = None -> mount_callable ms (m ++ DOT :: n) = false ->
  get_method ms (m ++ DOT :: n) = TNotFound.
Proof.
  intros Hn Hm Hc. unfold get_method. rewrite Hc, (rsplit_dot_app m n Hn), Hm.
  destruct (is_private n); reflexivity.
Qed.

(* m.a.b where "m.a" is not itself a mount: rejected even if m is a mount with attribute a *)
Lemma deeper_chain_rejected ms m a b :
  ~ In DOT b -> lookup (m ++ DOT :: a) ms = None ->
  mount_callable ms ((m ++ DOT :: a) ++ DOT :: b) = false ->
  get_method ms ((m ++ DOT :: a) ++ DOT :: b) = TNotFound.
Proof. intros. apply unknown_mount_rejected; assumption. Qed.

Lemma no_dot_rejected ms p : ~ In DOT p -> mount_callable ms p = false -> get_method ms p = TNotFound.
Proof. intros Hn Hc. unfold get_method. rewrite Hc, (rsplit_dot_none p Hn). reflexivity. Qed.

Section Wrapper.
  Variable pok : params -> bool.
  Variable ms : mounts.
  Variable call : log -> entry -> params -> call_result.

  (* ---- single requests ------------------------------------------------------- *)

  Lemma handle_single_no_escape l j : forall e, fst (handle_single fixed pok ms call l j) <> SEscape e.
  Proof.
    intros e. unfold handle_single. destruct (validate _ j) as [rq| |]; cbn; try discriminate.
    unfold answer.
    destruct (get_method ms (r_method rq)); [|destruct (r_id rq); cbn; discriminate..].
    destruct (call l e0 (r_params rq)); destruct (r_id rq); cbn; discriminate.
  Qed.

  (* the log only grows, by public entries *)
  Lemma handle_single_log v l j :
    snd (handle_single v pok ms call l j) = l \/
    exists e, snd (handle_single v pok ms call l j) = l ++ [e] /\ public_entry_b ms e = true.
  Proof.
    unfold handle_single. destruct (validate _ j) as [rq| |]; [|left; reflexivity|].
    - destruct (get_method ms (r_method rq)) eqn:Eg; [|left; reflexivity..].
      right. exists e. split; [|exact (get_method_public _ _ _ Eg)].
      destruct (call l e (r_params rq)); reflexivity.
    - destruct (v_catch_validation v); left; reflexivity.
  Qed.

  Lemma handle_single_invalid l j :
    (forall rq, validate pok j <> VOk rq) ->
    handle_single fixed pok ms call l j = (SResp (mkResp None (PError E_INVALID d_text)), l).
  Proof.
    intros H. unfold handle_single. destruct (validate _ j) as [rq| |]; [exfalso; exact (H rq eq_refl)|reflexivity..].
  Qed.

  Definition payload_of (cr : call_result) : payload :=
    match cr with
    | CallOk r => PResult r
    | CallTypeError d => match d with Some x => PError E_PARAMS x | None => PBad end
    | CallOther d => match d with Some x => PError E_APP x | None => PBad end
    | CallUnserializable => PBad
    end.

  (* what a structurally valid request does, as one equation *)
  Lemma handle_single_valid v l j rq :
    validate (vpok v pok) j = VOk rq ->
    handle_single v pok ms call l j =
    match get_method ms (r_method rq) with
    | TNotFound => (answer rq (PError E_NOT_FOUND d_text), l)
    | TPlain => (answer rq (PError E_PARAMS d_not_callable), l)
    | TCall e => (answer rq (payload_of (call l e (r_params rq))), l ++ [e])
    end.
  Proof.
    intros E. unfold handle_single. rewrite E. destruct (get_method ms (r_method rq)); try reflexivity.
    destruct (call l e (r_params rq)); reflexivity.
  Qed.

  Lemma not_found_invokes_nothing v l j rq :
    validate (vpok v pok) j = VOk rq -> get_method ms (r_method rq) <> TCall (EMount (r_method rq)) ->
    (forall e, get_method ms (r_method rq) <> TCall e) ->
    snd (handle_single v pok ms call l j) = l.
  Proof.
    intros E _ H. rewrite (handle_single_valid v l j rq E).
    destruct (get_method ms (r_method rq)) eqn:Eg; try reflexivity. exfalso. exact (H e eq_refl).
  Qed.

  (* ---- ids of responses -------------------------------------------------------- *)

  Definition elem_ids_finite (j : json) : bool :=
    match j with
    | JObj o => match lookup k_id o with Some (JFloat t) => tok_finite t | _ => true end
    | _ => true
    end.

  Definition input_ids_finite (i : input) : bool :=
    match i with
    | ParseFail => true
    | Parsed (JArr l) => forallb elem_ids_finite l
    | Parsed j => elem_ids_finite j
    end.

  (* a response is well formed when a result always carries an id, and float ids are finite *)
  Definition resp_good (r : resp) : bool :=
    match rs_id r with
    | Some (IdFloat t) => tok_finite t
    | Some _ => true
    | None => match rs_payload r with PResult _ => false | _ => true end
    end.

  Lemma validate_id_finite pk j rq :
    validate pk j = VOk rq -> elem_ids_finite j = true ->
    match r_id rq with Some (IdFloat t) => tok_finite t = true | _ => True end.
  Proof.
    intros E Hf. apply validate_spec in E. destruct E as (o & -> & _ & _ & _ & _ & _ & Hi).
    cbn [elem_ids_finite] in Hf. unfold id_of in Hi.
    destruct (lookup k_id o) as [[| b | z | t | s | a | d]|]; try discriminate;
      injection Hi as <-; try exact I. exact Hf.
  Qed.

  Lemma handle_single_good v l j r :
    elem_ids_finite j = true -> fst (handle_single v pok ms call l j) = SResp r -> resp_good r = true.
  Proof.
    intros Hf. unfold handle_single. destruct (validate _ j) as [rq| |] eqn:E.
    - pose proof (validate_id_finite _ j rq E Hf) as Hid. unfold answer.
      destruct (get_method ms (r_method rq)).
      1: destruct (call l e (r_params rq)).
      all: destruct (r_id rq) as [[s|z|t]|]; cbn; intros H; try discriminate; injection H as <-;
        unfold resp_good; cbn; try reflexivity; exact Hid.
    - cbn. intros H. injection H as <-. reflexivity.
    - destruct (v_catch_validation v); cbn; intros H; [injection H as <-; reflexivity|discriminate].
  Qed.

  Lemma error_obj_ok c d : error_ok_b (error_obj c d) = true.
  Proof. reflexivity. Qed.

  Lemma wire_ok r : resp_good r = true -> response_ok_b (wire r) = true.
  Proof.
    unfold resp_good, wire. destruct r as [i p]. cbn [rs_id rs_payload].
    destruct i as [[s|z|t]|]; destruct p; intros H; try discriminate;
      cbn [wire_id]; try rewrite H; reflexivity.
  Qed.

  (* ---- batches -------------------------------------------------------------------- *)

  Lemma run_batch_no_escape js : forall l e, fst (run_batch fixed pok ms call l js) <> PRaise e.
  Proof.
    induction js as [|j t IH]; intros l e; [cbn; discriminate|].
    cbn [run_batch]. pose proof (handle_single_no_escape l j) as Hs.
    destruct (handle_single fixed pok ms call l j) as [[|r|e'] l'] eqn:E; cbn [fst] in Hs.
    - apply IH.
    - specialize (IH l' e). destruct (run_batch fixed pok ms call l' t) as [[rs|e''] l'']; cbn in *; congruence.
    - exfalso. exact (Hs e' eq_refl).
  Qed.

  Lemma run_batch_log v js : forall l,
    Forall (fun e => public_entry_b ms e = true) l ->
    Forall (fun e => public_entry_b ms e = true) (snd (run_batch v pok ms call l js)).
  Proof.
    induction js as [|j t IH]; intros l Hl; [exact Hl|].
    cbn [run_batch].
    assert (Hl' : Forall (fun e => public_entry_b ms e = true) (snd (handle_single v pok ms call l j))).
    { destruct (handle_single_log v l j) as [->|(e & -> & He)]; [exact Hl|].
      apply Forall_app. split; [exact Hl|]. constructor; [exact He|constructor]. }
    destruct (handle_single v pok ms call l j) as [[|r|e'] l'] eqn:E; cbn [snd] in Hl'.
    - apply IH. exact Hl'.
    - specialize (IH l' Hl'). destruct (run_batch v pok ms call l' t) as [[rs|e''] l'']; exact IH.
    - exact Hl'.
  Qed.

  Lemma run_batch_good v js : forall l rs,
    forallb elem_ids_finite js = true -> fst (run_batch v pok ms call l js) = POk rs ->
    forallb resp_good rs = true.
  Proof.
    induction js as [|j t IH]; intros l rs Hf H.
    - cbn in H. injection H as <-. reflexivity.
    - cbn [forallb] in Hf. apply andb_true_iff in Hf. destruct Hf as [Hj Ht].
      cbn [run_batch] in H. pose proof (handle_single_good v l j) as Hg.
      destruct (handle_single v pok ms call l j) as [[|r|e'] l'] eqn:E; cbn [fst] in Hg.
      + exact (IH l' rs Ht H).
      + destruct (run_batch v pok ms call l' t) as [[rs'|e''] l''] eqn:Eb; cbn [fst] in H; [|discriminate].
        injection H as <-. cbn [forallb]. rewrite (Hg r Hj eq_refl). cbn [andb].
        apply (IH l' rs' Ht). rewrite Eb. reflexivity.
      + discriminate.
  Qed.

  (* which elements are answered, and with which id *)
  Definition is_notification (j : json) : bool :=
    match validate pok j with
    | VOk rq => match r_id rq with None => true | Some _ => false end
    | _ => false
    end.

  Definition answered (j : json) : bool := negb (is_notification j).

  Definition expected_id (j : json) : json :=
    match validate pok j with
    | VOk rq => wire_id (r_id rq)
    | _ => JNull
    end.

  Definition resp_id_json (r : resp) : json := wire_id (rs_id r).

  Lemma handle_single_shape l j :
    match fst (handle_single fixed pok ms call l j) with
    | SNone => is_notification j = true
    | SResp r => is_notification j = false /\ resp_id_json r = expected_id j
    | SEscape _ => False
    end.
  Proof.
    unfold handle_single, is_notification, expected_id, resp_id_json.
    change (vpok fixed pok) with pok.
    destruct (validate pok j) as [rq| |]; cbn; try (split; reflexivity).
    unfold answer. destruct (get_method ms (r_method rq)).
    1: destruct (call l e (r_params rq)).
    all: destruct (r_id rq); cbn; try reflexivity; split; reflexivity.
  Qed.

  (* T3: one response per non-notification element, in request order *)
  Lemma run_batch_shape js : forall l,
    exists rs, fst (run_batch fixed pok ms call l js) = POk rs /\
               map resp_id_json rs = map expected_id (filter answered js).
  Proof.
    induction js as [|j t IH]; intros l.
    - exists []. split; reflexivity.
    - cbn [run_batch filter]. pose proof (handle_single_shape l j) as Hs. unfold answered at 1.
      destruct (handle_single fixed pok ms call l j) as [[|r|e'] l'] eqn:E; cbn [fst] in Hs.
      + rewrite Hs. cbn [negb]. apply IH.
      + destruct Hs as [Hn Hid]. rewrite Hn. cbn [negb].
        destruct (IH l') as (rs & Hrs & Hmap).
        destruct (run_batch fixed pok ms call l' t) as [[rs'|e''] l''] eqn:Eb; cbn [fst] in Hrs; [|discriminate].
        injection Hrs as ->. exists (r :: rs). split; [reflexivity|].
        cbn [map]. rewrite Hid, Hmap. reflexivity.
      + contradiction.
  Qed.

  (* ---- the whole endpoint ------------------------------------------------------------ *)

  Lemma dump_fixed_not_escaped d : forall e, dump fixed d <> OEscaped e.
  Proof.
    intros e. destruct d as [|r|rs]; cbn; try discriminate.
    - rewrite andb_false_r. discriminate.
    - rewrite andb_false_r. discriminate.
  Qed.

  Lemma handle_data_no_escape j : forall e, fst (handle_data fixed pok ms call j) <> PRaise e.
  Proof.
    intros e. unfold handle_data. destruct j as [| | | | |[|j t]|o];
      try (pose proof (handle_single_no_escape [] ltac:(first [exact JNull|idtac])) as Hs).
    all: try (cbn; discriminate).
    all: try match goal with
      | |- context [handle_single fixed pok ms call [] ?x] =>
          pose proof (handle_single_no_escape [] x) as Hs';
          destruct (handle_single fixed pok ms call [] x) as [[|r|e'] l']; cbn in *;
          try discriminate; exfalso; exact (Hs' e' eq_refl)
      end.
    pose proof (run_batch_no_escape (j :: t) [] e) as Hb.
    destruct (run_batch fixed pok ms call [] (j :: t)) as [[[|r rs]|e'] l']; cbn in *; congruence.
  Qed.

  (* T1 *)
  Lemma total_lemma i : forall e, fst (handle_json fixed pok ms call i) <> OEscaped e.
  Proof.
    intros e. destruct i as [|j]; [cbn; discriminate|].
    cbn [handle_json]. pose proof (handle_data_no_escape j) as Hd.
    destruct (handle_data fixed pok ms call j) as [[d|e'] l]; cbn [fst] in *.
    - apply dump_fixed_not_escaped.
    - exfalso. exact (Hd e' eq_refl).
  Qed.

  Lemma endpoint_total_lemma utf8_ok i :
    fst (endpoint fixed pok ms call false utf8_ok i) <> EpTransportError.
  Proof.
    unfold endpoint. cbn [v_decode_in_handler fixed andb].
    pose proof (total_lemma i) as Ht.
    destruct (handle_json fixed pok ms call i) as [[|j|e] l]; cbn in *; try discriminate.
    exfalso. exact (Ht e eq_refl).
  Qed.

  (* T4 *)
  Lemma only_public_lemma v i :
    Forall (fun e => public_entry_b ms e = true) (snd (handle_json v pok ms call i)).
  Proof.
    destruct i as [|j]; [constructor|].
    cbn [handle_json].
    assert (H : Forall (fun e => public_entry_b ms e = true) (snd (handle_data v pok ms call j))).
    { unfold handle_data.
      assert (Hsingle : forall x, Forall (fun e => public_entry_b ms e = true) (snd (handle_single v pok ms call [] x))).
      { intros x. destruct (handle_single_log v [] x) as [->|(e & -> & He)]; [constructor|].
        cbn. constructor; [exact He|constructor]. }
      destruct j as [| | | | |[|j t]|o];
        try (match goal with |- context [handle_single v pok ms call [] ?x] =>
               specialize (Hsingle x); destruct (handle_single v pok ms call [] x) as [[|r|e'] l']; exact Hsingle end).
      - constructor.
      - pose proof (run_batch_log v (j :: t) [] (Forall_nil _)) as Hb.
        destruct (run_batch v pok ms call [] (j :: t)) as [[[|r rs]|e'] l']; exact Hb. }
    destruct (handle_data v pok ms call j) as [[d|e'] l]; exact H.
  Qed.

  (* T2 *)
  Definition error_doc (i : option rid) (c : Z) (d : json) : json := wire (mkResp i (PError c d)).

  Lemma parse_error_lemma : handle_json fixed pok ms call ParseFail = (OBytes (error_doc None E_PARSE JNull), []).
  Proof. reflexivity. Qed.

  Lemma invalid_request_lemma j :
    (forall l, j <> JArr l) -> (forall rq, validate pok j <> VOk rq) ->
    handle_json fixed pok ms call (Parsed j) = (OBytes (error_doc None E_INVALID d_text), []).
  Proof.
    intros Hna Hv. cbn [handle_json]. unfold handle_data.
    destruct j as [| | | | |l|o]; try (rewrite (handle_single_invalid [] _ Hv); reflexivity).
    exfalso. exact (Hna l eq_refl).
  Qed.

  Lemma empty_batch_lemma :
    handle_json fixed pok ms call (Parsed (JArr [])) = (OBytes (error_doc None E_INVALID d_text), []).
  Proof. reflexivity. Qed.

  (* a structurally valid single request with an id *)
  Lemma request_lemma j rq i :
    validate pok j = VOk rq -> r_id rq = Some i ->
    handle_json fixed pok ms call (Parsed j) =
    match get_method ms (r_method rq) with
    | TNotFound => (OBytes (error_doc (Some i) E_NOT_FOUND d_text), [])
    | TPlain => (OBytes (error_doc (Some i) E_PARAMS d_not_callable), [])
    | TCall e => (OBytes (wire (mkResp (Some i) (payload_of (call [] e (r_params rq))))), [e])
    end.
  Proof.
    intros E Hi. pose proof E as E'. apply validate_spec in E'. destruct E' as (o & -> & _).
    cbn [handle_json handle_data]. rewrite (handle_single_valid fixed [] (JObj o) rq E).
    unfold answer. rewrite Hi.
    destruct (get_method ms (r_method rq)); try reflexivity.
    destruct (call [] e (r_params rq)) as [r|[|]|[|]|]; reflexivity.
  Qed.

  Lemma notification_lemma j rq :
    validate pok j = VOk rq -> r_id rq = None ->
    fst (handle_json fixed pok ms call (Parsed j)) = ONothing.
  Proof.
    intros E Hi. pose proof E as E'. apply validate_spec in E'. destruct E' as (o & -> & _).
    cbn [handle_json handle_data]. rewrite (handle_single_valid fixed [] (JObj o) rq E).
    unfold answer. rewrite Hi. destruct (get_method ms (r_method rq)); reflexivity.
  Qed.

  Lemma wire_id_member r : exists o, wire r = JObj o /\ lookup k_id o = Some (wire_id (rs_id r)).
  Proof. destruct r as [i [x|c|]]; eexists; split; reflexivity. Qed.

  (* T3 at the level of handle_json *)
  Lemma batch_lemma j t :
    let js := j :: t in
    match fst (handle_json fixed pok ms call (Parsed (JArr js))) with
    | ONothing => filter answered js = []
    | OBytes (JArr docs) =>
        exists rs, docs = map wire rs /\ rs <> [] /\
                   map resp_id_json rs = map expected_id (filter answered js)
    | _ => False
    end.
  Proof.
    cbn zeta. cbn [handle_json handle_data].
    destruct (run_batch_shape (j :: t) []) as (rs & Hrs & Hmap).
    remember (filter answered (j :: t)) as fl eqn:Hfl. clear Hfl.
    destruct (run_batch fixed pok ms call [] (j :: t)) as [[rs'|e'] l'] eqn:Eb; cbn [fst] in Hrs; [|discriminate].
    injection Hrs as ->. destruct rs as [|r rs].
    - cbn [fst dump]. destruct fl; [reflexivity|discriminate].
    - cbn [fst dump]. rewrite andb_false_r. exists (r :: rs). repeat split; [discriminate|exact Hmap].
  Qed.

  (* conformance to the response grammar, for inputs whose float ids are finite *)
  Lemma handle_json_single j :
    (forall a, j <> JArr a) ->
    handle_json fixed pok ms call (Parsed j) =
    match handle_single fixed pok ms call [] j with
    | (SEscape e, l) => (OEscaped e, l)
    | (SNone, l) => (ONothing, l)
    | (SResp r, l) => (OBytes (wire r), l)
    end.
  Proof.
    intros Hna. cbn [handle_json]. unfold handle_data.
    destruct j as [| | | | |a|o]; try (exfalso; exact (Hna a eq_refl));
      match goal with |- context [handle_single fixed pok ms call [] ?x] =>
        destruct (handle_single fixed pok ms call [] x) as [[|r|e'] l'] end;
      cbn [dump]; rewrite ?andb_false_r; reflexivity.
  Qed.

  Lemma document_wire r : document_ok_b (wire r) = response_ok_b (wire r).
  Proof. destruct (wire_id_member r) as (o & -> & _). reflexivity. Qed.

  Lemma forallb_wire rs : forallb resp_good rs = true -> forallb response_ok_b (map wire rs) = true.
  Proof.
    induction rs as [|a rs IH]; intros H; [reflexivity|].
    cbn [forallb] in H. apply andb_true_iff in H. destruct H as [Ha Hrs].
    cbn [map forallb]. rewrite (wire_ok a Ha). exact (IH Hrs).
  Qed.

  Lemma conformant_partial_lemma i j l :
    input_ids_finite i = true -> handle_json fixed pok ms call i = (OBytes j, l) -> document_ok_b j = true.
  Proof.
    intros Hf H. destruct i as [|x].
    - cbn in H. injection H as <- _. reflexivity.
    - assert (Hs : (forall a, x <> JArr a) -> elem_ids_finite x = true -> document_ok_b j = true).
      { intros Hna Hx. rewrite (handle_json_single x Hna) in H.
        pose proof (handle_single_good fixed [] x) as Hg.
        destruct (handle_single fixed pok ms call [] x) as [[|r|e'] l0]; cbn [fst] in Hg; try discriminate.
        injection H as <- _. rewrite document_wire. apply wire_ok. exact (Hg r Hx eq_refl). }
      destruct x as [| | | | |[|y t]|o]; try (apply Hs; [intros a; discriminate|exact Hf]).
      + cbn in H. injection H as <- _. reflexivity.
      + cbn [handle_json handle_data] in H. cbn [input_ids_finite] in Hf.
        pose proof (run_batch_good fixed (y :: t) []) as Hg.
        destruct (run_batch fixed pok ms call [] (y :: t)) as [[[|r rs]|e'] l0]; cbn [fst] in Hg; try discriminate.
        cbn [dump] in H. rewrite andb_false_r in H. injection H as <- _.
        specialize (Hg (r :: rs) Hf eq_refl).
        change (forallb response_ok_b (map wire (r :: rs)) = true). apply forallb_wire. exact Hg.
  Qed.
End Wrapper.

(* ---- refutations: the code before the fix commits, and the remaining open finding ----- *)

Definition demo_mounts : mounts :=
  [(lit "o", mkObj false [(lit "pub", ACallable); (lit "_priv", ACallable); (lit "attr", APlain); (lit "uns", ACallable)]);
   (lit "f", mkObj true [(lit "__call__", ACallable)])].

Definition demo_call (l : log) (e : entry) (p : params) : call_result :=
  match e with
  | EAttr _ a => if str_eqb a (lit "uns") then CallUnserializable else CallOk (JInt (Z.of_nat (List.length l)))
  | EMount _ => CallOk JNull
  end.

Definition req (m : string) (id : option json) : json :=
  JObj ([(k_jsonrpc, JStr s_2_0); (k_method, JStr (lit m))]
        ++ match id with Some i => [(k_id, i)] | None => [] end).

Lemma total_refuted_id_array :
  exists pok ms call i, fst (handle_json pre_fix pok ms call i) = OEscaped EValidation.
Proof. exists (fun _ => true), demo_mounts, demo_call, (Parsed (req "o.pub" (Some (JArr [])))). reflexivity. Qed.

Lemma total_refuted_unknown_member :
  exists pok ms call i, fst (handle_json pre_fix pok ms call i) = OEscaped EValidation.
Proof.
  exists (fun _ => true), demo_mounts, demo_call,
    (Parsed (JArr [req "o.pub" (Some (JInt 1));
                   JObj [(k_jsonrpc, JStr s_2_0); (k_method, JStr (lit "o.pub")); (lit "x", JInt 1)]])).
  reflexivity.
Qed.

Lemma total_refuted_unserializable :
  exists pok ms call i, fst (handle_json pre_fix pok ms call i) = OEscaped ESerialization.
Proof. exists (fun _ => true), demo_mounts, demo_call, (Parsed (req "o.uns" (Some (JInt 1)))). reflexivity. Qed.

Lemma endpoint_total_refuted :
  exists pok ms call i, fst (endpoint pre_fix pok ms call false false i) = EpTransportError.
Proof. exists (fun _ => true), demo_mounts, demo_call, ParseFail. reflexivity. Qed.

(* still true of the current code: a non-finite float id (1e400, NaN) is answered by a
   success response whose id is null, which the response grammar forbids *)
Lemma conformant_refuted :
  exists pok ms call i j l, handle_json fixed pok ms call i = (OBytes j, l) /\ document_ok_b j = false.
Proof.
  exists (fun _ => true), demo_mounts, demo_call, (Parsed (req "o.pub" (Some (JFloat (lit "nan"))))).
  eexists. eexists. split; [vm_compute; reflexivity|]. vm_compute. reflexivity.
Qed.

(* ---- non-vacuity ---------------------------------------------------------------------- *)

Example nv_request :
  exists rq, validate (fun _ => true) (req "o.pub" (Some (JStr (lit "a")))) = VOk rq /\ r_id rq = Some (IdStr (lit "a")) /\
             get_method demo_mounts (r_method rq) = TCall (EAttr (lit "o") (lit "pub")).
Proof. eexists. split; [vm_compute; reflexivity|]. split; reflexivity. Qed.

Example nv_notification :
  exists rq, validate (fun _ => true) (req "o.pub" None) = VOk rq /\ r_id rq = None /\
             snd (handle_json fixed (fun _ => true) demo_mounts demo_call (Parsed (req "o.pub" None))) = [EAttr (lit "o") (lit "pub")].
Proof. eexists. split; [vm_compute; reflexivity|]. split; reflexivity. Qed.

Example nv_invalid : forall rq, validate (fun _ => true) (req "o.pub" (Some (JObj []))) <> VOk rq.
Proof. intros rq. vm_compute. discriminate. Qed.

Example nv_private :
  get_method demo_mounts (lit "o._priv") = TNotFound /\ get_method demo_mounts (lit "o.pub.__call__") = TNotFound /\
  get_method demo_mounts (lit "x.pub") = TNotFound /\ get_method demo_mounts (lit "o.attr") = TPlain /\
  get_method demo_mounts (lit "f") = TCall (EMount (lit "f")).
Proof. repeat split. Qed.

Example nv_batch :
  fst (handle_json fixed (fun _ => true) demo_mounts demo_call
         (Parsed (JArr [req "o.pub" (Some (JInt 1)); req "o.pub" None; JInt 5; req "o.uns" (Some (JStr (lit "b")));
                        req "o.pub" (Some (JInt 2))])))
  = OBytes (JArr [wire (mkResp (Some (IdInt 1)) (PResult (JInt 0)));
                  wire (mkResp None (PError E_INVALID d_text));
                  wire (mkResp (Some (IdStr (lit "b"))) PBad);
                  wire (mkResp (Some (IdInt 2)) (PResult (JInt 3)))]).
Proof. vm_compute. reflexivity. Qed.

Example nv_finite :
  input_ids_finite (Parsed (JArr [req "o.pub" (Some (JFloat (lit "1.5"))); req "o.pub" (Some (JInt 2))])) = true.
Proof. reflexivity. Qed.

(* a request whose params do not decode (a tagged object that is not a valid model) *)
Example nv_bad_params :
  handle_json fixed (fun _ => false) demo_mounts demo_call (Parsed (req "o.pub" (Some (JInt 1))))
  = (OBytes (error_doc None E_INVALID d_text), []).
Proof. reflexivity. Qed.
