(* Value semantics: == is reflexive and symmetric, equal values have equal hashes, and the
   laws of replace().  (Values.v) *)
From Coq Require Import ZArith List Bool String Lia Permutation.
From Common Require Import Str Res.
From Rpc Require Import Json Models Values Proofs_Models.
Import ListNotations.
Open Scope Z_scope.

(* ---- boolean equalities ------------------------------------------------------------- *)

Lemma opt_eqb_spec {A} (eqb : A -> A -> bool) :
  (forall x y, eqb x y = true <-> x = y) -> forall a b, opt_eqb eqb a b = true <-> a = b.
Proof.
  intros H [x|] [y|]; cbn; split; intros E; try discriminate; try reflexivity.
  - apply H in E. subst. reflexivity.
  - injection E as ->. apply H. reflexivity.
Qed.

Lemma ostr_eqb_eq a b : ostr_eqb a b = true <-> a = b.
Proof. apply opt_eqb_spec. exact str_eqb_eq. Qed.

Lemma oz_eqb_eq a b : oz_eqb a b = true <-> a = b.
Proof. apply opt_eqb_spec. intros x y. apply Z.eqb_eq. Qed.

Lemma artist_eqb_eq a b : artist_eqb a b = true <-> a = b.
Proof.
  unfold artist_eqb. split.
  - intros H. repeat (apply andb_true_iff in H; destruct H as [H ?]).
    apply ostr_eqb_eq in H, H0, H1, H2. destruct a, b. cbn in *. congruence.
  - intros ->. rewrite !(proj2 (ostr_eqb_eq _ _) eq_refl). reflexivity.
Qed.

Lemma memb_In {A} (eqb : A -> A -> bool) (H : forall x y, eqb x y = true <-> x = y) x l :
  memb eqb x l = true <-> In x l.
Proof.
  induction l as [|y l IH]; cbn; [split; [discriminate|intros []]|].
  rewrite orb_true_iff, IH, H. split; intros [E|E]; auto.
Qed.

Lemma nodupb_NoDup {A} (eqb : A -> A -> bool) (H : forall x y, eqb x y = true <-> x = y) l :
  nodupb eqb l = true -> NoDup l.
Proof.
  induction l as [|x l IH]; cbn; intros E; constructor.
  - apply andb_true_iff in E. destruct E as [E _]. apply negb_true_iff in E.
    intros Hin. apply (memb_In eqb H) in Hin. congruence.
  - apply IH. apply andb_true_iff in E. tauto.
Qed.

Lemma set_eqb_perm {A} (eqb : A -> A -> bool) (H : forall x y, eqb x y = true <-> x = y) l1 l2 :
  set_eqb eqb l1 l2 = true -> nodupb eqb l1 = true -> nodupb eqb l2 = true -> Permutation l1 l2.
Proof.
  unfold set_eqb. intros E N1 N2. apply andb_true_iff in E. destruct E as [E1 E2].
  rewrite forallb_forall in E1, E2.
  apply NoDup_Permutation; [exact (nodupb_NoDup eqb H l1 N1)|exact (nodupb_NoDup eqb H l2 N2)|].
  intros x. split; intros Hin; [apply E1 in Hin|apply E2 in Hin]; apply (memb_In eqb H) in Hin; exact Hin.
Qed.

Lemma set_hash_perm {A} (h : A -> Z) l1 l2 : Permutation l1 l2 -> set_hash h l1 = set_hash h l2.
Proof. unfold set_hash. induction 1; cbn; lia. Qed.

(* ---- equal values have equal hashes ---------------------------------------------------- *)

Lemma str_hash_eq a b : str_eqb a b = true -> str_hash a = str_hash b.
Proof. intros H. apply str_eqb_eq in H. subst. reflexivity. Qed.
Lemma ostr_hash_eq a b : ostr_eqb a b = true -> ostr_hash a = ostr_hash b.
Proof. intros H. apply ostr_eqb_eq in H. subst. reflexivity. Qed.
Lemma oz_hash_eq a b : oz_eqb a b = true -> oz_hash a = oz_hash b.
Proof. intros H. apply oz_eqb_eq in H. subst. reflexivity. Qed.
Lemma reftype_hash_eq a b : reftype_eqb a b = true -> reftype_hash a = reftype_hash b.
Proof. destruct a, b; cbn; intros H; try discriminate; reflexivity. Qed.

Lemma artists_hash_eq l1 l2 :
  set_eqb artist_eqb l1 l2 = true -> artists_wf l1 = true -> artists_wf l2 = true ->
  set_hash artist_hash l1 = set_hash artist_hash l2.
Proof.
  unfold artists_wf. intros E W1 W2. apply andb_true_iff in W1, W2.
  apply set_hash_perm. apply (set_eqb_perm artist_eqb artist_eqb_eq); tauto.
Qed.

Ltac split_eqb H := repeat (apply andb_true_iff in H; let H' := fresh "E" in destruct H as [H H']).

Ltac hash_hyps :=
  repeat match goal with
         | H : ostr_eqb _ _ = true |- _ => apply ostr_hash_eq in H
         | H : oz_eqb _ _ = true |- _ => apply oz_hash_eq in H
         | H : str_eqb _ _ = true |- _ => apply str_hash_eq in H
         | H : reftype_eqb _ _ = true |- _ => apply reftype_hash_eq in H
         end.

Lemma ref_hash_eq a b : ref_eqb a b = true -> ref_hash a = ref_hash b.
Proof. unfold ref_eqb, ref_hash. intros H. split_eqb H. hash_hyps. congruence. Qed.

Lemma image_hash_eq a b : image_eqb a b = true -> image_hash a = image_hash b.
Proof. unfold image_eqb, image_hash. intros H. split_eqb H. hash_hyps. congruence. Qed.

Lemma artist_hash_eq a b : artist_eqb a b = true -> artist_hash a = artist_hash b.
Proof. intros H. apply artist_eqb_eq in H. subst. reflexivity. Qed.

Ltac wf_hyps :=
  repeat match goal with
         | H : artists_wf _ = true |- _ => unfold artists_wf in H; apply andb_true_iff in H; destruct H
         end.

Ltac set_hyps :=
  repeat match goal with
         | H : set_eqb artist_eqb ?l1 ?l2 = true, N1 : nodupb artist_eqb ?l1 = true, N2 : nodupb artist_eqb ?l2 = true |- _ =>
             let Hs := fresh "Hs" in
             pose proof (set_hash_perm artist_hash l1 l2 (set_eqb_perm artist_eqb artist_eqb_eq l1 l2 H N1 N2)) as Hs; clear H
         end.

Lemma album_hash_eq a b : album_eqb a b = true -> album_wf a = true -> album_wf b = true -> album_hash a = album_hash b.
Proof.
  unfold album_eqb, album_wf, album_hash. intros H Wa Wb. split_eqb H. split_eqb Wa. split_eqb Wb.
  wf_hyps. set_hyps. hash_hyps. congruence.
Qed.

Lemma oalbum_hash_eq a b :
  opt_eqb album_eqb a b = true -> oalbum_wf a = true -> oalbum_wf b = true -> oalbum_hash a = oalbum_hash b.
Proof.
  destruct a as [x|], b as [y|]; cbn; intros H Wa Wb; try discriminate; [|reflexivity].
  rewrite (album_hash_eq x y H Wa Wb). reflexivity.
Qed.

Lemma track_hash_eq a b : track_eqb a b = true -> track_wf a = true -> track_wf b = true -> track_hash a = track_hash b.
Proof.
  unfold track_eqb, track_wf, track_hash. intros H Wa Wb. split_eqb H. split_eqb Wa. split_eqb Wb.
  wf_hyps. set_hyps.
  match goal with
  | Ha : opt_eqb album_eqb ?x ?y = true, W1 : oalbum_wf ?x = true, W2 : oalbum_wf ?y = true |- _ =>
      pose proof (oalbum_hash_eq x y Ha W1 W2) as Halb; clear Ha
  end.
  hash_hyps. congruence.
Qed.

Lemma list_hash_eq {A} (eqb : A -> A -> bool) (h : A -> Z) (P : A -> bool) :
  (forall x y, eqb x y = true -> P x = true -> P y = true -> h x = h y) ->
  forall l1 l2, list_eqb eqb l1 l2 = true -> forallb P l1 = true -> forallb P l2 = true ->
                list_hash h l1 = list_hash h l2.
Proof.
  intros Hh. induction l1 as [|x l1 IH]; intros [|y l2] E W1 W2; try discriminate; [reflexivity|].
  cbn in E, W1, W2. apply andb_true_iff in E, W1, W2. destruct E, W1, W2.
  change (h x + 31 * list_hash h l1 = h y + 31 * list_hash h l2). rewrite (Hh x y), (IH l2); auto.
Qed.

Ltac list_hyps :=
  repeat match goal with
         | H : list_eqb track_eqb ?l1 ?l2 = true, W1 : forallb track_wf ?l1 = true, W2 : forallb track_wf ?l2 = true |- _ =>
             let Hl := fresh "Hl" in
             pose proof (list_hash_eq track_eqb track_hash track_wf track_hash_eq l1 l2 H W1 W2) as Hl; clear H
         | H : list_eqb album_eqb ?l1 ?l2 = true, W1 : forallb album_wf ?l1 = true, W2 : forallb album_wf ?l2 = true |- _ =>
             let Hl := fresh "Hl" in
             pose proof (list_hash_eq album_eqb album_hash album_wf album_hash_eq l1 l2 H W1 W2) as Hl; clear H
         | H : list_eqb artist_eqb ?l1 ?l2 = true, W1 : forallb artist_wf ?l1 = true, W2 : forallb artist_wf ?l2 = true |- _ =>
             let Hl := fresh "Hl" in
             pose proof (list_hash_eq artist_eqb artist_hash artist_wf (fun x y e _ _ => artist_hash_eq x y e) l1 l2 H W1 W2) as Hl;
             clear H
         end.

Lemma tltrack_hash_eq a b : tltrack_eqb a b = true -> tltrack_wf a = true -> tltrack_wf b = true -> tltrack_hash a = tltrack_hash b.
Proof.
  unfold tltrack_eqb, tltrack_wf, tltrack_hash. intros H Wa Wb.
  apply andb_true_iff in H, Wa, Wb. destruct H as [Hid Ht], Wa as [_ Wa], Wb as [_ Wb].
  apply Z.eqb_eq in Hid. rewrite Hid, (track_hash_eq _ _ Ht Wa Wb). reflexivity.
Qed.

Lemma playlist_hash_eq a b : playlist_eqb a b = true -> playlist_wf a = true -> playlist_wf b = true -> playlist_hash a = playlist_hash b.
Proof.
  unfold playlist_eqb, playlist_wf, playlist_hash. intros H Wa Wb. split_eqb H. split_eqb Wa. split_eqb Wb.
  list_hyps. hash_hyps. congruence.
Qed.

Lemma searchresult_hash_eq a b :
  searchresult_eqb a b = true -> searchresult_wf a = true -> searchresult_wf b = true ->
  searchresult_hash a = searchresult_hash b.
Proof.
  unfold searchresult_eqb, searchresult_wf, searchresult_hash. intros H Wa Wb. split_eqb H. split_eqb Wa. split_eqb Wb.
  list_hyps. hash_hyps. congruence.
Qed.

Lemma eq_hash_lemma a b :
  model_eqb a b = true -> model_wf a = true -> model_wf b = true -> model_hash a = model_hash b.
Proof.
  destruct a, b; cbn [model_eqb model_wf model_hash]; intros E Wa Wb; try discriminate; f_equal.
  - apply ref_hash_eq; assumption.
  - apply image_hash_eq; assumption.
  - apply artist_hash_eq; assumption.
  - apply album_hash_eq; assumption.
  - apply track_hash_eq; assumption.
  - apply tltrack_hash_eq; assumption.
  - apply playlist_hash_eq; assumption.
  - apply searchresult_hash_eq; assumption.
Qed.

(* ---- == is reflexive and symmetric ------------------------------------------------------- *)

Lemma str_eqb_refl s : str_eqb s s = true.
Proof. apply str_eqb_eq. reflexivity. Qed.
Lemma ostr_eqb_refl o : ostr_eqb o o = true.
Proof. apply ostr_eqb_eq. reflexivity. Qed.
Lemma oz_eqb_refl o : oz_eqb o o = true.
Proof. apply oz_eqb_eq. reflexivity. Qed.
Lemma artist_eqb_refl a : artist_eqb a a = true.
Proof. apply artist_eqb_eq. reflexivity. Qed.

Lemma set_eqb_refl {A} (eqb : A -> A -> bool) (R : forall x, eqb x x = true) l : set_eqb eqb l l = true.
Proof.
  assert (H : forall l' x, In x l' -> memb eqb x l' = true).
  { induction l' as [|y l' IH]; intros x []; cbn; [subst; rewrite R; reflexivity|rewrite (IH x H), orb_true_r; reflexivity]. }
  unfold set_eqb. assert (F : forallb (fun x => memb eqb x l) l = true) by (apply forallb_forall; apply H).
  rewrite F. reflexivity.
Qed.

Lemma list_eqb_refl {A} (eqb : A -> A -> bool) (R : forall x, eqb x x = true) l : list_eqb eqb l l = true.
Proof. induction l as [|x l IH]; [reflexivity|]. cbn. rewrite R, IH. reflexivity. Qed.

Lemma album_eqb_refl a : album_eqb a a = true.
Proof. unfold album_eqb. rewrite !ostr_eqb_refl, !oz_eqb_refl, (set_eqb_refl _ artist_eqb_refl). reflexivity. Qed.

Lemma track_eqb_refl a : track_eqb a a = true.
Proof.
  unfold track_eqb. rewrite !ostr_eqb_refl, !oz_eqb_refl, !(set_eqb_refl _ artist_eqb_refl).
  destruct (tr_album a); cbn [opt_eqb]; rewrite ?album_eqb_refl; reflexivity.
Qed.

Lemma eq_refl_lemma m : model_eqb m m = true.
Proof.
  destruct m as [x|x|x|x|x|x|x|x]; cbn [model_eqb].
  - unfold ref_eqb. rewrite str_eqb_refl, ostr_eqb_refl. destruct (rf_type x); reflexivity.
  - unfold image_eqb. rewrite str_eqb_refl, !oz_eqb_refl. reflexivity.
  - apply artist_eqb_refl.
  - apply album_eqb_refl.
  - apply track_eqb_refl.
  - unfold tltrack_eqb. rewrite Z.eqb_refl, track_eqb_refl. reflexivity.
  - unfold playlist_eqb. rewrite !ostr_eqb_refl, oz_eqb_refl, (list_eqb_refl _ track_eqb_refl). reflexivity.
  - unfold searchresult_eqb.
    rewrite ostr_eqb_refl, (list_eqb_refl _ track_eqb_refl), (list_eqb_refl _ artist_eqb_refl), (list_eqb_refl _ album_eqb_refl).
    reflexivity.
Qed.

Lemma list_eqb_sym {A} (eqb : A -> A -> bool) (S : forall x y, eqb x y = eqb y x) l1 l2 :
  list_eqb eqb l1 l2 = list_eqb eqb l2 l1.
Proof. revert l2. induction l1 as [|x l1 IH]; intros [|y l2]; try reflexivity. cbn. rewrite S, IH. reflexivity. Qed.

Lemma str_eqb_sym a b : str_eqb a b = str_eqb b a.
Proof. apply list_eqb_sym. apply Z.eqb_sym. Qed.

Lemma opt_eqb_sym {A} (eqb : A -> A -> bool) (S : forall x y, eqb x y = eqb y x) a b : opt_eqb eqb a b = opt_eqb eqb b a.
Proof. destruct a, b; cbn; auto. Qed.

Lemma ostr_eqb_sym a b : ostr_eqb a b = ostr_eqb b a.
Proof. apply opt_eqb_sym. apply str_eqb_sym. Qed.
Lemma oz_eqb_sym a b : oz_eqb a b = oz_eqb b a.
Proof. apply opt_eqb_sym. apply Z.eqb_sym. Qed.
Lemma set_eqb_sym {A} (eqb : A -> A -> bool) l1 l2 : set_eqb eqb l1 l2 = set_eqb eqb l2 l1.
Proof. unfold set_eqb. apply andb_comm. Qed.

Lemma artist_eqb_sym a b : artist_eqb a b = artist_eqb b a.
Proof.
  unfold artist_eqb.
  rewrite (ostr_eqb_sym (ar_uri a)), (ostr_eqb_sym (ar_name a)), (ostr_eqb_sym (ar_sortname a)), (ostr_eqb_sym (ar_mbid a)).
  reflexivity.
Qed.

Lemma album_eqb_sym a b : album_eqb a b = album_eqb b a.
Proof.
  unfold album_eqb.
  rewrite (ostr_eqb_sym (al_uri a)), (ostr_eqb_sym (al_name a)), (set_eqb_sym _ (al_artists a)),
    (oz_eqb_sym (al_num_tracks a)), (oz_eqb_sym (al_num_discs a)), (ostr_eqb_sym (al_date a)), (ostr_eqb_sym (al_mbid a)).
  reflexivity.
Qed.

Lemma track_eqb_sym a b : track_eqb a b = track_eqb b a.
Proof.
  unfold track_eqb.
  rewrite (ostr_eqb_sym (tr_uri a)), (ostr_eqb_sym (tr_name a)), (set_eqb_sym _ (tr_artists a)),
    (opt_eqb_sym album_eqb album_eqb_sym (tr_album a)), (set_eqb_sym _ (tr_composers a)), (set_eqb_sym _ (tr_performers a)),
    (ostr_eqb_sym (tr_genre a)), (oz_eqb_sym (tr_track_no a)), (oz_eqb_sym (tr_disc_no a)), (ostr_eqb_sym (tr_date a)),
    (oz_eqb_sym (tr_length a)), (oz_eqb_sym (tr_bitrate a)), (ostr_eqb_sym (tr_comment a)), (ostr_eqb_sym (tr_mbid a)),
    (oz_eqb_sym (tr_last_modified a)).
  reflexivity.
Qed.

Lemma eq_sym_lemma a b : model_eqb a b = model_eqb b a.
Proof.
  destruct a as [x|x|x|x|x|x|x|x], b as [y|y|y|y|y|y|y|y]; cbn [model_eqb]; try reflexivity.
  - unfold ref_eqb. rewrite (str_eqb_sym (rf_uri x)), (ostr_eqb_sym (rf_name x)). destruct (rf_type x), (rf_type y); reflexivity.
  - unfold image_eqb. rewrite (str_eqb_sym (im_uri x)), (oz_eqb_sym (im_width x)), (oz_eqb_sym (im_height x)). reflexivity.
  - apply artist_eqb_sym.
  - apply album_eqb_sym.
  - apply track_eqb_sym.
  - unfold tltrack_eqb. rewrite (Z.eqb_sym (tl_tlid x)), (track_eqb_sym (tl_track x)). reflexivity.
  - unfold playlist_eqb.
    rewrite (ostr_eqb_sym (pl_uri x)), (ostr_eqb_sym (pl_name x)), (list_eqb_sym _ track_eqb_sym (pl_tracks x)),
      (oz_eqb_sym (pl_last_modified x)). reflexivity.
  - unfold searchresult_eqb.
    rewrite (ostr_eqb_sym (sr_uri x)), (list_eqb_sym _ track_eqb_sym (sr_tracks x)),
      (list_eqb_sym _ artist_eqb_sym (sr_artists x)), (list_eqb_sym _ album_eqb_sym (sr_albums x)). reflexivity.
Qed.

(* values of different classes are never equal; a value survives the wire as an equal one *)
Lemma eq_same_class a b : model_eqb a b = true -> class_name a = class_name b.
Proof. destruct a, b; cbn; intros H; try discriminate; reflexivity. Qed.

Lemma wire_eq_lemma lax ex m :
  model_wf m = true ->
  exists m', of_json lax (to_json ex m) = Ok m' /\ model_eqb m' m = true /\ model_hash m' = model_hash m.
Proof. intros H. exists m. rewrite (roundtrip_lemma lax ex m H), eq_refl_lemma. auto. Qed.

(* ---- replace() ------------------------------------------------------------------------------ *)

Section Replace.
  Variable lax : json -> option Z.

  Lemma members_to_json m : to_json true m = JObj (model_members m).
  Proof. unfold model_members. destruct (to_json_tag true m) as (o & Ho & _). rewrite Ho. reflexivity. Qed.

  (* replace() without updates returns the value itself *)
  Lemma replace_identity_lemma d m : model_wf m = true -> replace lax d m [] = Ok m.
  Proof.
    intros H. unfold replace, replace_dump. rewrite andb_false_r. cbn [app]. rewrite <- members_to_json, (of_json_as_roundtrip lax true m H). reflexivity.
  Qed.

  (* whatever replace() returns satisfies the field constraints and has the same class *)
  Lemma replace_sound_lemma d m upd m' : replace lax d m upd = Ok m' -> model_wf m' = true.
  Proof.
    unfold replace, replace_dump. rewrite andb_false_r.
    destruct (of_json_as lax (class_name m) (JObj (upd ++ model_members m))) as [r|] eqn:E; [|discriminate].
    intros ->. exact (of_json_as_sound lax _ _ _ E).
  Qed.

  Lemma of_json_as_class n j m : of_json_as lax n j = Some (Ok m) -> class_name m = n.
  Proof.
    unfold of_json_as.
    repeat match goal with |- context [if str_eqb n ?c then _ else _] => destruct (str_eqb n c) eqn:?E end; try discriminate;
      intros H; injection H as H; apply rmap_ok in H; destruct H as (x & _ & ->); cbn [class_name]; symmetry;
      apply str_eqb_eq; assumption.
  Qed.

  Lemma replace_class_lemma d m upd m' : replace lax d m upd = Ok m' -> class_name m' = class_name m.
  Proof.
    unfold replace, replace_dump. rewrite andb_false_r.
    destruct (of_json_as lax (class_name m) (JObj (upd ++ model_members m))) as [r|] eqn:E; [|discriminate].
    intros ->. exact (of_json_as_class _ _ _ E).
  Qed.

  (* an unknown field name is rejected (every class but TlTrack, whose __init__ swallows it) *)
  Lemma replace_unknown_artist a k v :
    mem_str k [k_model; k_uri; k_name; k_sortname; k_mbid] = false ->
    replace lax false (MArtist a) [(k, v)] = Raise EValidationError.
  Proof.
    intros Hk. unfold replace, replace_dump, of_json_as. cbn [class_name andb].
    replace (str_eqb n_Artist n_Ref) with false by reflexivity.
    replace (str_eqb n_Artist n_Image) with false by reflexivity.
    replace (str_eqb n_Artist n_Artist) with true by reflexivity.
    cbn [app]. unfold artist_of_json, keys_ok. cbn [forallb fst]. rewrite Hk. reflexivity.
  Qed.

  (* set-then-get for a plain field: replace(name=s) *)
  Lemma replace_artist_name d a s :
    artist_wf a = true ->
    replace lax d (MArtist a) [(k_name, JStr s)] = Ok (MArtist (mkArtist (ar_uri a) (Some s) (ar_sortname a) (ar_mbid a))).
  Proof.
    intros Hw. unfold replace, replace_dump, of_json_as. rewrite andb_false_r. cbn [class_name].
    replace (str_eqb n_Artist n_Ref) with false by reflexivity.
    replace (str_eqb n_Artist n_Image) with false by reflexivity.
    replace (str_eqb n_Artist n_Artist) with true by reflexivity.
    unfold model_members. cbn [to_json model_json artist_json app].
    match goal with |- context [render true ?s] => set (sl := s) end.
    assert (Hnd : keys_nodup (map fst sl) = true) by reflexivity.
    unfold artist_of_json, keys_ok, tag_ok. cbn [forallb fst lookup].
    replace (mem_str k_name [k_model; k_uri; k_name; k_sortname; k_mbid]) with true by reflexivity.
    fold (keys_ok [k_model; k_uri; k_name; k_sortname; k_mbid] (render true sl)).
    rewrite keys_ok_render by reflexivity.
    replace (str_eqb k_model k_name) with false by reflexivity.
    fold (tag_ok n_Artist (render true sl)). rewrite (tag_ok_render n_Artist true sl Hnd) by reflexivity.
    cbn [andb guard].
    unfold get_ostr at 1. cbn [lookup]. replace (str_eqb k_uri k_name) with false by reflexivity.
    fold (get_ostr (render true sl) k_uri). rewrite (get_ostr_render true sl Hnd k_uri (ar_uri a)) by reflexivity. cbn [rbind].
    unfold get_ostr at 1. cbn [lookup]. replace (str_eqb k_name k_name) with true by reflexivity. cbn [rbind].
    unfold get_ostr at 1. cbn [lookup]. replace (str_eqb k_sortname k_name) with false by reflexivity.
    fold (get_ostr (render true sl) k_sortname). rewrite (get_ostr_render true sl Hnd k_sortname (ar_sortname a)) by reflexivity. cbn [rbind].
    unfold get_ouuid. cbn [lookup]. replace (str_eqb k_mbid k_name) with false by reflexivity.
    fold (get_ouuid (render true sl) k_mbid). rewrite (get_ouuid_render true sl Hnd k_mbid (ar_mbid a)) by first [reflexivity|exact Hw].
    reflexivity.
  Qed.
End Replace.

(* the pinned code (dump by field name): on a value decoded from tagged JSON replace() raises,
   so the identity law failed there; fixed by the commit recorded in known_findings.json *)
Lemma replace_identity_refuted_when_decoded :
  exists m, model_wf m = true /\ forall lax, replace_pinned lax true m [] <> Ok m.
Proof. exists (MArtist (mkArtist None None None None)). split; [reflexivity|]. intros lax. discriminate. Qed.

Example nv_eq_sets :
  let a1 := mkArtist None (Some (lit "a")) None None in
  let a2 := mkArtist None (Some (lit "b")) None None in
  model_eqb (MAlbum (mkAlbum None None [a1; a2] None None None None)) (MAlbum (mkAlbum None None [a2; a1] None None None None)) = true
  /\ MAlbum (mkAlbum None None [a1; a2] None None None None) <> MAlbum (mkAlbum None None [a2; a1] None None None None)
  /\ model_eqb (MArtist a1) (MArtist a2) = false
  /\ model_eqb (MArtist (mkArtist None None None None)) (MAlbum (mkAlbum None None [] None None None None)) = false.
Proof. repeat split; try reflexivity. discriminate. Qed.

Example nv_replace :
  replace no_lax false demo_tl [(k_tlid, JInt 9)] = Ok (MTlTrack (mkTlTrack 9 demo_track)) /\
  replace no_lax false demo_tl [(k_tlid, JInt 0)] = Raise EValidationError /\
  replace no_lax false (MArtist demo_artist) [(lit "junk", JInt 1)] = Raise EValidationError.
Proof. repeat split; vm_compute; reflexivity. Qed.
