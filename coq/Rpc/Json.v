(* JSON values as produced by the byte->JSON oracle (pydantic_core.from_json) and as
   written by the serialisers.  Floats are opaque tokens: the model never computes on
   them, it only echoes and compares them.  A token is the text of Python's repr() of
   the float; the three non-finite tokens are the only ones the model distinguishes
   (pydantic's JSON serialiser writes them as null). *)
From Coq Require Import ZArith List Bool String Ascii.
From Common Require Import Str.
Import ListNotations.
Open Scope Z_scope.

(* string literal -> code points (ASCII literals only; used for member names) *)
Definition lit (s : string) : str :=
  List.map (fun a => Z.of_N (N_of_ascii a)) (list_ascii_of_string s).

Definition ftok := str.

Inductive json : Type :=
| JNull
| JBool (b : bool)
| JInt (z : Z)
| JFloat (t : ftok)
| JStr (s : str)
| JArr (l : list json)
| JObj (l : list (str * json)).

Definition tok_finite (t : ftok) : bool :=
  negb (str_eqb t (lit "nan") || str_eqb t (lit "inf") || str_eqb t (lit "-inf")).

(* dict lookup: first binding (the parser oracle hands over objects with unique keys) *)
Fixpoint lookup {A} (k : str) (l : list (str * A)) : option A :=
  match l with
  | [] => None
  | (k', v) :: t => if str_eqb k k' then Some v else lookup k t
  end.

Definition has_key {A} (k : str) (l : list (str * A)) : bool :=
  match lookup k l with Some _ => true | None => false end.

Fixpoint json_eqb (a b : json) {struct a} : bool :=
  match a, b with
  | JNull, JNull => true
  | JBool x, JBool y => Bool.eqb x y
  | JInt x, JInt y => x =? y
  | JFloat x, JFloat y => str_eqb x y
  | JStr x, JStr y => str_eqb x y
  | JArr x, JArr y =>
      (fix go (x y : list json) {struct x} : bool :=
         match x, y with
         | [], [] => true
         | a' :: x', b' :: y' => json_eqb a' b' && go x' y'
         | _, _ => false
         end) x y
  | JObj x, JObj y =>
      (fix go (x y : list (str * json)) {struct x} : bool :=
         match x, y with
         | [], [] => true
         | (k, a') :: x', (k', b') :: y' => str_eqb k k' && json_eqb a' b' && go x' y'
         | _, _ => false
         end) x y
  | _, _ => false
  end.

(* equality modulo the order of object members (what a JSON consumer can observe) *)
Fixpoint json_equiv (a b : json) {struct a} : bool :=
  match a, b with
  | JNull, JNull => true
  | JBool x, JBool y => Bool.eqb x y
  | JInt x, JInt y => x =? y
  | JFloat x, JFloat y => str_eqb x y
  | JStr x, JStr y => str_eqb x y
  | JArr x, JArr y =>
      (fix go (x y : list json) {struct x} : bool :=
         match x, y with
         | [], [] => true
         | a' :: x', b' :: y' => json_equiv a' b' && go x' y'
         | _, _ => false
         end) x y
  | JObj x, JObj y =>
      (Nat.eqb (List.length x) (List.length y)) &&
      (fix go (x : list (str * json)) {struct x} : bool :=
         match x with
         | [] => true
         | (k, a') :: x' =>
             match lookup k y with
             | Some b' => json_equiv a' b' && go x'
             | None => false
             end
         end) x
  | _, _ => false
  end.

(* equality modulo the order of object members and, for the arrays that come from
   frozenset fields (Album/Track.artists, Track.composers/performers), modulo the order of
   the elements: a Python set has no observable order *)
Definition set_member (k : str) (o : list (str * json)) : bool :=
  str_eqb k (lit "composers") || str_eqb k (lit "performers")
  || (str_eqb k (lit "artists") && negb (has_key (lit "albums") o) && negb (has_key (lit "tracks") o)).

Fixpoint json_equiv_sets (a b : json) {struct a} : bool :=
  match a, b with
  | JNull, JNull => true
  | JBool x, JBool y => Bool.eqb x y
  | JInt x, JInt y => x =? y
  | JFloat x, JFloat y => str_eqb x y
  | JStr x, JStr y => str_eqb x y
  | JArr x, JArr y =>
      (fix go (x y : list json) {struct x} : bool :=
         match x, y with
         | [], [] => true
         | a' :: x', b' :: y' => json_equiv_sets a' b' && go x' y'
         | _, _ => false
         end) x y
  | JObj x, JObj y =>
      (Nat.eqb (List.length x) (List.length y)) &&
      (fix go (x0 : list (str * json)) {struct x0} : bool :=
         match x0 with
         | [] => true
         | (k, a') :: x' =>
             match lookup k y with
             | Some b' =>
                 (if set_member k x
                  then match a', b' with
                       | JArr ea, JArr eb =>
                           Nat.eqb (List.length ea) (List.length eb) &&
                           (fix all (ea0 : list json) {struct ea0} : bool :=
                              match ea0 with
                              | [] => true
                              | e :: ea' => existsb (fun e' => json_equiv_sets e e') eb && all ea'
                              end) ea
                       | _, _ => json_equiv_sets a' b'
                       end
                  else json_equiv_sets a' b') && go x'
             | None => false
             end
         end) x
  | _, _ => false
  end.

Definition is_null (j : json) : bool := match j with JNull => true | _ => false end.

(* Induction principle that reaches inside arrays and objects. *)
Section JsonInd.
  Variable P : json -> Prop.
  Hypothesis Hnull : P JNull.
  Hypothesis Hbool : forall b, P (JBool b).
  Hypothesis Hint : forall z, P (JInt z).
  Hypothesis Hfloat : forall t, P (JFloat t).
  Hypothesis Hstr : forall s, P (JStr s).
  Hypothesis Harr : forall l, Forall P l -> P (JArr l).
  Hypothesis Hobj : forall l, Forall (fun kv => P (snd kv)) l -> P (JObj l).

  Fixpoint json_ind2 (j : json) : P j :=
    match j with
    | JNull => Hnull
    | JBool b => Hbool b
    | JInt z => Hint z
    | JFloat t => Hfloat t
    | JStr s => Hstr s
    | JArr l =>
        Harr l ((fix go (l : list json) : Forall P l :=
                   match l with
                   | [] => Forall_nil _
                   | x :: t => Forall_cons _ (json_ind2 x) (go t)
                   end) l)
    | JObj l =>
        Hobj l ((fix go (l : list (str * json)) : Forall (fun kv => P (snd kv)) l :=
                   match l with
                   | [] => Forall_nil _
                   | kv :: t => Forall_cons _ (json_ind2 (snd kv)) (go t)
                   end) l)
    end.
End JsonInd.
