(* Proofs about the model classes, their JSON forms and the parameter decoder (Models.v).
   Everything holds for every lax-int oracle. *)
From Coq Require Import ZArith List Bool String Lia.
From Common Require Import Str Res.
From Rpc Require Import Json Models.
Import ListNotations.
Open Scope Z_scope.

(* ---- association lists and rendered slots --------------------------------------------- *)

Fixpoint keys_nodup (l : list str) : bool :=
  match l with [] => true | k :: t => negb (mem_str k t) && keys_nodup t end.

Lemma lookup_app {A} k (a b : list (str * A)) :
  lookup k (a ++ b) = match lookup k a with Some v => Some v | None => lookup k b end.
Proof.
  induction a as [|[k' v] a IH]; [reflexivity|]. cbn [app lookup].
  destruct (str_eqb k k'); [reflexivity|exact IH].
Qed.

Lemma lookup_render_notin ex (sl : slots) k :
  mem_str k (map fst sl) = false -> lookup k (render ex sl) = None.
Proof.
  induction sl as [|[k' v] sl IH]; [reflexivity|]. cbn [map fst mem_str]. intros H.
  apply orb_false_iff in H. destruct H as [Hk Hm].
  unfold render. cbn [flat_map]. fold (render ex sl). rewrite lookup_app, (IH Hm).
  cbn [fst snd]. destruct v as [j|]; [|destruct ex]; cbn [lookup]; rewrite ?Hk; reflexivity.
Qed.

Lemma lookup_render ex (sl : slots) k :
  keys_nodup (map fst sl) = true ->
  lookup k (render ex sl) =
  match lookup k sl with
  | Some (Some j) => Some j
  | Some None => if ex then None else Some JNull
  | None => None
  end.
Proof.
  induction sl as [|[k' v] sl IH]; [reflexivity|]. cbn [map fst keys_nodup]. intros H.
  apply andb_true_iff in H. destruct H as [Hn Hk]. apply negb_true_iff in Hn.
  unfold render. cbn [flat_map]. fold (render ex sl). rewrite lookup_app. cbn [fst snd lookup].
  destruct (str_eqb k k') eqn:E.
  - apply str_eqb_eq in E. subst k'.
    destruct v as [j|]; [|destruct ex]; cbn [lookup];
      rewrite ?(proj2 (str_eqb_eq k k) eq_refl); try reflexivity.
    apply lookup_render_notin. exact Hn.
  - rewrite <- (IH Hk). destruct v as [j|]; [|destruct ex]; cbn [lookup]; rewrite ?E; reflexivity.
Qed.

Lemma keys_ok_render allowed ex (sl : slots) :
  forallb (fun s => mem_str (fst s) allowed) sl = true -> keys_ok allowed (render ex sl) = true.
Proof.
  unfold keys_ok. induction sl as [|[k v] sl IH]; [reflexivity|]. cbn [forallb fst]. intros H.
  apply andb_true_iff in H. destruct H as [Hk Hs].
  unfold render. cbn [flat_map]. fold (render ex sl). rewrite forallb_app, (IH Hs), andb_true_r.
  cbn [fst snd]. destruct v as [j|]; [|destruct ex]; cbn [forallb fst]; rewrite ?Hk; reflexivity.
Qed.

Lemma tag_ok_render n ex (sl : slots) :
  keys_nodup (map fst sl) = true -> lookup k_model sl = Some (Some (JStr n)) ->
  tag_ok n (render ex sl) = true.
Proof.
  intros Hn Hl. unfold tag_ok. rewrite (lookup_render ex sl k_model Hn), Hl.
  change (str_eqb n n = true). apply str_eqb_eq. reflexivity.
Qed.

(* ---- field constraints ------------------------------------------------------------------ *)

Lemma is_lhex_lower c : is_lhex c = true -> lower_hex c = c.
Proof. unfold is_lhex, lower_hex. intros H. destruct ((65 <=? c) && (c <=? 70)) eqn:E; [lia|reflexivity]. Qed.

Lemma shape_ok_lower p : forall s, shape_ok p s = true -> map lower_hex s = s.
Proof.
  induction p as [|b p IH]; intros [|c s] H; try reflexivity.
  - cbn in H. discriminate.
  - cbn [shape_ok] in H. destruct b; apply andb_true_iff in H; destruct H as [Hc Hs];
      cbn [map]; rewrite (IH s Hs); f_equal.
    + apply Z.eqb_eq in Hc. subst c. reflexivity.
    + apply is_lhex_lower. exact Hc.
Qed.

Lemma uuid_parse_canon u : is_canon_uuid u = true -> uuid_parse u = Some u.
Proof.
  intros H. unfold uuid_parse. rewrite (shape_ok_lower _ _ H).
  unfold is_canon_uuid in *. rewrite H. reflexivity.
Qed.

Lemma uuid_parse_sound s u : uuid_parse s = Some u -> is_canon_uuid u = true.
Proof.
  unfold uuid_parse.
  destruct (is_canon_uuid (map lower_hex s)) eqn:E1; [intros H; injection H as <-; exact E1|].
  destruct (Nat.eqb (List.length (map lower_hex s)) 32 && is_canon_uuid (hyphenate (map lower_hex s))) eqn:E2.
  { intros H. injection H as <-. apply andb_true_iff in E2. tauto. }
  destruct (starts_with (lit "urn:uuid:") s && is_canon_uuid (skipn 9 (map lower_hex s))) eqn:E3.
  { intros H. injection H as <-. apply andb_true_iff in E3. tauto. }
  destruct (map lower_hex s) as [|c t]; [discriminate|].
  destruct (c =? 123) eqn:Ec.
  - apply Z.eqb_eq in Ec. subst c. destruct (rev t) as [|d r]; [discriminate|].
    destruct (d =? 125) eqn:Ed.
    + apply Z.eqb_eq in Ed. subst d. destruct (is_canon_uuid (rev r)) eqn:E4; [|discriminate].
      intros H. injection H as <-. exact E4.
    + intros H. exfalso. revert H. clear -Ed.
      destruct d as [|p|p]; try discriminate.
      do 7 (destruct p as [p|p|]; try discriminate). all: cbn in Ed; try discriminate.
  - intros H. exfalso. revert H. clear -Ec.
    destruct c as [|p|p]; try discriminate.
    do 7 (destruct p as [p|p|]; try discriminate). all: cbn in Ec; try discriminate.
Qed.

(* ---- getters on rendered slots -------------------------------------------------------------- *)

Section Getters.
  Variable lax : json -> option Z.
  Variable ex : bool.
  Variable sl : slots.
  Hypothesis Hnd : keys_nodup (map fst sl) = true.

  Lemma get_ostr_render k v : lookup k sl = Some (s_str v) -> get_ostr (render ex sl) k = Ok v.
  Proof.
    intros H. unfold get_ostr. rewrite (lookup_render ex sl k Hnd), H.
    destruct v; [reflexivity|destruct ex; reflexivity].
  Qed.

  Lemma get_str_render k s : lookup k sl = Some (Some (JStr s)) -> get_str (render ex sl) k = Ok s.
  Proof. intros H. unfold get_str. rewrite (lookup_render ex sl k Hnd), H. reflexivity. Qed.

  Lemma get_oint_render lo k v :
    lookup k sl = Some (s_int v) ->
    match lo, v with Some m, Some z => m <=? z = true | _, _ => True end ->
    get_oint lax lo (render ex sl) k = Ok v.
  Proof.
    intros H Hc. unfold get_oint. rewrite (lookup_render ex sl k Hnd), H.
    destruct v as [z|]; [|destruct ex; reflexivity]. cbn [s_int option_map int_of].
    destruct lo as [m|]; [rewrite Hc|]; reflexivity.
  Qed.

  Lemma get_odate_render k v : lookup k sl = Some (s_str v) -> date_wf v = true -> get_odate (render ex sl) k = Ok v.
  Proof.
    intros H Hd. unfold get_odate. rewrite (lookup_render ex sl k Hnd), H.
    destruct v as [s|]; [|destruct ex; reflexivity]. cbn [s_str option_map]. cbn in Hd. rewrite Hd. reflexivity.
  Qed.

  Lemma get_ouuid_render k v : lookup k sl = Some (s_str v) -> uuid_wf v = true -> get_ouuid (render ex sl) k = Ok v.
  Proof.
    intros H Hd. unfold get_ouuid. rewrite (lookup_render ex sl k Hnd), H.
    destruct v as [s|]; [|destruct ex; reflexivity]. cbn [s_str option_map]. cbn in Hd.
    rewrite (uuid_parse_canon s Hd). reflexivity.
  Qed.

  Lemma get_list_render {A} (f : json -> vres A) (g : A -> json) k l :
    lookup k sl = Some (Some (JArr (map g l))) -> map_res f (map g l) = Ok l ->
    get_list f (render ex sl) k = Ok l.
  Proof. intros H Hm. unfold get_list. rewrite (lookup_render ex sl k Hnd), H. exact Hm. Qed.

  Lemma get_omodel_render {A} (f : json -> vres A) (g : A -> list (str * json)) k (v : option A) :
    lookup k sl = Some (option_map (fun x => JObj (g x)) v) ->
    (forall x, v = Some x -> f (JObj (g x)) = Ok x) ->
    get_omodel f (render ex sl) k = Ok v.
  Proof.
    intros H Hf. unfold get_omodel. rewrite (lookup_render ex sl k Hnd), H.
    destruct v as [x|]; [|destruct ex; reflexivity]. cbn [option_map]. rewrite (Hf x eq_refl). reflexivity.
  Qed.
End Getters.

Lemma map_res_roundtrip {A} (f : json -> vres A) (g : A -> json) (P : A -> bool) l :
  (forall x, P x = true -> f (g x) = Ok x) -> forallb P l = true -> map_res f (map g l) = Ok l.
Proof.
  intros Hf. induction l as [|x l IH]; [reflexivity|]. cbn [forallb map map_res]. intros H.
  apply andb_true_iff in H. destruct H as [Hx Hl]. rewrite (Hf x Hx). cbn [rbind]. rewrite (IH Hl). reflexivity.
Qed.

Lemma dedup_nodup {A} (eqb : A -> A -> bool) l : nodupb eqb l = true -> dedup eqb l = l.
Proof.
  induction l as [|x l IH]; [reflexivity|]. cbn [nodupb dedup]. intros H.
  apply andb_true_iff in H. destruct H as [Hx Hl]. apply negb_true_iff in Hx. rewrite Hx, (IH Hl). reflexivity.
Qed.

Lemma memb_dedup {A} (eqb : A -> A -> bool) x l : memb eqb x (dedup eqb l) = true -> memb eqb x l = true.
Proof.
  induction l as [|y l IH]; [discriminate|]. cbn [dedup memb].
  destruct (memb eqb y l) eqn:E.
  - intros H. rewrite (IH H). apply orb_true_r.
  - cbn [memb]. intros H. apply orb_true_iff in H. destruct H as [H|H]; [rewrite H; reflexivity|].
    rewrite (IH H). apply orb_true_r.
Qed.

Lemma nodupb_dedup {A} (eqb : A -> A -> bool) l : nodupb eqb (dedup eqb l) = true.
Proof.
  induction l as [|x l IH]; [reflexivity|]. cbn [dedup].
  destruct (memb eqb x l) eqn:E; [exact IH|]. cbn [nodupb]. rewrite IH, andb_true_r.
  apply negb_true_iff. destruct (memb eqb x (dedup eqb l)) eqn:E2; [|reflexivity].
  apply memb_dedup in E2. congruence.
Qed.

Lemma forallb_dedup {A} (eqb : A -> A -> bool) (P : A -> bool) l : forallb P l = true -> forallb P (dedup eqb l) = true.
Proof.
  induction l as [|x l IH]; [reflexivity|]. cbn [forallb dedup]. intros H.
  apply andb_true_iff in H. destruct H as [Hx Hl].
  destruct (memb eqb x l); [exact (IH Hl)|]. cbn [forallb]. rewrite Hx, (IH Hl). reflexivity.
Qed.

Lemma map_res_sound {A} (f : json -> vres A) (P : A -> bool) :
  (forall j x, f j = Ok x -> P x = true) -> forall l r, map_res f l = Ok r -> forallb P r = true.
Proof.
  intros Hf. induction l as [|j l IH]; intros r H.
  - injection H as <-. reflexivity.
  - cbn [map_res] in H. destruct (f j) as [x|e|] eqn:E; cbn [rbind] in H; try discriminate.
    destruct (map_res f l) as [xs|e|] eqn:El; cbn [rbind] in H; try discriminate.
    injection H as <-. cbn [forallb]. rewrite (Hf j x E), (IH xs eq_refl). reflexivity.
Qed.

Lemma nonneg_cond v :
  nonneg v = true -> match Some 0, v with Some m, Some z => (m <=? z) = true | _, _ => True end.
Proof. destruct v; cbn; auto. Qed.

(* ---- T1 round trip -------------------------------------------------------------------------- *)

Section Roundtrip.
  Variable lax : json -> option Z.
  Variable ex : bool.

  Ltac slot := first [reflexivity | assumption].

  Lemma ref_roundtrip m : ref_of_json (ref_json k_model ex m) = Ok m.
  Proof.
    unfold ref_json, ref_of_json.
    match goal with |- context [render ex ?s] => set (sl := s) end.
    assert (Hnd : keys_nodup (map fst sl) = true) by reflexivity.
    rewrite keys_ok_render by reflexivity. rewrite (tag_ok_render n_Ref ex sl Hnd) by reflexivity.
    cbn [andb guard].
    rewrite (get_str_render ex sl Hnd k_uri (rf_uri m)) by slot. cbn [rbind].
    rewrite (get_ostr_render ex sl Hnd k_name (rf_name m)) by slot. cbn [rbind].
    rewrite (lookup_render ex sl k_type Hnd).
    replace (lookup k_type sl) with (Some (Some (JStr (reftype_str (rf_type m))))) by reflexivity.
    destruct m as [u n []]; reflexivity.
  Qed.

  Lemma image_roundtrip m : image_wf m = true -> image_of_json lax (image_json k_model ex m) = Ok m.
  Proof.
    unfold image_wf. intros H. apply andb_true_iff in H. destruct H as [Hw Hh].
    unfold image_json, image_of_json.
    match goal with |- context [render ex ?s] => set (sl := s) end.
    assert (Hnd : keys_nodup (map fst sl) = true) by reflexivity.
    rewrite keys_ok_render by reflexivity. rewrite (tag_ok_render n_Image ex sl Hnd) by reflexivity.
    cbn [andb guard].
    rewrite (get_str_render ex sl Hnd k_uri (im_uri m)) by slot. cbn [rbind].
    rewrite (get_oint_render lax ex sl Hnd (Some 0) k_width (im_width m)) by first [reflexivity | apply nonneg_cond; assumption].
    cbn [rbind].
    rewrite (get_oint_render lax ex sl Hnd (Some 0) k_height (im_height m)) by first [reflexivity | apply nonneg_cond; assumption].
    cbn [rbind]. destruct m; reflexivity.
  Qed.

  Lemma artist_roundtrip m : artist_wf m = true -> artist_of_json (artist_json k_model ex m) = Ok m.
  Proof.
    unfold artist_wf. intros Hu.
    unfold artist_json, artist_of_json.
    match goal with |- context [render ex ?s] => set (sl := s) end.
    assert (Hnd : keys_nodup (map fst sl) = true) by reflexivity.
    rewrite keys_ok_render by reflexivity. rewrite (tag_ok_render n_Artist ex sl Hnd) by reflexivity.
    cbn [andb guard].
    rewrite (get_ostr_render ex sl Hnd k_uri (ar_uri m)) by slot. cbn [rbind].
    rewrite (get_ostr_render ex sl Hnd k_name (ar_name m)) by slot. cbn [rbind].
    rewrite (get_ostr_render ex sl Hnd k_sortname (ar_sortname m)) by slot. cbn [rbind].
    rewrite (get_ouuid_render ex sl Hnd k_mbid (ar_mbid m)) by slot. cbn [rbind].
    destruct m; reflexivity.
  Qed.

  Lemma artists_roundtrip sl (Hnd : keys_nodup (map fst sl) = true) k l :
    lookup k sl = Some (Some (JArr (map (artist_json k_model ex) l))) ->
    forallb artist_wf l = true -> nodupb artist_eqb l = true ->
    get_artists (render ex sl) k = Ok l.
  Proof.
    intros H Hf Hn.
    unfold get_artists.
    rewrite (get_list_render ex sl Hnd artist_of_json (artist_json k_model ex) k l H
               (map_res_roundtrip _ _ artist_wf l artist_roundtrip Hf)).
    cbn [rbind]. rewrite (dedup_nodup _ _ Hn). reflexivity.
  Qed.

  Ltac nn := first [reflexivity | apply nonneg_cond; assumption].

  Lemma album_roundtrip m : album_wf m = true -> album_of_json lax (album_json k_model ex m) = Ok m.
  Proof.
    unfold album_wf. intros H. repeat (apply andb_true_iff in H; destruct H as [H ?]).
    unfold album_json, album_of_json.
    match goal with |- context [render ex ?s] => set (sl := s) end.
    assert (Hnd : keys_nodup (map fst sl) = true) by reflexivity.
    rewrite keys_ok_render by reflexivity. rewrite (tag_ok_render n_Album ex sl Hnd) by reflexivity.
    cbn [andb guard].
    rewrite (get_ostr_render ex sl Hnd k_uri (al_uri m)) by slot. cbn [rbind].
    rewrite (get_ostr_render ex sl Hnd k_name (al_name m)) by slot. cbn [rbind].
    rewrite (artists_roundtrip sl Hnd k_artists (al_artists m)) by slot. cbn [rbind].
    rewrite (get_oint_render lax ex sl Hnd (Some 0) k_num_tracks (al_num_tracks m)) by nn. cbn [rbind].
    rewrite (get_oint_render lax ex sl Hnd (Some 0) k_num_discs (al_num_discs m)) by nn. cbn [rbind].
    rewrite (get_odate_render ex sl Hnd k_date (al_date m)) by slot. cbn [rbind].
    rewrite (get_ouuid_render ex sl Hnd k_mbid (al_mbid m)) by slot. cbn [rbind].
    destruct m; reflexivity.
  Qed.

  Lemma track_roundtrip m : track_wf m = true -> track_of_json lax (track_json k_model ex m) = Ok m.
  Proof.
    unfold track_wf. intros H. repeat (apply andb_true_iff in H; destruct H as [H ?]).
    repeat match goal with
           | Hx : artists_wf _ = true |- _ => unfold artists_wf in Hx; apply andb_true_iff in Hx; destruct Hx
           end.
    unfold track_json, track_of_json.
    match goal with |- context [render ex ?s] => set (sl := s) end.
    assert (Hnd : keys_nodup (map fst sl) = true) by reflexivity.
    rewrite keys_ok_render by reflexivity. rewrite (tag_ok_render n_Track ex sl Hnd) by reflexivity.
    cbn [andb guard].
    rewrite (get_ostr_render ex sl Hnd k_uri (tr_uri m)) by slot. cbn [rbind].
    rewrite (get_ostr_render ex sl Hnd k_name (tr_name m)) by slot. cbn [rbind].
    rewrite (artists_roundtrip sl Hnd k_artists (tr_artists m)) by slot. cbn [rbind].
    rewrite (get_omodel_render ex sl Hnd (album_of_json lax)
               (fun a => match album_json k_model ex a with JObj o => o | _ => [] end) k_album (tr_album m)).
    2: { destruct (tr_album m); reflexivity. }
    2: { intros x Hx. rewrite Hx in *. apply (album_roundtrip x). assumption. }
    cbn [rbind].
    rewrite (artists_roundtrip sl Hnd k_composers (tr_composers m)) by slot. cbn [rbind].
    rewrite (artists_roundtrip sl Hnd k_performers (tr_performers m)) by slot. cbn [rbind].
    rewrite (get_ostr_render ex sl Hnd k_genre (tr_genre m)) by slot. cbn [rbind].
    rewrite (get_oint_render lax ex sl Hnd (Some 0) k_track_no (tr_track_no m)) by nn. cbn [rbind].
    rewrite (get_oint_render lax ex sl Hnd (Some 0) k_disc_no (tr_disc_no m)) by nn. cbn [rbind].
    rewrite (get_odate_render ex sl Hnd k_date (tr_date m)) by slot. cbn [rbind].
    rewrite (get_oint_render lax ex sl Hnd None k_length (tr_length m)) by first [reflexivity | exact I]. cbn [rbind].
    rewrite (get_oint_render lax ex sl Hnd (Some 0) k_bitrate (tr_bitrate m)) by nn. cbn [rbind].
    rewrite (get_ostr_render ex sl Hnd k_comment (tr_comment m)) by slot. cbn [rbind].
    rewrite (get_ouuid_render ex sl Hnd k_mbid (tr_mbid m)) by slot. cbn [rbind].
    rewrite (get_oint_render lax ex sl Hnd (Some 0) k_last_modified (tr_last_modified m)) by nn. cbn [rbind].
    destruct m; reflexivity.
  Qed.

  Lemma tltrack_roundtrip m : tltrack_wf m = true -> tltrack_of_json lax (tltrack_json k_model ex m) = Ok m.
  Proof.
    unfold tltrack_wf. intros H. apply andb_true_iff in H. destruct H as [Hid Ht].
    unfold tltrack_json, tltrack_of_json.
    match goal with |- context [render ex ?s] => set (sl := s) end.
    assert (Hnd : keys_nodup (map fst sl) = true) by reflexivity.
    rewrite (lookup_render ex sl k_tlid Hnd), (lookup_render ex sl k_track Hnd).
    replace (lookup k_tlid sl) with (Some (Some (JInt (tl_tlid m)))) by reflexivity.
    replace (lookup k_track sl) with (Some (Some (track_json k_model ex (tl_track m)))) by reflexivity.
    cbn [int_of]. rewrite Hid, (track_roundtrip _ Ht). cbn [rbind]. destruct m; reflexivity.
  Qed.

  Lemma playlist_roundtrip m : playlist_wf m = true -> playlist_of_json lax (playlist_json k_model ex m) = Ok m.
  Proof.
    unfold playlist_wf. intros H. apply andb_true_iff in H. destruct H as [Ht Hl].
    unfold playlist_json, playlist_of_json.
    match goal with |- context [render ex ?s] => set (sl := s) end.
    assert (Hnd : keys_nodup (map fst sl) = true) by reflexivity.
    rewrite keys_ok_render by reflexivity. rewrite (tag_ok_render n_Playlist ex sl Hnd) by reflexivity.
    cbn [andb guard].
    rewrite (get_ostr_render ex sl Hnd k_uri (pl_uri m)) by slot. cbn [rbind].
    rewrite (get_ostr_render ex sl Hnd k_name (pl_name m)) by slot. cbn [rbind].
    rewrite (get_list_render ex sl Hnd (track_of_json lax) (track_json k_model ex) k_tracks (pl_tracks m) eq_refl
               (map_res_roundtrip _ _ track_wf _ track_roundtrip Ht)). cbn [rbind].
    rewrite (get_oint_render lax ex sl Hnd (Some 0) k_last_modified (pl_last_modified m)) by nn. cbn [rbind].
    destruct m; reflexivity.
  Qed.

  Lemma searchresult_roundtrip m :
    searchresult_wf m = true -> searchresult_of_json lax (searchresult_json k_model ex m) = Ok m.
  Proof.
    unfold searchresult_wf. intros H. repeat (apply andb_true_iff in H; destruct H as [H ?]).
    unfold searchresult_json, searchresult_of_json.
    match goal with |- context [render ex ?s] => set (sl := s) end.
    assert (Hnd : keys_nodup (map fst sl) = true) by reflexivity.
    rewrite keys_ok_render by reflexivity. rewrite (tag_ok_render n_SearchResult ex sl Hnd) by reflexivity.
    cbn [andb guard].
    rewrite (get_ostr_render ex sl Hnd k_uri (sr_uri m)) by slot. cbn [rbind].
    rewrite (get_list_render ex sl Hnd (track_of_json lax) (track_json k_model ex) k_tracks (sr_tracks m) eq_refl
               (map_res_roundtrip _ _ track_wf _ track_roundtrip H)). cbn [rbind].
    rewrite (get_list_render ex sl Hnd artist_of_json (artist_json k_model ex) k_artists (sr_artists m) eq_refl
               (map_res_roundtrip _ _ artist_wf _ artist_roundtrip H1)). cbn [rbind].
    rewrite (get_list_render ex sl Hnd (album_of_json lax) (album_json k_model ex) k_albums (sr_albums m) eq_refl
               (map_res_roundtrip _ _ album_wf _ album_roundtrip H0)). cbn [rbind].
    destruct m; reflexivity.
  Qed.

  (* the tag of the JSON form *)
  Lemma to_json_tag m :
    exists o, to_json ex m = JObj o /\ lookup k_model o = Some (JStr (class_name m)).
  Proof.
    destruct m; eexists; (split; [reflexivity|]);
      match goal with |- lookup k_model (render ex ?s) = _ => rewrite (lookup_render ex s k_model eq_refl) end;
      reflexivity.
  Qed.

  Lemma of_json_as_roundtrip m :
    model_wf m = true -> of_json_as lax (class_name m) (to_json ex m) = Some (Ok m).
  Proof.
    intros Hw. destruct m as [x|x|x|x|x|x|x|x]; cbn [class_name model_wf to_json model_json] in *;
      unfold of_json_as; cbn [str_eqb list_eqb n_Ref n_Image n_Artist n_Album n_Track n_TlTrack n_Playlist n_SearchResult].
    - change (Some (rmap MRef (ref_of_json (ref_json k_model ex x))) = Some (Ok (MRef x))).
      rewrite ref_roundtrip. reflexivity.
    - change (Some (rmap MImage (image_of_json lax (image_json k_model ex x))) = Some (Ok (MImage x))).
      rewrite (image_roundtrip x Hw). reflexivity.
    - change (Some (rmap MArtist (artist_of_json (artist_json k_model ex x))) = Some (Ok (MArtist x))).
      rewrite (artist_roundtrip x Hw). reflexivity.
    - change (Some (rmap MAlbum (album_of_json lax (album_json k_model ex x))) = Some (Ok (MAlbum x))).
      rewrite (album_roundtrip x Hw). reflexivity.
    - change (Some (rmap MTrack (track_of_json lax (track_json k_model ex x))) = Some (Ok (MTrack x))).
      rewrite (track_roundtrip x Hw). reflexivity.
    - change (Some (rmap MTlTrack (tltrack_of_json lax (tltrack_json k_model ex x))) = Some (Ok (MTlTrack x))).
      rewrite (tltrack_roundtrip x Hw). reflexivity.
    - change (Some (rmap MPlaylist (playlist_of_json lax (playlist_json k_model ex x))) = Some (Ok (MPlaylist x))).
      rewrite (playlist_roundtrip x Hw). reflexivity.
    - change (Some (rmap MSearchResult (searchresult_of_json lax (searchresult_json k_model ex x))) = Some (Ok (MSearchResult x))).
      rewrite (searchresult_roundtrip x Hw). reflexivity.
  Qed.

  (* T1 *)
  Lemma roundtrip_lemma m : model_wf m = true -> of_json lax (to_json ex m) = Ok m.
  Proof.
    intros Hw. destruct (to_json_tag m) as (o & Ho & Ht). unfold of_json. rewrite Ho, Ht, <- Ho.
    rewrite (of_json_as_roundtrip m Hw). reflexivity.
  Qed.

  (* T4, tagged half *)
  Lemma decode_model_lemma m : model_wf m = true -> decode lax (to_json ex m) = Ok (PvModel m).
  Proof.
    intros Hw. destruct (to_json_tag m) as (o & Ho & Ht). rewrite Ho. cbn [decode].
    unfold decode_tag. rewrite Ht, <- Ho, (of_json_as_roundtrip m Hw). reflexivity.
  Qed.
End Roundtrip.

(* ---- T2 validation is sound: what of_json accepts satisfies the constraints -------------------- *)

Section Sound.
  Variable lax : json -> option Z.

  Lemma get_oint_sound o k v : get_oint lax (Some 0) o k = Ok v -> nonneg v = true.
  Proof.
    unfold get_oint. destruct (lookup k o) as [j|]; [|intros H; injection H as <-; reflexivity].
    destruct j; try (intros H; injection H as <-; reflexivity);
      destruct (int_of lax _) as [zz|]; try discriminate;
      destruct (0 <=? zz) eqn:E; try discriminate; intros H; injection H as <-; exact E.
  Qed.

  Lemma get_odate_sound o k v : get_odate o k = Ok v -> date_wf v = true.
  Proof.
    unfold get_odate. destruct (lookup k o) as [j|]; [|intros H; injection H as <-; reflexivity].
    destruct j; try discriminate; try (intros H; injection H as <-; reflexivity).
    destruct (date_ok s) eqn:E; [|discriminate]. intros H. injection H as <-. exact E.
  Qed.

  Lemma get_ouuid_sound o k v : get_ouuid o k = Ok v -> uuid_wf v = true.
  Proof.
    unfold get_ouuid. destruct (lookup k o) as [j|]; [|intros H; injection H as <-; reflexivity].
    destruct j; try discriminate; try (intros H; injection H as <-; reflexivity).
    destruct (uuid_parse s) as [u|] eqn:E; [|discriminate]. intros H. injection H as <-.
    exact (uuid_parse_sound s u E).
  Qed.

  Lemma get_list_sound {A} (f : json -> vres A) (P : A -> bool) o k l :
    (forall j x, f j = Ok x -> P x = true) -> get_list f o k = Ok l -> forallb P l = true.
  Proof.
    intros Hf. unfold get_list. destruct (lookup k o) as [j|]; [|intros H; injection H as <-; reflexivity].
    destruct j; try discriminate. apply (map_res_sound f P Hf).
  Qed.

  Lemma get_omodel_sound {A} (f : json -> vres A) (P : A -> bool) o k v :
    (forall j x, f j = Ok x -> P x = true) -> get_omodel f o k = Ok v ->
    match v with Some x => P x | None => true end = true.
  Proof.
    intros Hf. unfold get_omodel. destruct (lookup k o) as [j|]; [|intros H; injection H as <-; reflexivity].
    destruct j; try (intros H; injection H as <-; reflexivity);
      match goal with |- rbind (f ?j) _ = _ -> _ => destruct (f j) as [x|e|] eqn:E end;
      cbn [rbind]; try discriminate; intros H; injection H as <-; exact (Hf _ _ E).
  Qed.

  (* peel one [rbind (getter) (fun v => ...)] off a hypothesis [H : ... = Ok m] *)
  Ltac peel H :=
    match type of H with
    | rbind ?g _ = Ok _ =>
        let E := fresh "E" in destruct g eqn:E; cbn [rbind] in H; [|discriminate H..]
    end.

  Ltac open_obj H j :=
    destruct j as [| | | | | |o]; try discriminate H;
    match type of H with guard ?c _ = _ => destruct c; cbn [guard] in H; [|discriminate H] end.

  Lemma artist_sound j m : artist_of_json j = Ok m -> artist_wf m = true.
  Proof.
    unfold artist_of_json. intros H. open_obj H j. repeat peel H. injection H as <-.
    unfold artist_wf. cbn [ar_mbid]. eapply get_ouuid_sound; eassumption.
  Qed.

  Lemma get_artists_sound o k l : get_artists o k = Ok l -> artists_wf l = true.
  Proof.
    unfold get_artists. intros H. peel H. injection H as <-. unfold artists_wf.
    rewrite nodupb_dedup, andb_true_r. apply forallb_dedup.
    eapply get_list_sound; [exact artist_sound|eassumption].
  Qed.

  Lemma image_sound j m : image_of_json lax j = Ok m -> image_wf m = true.
  Proof.
    unfold image_of_json. intros H. open_obj H j. repeat peel H. injection H as <-.
    unfold image_wf. cbn [im_width im_height].
    rewrite (get_oint_sound _ _ _ E0), (get_oint_sound _ _ _ E1). reflexivity.
  Qed.

  Lemma album_sound j m : album_of_json lax j = Ok m -> album_wf m = true.
  Proof.
    unfold album_of_json. intros H. open_obj H j. repeat peel H. injection H as <-.
    unfold album_wf. cbn [al_artists al_num_tracks al_num_discs al_date al_mbid].
    rewrite (get_artists_sound _ _ _ E1), (get_oint_sound _ _ _ E2), (get_oint_sound _ _ _ E3),
      (get_odate_sound _ _ _ E4), (get_ouuid_sound _ _ _ E5). reflexivity.
  Qed.

  Lemma track_sound j m : track_of_json lax j = Ok m -> track_wf m = true.
  Proof.
    unfold track_of_json. intros H. open_obj H j. repeat peel H. injection H as <-.
    unfold track_wf.
    cbn [tr_artists tr_album tr_composers tr_performers tr_track_no tr_disc_no tr_date tr_bitrate tr_mbid tr_last_modified].
    rewrite (get_artists_sound _ _ _ E1), (get_artists_sound _ _ _ E3), (get_artists_sound _ _ _ E4),
      (get_oint_sound _ _ _ E6), (get_oint_sound _ _ _ E7), (get_odate_sound _ _ _ E8),
      (get_oint_sound _ _ _ E10), (get_ouuid_sound _ _ _ E12), (get_oint_sound _ _ _ E13).
    pose proof (get_omodel_sound (album_of_json lax) album_wf _ _ _ album_sound E2) as Ha.
    unfold oalbum_wf. rewrite Ha. reflexivity.
  Qed.

  Lemma tltrack_sound j m : tltrack_of_json lax j = Ok m -> tltrack_wf m = true.
  Proof.
    unfold tltrack_of_json. intros H. destruct j as [| | | | | |o]; try discriminate H.
    destruct (lookup k_tlid o) as [jt|]; [|discriminate H].
    destruct (lookup k_track o) as [jtr|]; [|discriminate H].
    destruct (int_of lax jt) as [z|]; [|discriminate H].
    destruct (1 <=? z) eqn:Ez; [|discriminate H].
    destruct (track_of_json lax jtr) as [t|e|] eqn:Et; cbn [rbind] in H; try discriminate H.
    injection H as <-. unfold tltrack_wf. cbn [tl_tlid tl_track]. rewrite Ez, (track_sound _ _ Et). reflexivity.
  Qed.

  Lemma playlist_sound j m : playlist_of_json lax j = Ok m -> playlist_wf m = true.
  Proof.
    unfold playlist_of_json. intros H. open_obj H j. repeat peel H. injection H as <-.
    unfold playlist_wf. cbn [pl_tracks pl_last_modified].
    rewrite (get_list_sound (track_of_json lax) track_wf _ _ _ track_sound E1), (get_oint_sound _ _ _ E2). reflexivity.
  Qed.

  Lemma searchresult_sound j m : searchresult_of_json lax j = Ok m -> searchresult_wf m = true.
  Proof.
    unfold searchresult_of_json. intros H. open_obj H j. repeat peel H. injection H as <-.
    unfold searchresult_wf. cbn [sr_tracks sr_artists sr_albums].
    rewrite (get_list_sound (track_of_json lax) track_wf _ _ _ track_sound E0),
      (get_list_sound artist_of_json artist_wf _ _ _ artist_sound E1),
      (get_list_sound (album_of_json lax) album_wf _ _ _ album_sound E2). reflexivity.
  Qed.

  Lemma rmap_ok {A B} (f : A -> B) (r : vres A) y : rmap f r = Ok y -> exists x, r = Ok x /\ y = f x.
  Proof. destruct r as [x|e|]; cbn; try discriminate. intros H. injection H as <-. eauto. Qed.

  Lemma of_json_as_sound n j m : of_json_as lax n j = Some (Ok m) -> model_wf m = true.
  Proof.
    unfold of_json_as.
    repeat match goal with |- context [if ?c then _ else _] => destruct c end; try discriminate;
      intros H; injection H as H; apply rmap_ok in H; destruct H as (x & Hx & ->); cbn [model_wf].
    - reflexivity.
    - exact (image_sound _ _ Hx).
    - exact (artist_sound _ _ Hx).
    - exact (album_sound _ _ Hx).
    - exact (track_sound _ _ Hx).
    - exact (tltrack_sound _ _ Hx).
    - exact (playlist_sound _ _ Hx).
    - exact (searchresult_sound _ _ Hx).
  Qed.

  (* T2 *)
  Lemma validate_sound_lemma j m : of_json lax j = Ok m -> model_wf m = true.
  Proof.
    unfold of_json. destruct j as [| | | | | |o]; try discriminate.
    destruct (lookup k_model o) as [[| | | |n| |]|]; try discriminate.
    destruct (of_json_as lax n (JObj o)) as [r|] eqn:E; [|discriminate].
    intros H. subst r. exact (of_json_as_sound _ _ _ E).
  Qed.

  (* what the parameter decoder hands to a method as a model satisfies the constraints *)
  Lemma decode_sound_lemma o m : decode lax (JObj o) = Ok (PvModel m) -> model_wf m = true.
  Proof.
    cbn [decode]. unfold decode_tag.
    destruct (lookup k_model o) as [[| | | |n| |]|];
      try (match goal with |- rbind ?g _ = _ -> _ => destruct g; cbn [rbind]; discriminate end).
    destruct (of_json_as lax n (JObj o)) as [[m'|e|]|] eqn:E; try discriminate.
    - intros H. injection H as <-. exact (of_json_as_sound _ _ _ E).
    - match goal with |- rbind ?g _ = _ -> _ => destruct g; cbn [rbind]; discriminate end.
  Qed.
End Sound.

(* ---- T3 every object of the JSON form is tagged --------------------------------------------- *)

Lemma forallb_render (P : json -> bool) ex (sl : slots) :
  P JNull = true ->
  forallb (fun s => match snd s with Some j => P j | None => true end) sl = true ->
  forallb (fun kv => P (snd kv)) (render ex sl) = true.
Proof.
  intros Hnull. induction sl as [|[k v] sl IH]; [reflexivity|]. cbn [forallb snd]. intros H.
  apply andb_true_iff in H. destruct H as [Hv Hs].
  unfold render. cbn [flat_map]. fold (render ex sl). rewrite forallb_app, (IH Hs), andb_true_r.
  cbn [fst snd]. destruct v as [j|]; [|destruct ex]; cbn [forallb snd]; rewrite ?Hv, ?Hnull; reflexivity.
Qed.

Lemma all_tagged_render ex (sl : slots) n :
  keys_nodup (map fst sl) = true -> lookup k_model sl = Some (Some (JStr n)) ->
  mem_str n class_names = true ->
  forallb (fun s => match snd s with Some j => all_tagged j | None => true end) sl = true ->
  all_tagged (JObj (render ex sl)) = true.
Proof.
  intros Hnd Hl Hn Hs. cbn [all_tagged]. rewrite (lookup_render ex sl k_model Hnd), Hl, Hn. cbn [andb].
  apply (forallb_render all_tagged ex sl eq_refl Hs).
Qed.

Lemma slot_str_tagged v : match s_str v with Some j => all_tagged j | None => true end = true.
Proof. destruct v; reflexivity. Qed.
Lemma slot_int_tagged v : match s_int v with Some j => all_tagged j | None => true end = true.
Proof. destruct v; reflexivity. Qed.

Lemma all_tagged_list {A} (g : A -> json) l :
  (forall x, all_tagged (g x) = true) -> all_tagged (JArr (map g l)) = true.
Proof.
  intros H. cbn [all_tagged]. induction l as [|x l IH]; [reflexivity|]. cbn [map forallb]. rewrite (H x), IH. reflexivity.
Qed.

Section Tagged.
  Variable ex : bool.

  Ltac tagged :=
    eapply all_tagged_render; [reflexivity|reflexivity|reflexivity|];
    cbn [forallb snd]; rewrite ?slot_str_tagged, ?slot_int_tagged.

  Lemma ref_tagged m : all_tagged (ref_json k_model ex m) = true.
  Proof. unfold ref_json. tagged. reflexivity. Qed.
  Lemma image_tagged m : all_tagged (image_json k_model ex m) = true.
  Proof. unfold image_json. tagged. reflexivity. Qed.
  Lemma artist_tagged m : all_tagged (artist_json k_model ex m) = true.
  Proof. unfold artist_json. tagged. reflexivity. Qed.
  Lemma album_tagged m : all_tagged (album_json k_model ex m) = true.
  Proof. unfold album_json. tagged. rewrite (all_tagged_list _ _ artist_tagged). reflexivity. Qed.
  Lemma track_tagged m : all_tagged (track_json k_model ex m) = true.
  Proof.
    unfold track_json. tagged. rewrite !(all_tagged_list _ _ artist_tagged).
    destruct (tr_album m) as [a|]; cbn [option_map]; rewrite ?album_tagged; reflexivity.
  Qed.
  Lemma tltrack_tagged m : all_tagged (tltrack_json k_model ex m) = true.
  Proof. unfold tltrack_json. tagged. rewrite track_tagged. reflexivity. Qed.
  Lemma playlist_tagged m : all_tagged (playlist_json k_model ex m) = true.
  Proof. unfold playlist_json. tagged. rewrite (all_tagged_list _ _ track_tagged). reflexivity. Qed.
  Lemma searchresult_tagged m : all_tagged (searchresult_json k_model ex m) = true.
  Proof.
    unfold searchresult_json. tagged.
    rewrite (all_tagged_list _ _ track_tagged), (all_tagged_list _ _ artist_tagged), (all_tagged_list _ _ album_tagged).
    reflexivity.
  Qed.

  Lemma tagged_lemma m : all_tagged (to_json ex m) = true.
  Proof.
    destruct m; cbn [to_json model_json];
      [apply ref_tagged|apply image_tagged|apply artist_tagged|apply album_tagged|apply track_tagged
      |apply tltrack_tagged|apply playlist_tagged|apply searchresult_tagged].
  Qed.
End Tagged.

(* ---- T4 untagged JSON reaches the method unchanged ---------------------------------------------- *)

Section Decode.
  Variable lax : json -> option Z.

  Lemma of_json_as_none n j : mem_str n class_names = false -> of_json_as lax n j = None.
  Proof.
    unfold class_names. cbn [mem_str]. intros H.
    repeat (apply orb_false_iff in H; destruct H as [?E H]).
    unfold of_json_as. rewrite E, E0, E1, E2, E3, E4, E5, E6. reflexivity.
  Qed.

  Lemma decode_arr l : decode lax (JArr l) = rbind (map_res (decode lax) l) (fun ys => Ok (PvList ys)).
  Proof.
    cbn [decode]. f_equal. induction l as [|x l IH]; [reflexivity|]. cbn [map_res]. rewrite <- IH. reflexivity.
  Qed.

  Lemma decode_obj o :
    decode_tag lax o = None ->
    decode lax (JObj o) = rbind (map_res_kv (decode lax) o) (fun ys => Ok (PvDict ys)).
  Proof.
    intros H. cbn [decode]. rewrite H. f_equal. clear H.
    induction o as [|[k x] o IH]; [reflexivity|]. cbn [map_res_kv]. rewrite <- IH. reflexivity.
  Qed.

  Lemma decode_tag_untagged o :
    match lookup k_model o with Some (JStr n) => negb (mem_str n class_names) | _ => true end = true ->
    decode_tag lax o = None.
  Proof.
    unfold decode_tag. destruct (lookup k_model o) as [[| | | |n| |]|]; try reflexivity.
    intros H. apply negb_true_iff in H. apply of_json_as_none. exact H.
  Qed.

  Lemma untagged_plain_lemma j : untagged j = true -> decode lax j = Ok (plain j).
  Proof.
    induction j as [| | | | |l IH|o IH] using json_ind2; try reflexivity.
    - cbn [untagged]. intros H. rewrite decode_arr. cbn [plain].
      assert (Hm : map_res (decode lax) l = Ok (map plain l)).
      { induction l as [|x l IHl]; [reflexivity|]. cbn [forallb] in H. apply andb_true_iff in H.
        destruct H as [Hx Hl]. inversion IH as [|? ? Px Pl]; subst. cbn [map_res map].
        rewrite (Px Hx). cbn [rbind]. rewrite (IHl Pl Hl). reflexivity. }
      rewrite Hm. reflexivity.
    - cbn [untagged]. intros H. apply andb_true_iff in H. destruct H as [Ht Hm].
      rewrite (decode_obj o (decode_tag_untagged o Ht)). cbn [plain].
      assert (Hk : map_res_kv (decode lax) o = Ok (map (fun kv => (fst kv, plain (snd kv))) o)).
      { clear Ht. induction o as [|[k x] o IHo]; [reflexivity|]. cbn [forallb snd] in Hm.
        apply andb_true_iff in Hm. destruct Hm as [Hx Ho]. inversion IH as [|? ? Px Po]; subst.
        cbn [map_res_kv map fst snd]. cbn [snd] in Px. rewrite (Px Hx). cbn [rbind]. rewrite (IHo Po Ho). reflexivity. }
      rewrite Hk. reflexivity.
  Qed.
End Decode.

(* ---- T5 the same form on all three wires ----------------------------------------------------------- *)

Lemma same_form_lemma m :
  rpc_result_json m = to_json false m /\ state_file_json m = to_json false m /\ event_json true m = to_json false m.
Proof. repeat split. Qed.

(* the event dump before the fix (by_alias missing): the tag is written under "model",
   which no decoder accepts *)
Lemma event_form_refuted : exists m, forall lax, of_json lax (event_json false m) <> Ok m.
Proof. exists (MArtist (mkArtist None None None None)). intros lax. vm_compute. discriminate. Qed.

Lemma event_form_untagged_refuted : exists m, all_tagged (event_json false m) = false.
Proof. exists (MArtist (mkArtist None None None None)). reflexivity. Qed.

(* ---- non-vacuity ------------------------------------------------------------------------------------ *)

Definition demo_artist := mkArtist (Some (lit "a:1")) (Some (lit "A")) None (Some (lit "12345678-1234-5678-1234-567812345678")).
Definition demo_album := mkAlbum None (Some (lit "LP")) [demo_artist] (Some 9) None (Some (lit "2020-01-02")) None.
Definition demo_track :=
  mkTrack (Some (lit "t:1")) (Some (lit "T")) [demo_artist; mkArtist None (Some (lit "B")) None None] (Some demo_album)
          [] [] None (Some 1) None (Some (lit "2020")) (Some (-5)) None None None (Some 0).
Definition demo_tl := MTlTrack (mkTlTrack 1 demo_track).
Definition no_lax (_ : json) : option Z := None.

Example nv_wf : model_wf demo_tl = true /\ model_wf (MPlaylist (mkPlaylist None None [demo_track; demo_track] None)) = true
                /\ model_wf (MRef (mkRef (lit "u") None RDirectory)) = true.
Proof. repeat split; vm_compute; reflexivity. Qed.

Example nv_roundtrip : of_json no_lax (to_json true demo_tl) = Ok demo_tl /\ of_json no_lax (to_json false demo_tl) = Ok demo_tl.
Proof. split; vm_compute; reflexivity. Qed.

Example nv_rejects :
  track_of_json no_lax (JObj [(k_model, JStr n_Track); (k_track_no, JInt (-1))]) = Raise EValidationError /\
  track_of_json no_lax (JObj [(k_model, JStr n_Album)]) = Raise EValidationError /\
  track_of_json no_lax (JObj [(lit "junk", JNull)]) = Raise EValidationError /\
  tltrack_of_json no_lax (JObj [(k_tlid, JInt 0); (k_track, JObj [])]) = Raise EValidationError /\
  tltrack_of_json no_lax (JObj [(k_tlid, JInt 1)]) = Raise ETypeError.
Proof. repeat split; vm_compute; reflexivity. Qed.

Example nv_decode :
  decode no_lax (JArr [to_json true demo_tl; JObj [(lit "a", to_json false demo_tl); (k_uri, JStr (lit "x"))]; JObj []])
  = Ok (PvList [PvModel demo_tl; PvDict [(lit "a", PvModel demo_tl); (k_uri, PvStr (lit "x"))]; PvDict []]).
Proof. vm_compute. reflexivity. Qed.

Example nv_untagged : untagged (JObj [(k_uri, JStr (lit "x")); (k_model, JStr (lit "Bogus")); (lit "l", JArr [JObj []])]) = true.
Proof. reflexivity. Qed.
