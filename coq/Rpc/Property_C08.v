(* C08 property theorems.  Nothing but statements, `exact`, and Print Assumptions.
   [lax] is the oracle for pydantic's lax bool/float/str -> int coercion: every statement
   holds for every such function.  [ex] selects the dump flavour (true: serialize(),
   exclude_none; false: dump_json with nulls). *)
From Coq Require Import ZArith List Bool String.
From Common Require Import Str Res.
From Rpc Require Import Json Models Events Values Proofs_Models Proofs_Events Proofs_Values.
Import ListNotations.
Open Scope Z_scope.

(* T1 round trip: the JSON form of a value within the field constraints decodes back to
   that value, for all eight classes, arbitrarily nested *)
Theorem C08_roundtrip : forall lax ex m, model_wf m = true -> of_json lax (to_json ex m) = Ok m.
Proof. exact roundtrip_lemma. Qed.
Print Assumptions C08_roundtrip.

Theorem C08_roundtrip_track : forall lax ex m, track_wf m = true -> track_of_json lax (track_json k_model ex m) = Ok m.
Proof. exact track_roundtrip. Qed.
Print Assumptions C08_roundtrip_track.

(* T2 validation is sound: whatever is accepted satisfies the field constraints *)
Theorem C08_validate_sound : forall lax j m, of_json lax j = Ok m -> model_wf m = true.
Proof. exact validate_sound_lemma. Qed.
Print Assumptions C08_validate_sound.

Theorem C08_validate_sound_by_class : forall lax n j m, of_json_as lax n j = Some (Ok m) -> model_wf m = true.
Proof. exact of_json_as_sound. Qed.
Print Assumptions C08_validate_sound_by_class.

(* T3 tagged at every nesting level, with the class name at the top *)
Theorem C08_tagged : forall ex m, all_tagged (to_json ex m) = true.
Proof. exact tagged_lemma. Qed.
Print Assumptions C08_tagged.

Theorem C08_tag_is_class_name : forall ex m,
  exists o, to_json ex m = JObj o /\ lookup k_model o = Some (JStr (class_name m)).
Proof. exact to_json_tag. Qed.
Print Assumptions C08_tag_is_class_name.

(* T4 the JSON-RPC parameter decoder *)
Theorem C08_param_decode_model : forall lax ex m, model_wf m = true -> decode lax (to_json ex m) = Ok (PvModel m).
Proof. exact decode_model_lemma. Qed.
Print Assumptions C08_param_decode_model.

Theorem C08_param_decode_untagged : forall lax j, untagged j = true -> decode lax j = Ok (plain j).
Proof. exact untagged_plain_lemma. Qed.
Print Assumptions C08_param_decode_untagged.

Theorem C08_param_decode_array : forall lax l,
  decode lax (JArr l) = rbind (map_res (decode lax) l) (fun ys => Ok (PvList ys)).
Proof. exact decode_arr. Qed.
Print Assumptions C08_param_decode_array.

Theorem C08_param_decode_object : forall lax o,
  decode_tag lax o = None ->
  decode lax (JObj o) = rbind (map_res_kv (decode lax) o) (fun ys => Ok (PvDict ys)).
Proof. exact decode_obj. Qed.
Print Assumptions C08_param_decode_object.

Theorem C08_param_decode_sound : forall lax o m, decode lax (JObj o) = Ok (PvModel m) -> model_wf m = true.
Proof. exact decode_sound_lemma. Qed.
Print Assumptions C08_param_decode_sound.

(* T5 the same form on the three wires (JSON-RPC result, WebSocket event, state file) *)
Theorem C08_same_form_everywhere : forall m,
  rpc_result_json m = to_json false m /\ state_file_json m = to_json false m /\ event_json true m = to_json false m.
Proof. exact same_form_lemma. Qed.
Print Assumptions C08_same_form_everywhere.

(* the event dump before the fix (no by_alias): neither tagged nor decodable *)
Theorem C08_event_form_refuted_before_fix : exists m, forall lax, of_json lax (event_json false m) <> Ok m.
Proof. exact event_form_refuted. Qed.
Print Assumptions C08_event_form_refuted_before_fix.

Theorem C08_event_untagged_before_fix : exists m, all_tagged (event_json false m) = false.
Proof. exact event_form_untagged_refuted. Qed.
Print Assumptions C08_event_untagged_before_fix.

(* the WebSocket event wire: every CoreListener event decodes back from its message *)
Theorem C08_event_roundtrip : forall lax e, event_wf e = true -> decode_event lax (encode_event true e) = Ok e.
Proof. exact event_roundtrip_lemma. Qed.
Print Assumptions C08_event_roundtrip.

Theorem C08_event_message_shape : forall by_alias e,
  exists o, encode_event by_alias e = JObj o /\ lookup k_event o = Some (JStr (event_name e)).
Proof. exact event_message_shape. Qed.
Print Assumptions C08_event_message_shape.

Theorem C08_event_tagged : forall e, all_tagged_values (encode_event true e) = true.
Proof. exact event_tagged_lemma. Qed.
Print Assumptions C08_event_tagged.

Theorem C08_event_roundtrip_refuted_before_fix :
  exists e, event_wf e = true /\ forall lax, decode_event lax (encode_event false e) <> Ok e.
Proof. exact event_roundtrip_refuted. Qed.
Print Assumptions C08_event_roundtrip_refuted_before_fix.

(* value semantics: == is structural (frozenset fields as sets), reflexive and symmetric,
   never holds across classes, and equal values have equal hashes *)
Theorem C08_eq_refl : forall m, model_eqb m m = true.
Proof. exact eq_refl_lemma. Qed.
Print Assumptions C08_eq_refl.

Theorem C08_eq_sym : forall a b, model_eqb a b = model_eqb b a.
Proof. exact eq_sym_lemma. Qed.
Print Assumptions C08_eq_sym.

Theorem C08_eq_same_class : forall a b, model_eqb a b = true -> class_name a = class_name b.
Proof. exact eq_same_class. Qed.
Print Assumptions C08_eq_same_class.

Theorem C08_eq_hash : forall a b,
  model_eqb a b = true -> model_wf a = true -> model_wf b = true -> model_hash a = model_hash b.
Proof. exact eq_hash_lemma. Qed.
Print Assumptions C08_eq_hash.

Theorem C08_wire_preserves_eq_hash : forall lax ex m,
  model_wf m = true ->
  exists m', of_json lax (to_json ex m) = Ok m' /\ model_eqb m' m = true /\ model_hash m' = model_hash m.
Proof. exact wire_eq_lemma. Qed.
Print Assumptions C08_wire_preserves_eq_hash.

(* replace(): identity, soundness, class preservation, set-then-get, unknown fields rejected -
   for constructed values and ([d] = true) for values decoded from tagged JSON alike; on the
   pinned code (dump by field name) the identity law was refuted for decoded values *)
Theorem C08_replace_identity : forall lax d m, model_wf m = true -> replace lax d m [] = Ok m.
Proof. exact replace_identity_lemma. Qed.
Print Assumptions C08_replace_identity.

Theorem C08_replace_sound : forall lax d m upd m', replace lax d m upd = Ok m' -> model_wf m' = true.
Proof. exact replace_sound_lemma. Qed.
Print Assumptions C08_replace_sound.

Theorem C08_replace_class : forall lax d m upd m', replace lax d m upd = Ok m' -> class_name m' = class_name m.
Proof. exact replace_class_lemma. Qed.
Print Assumptions C08_replace_class.

Theorem C08_replace_artist_name : forall lax d a s,
  artist_wf a = true ->
  replace lax d (MArtist a) [(k_name, JStr s)] = Ok (MArtist (mkArtist (ar_uri a) (Some s) (ar_sortname a) (ar_mbid a))).
Proof. exact replace_artist_name. Qed.
Print Assumptions C08_replace_artist_name.

Theorem C08_replace_unknown_field_rejected : forall lax a k v,
  mem_str k [k_model; k_uri; k_name; k_sortname; k_mbid] = false ->
  replace lax false (MArtist a) [(k, v)] = Raise EValidationError.
Proof. exact replace_unknown_artist. Qed.
Print Assumptions C08_replace_unknown_field_rejected.

Theorem C08_replace_identity_refuted_before_fix_when_decoded :
  exists m, model_wf m = true /\ forall lax, replace_pinned lax true m [] <> Ok m.
Proof. exact replace_identity_refuted_when_decoded. Qed.
Print Assumptions C08_replace_identity_refuted_before_fix_when_decoded.

(* non-vacuity *)
Theorem C08_nonvacuous_wf :
  model_wf demo_tl = true /\ model_wf (MPlaylist (mkPlaylist None None [demo_track; demo_track] None)) = true
  /\ model_wf (MRef (mkRef (lit "u") None RDirectory)) = true.
Proof. exact nv_wf. Qed.
Print Assumptions C08_nonvacuous_wf.

Theorem C08_nonvacuous_rejects :
  track_of_json no_lax (JObj [(k_model, JStr n_Track); (k_track_no, JInt (-1))]) = Raise EValidationError /\
  track_of_json no_lax (JObj [(k_model, JStr n_Album)]) = Raise EValidationError /\
  track_of_json no_lax (JObj [(lit "junk", JNull)]) = Raise EValidationError /\
  tltrack_of_json no_lax (JObj [(k_tlid, JInt 0); (k_track, JObj [])]) = Raise EValidationError /\
  tltrack_of_json no_lax (JObj [(k_tlid, JInt 1)]) = Raise ETypeError.
Proof. exact nv_rejects. Qed.
Print Assumptions C08_nonvacuous_rejects.

Theorem C08_nonvacuous_decode :
  decode no_lax (JArr [to_json true demo_tl; JObj [(lit "a", to_json false demo_tl); (k_uri, JStr (lit "x"))]; JObj []])
  = Ok (PvList [PvModel demo_tl; PvDict [(lit "a", PvModel demo_tl); (k_uri, PvStr (lit "x"))]; PvDict []]).
Proof. exact nv_decode. Qed.
Print Assumptions C08_nonvacuous_decode.
