(* C07 property theorems.  Nothing but statements, `exact`, and Print Assumptions.
   All statements quantify over every params-decoder outcome [pok], every mount table [ms],
   every (history dependent) call oracle [call] and every input; [fixed] is the version record describing the current
   tree, [pre_fix] the tree before the fix commits listed in known_findings.json. *)
From Coq Require Import ZArith List Bool String.
From Common Require Import Str.
From Rpc Require Import Json JsonRpc Inspector Proofs_JsonRpc Proofs_Inspector.
Import ListNotations.
Open Scope Z_scope.

(* T1 total: no input makes a Python exception leave handle_json ... *)
Theorem C07_total : forall pok ms call i e, fst (handle_json fixed pok ms call i) <> OEscaped e.
Proof. exact total_lemma. Qed.
Print Assumptions C07_total.

(* ... nor makes the HTTP / WebSocket handler fall into its catch-all (500 / close). *)
Theorem C07_endpoint_total : forall pok ms call utf8_ok i,
  fst (endpoint fixed pok ms call false utf8_ok i) <> EpTransportError.
Proof. exact endpoint_total_lemma. Qed.
Print Assumptions C07_endpoint_total.

Theorem C07_total_refuted_before_fix_id_array :
  exists pok ms call i, fst (handle_json pre_fix pok ms call i) = OEscaped EValidation.
Proof. exact total_refuted_id_array. Qed.
Print Assumptions C07_total_refuted_before_fix_id_array.

Theorem C07_total_refuted_before_fix_unknown_member_in_batch :
  exists pok ms call i, fst (handle_json pre_fix pok ms call i) = OEscaped EValidation.
Proof. exact total_refuted_unknown_member. Qed.
Print Assumptions C07_total_refuted_before_fix_unknown_member_in_batch.

Theorem C07_total_refuted_before_fix_unserializable :
  exists pok ms call i, fst (handle_json pre_fix pok ms call i) = OEscaped ESerialization.
Proof. exact total_refuted_unserializable. Qed.
Print Assumptions C07_total_refuted_before_fix_unserializable.

Theorem C07_endpoint_total_refuted_before_fix :
  exists pok ms call i, fst (endpoint pre_fix pok ms call false false i) = EpTransportError.
Proof. exact endpoint_total_refuted. Qed.
Print Assumptions C07_endpoint_total_refuted_before_fix.

(* T2 classification *)
Theorem C07_parse_error : forall pok ms call,
  handle_json fixed pok ms call ParseFail = (OBytes (error_doc None E_PARSE JNull), []).
Proof. exact parse_error_lemma. Qed.
Print Assumptions C07_parse_error.

Theorem C07_validate_spec : forall pok j rq, validate pok j = VOk rq <-> request_shape pok j rq.
Proof. exact validate_spec. Qed.
Print Assumptions C07_validate_spec.

Theorem C07_invalid_request : forall pok ms call j,
  (forall l, j <> JArr l) -> (forall rq, validate pok j <> VOk rq) ->
  handle_json fixed pok ms call (Parsed j) = (OBytes (error_doc None E_INVALID d_text), []).
Proof. exact invalid_request_lemma. Qed.
Print Assumptions C07_invalid_request.

Theorem C07_reject_not_object : forall pok j, (forall o, j <> JObj o) -> forall rq, validate pok j <> VOk rq.
Proof. exact validate_not_object. Qed.
Print Assumptions C07_reject_not_object.

Theorem C07_reject_unknown_member : forall pok o k x,
  In (k, x) o -> known_member k = false -> forall rq, validate pok (JObj o) <> VOk rq.
Proof. exact validate_unknown_member. Qed.
Print Assumptions C07_reject_unknown_member.

Theorem C07_reject_id_array : forall pok o l,
  lookup k_id o = Some (JArr l) -> forall rq, validate pok (JObj o) <> VOk rq.
Proof. exact validate_id_array. Qed.
Print Assumptions C07_reject_id_array.

Theorem C07_reject_id_object : forall pok o l,
  lookup k_id o = Some (JObj l) -> forall rq, validate pok (JObj o) <> VOk rq.
Proof. exact validate_id_object. Qed.
Print Assumptions C07_reject_id_object.

(* params that do not decode (a tagged object that is not a valid model): -32600 *)
Theorem C07_undecodable_params_rejected : forall pok j rq, validate pok j = VOk rq -> pok (r_params rq) = true.
Proof. exact validate_bad_params. Qed.
Print Assumptions C07_undecodable_params_rejected.

(* a request with an id: -32601 / -32602 / application error / result, id echoed,
   and exactly the resolved callable invoked *)
Theorem C07_request : forall pok ms call j rq i,
  validate pok j = VOk rq -> r_id rq = Some i ->
  handle_json fixed pok ms call (Parsed j) =
  match get_method ms (r_method rq) with
  | TNotFound => (OBytes (error_doc (Some i) E_NOT_FOUND d_text), [])
  | TPlain => (OBytes (error_doc (Some i) E_PARAMS d_not_callable), [])
  | TCall e => (OBytes (wire (mkResp (Some i) (payload_of (call [] e (r_params rq))))), [e])
  end.
Proof. exact request_lemma. Qed.
Print Assumptions C07_request.

Theorem C07_notification : forall pok ms call j rq,
  validate pok j = VOk rq -> r_id rq = None -> fst (handle_json fixed pok ms call (Parsed j)) = ONothing.
Proof. exact notification_lemma. Qed.
Print Assumptions C07_notification.

Theorem C07_id_echo : forall pok o rq idj,
  validate pok (JObj o) = VOk rq -> lookup k_id o = Some idj -> echoable idj = true ->
  wire_id (r_id rq) = idj /\ r_id rq <> None.
Proof. exact id_echo. Qed.
Print Assumptions C07_id_echo.

Theorem C07_response_carries_id : forall r,
  exists o, wire r = JObj o /\ lookup k_id o = Some (wire_id (rs_id r)).
Proof. exact wire_id_member. Qed.
Print Assumptions C07_response_carries_id.

(* open finding: a non-finite float id (1e400, NaN) is not echoed *)
Theorem C07_id_echo_refuted_nonfinite :
  exists o rq idj, validate (fun _ => true) (JObj o) = VOk rq /\ lookup k_id o = Some idj /\
                   (exists t, idj = JFloat t) /\ wire_id (r_id rq) <> idj.
Proof. exact id_echo_refuted. Qed.
Print Assumptions C07_id_echo_refuted_nonfinite.

(* T3 batch shape *)
Theorem C07_empty_batch : forall pok ms call,
  handle_json fixed pok ms call (Parsed (JArr [])) = (OBytes (error_doc None E_INVALID d_text), []).
Proof. exact empty_batch_lemma. Qed.
Print Assumptions C07_empty_batch.

Theorem C07_batch_shape : forall pok ms call j t,
  let js := j :: t in
  match fst (handle_json fixed pok ms call (Parsed (JArr js))) with
  | ONothing => filter (answered pok) js = []
  | OBytes (JArr docs) =>
      exists rs, docs = map wire rs /\ rs <> [] /\
                 map resp_id_json rs = map (expected_id pok) (filter (answered pok) js)
  | _ => False
  end.
Proof. exact batch_lemma. Qed.
Print Assumptions C07_batch_shape.

(* T4 only the public API (holds before and after the fixes) *)
Theorem C07_only_public : forall pok ms call v i,
  Forall (fun e => public_entry_b ms e = true) (snd (handle_json v pok ms call i)).
Proof. exact only_public_lemma. Qed.
Print Assumptions C07_only_public.

Theorem C07_invoked_path : forall ms p e,
  get_method ms p = TCall e ->
  match e with
  | EMount m => p = m
  | EAttr m a => p = m ++ DOT :: a /\ ~ In DOT a /\ has_key m ms = true
  end.
Proof. exact get_method_path. Qed.
Print Assumptions C07_invoked_path.

Theorem C07_private_rejected : forall ms m n,
  is_private n = true -> ~ In DOT n -> mount_callable ms (m ++ DOT :: n) = false ->
  get_method ms (m ++ DOT :: n) = TNotFound.
Proof. exact private_rejected. Qed.
Print Assumptions C07_private_rejected.

Theorem C07_unknown_mount_rejected : forall ms m n,
  ~ In DOT n -> lookup m ms = None -> mount_callable ms (m ++ DOT :: n) = false ->
  get_method ms (m ++ DOT :: n) = TNotFound.
Proof. exact unknown_mount_rejected. Qed.
Print Assumptions C07_unknown_mount_rejected.

Theorem C07_deeper_chain_rejected : forall ms m a b,
  ~ In DOT b -> lookup (m ++ DOT :: a) ms = None ->
  mount_callable ms ((m ++ DOT :: a) ++ DOT :: b) = false ->
  get_method ms ((m ++ DOT :: a) ++ DOT :: b) = TNotFound.
Proof. exact deeper_chain_rejected. Qed.
Print Assumptions C07_deeper_chain_rejected.

Theorem C07_rejected_invokes_nothing : forall pok ms call v l j rq,
  validate (vpok v pok) j = VOk rq -> get_method ms (r_method rq) <> TCall (EMount (r_method rq)) ->
  (forall e, get_method ms (r_method rq) <> TCall e) ->
  snd (handle_single v pok ms call l j) = l.
Proof. exact not_found_invokes_nothing. Qed.
Print Assumptions C07_rejected_invokes_nothing.

(* the inspector (core.describe): exactly the mounted functions and the public routines of the
   mounted classes are described, never with a "self" parameter, and whatever is described is
   callable - as a public entry - through a wrapper that mounts instances under the same names *)
Theorem C07_describe_only_public_api : forall t d k, describe t = Some d -> (In k (map fst d) <-> described t k).
Proof. exact describe_keys_lemma. Qed.
Print Assumptions C07_describe_only_public_api.

Theorem C07_describe_refuses_empty_mount : forall t, has_key [] t = true -> describe t = None.
Proof. exact describe_empty_mount. Qed.
Print Assumptions C07_describe_refuses_empty_mount.

Theorem C07_describe_no_self_parameter : forall s,
  Forall (fun p => p_varargs p = true \/ p_kwargs p = true \/ str_eqb (p_name p) s_self = false) (describe_params s).
Proof. exact describe_params_no_self. Qed.
Print Assumptions C07_describe_no_self_parameter.

Theorem C07_described_is_callable : forall ms t d k,
  instantiates ms t -> member_names_plain t -> describe t = Some d -> In k (map fst d) ->
  exists e, get_method ms k = TCall e /\ public_entry_b ms e = true.
Proof. exact described_resolves_lemma. Qed.
Print Assumptions C07_described_is_callable.

(* an error object is well formed whatever data the failing method supplied *)
Theorem C07_error_object_any_data : forall c d, error_ok_b (error_obj c d) = true.
Proof. exact error_obj_ok. Qed.
Print Assumptions C07_error_object_any_data.

(* conformance to the JSON-RPC 2.0 response grammar: full statement refuted by a
   non-finite float id (open finding), proved for inputs whose float ids are finite *)
Theorem C07_conformant_refuted :
  exists pok ms call i j l, handle_json fixed pok ms call i = (OBytes j, l) /\ document_ok_b j = false.
Proof. exact conformant_refuted. Qed.
Print Assumptions C07_conformant_refuted.

Theorem C07_conformant_partial : forall pok ms call i j l,
  input_ids_finite i = true -> handle_json fixed pok ms call i = (OBytes j, l) -> document_ok_b j = true.
Proof. exact conformant_partial_lemma. Qed.
Print Assumptions C07_conformant_partial.

(* non-vacuity of the hypotheses used above *)
Theorem C07_nonvacuous_batch :
  fst (handle_json fixed (fun _ => true) demo_mounts demo_call
         (Parsed (JArr [req "o.pub" (Some (JInt 1)); req "o.pub" None; JInt 5; req "o.uns" (Some (JStr (lit "b")));
                        req "o.pub" (Some (JInt 2))])))
  = OBytes (JArr [wire (mkResp (Some (IdInt 1)) (PResult (JInt 0)));
                  wire (mkResp None (PError E_INVALID d_text));
                  wire (mkResp (Some (IdStr (lit "b"))) PBad);
                  wire (mkResp (Some (IdInt 2)) (PResult (JInt 3)))]).
Proof. exact nv_batch. Qed.
Print Assumptions C07_nonvacuous_batch.

Theorem C07_nonvacuous_lookup :
  get_method demo_mounts (lit "o._priv") = TNotFound /\ get_method demo_mounts (lit "o.pub.__call__") = TNotFound /\
  get_method demo_mounts (lit "x.pub") = TNotFound /\ get_method demo_mounts (lit "o.attr") = TPlain /\
  get_method demo_mounts (lit "f") = TCall (EMount (lit "f")).
Proof. exact nv_private. Qed.
Print Assumptions C07_nonvacuous_lookup.
