(* Inspector.describe lists exactly the mounted functions and the public routines of the
   mounted classes, never a "self" parameter, and every listed name is callable through a
   Wrapper that mounts instances under the same names. *)
From Coq Require Import ZArith List Bool String Lia.
From Common Require Import Str.
From Rpc Require Import Json JsonRpc Inspector Proofs_JsonRpc.
Import ListNotations.
Open Scope Z_scope.

Lemma dict_set_keys {A} k (v : A) d k' :
  In k' (map fst (dict_set k v d)) <-> k' = k \/ In k' (map fst d).
Proof.
  induction d as [|[k0 v0] d IH]; cbn [dict_set map fst In].
  - split; [intros [H|[]]; left; symmetry; exact H|intros [H|[]]; left; symmetry; exact H].
  - destruct (str_eqb k k0) eqn:E; cbn [map fst In].
    + apply str_eqb_eq in E. subst k0. split; [intros [H|H]; auto|intros [H|[H|H]]; auto].
    + rewrite IH. split; intros H; tauto.
Qed.

Definition member_key (m : str) (nm : str * imember) (k : str) : Prop :=
  is_private (fst nm) = false /\ (exists s, snd nm = IMRoutine s) /\ k = m ++ DOT :: fst nm.

Lemma describe_member_keys m d nm k :
  In k (map fst (describe_member m d nm)) <-> In k (map fst d) \/ member_key m nm k.
Proof.
  unfold describe_member, member_key. destruct (is_private (fst nm)) eqn:Ep.
  - split; [auto|]. intros [H|(H & _)]; [exact H|discriminate].
  - destruct (snd nm) as [s|] eqn:Es.
    + rewrite dict_set_keys. split.
      * intros [->|H]; [right|left; exact H]. repeat split; eauto.
      * intros [H|(_ & _ & ->)]; auto.
    + split; [auto|]. intros [H|(_ & (s & Hs) & _)]; [exact H|discriminate].
Qed.

Lemma fold_members_keys m ms : forall d k,
  In k (map fst (fold_left (describe_member m) ms d)) <->
  In k (map fst d) \/ exists nm, In nm ms /\ member_key m nm k.
Proof.
  induction ms as [|nm ms IH]; intros d k; cbn [fold_left].
  - split; [auto|]. intros [H|(nm & [] & _)]. exact H.
  - rewrite IH, describe_member_keys. split.
    + intros [[H|H]|(x & Hx & Hk)]; auto.
      * right. exists nm. split; [left; reflexivity|exact H].
      * right. exists x. split; [right; exact Hx|exact Hk].
    + intros [H|(x & [->|Hx] & Hk)]; auto. right. exists x. auto.
Qed.

Definition obj_key (mo : str * iobj) (k : str) : Prop :=
  match snd mo with
  | IRoutine _ => k = fst mo
  | IClass ms => exists nm, In nm ms /\ member_key (fst mo) nm k
  end.

Lemma describe_obj_keys d mo k :
  In k (map fst (describe_obj d mo)) <-> In k (map fst d) \/ obj_key mo k.
Proof.
  unfold describe_obj, obj_key. destruct (snd mo) as [s|ms].
  - rewrite dict_set_keys. tauto.
  - apply fold_members_keys.
Qed.

Lemma fold_objs_keys t : forall d k,
  In k (map fst (fold_left describe_obj t d)) <-> In k (map fst d) \/ exists mo, In mo t /\ obj_key mo k.
Proof.
  induction t as [|mo t IH]; intros d k; cbn [fold_left].
  - split; [auto|]. intros [H|(x & [] & _)]. exact H.
  - rewrite IH, describe_obj_keys. split.
    + intros [[H|H]|(x & Hx & Hk)]; auto.
      * right. exists mo. split; [left; reflexivity|exact H].
      * right. exists x. split; [right; exact Hx|exact Hk].
    + intros [H|(x & [->|Hx] & Hk)]; auto. right. exists x. auto.
Qed.

Lemma obj_key_described t k : (exists mo, In mo t /\ obj_key mo k) <-> described t k.
Proof.
  unfold described, obj_key, member_key. split.
  - intros ([m o] & Hin & Hk). cbn [fst snd] in Hk. destruct o as [s|ms].
    + subst k. left. exists s. exact Hin.
    + destruct Hk as ([name mem] & Hm & Hp & (s & Hs) & ->). cbn [fst snd] in *. subst mem.
      right. exists m, ms, name, s. auto.
  - intros [(s & Hin)|(m & ms & name & s & Hin & Hm & Hp & ->)].
    + exists (k, IRoutine s). split; [exact Hin|reflexivity].
    + exists (m, IClass ms). split; [exact Hin|]. cbn [fst snd]. exists (name, IMRoutine s). cbn [fst snd]. eauto 6.
Qed.

(* soundness and completeness of describe *)
Lemma describe_keys_lemma t d k : describe t = Some d -> (In k (map fst d) <-> described t k).
Proof.
  unfold describe. destruct (has_key [] t); [discriminate|]. intros H. injection H as <-.
  rewrite fold_objs_keys, obj_key_described. cbn [map In]. tauto.
Qed.

Lemma describe_empty_mount t : has_key [] t = true -> describe t = None.
Proof. unfold describe. intros ->. reflexivity. Qed.

(* "self" is never described as a parameter *)
Lemma describe_params_no_self s :
  Forall (fun p => p_varargs p = true \/ p_kwargs p = true \/ str_eqb (p_name p) s_self = false) (describe_params s).
Proof.
  unfold describe_params. repeat rewrite Forall_app. repeat split.
  - generalize (combine (s_args s)
                  (repeat None (List.length (s_args s) - List.length (s_defaults s)) ++ map Some (s_defaults s))).
    intros l. induction l as [|[a dflt] l IH]; cbn [flat_map]; [constructor|].
    cbn [fst snd]. destruct (str_eqb a s_self) eqn:E; cbn [app]; [exact IH|].
    constructor; [|exact IH]. cbn. auto.
  - destruct (s_varargs s); [constructor; [cbn; auto|constructor]|constructor].
  - destruct (s_varkw s); [constructor; [cbn; auto|constructor]|constructor].
Qed.

(* every described name resolves to a public callable of the wrapper that mounts instances *)
Definition member_names_plain (t : itable) : Prop :=
  forall m ms name mem, In (m, IClass ms) t -> In (name, mem) ms -> ~ In DOT name.

Lemma described_resolves_lemma ms t d k :
  instantiates ms t -> member_names_plain t -> describe t = Some d -> In k (map fst d) ->
  exists e, get_method ms k = TCall e /\ public_entry_b ms e = true.
Proof.
  intros Hi Hp Hd Hk. apply (describe_keys_lemma t d k Hd) in Hk.
  assert (H : exists e, get_method ms k = TCall e).
  { destruct Hk as [(s & Hin)|(m & members & name & s & Hin & Hm & Hpriv & ->)].
    - specialize (Hi k (IRoutine s) Hin). cbn in Hi. unfold get_method. rewrite Hi. eauto.
    - specialize (Hi m (IClass members) Hin). cbn in Hi. destruct Hi as (obj & Hobj & Hattrs).
      unfold get_method. destruct (mount_callable ms (m ++ DOT :: name)); [eauto|].
      rewrite (rsplit_dot_app m name (Hp m members name (IMRoutine s) Hin Hm)), Hpriv, Hobj, (Hattrs name s Hm Hpriv).
      eauto. }
  destruct H as (e & He). exists e. split; [exact He|exact (get_method_public ms k e He)].
Qed.

Example nv_describe :
  describe [(lit "core.x", IClass [(lit "_priv", IMRoutine (mkSig [s_self] [] None None None));
                                   (lit "attr", IMOther);
                                   (lit "play", IMRoutine (mkSig [s_self; lit "tlid"; lit "q"] [JNull] None (Some (lit "kw")) (Some (lit "Play."))))]);
            (lit "f", IRoutine (mkSig [] [] (Some (lit "a")) None None))]
  = Some [(lit "core.x.play", mkM (Some (lit "Play.")) [mkP (lit "tlid") None false false; mkP (lit "q") (Some JNull) false false;
                                                        mkP (lit "kw") None false true]);
          (lit "f", mkM None [mkP (lit "a") None true false])].
Proof. vm_compute. reflexivity. Qed.
