(* Value semantics of the models (src/mopidy/models/_base.py; pydantic BaseModel with
   frozen=True): __eq__ is structural equality of the field values (frozenset fields as
   sets), __hash__ is a function of the field values that does not depend on the order of a
   set, and replace(updates...) re-validates the dumped fields with the updates applied.
   Python's actual hash function is not modelled: [model_hash] is a structural hash with the
   same invariances, used to state and prove eq/hash coherence. *)
From Coq Require Import ZArith List Bool String.
From Common Require Import Str Res.
From Rpc Require Import Json Models.
Import ListNotations.
Open Scope Z_scope.

(* ---- __eq__ ---------------------------------------------------------------------- *)

Definition set_eqb {A} (eqb : A -> A -> bool) (l1 l2 : list A) : bool :=
  forallb (fun x => memb eqb x l2) l1 && forallb (fun x => memb eqb x l1) l2.

Definition reftype_eqb (a b : reftype) : bool :=
  match a, b with
  | RAlbum, RAlbum | RArtist, RArtist | RDirectory, RDirectory | RPlaylist, RPlaylist | RTrack, RTrack => true
  | _, _ => false
  end.

Definition ref_eqb (a b : ref) : bool :=
  str_eqb (rf_uri a) (rf_uri b) && ostr_eqb (rf_name a) (rf_name b) && reftype_eqb (rf_type a) (rf_type b).

Definition image_eqb (a b : image) : bool :=
  str_eqb (im_uri a) (im_uri b) && oz_eqb (im_width a) (im_width b) && oz_eqb (im_height a) (im_height b).

Definition album_eqb (a b : album) : bool :=
  ostr_eqb (al_uri a) (al_uri b) && ostr_eqb (al_name a) (al_name b)
  && set_eqb artist_eqb (al_artists a) (al_artists b)
  && oz_eqb (al_num_tracks a) (al_num_tracks b) && oz_eqb (al_num_discs a) (al_num_discs b)
  && ostr_eqb (al_date a) (al_date b) && ostr_eqb (al_mbid a) (al_mbid b).

Definition track_eqb (a b : track) : bool :=
  ostr_eqb (tr_uri a) (tr_uri b) && ostr_eqb (tr_name a) (tr_name b)
  && set_eqb artist_eqb (tr_artists a) (tr_artists b)
  && opt_eqb album_eqb (tr_album a) (tr_album b)
  && set_eqb artist_eqb (tr_composers a) (tr_composers b)
  && set_eqb artist_eqb (tr_performers a) (tr_performers b)
  && ostr_eqb (tr_genre a) (tr_genre b) && oz_eqb (tr_track_no a) (tr_track_no b)
  && oz_eqb (tr_disc_no a) (tr_disc_no b) && ostr_eqb (tr_date a) (tr_date b)
  && oz_eqb (tr_length a) (tr_length b) && oz_eqb (tr_bitrate a) (tr_bitrate b)
  && ostr_eqb (tr_comment a) (tr_comment b) && ostr_eqb (tr_mbid a) (tr_mbid b)
  && oz_eqb (tr_last_modified a) (tr_last_modified b).

Definition tltrack_eqb (a b : tltrack) : bool :=
  (tl_tlid a =? tl_tlid b) && track_eqb (tl_track a) (tl_track b).

Definition playlist_eqb (a b : playlist) : bool :=
  ostr_eqb (pl_uri a) (pl_uri b) && ostr_eqb (pl_name a) (pl_name b)
  && list_eqb track_eqb (pl_tracks a) (pl_tracks b) && oz_eqb (pl_last_modified a) (pl_last_modified b).

Definition searchresult_eqb (a b : searchresult) : bool :=
  ostr_eqb (sr_uri a) (sr_uri b) && list_eqb track_eqb (sr_tracks a) (sr_tracks b)
  && list_eqb artist_eqb (sr_artists a) (sr_artists b) && list_eqb album_eqb (sr_albums a) (sr_albums b).

(* values of different classes are never equal *)
Definition model_eqb (a b : model) : bool :=
  match a, b with
  | MRef x, MRef y => ref_eqb x y
  | MImage x, MImage y => image_eqb x y
  | MArtist x, MArtist y => artist_eqb x y
  | MAlbum x, MAlbum y => album_eqb x y
  | MTrack x, MTrack y => track_eqb x y
  | MTlTrack x, MTlTrack y => tltrack_eqb x y
  | MPlaylist x, MPlaylist y => playlist_eqb x y
  | MSearchResult x, MSearchResult y => searchresult_eqb x y
  | _, _ => false
  end.

(* ---- __hash__ --------------------------------------------------------------------- *)

Fixpoint str_hash (s : str) : Z := match s with [] => 7 | c :: t => c + 31 * str_hash t end.
Definition ostr_hash (o : option str) : Z := match o with None => 0 | Some s => 1 + 2 * str_hash s end.
Definition oz_hash (o : option Z) : Z := match o with None => 0 | Some z => 1 + 2 * z end.
(* order independent (a frozenset) / order dependent (a tuple) *)
Definition set_hash {A} (h : A -> Z) (l : list A) : Z := fold_right (fun x acc => h x + acc) 0 l.
Definition list_hash {A} (h : A -> Z) (l : list A) : Z := fold_right (fun x acc => h x + 31 * acc) 1 l.
Definition mix (a b : Z) : Z := a + 1000003 * b.

Definition reftype_hash (t : reftype) : Z :=
  match t with RAlbum => 1 | RArtist => 2 | RDirectory => 3 | RPlaylist => 4 | RTrack => 5 end.
Definition ref_hash (m : ref) : Z := mix (str_hash (rf_uri m)) (mix (ostr_hash (rf_name m)) (reftype_hash (rf_type m))).
Definition image_hash (m : image) : Z := mix (str_hash (im_uri m)) (mix (oz_hash (im_width m)) (oz_hash (im_height m))).
Definition artist_hash (m : artist) : Z :=
  mix (ostr_hash (ar_uri m)) (mix (ostr_hash (ar_name m)) (mix (ostr_hash (ar_sortname m)) (ostr_hash (ar_mbid m)))).
Definition album_hash (m : album) : Z :=
  mix (ostr_hash (al_uri m)) (mix (ostr_hash (al_name m)) (mix (set_hash artist_hash (al_artists m))
  (mix (oz_hash (al_num_tracks m)) (mix (oz_hash (al_num_discs m)) (mix (ostr_hash (al_date m)) (ostr_hash (al_mbid m))))))).
Definition oalbum_hash (o : option album) : Z := match o with None => 0 | Some a => 1 + 2 * album_hash a end.
Definition track_hash (m : track) : Z :=
  mix (ostr_hash (tr_uri m)) (mix (ostr_hash (tr_name m)) (mix (set_hash artist_hash (tr_artists m))
  (mix (oalbum_hash (tr_album m)) (mix (set_hash artist_hash (tr_composers m)) (mix (set_hash artist_hash (tr_performers m))
  (mix (ostr_hash (tr_genre m)) (mix (oz_hash (tr_track_no m)) (mix (oz_hash (tr_disc_no m)) (mix (ostr_hash (tr_date m))
  (mix (oz_hash (tr_length m)) (mix (oz_hash (tr_bitrate m)) (mix (ostr_hash (tr_comment m)) (mix (ostr_hash (tr_mbid m))
  (oz_hash (tr_last_modified m))))))))))))))).
Definition tltrack_hash (m : tltrack) : Z := mix (tl_tlid m) (track_hash (tl_track m)).
Definition playlist_hash (m : playlist) : Z :=
  mix (ostr_hash (pl_uri m)) (mix (ostr_hash (pl_name m)) (mix (list_hash track_hash (pl_tracks m)) (oz_hash (pl_last_modified m)))).
Definition searchresult_hash (m : searchresult) : Z :=
  mix (ostr_hash (sr_uri m)) (mix (list_hash track_hash (sr_tracks m)) (mix (list_hash artist_hash (sr_artists m))
  (list_hash album_hash (sr_albums m)))).

Definition model_hash (m : model) : Z :=
  match m with
  | MRef x => mix 1 (ref_hash x) | MImage x => mix 2 (image_hash x) | MArtist x => mix 3 (artist_hash x)
  | MAlbum x => mix 4 (album_hash x) | MTrack x => mix 5 (track_hash x) | MTlTrack x => mix 6 (tltrack_hash x)
  | MPlaylist x => mix 7 (playlist_hash x) | MSearchResult x => mix 8 (searchresult_hash x)
  end.

(* ---- replace(updates...) ------------------------------------------------------------- *)

Definition model_members (m : model) : list (str * json) :=
  match to_json true m with JObj o => o | _ => [] end.

(* BaseModel.replace: fields = model_dump(mode="json", by_alias=..., exclude_unset=True);
   fields |= updates; return cls(fields...).
   [by_alias]: the flag of that dump - False in the pinned tree, True since the fix commit
   recorded in known_findings.json.  [tag_was_set]: the instance (or one nested in it) was
   validated from tagged JSON, so "model" is in its fields_set and the dump contains the tag:
   under the key "model" (the field NAME) when by_alias is False, which the constructor
   rejects as an extra field; under its alias "__model__" when by_alias is True, which the
   constructor accepts.  The updates win over the dump (dict update = lookup finds the
   update first). *)
Definition replace_dump (by_alias : bool) (lax : json -> option Z) (tag_was_set : bool) (m : model)
           (upd : list (str * json)) : vres model :=
  if tag_was_set && negb by_alias then bad
  else match of_json_as lax (class_name m) (JObj (upd ++ model_members m)) with
       | Some r => r
       | None => bad
       end.

(* the current code / the pinned code *)
Definition replace := replace_dump true.
Definition replace_pinned := replace_dump false.
