(* Model of mopidy.internal.jsonrpc.Inspector (describe / _get_methods / _describe_method /
   _describe_params) and of the JSON the core.describe method returns.

   Oracle (modelled, not verified): Python's inspect module.  The input of the model is what
   inspect reports about the mounted classes and functions: for a routine its argument
   names, the default values of the trailing arguments, the names of *args / **kwargs and
   its docstring; for a class the list of its members (inspect.getmembers) each classified
   by inspect.isroutine.  Default values and docstrings are carried as JSON / text. *)
From Coq Require Import ZArith List Bool String.
From Common Require Import Str.
From Rpc Require Import Json JsonRpc.
Import ListNotations.
Open Scope Z_scope.

Record sig := mkSig {
  s_args : list str;          (* argspec.args *)
  s_defaults : list json;     (* argspec.defaults: defaults of the LAST arguments *)
  s_varargs : option str;
  s_varkw : option str;
  s_doc : option str          (* inspect.getdoc *)
}.

Inductive imember := IMRoutine (s : sig) | IMOther.
Inductive iobj := IRoutine (s : sig) | IClass (members : list (str * imember)).
Definition itable := list (str * iobj).

Record pdesc := mkP { p_name : str; p_default : option json; p_varargs : bool; p_kwargs : bool }.
Record mdesc := mkM { m_doc : option str; m_params : list pdesc }.

Definition s_self := lit "self".

(* zip(argspec.args, [Undefined] * (len(args) - len(defaults)) + defaults); skip "self" *)
Definition describe_params (s : sig) : list pdesc :=
  let n := (List.length (s_args s) - List.length (s_defaults s))%nat in
  let defs := repeat None n ++ map Some (s_defaults s) in
  flat_map (fun ad => if str_eqb (fst ad) s_self then [] else [mkP (fst ad) (snd ad) false false])
           (combine (s_args s) defs)
  ++ match s_varargs s with Some v => [mkP v None true false] | None => [] end
  ++ match s_varkw s with Some v => [mkP v None false true] | None => [] end.

Definition describe_method (s : sig) : mdesc := mkM (s_doc s) (describe_params s).

(* methods[key] = value on a Python dict: replace in place, or append *)
Fixpoint dict_set {A} (k : str) (v : A) (d : list (str * A)) : list (str * A) :=
  match d with
  | [] => [(k, v)]
  | (k', v') :: t => if str_eqb k k' then (k, v) :: t else (k', v') :: dict_set k v t
  end.

Definition describe_member (mount : str) (d : list (str * mdesc)) (nm : str * imember) : list (str * mdesc) :=
  if is_private (fst nm) then d
  else match snd nm with
       | IMRoutine s => dict_set (mount ++ DOT :: fst nm) (describe_method s) d
       | IMOther => d
       end.

Definition describe_obj (d : list (str * mdesc)) (mo : str * iobj) : list (str * mdesc) :=
  match snd mo with
  | IRoutine s => dict_set (fst mo) (describe_method s) d
  | IClass ms => fold_left (describe_member (fst mo)) ms d
  end.

(* Inspector(objects).describe(); None: the constructor refuses the empty mount name *)
Definition describe (t : itable) : option (list (str * mdesc)) :=
  if has_key [] t then None else Some (fold_left describe_obj t []).

(* ---- the JSON core.describe returns (ParamDescription / MethodDescription serialisers) ---- *)

Definition pdesc_json (p : pdesc) : json :=
  JObj ([(lit "name", JStr (p_name p))]
        ++ match p_default p with Some d => [(lit "default", d)] | None => [] end
        ++ (if p_varargs p then [(lit "varargs", JBool true)] else [])
        ++ (if p_kwargs p then [(lit "kwargs", JBool true)] else [])).

Definition mdesc_json (m : mdesc) : json :=
  JObj [(lit "description", match m_doc m with Some s => JStr s | None => JNull end);
        (lit "params", JArr (map pdesc_json (m_params m)))].

Definition describe_json (d : list (str * mdesc)) : json :=
  JObj (map (fun kv => (fst kv, mdesc_json (snd kv))) d).

(* ---- what "described" means, and the wrapper table that goes with an inspector table ------- *)

Definition described (t : itable) (k : str) : Prop :=
  (exists s, In (k, IRoutine s) t) \/
  (exists m ms name s, In (m, IClass ms) t /\ In (name, IMRoutine s) ms /\ is_private name = false /\
                       k = m ++ DOT :: name).

(* the wrapper mounts, under the same names, the functions themselves and instances of the
   classes: every public routine of a class is a callable attribute of its instance *)
Definition instantiates (ms : mounts) (t : itable) : Prop :=
  forall m o, In (m, o) t ->
    match o with
    | IRoutine _ => mount_callable ms m = true
    | IClass members =>
        exists obj, lookup m ms = Some obj /\
                    forall name s, In (name, IMRoutine s) members -> is_private name = false ->
                                   lookup name (m_attrs obj) = Some ACallable
    end.
