(* Functions used only by the correspondence check harness/c08.py. *)
From Coq Require Import ZArith List Bool String.
From Common Require Import Str Res Cases.
From Rpc Require Import Json Models Events Values.
Import ListNotations.
Open Scope Z_scope.

Definition to_json_ok (ex : bool) (c : model * json * json) : bool :=
  let '(m, ser, dumped) := c in json_equiv_sets (to_json ex m) (if ex then ser else dumped).

Definition same_model (a b : model) : bool := json_eqb (to_json true a) (to_json true b).

Definition roundtrip_ok (ex : bool) (c : model * json * json) : bool :=
  let '(m, _, _) := c in
  match of_json lax_int_corr (to_json ex m) with
  | Ok m' => same_model m' m
  | _ => false
  end.

Definition wf_ok (c : model * json * json) : bool := let '(m, _, _) := c in model_wf m.

(* expected: Some (Some s) accepted, re-serialises to s; Some None ValidationError; None TypeError *)
Definition of_json_case_ok (c : str * json * option (option json)) : bool :=
  let '(cls, j, expected) := c in
  match of_json_as lax_int_corr cls j, expected with
  | Some (Ok m), Some (Some s) => json_equiv_sets (to_json true m) s && model_wf m
  | Some (Raise EValidationError), Some None => true
  | Some (Raise ETypeError), None => true
  | _, _ => false
  end.

Fixpoint pval_shape (p : pval) : json :=
  match p with
  | PvNull => JNull
  | PvBool b => JBool b
  | PvInt z => JInt z
  | PvFloat t => JFloat t
  | PvStr s => JStr s
  | PvList l => JArr (map pval_shape l)
  | PvDict d => JObj [(lit "$dict", JObj (map (fun kv => (fst kv, pval_shape (snd kv))) d))]
  | PvModel m => JObj [(lit "$model", to_json true m)]
  end.

(* what the serialiser writes when the method returns what it received *)
Fixpoint pval_result (p : pval) : json :=
  match p with
  | PvNull => JNull
  | PvBool b => JBool b
  | PvInt z => JInt z
  | PvFloat t => JFloat t
  | PvStr s => JStr s
  | PvList l => JArr (map pval_result l)
  | PvDict d => JObj (map (fun kv => (fst kv, pval_result (snd kv))) d)
  | PvModel m => rpc_result_json m
  end.

Definition decode_case_ok (c : json * option json * json) : bool :=
  let '(j, got, _) := c in
  match decode lax_int_corr j, got with
  | Ok pv, Some g => json_equiv_sets (pval_shape pv) g
  | Raise _, None => true
  | _, _ => false
  end.

Definition result_case_ok (c : json * option json * json) : bool :=
  let '(j, _, res) := c in
  match decode lax_int_corr j with
  | Ok pv => json_equiv_sets (pval_result pv) res
  | _ => true
  end.

Definition event_case_ok (c : model * json) : bool :=
  let '(m, payload) := c in json_equiv_sets (event_json true m) payload.

Definition state_case_ok (c : model * json) : bool :=
  let '(m, j) := c in json_equiv_sets (state_file_json m) j.

Definition event_msg_ok (c : event * json) : bool :=
  let '(e, msg) := c in json_equiv_sets (encode_event true e) msg.

Definition event_decode_ok (c : event * json) : bool :=
  let '(e, msg) := c in
  match decode_event lax_int_corr msg with
  | Ok e' => json_eqb (encode_event true e') (encode_event true e)
  | _ => false
  end.

Definition eq_case_ok (c : model * model * bool) : bool :=
  let '(a, b, expected) := c in
  Bool.eqb (model_eqb a b) expected && Bool.eqb (model_eqb b a) expected && model_eqb a a
  && (if expected then model_hash a =? model_hash b else true).

Definition replace_case_ok (c : model * bool * list (str * json) * option (option json)) : bool :=
  let '(m, tag_was_set, upd, expected) := c in
  match replace lax_int_corr tag_was_set m upd, expected with
  | Ok m', Some (Some s) => json_equiv_sets (to_json true m') s && model_wf m'
  | Raise EValidationError, Some None => true
  | Raise ETypeError, None => true
  | _, _ => false
  end.
