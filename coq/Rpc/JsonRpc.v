(* Model of mopidy.internal.jsonrpc.Wrapper (src/mopidy/internal/jsonrpc.py):
   handle_json -> handle_data -> _handle_batch / _handle_single_request ->
   _validate_request (+ the pydantic Request model) -> _get_method -> call -> dump.

   Oracles (modelled, not verified):
   * bytes -> JSON is pydantic_core.from_json: the input of the model is
     [ParseFail | Parsed j].
   * the mounted Python callables: [call log e params] says what the callable named by
     entry [e] does when invoked after the invocations in [log] (it may depend on the
     whole invocation history): returns a JSON-serialisable value, raises TypeError,
     raises another Exception (each with a message that can or cannot be written as
     UTF-8 JSON), or returns a value the JSON serialiser rejects.
   * pydantic's Request model is transcribed in [validate] (extra members forbidden,
     id : str | int | float | None in smart mode, bool accepted as int by lax coercion).
   * [pok p] says whether the params decode (_decode_models: an object tagged with the
     name of a model must validate as that model; Models.decode).  The theorems hold for
     every [pok]; the correspondence instantiates it with Models.decode.

   Python exceptions leaving handle_json are the explicit outcome [OEscaped].  The
   record [version] selects between the code before and after the fix: commits recorded
   in known_findings.json, so that the refutations about the old code stay checked. *)
From Coq Require Import ZArith List Bool String.
From Common Require Import Str.
From Rpc Require Import Json.
Import ListNotations.
Open Scope Z_scope.

Inductive input := ParseFail | Parsed (j : json).

(* Request.id after validation; a request whose id is None is a notification *)
Inductive rid := IdStr (s : str) | IdInt (z : Z) | IdFloat (t : ftok).

Inductive params := PList (l : list json) | PDict (l : list (str * json)).

Record request := mkReq { r_id : option rid; r_method : str; r_params : params }.

Inductive vres :=
| VOk (r : request)
| VInvalidReq            (* InvalidRequestError raised by the structural checks *)
| VPydanticErr.          (* pydantic.ValidationError raised by Request.model_validate *)

Definition k_jsonrpc := lit "jsonrpc".
Definition k_id := lit "id".
Definition k_method := lit "method".
Definition k_params := lit "params".
Definition k_result := lit "result".
Definition k_error := lit "error".
Definition k_code := lit "code".
Definition k_message := lit "message".
Definition k_data := lit "data".
Definition s_2_0 := lit "2.0".

Definition known_member (k : str) : bool :=
  str_eqb k k_jsonrpc || str_eqb k k_id || str_eqb k k_method || str_eqb k k_params.

(* "params" in request and not isinstance(request["params"], list | dict) *)
Definition params_of (o : list (str * json)) : option params :=
  match lookup k_params o with
  | None => Some (PList [])
  | Some (JArr l) => Some (PList l)
  | Some (JObj d) => Some (PDict d)
  | Some _ => None
  end.

(* id: str | int | float | None, pydantic smart union; None = ValidationError *)
Definition id_of (o : list (str * json)) : option (option rid) :=
  match lookup k_id o with
  | None => Some None
  | Some JNull => Some None
  | Some (JStr s) => Some (Some (IdStr s))
  | Some (JInt z) => Some (Some (IdInt z))
  | Some (JBool b) => Some (Some (IdInt (if b then 1 else 0)))
  | Some (JFloat t) => Some (Some (IdFloat t))
  | Some (JArr _) => None
  | Some (JObj _) => None
  end.

Definition validate (pok : params -> bool) (j : json) : vres :=
  match j with
  | JObj o =>
      match lookup k_jsonrpc o with
      | None => VInvalidReq
      | Some (JStr v) =>
          if negb (str_eqb v s_2_0) then VInvalidReq else
          match lookup k_method o with
          | None => VInvalidReq
          | Some (JStr m) =>
              match params_of o with
              | None => VInvalidReq
              | Some p =>
                  (* Request.model_validate(request_dict) *)
                  if negb (forallb (fun kv => known_member (fst kv)) o) then VPydanticErr
                  else if negb (pok p) then VPydanticErr
                  else match id_of o with
                       | None => VPydanticErr
                       | Some i => VOk (mkReq i m p)
                       end
              end
          | Some _ => VInvalidReq
          end
      | Some _ => VInvalidReq
      end
  | _ => VInvalidReq
  end.

(* ---- the mount table ------------------------------------------------------ *)

Inductive attr_kind := ACallable | APlain.
Record mobj := mkObj { m_callable : bool; m_attrs : list (str * attr_kind) }.
Definition mounts := list (str * mobj).

(* what was invoked: the mounted callable itself, or attribute a of mount m *)
Inductive entry := EMount (m : str) | EAttr (m a : str).
Definition log := list entry.

Inductive call_result :=
| CallOk (r : json)
| CallTypeError (data : option json)   (* the error data {type, message, traceback}; None: not serialisable *)
| CallOther (data : option json)
| CallUnserializable.

Definition DOT : Z := 46.
Definition UNDERSCORE : Z := 95.

(* split a reversed string at its first '.', i.e. the original at its last '.' *)
Fixpoint break_dot (r : str) : option (str * str) :=
  match r with
  | [] => None
  | c :: t => if c =? DOT then Some ([], t)
              else match break_dot t with
                   | Some (a, b) => Some (c :: a, b)
                   | None => None
                   end
  end.

(* method_path.rsplit(".", 1) when "." in method_path *)
Definition rsplit_dot (s : str) : option (str * str) :=
  match break_dot (rev s) with
  | Some (name_r, mount_r) => Some (rev mount_r, rev name_r)
  | None => None
  end.

Definition is_private (name : str) : bool :=
  match name with c :: _ => c =? UNDERSCORE | [] => false end.

Inductive target :=
| TCall (e : entry)
| TPlain          (* the attribute exists but is not callable: calling it is a TypeError *)
| TNotFound.      (* MethodNotFoundError *)

Definition mount_callable (ms : mounts) (path : str) : bool :=
  match lookup path ms with Some o => m_callable o | None => false end.

Definition get_method (ms : mounts) (path : str) : target :=
  if mount_callable ms path then TCall (EMount path)
  else match rsplit_dot path with
       | None => TNotFound
       | Some (mount, name) =>
           if is_private name then TNotFound
           else match lookup mount ms with
                | None => TNotFound
                | Some o =>
                    match lookup name (m_attrs o) with
                    | None => TNotFound
                    | Some ACallable => TCall (EAttr mount name)
                    | Some APlain => TPlain
                    end
                end
       end.

(* ---- responses -------------------------------------------------------------- *)

Inductive payload :=
| PResult (r : json)
| PError (code : Z) (data : json)
| PBad.       (* a result, or an error message, that the JSON serialiser rejects *)

Record resp := mkResp { rs_id : option rid; rs_payload : payload }.

(* EOther: any other exception class; the model never produces it *)
Inductive exn := EValidation | ESerialization | EOther.

Inductive sres := SNone | SResp (r : resp) | SEscape (e : exn).

(* result of a computation that a Python exception may abandon *)
Inductive pres (A : Type) := POk (a : A) | PRaise (e : exn).
Arguments POk {A} a.
Arguments PRaise {A} e.

Record version := mkVersion {
  v_catch_validation : bool;   (* ValidationError -> InvalidRequestError *)
  v_safe_dump : bool;          (* serialisation failure -> application error *)
  v_decode_in_handler : bool;  (* http/handlers.py decodes the body as UTF-8 first *)
  v_tag_decode : bool          (* params decoded by their __model__ tag (may fail) rather
                                  than by the smart union model | Any (never fails) *)
}.
Definition pre_fix := mkVersion false false true false.
Definition fixed := mkVersion true true false true.

Definition E_PARSE : Z := -32700.
Definition E_INVALID : Z := -32600.
Definition E_NOT_FOUND : Z := -32601.
Definition E_PARAMS : Z := -32602.
Definition E_APP : Z := 0.

(* error data the wrapper itself produces: a text (not modelled: JNull stands for "some
   string or list of strings"), or the description of the TypeError of calling a non-callable *)
Definition d_text : json := JNull.
Definition d_not_callable : json := JObj [(lit "type", JStr (lit "TypeError"))].
Definition d_unserializable : json := JObj [(lit "type", JStr (lit "PydanticSerializationError"))].

Section Wrapper.
  Variable v : version.
  Variable pok : params -> bool.
  Variable ms : mounts.
  Variable call : log -> entry -> params -> call_result.

  Definition answer (rq : request) (p : payload) : sres :=
    match r_id rq with
    | None => SNone                       (* notification *)
    | Some i => SResp (mkResp (Some i) p)
    end.

  Definition vpok : params -> bool := if v_tag_decode v then pok else fun _ => true.

  Definition handle_single (l : log) (j : json) : sres * log :=
    match validate vpok j with
    | VInvalidReq => (SResp (mkResp None (PError E_INVALID d_text)), l)
    | VPydanticErr =>
        if v_catch_validation v then (SResp (mkResp None (PError E_INVALID d_text)), l)
        else (SEscape EValidation, l)
    | VOk rq =>
        match get_method ms (r_method rq) with
        | TNotFound => (answer rq (PError E_NOT_FOUND d_text), l)
        | TPlain => (answer rq (PError E_PARAMS d_not_callable), l)
        | TCall e =>
            let l' := l ++ [e] in
            match call l e (r_params rq) with
            | CallOk r => (answer rq (PResult r), l')
            | CallTypeError d => (answer rq (match d with Some x => PError E_PARAMS x | None => PBad end), l')
            | CallOther d => (answer rq (match d with Some x => PError E_APP x | None => PBad end), l')
            | CallUnserializable => (answer rq PBad, l')
            end
        end
    end.

  (* _handle_batch: the loop; an escaping exception abandons the rest of the batch *)
  Fixpoint run_batch (l : log) (js : list json) : pres (list resp) * log :=
    match js with
    | [] => (POk [], l)
    | j :: t =>
        match handle_single l j with
        | (SEscape e, l') => (PRaise e, l')
        | (SNone, l') => run_batch l' t
        | (SResp r, l') =>
            match run_batch l' t with
            | (POk rs, l'') => (POk (r :: rs), l'')
            | (PRaise e, l'') => (PRaise e, l'')
            end
        end
    end.

  Inductive doc := DNothing | DSingle (r : resp) | DBatch (rs : list resp).

  Definition handle_data (j : json) : pres doc * log :=
    match j with
    | JArr [] => (POk (DSingle (mkResp None (PError E_INVALID d_text))), [])
    | JArr js =>
        match run_batch [] js with
        | (POk [], l) => (POk DNothing, l)
        | (POk rs, l) => (POk (DBatch rs), l)
        | (PRaise e, l) => (PRaise e, l)
        end
    | _ =>
        match handle_single [] j with
        | (SEscape e, l) => (PRaise e, l)
        | (SNone, l) => (POk DNothing, l)
        | (SResp r, l) => (POk (DSingle r), l)
        end
    end.

  (* ---- the wire form ------------------------------------------------------ *)

  Definition wire_id (i : option rid) : json :=
    match i with
    | None => JNull
    | Some (IdStr s) => JStr s
    | Some (IdInt z) => JInt z
    | Some (IdFloat t) => if tok_finite t then JFloat t else JNull
    end.

  Definition message_of (code : Z) : str :=
    if code =? E_PARSE then lit "Parse error"
    else if code =? E_INVALID then lit "Invalid Request"
    else if code =? E_NOT_FOUND then lit "Method not found"
    else if code =? E_PARAMS then lit "Invalid params"
    else lit "Application error".

  Definition error_obj (code : Z) (data : json) : json :=
    JObj [(k_code, JInt code); (k_message, JStr (message_of code)); (k_data, data)].

  Definition payload_bad (r : resp) : bool :=
    match rs_payload r with PBad => true | _ => false end.

  (* the fixed dump replaces a response that cannot be serialised by an application
     error carrying the same id *)
  Definition wire (r : resp) : json :=
    match rs_payload r with
    | PResult x => JObj [(k_jsonrpc, JStr s_2_0); (k_id, wire_id (rs_id r)); (k_result, x)]
    | PError c d => JObj [(k_jsonrpc, JStr s_2_0); (k_id, wire_id (rs_id r)); (k_error, error_obj c d)]
    | PBad => JObj [(k_jsonrpc, JStr s_2_0); (k_id, wire_id (rs_id r)); (k_error, error_obj E_APP d_unserializable)]
    end.

  Inductive outcome :=
  | ONothing
  | OBytes (j : json)        (* the response document *)
  | OEscaped (e : exn).      (* a Python exception leaves handle_json *)

  Definition dump (d : doc) : outcome :=
    match d with
    | DNothing => ONothing
    | DSingle r =>
        if payload_bad r && negb (v_safe_dump v) then OEscaped ESerialization
        else OBytes (wire r)
    | DBatch rs =>
        if existsb payload_bad rs && negb (v_safe_dump v) then OEscaped ESerialization
        else OBytes (JArr (map wire rs))
    end.

  Definition handle_json (i : input) : outcome * log :=
    match i with
    | ParseFail => (dump (DSingle (mkResp None (PError E_PARSE JNull))), [])
    | Parsed j =>
        match handle_data j with
        | (POk d, l) => (dump d, l)
        | (PRaise e, l) => (OEscaped e, l)
        end
    end.

  (* ---- the transport handlers (http/handlers.py JsonRpcHandler.post and
     WebSocketHandler.on_message): an empty message is ignored; before the fix the
     message was decoded as UTF-8 first and a failure (like any exception leaving
     handle_json) ended in the handler's catch-all: HTTP 500 / closed socket. *)
  Inductive endpoint_out :=
  | EpNoMessage
  | EpTransportError
  | EpOut (o : outcome).

  Definition endpoint (empty utf8_ok : bool) (i : input) : endpoint_out * log :=
    if empty then (EpNoMessage, [])
    else if v_decode_in_handler v && negb utf8_ok then (EpTransportError, [])
    else match handle_json i with
         | (OEscaped _, l) => (EpTransportError, l)
         | (o, l) => (EpOut o, l)
         end.
End Wrapper.

(* ---- observations and the response grammar ---------------------------------- *)

(* What a client can observe of one response object: its id and either the result or
   the error code (message and data texts are not compared). *)
Inductive robs :=
| RoResult (id r : json)
| RoError (id : json) (code : Z) (data : json)
| RoMalformed.

Definition robs_of_json (j : json) : robs :=
  match j with
  | JObj o =>
      match lookup k_id o, lookup k_result o, lookup k_error o with
      | Some i, Some r, None => RoResult i r
      | Some i, None, Some (JObj e) =>
          match lookup k_code e with
          | Some (JInt c) => RoError i c (match lookup k_data e with Some d => d | None => JNull end)
          | _ => RoMalformed
          end
      | _, _, _ => RoMalformed
      end
  | _ => RoMalformed
  end.

(* the members the model states about the error data (the exception class name, the message
   of a recorded exception) must be there; texts the model does not state are not compared *)
Definition data_agrees (model impl : json) : bool :=
  match model with
  | JObj m =>
      match impl with
      | JObj im => forallb (fun kv => match lookup (fst kv) im with
                                      | Some x => json_equiv (snd kv) x
                                      | None => false
                                      end) m
      | _ => match m with [] => true | _ => false end
      end
  | _ => true
  end.

(* first argument: the model's observation *)
Definition robs_eqb (a b : robs) : bool :=
  match a, b with
  | RoResult i r, RoResult i' r' => json_eqb i i' && json_equiv r r'
  | RoError i c d, RoError i' c' d' => json_eqb i i' && (c =? c') && data_agrees d d'
  | _, _ => false
  end.

Definition doc_obs (j : json) : list robs :=
  match j with
  | JArr l => RoMalformed :: map robs_of_json l      (* marker: a batch *)
  | _ => [robs_of_json j]
  end.

Definition exn_eqb (a b : exn) : bool :=
  match a, b with
  | EValidation, EValidation => true
  | ESerialization, ESerialization => true
  | EOther, EOther => true
  | _, _ => false
  end.

Definition robs_list_eqb (a b : list robs) : bool :=
  match a, b with
  | RoMalformed :: a', RoMalformed :: b' => list_eqb robs_eqb a' b'
  | [x], [y] => robs_eqb x y
  | _, _ => false
  end.

Definition outcome_eqb (a b : outcome) : bool :=
  match a, b with
  | ONothing, ONothing => true
  | OBytes x, OBytes y => robs_list_eqb (doc_obs x) (doc_obs y)
  | OEscaped e, OEscaped e' => exn_eqb e e'
  | _, _ => false
  end.

Definition entry_eqb (a b : entry) : bool :=
  match a, b with
  | EMount m, EMount m' => str_eqb m m'
  | EAttr m x, EAttr m' x' => str_eqb m m' && str_eqb x x'
  | _, _ => false
  end.

(* JSON-RPC 2.0 response grammar (section 5 of the specification): an object with
   exactly jsonrpc = "2.0", an id that is a string, a number or null, and exactly one
   of result / error; error = {code : integer, message : string, data? : any}.  A
   success response answers a request whose id was detected, so its id is not null. *)
Definition id_json_ok (j : json) : bool :=
  match j with JNull | JStr _ | JInt _ | JFloat _ => true | _ => false end.

Definition error_member (k : str) : bool :=
  str_eqb k k_code || str_eqb k k_message || str_eqb k k_data.

Definition error_ok_b (e : json) : bool :=
  match e with
  | JObj m =>
      match lookup k_code m, lookup k_message m with
      | Some (JInt _), Some (JStr _) => forallb (fun kv => error_member (fst kv)) m
      | _, _ => false
      end
  | _ => false
  end.

Definition response_ok_b (j : json) : bool :=
  match j with
  | JObj o =>
      match lookup k_jsonrpc o, lookup k_id o with
      | Some (JStr ver), Some i =>
          str_eqb ver s_2_0 && id_json_ok i && Nat.eqb (List.length o) 3 &&
          match lookup k_result o, lookup k_error o with
          | Some _, None => negb (is_null i)
          | None, Some e => error_ok_b e
          | _, _ => false
          end
      | _, _ => false
      end
  | _ => false
  end.

Definition document_ok_b (j : json) : bool :=
  match j with
  | JArr [] => false
  | JArr l => forallb response_ok_b l
  | _ => response_ok_b j
  end.

(* invoked entries are public API of the mount table *)
Definition public_entry_b (ms : mounts) (e : entry) : bool :=
  match e with
  | EMount m => mount_callable ms m
  | EAttr m a =>
      negb (is_private a) &&
      match lookup m ms with
      | Some o => match lookup a (m_attrs o) with Some ACallable => true | _ => false end
      | None => false
      end
  end.
