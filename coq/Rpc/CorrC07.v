(* The concrete call oracle matching the recording mounts of harness/c07.py: what a
   recorded callable does is a function of the last segment of its name (and, for
   "count", of the invocation history).  Used only by the correspondence check. *)
From Coq Require Import ZArith List Bool String.
From Common Require Import Str Cases.
From Rpc Require Import Json Models JsonRpc Inspector.
Import ListNotations.
Open Scope Z_scope.

Definition behaviour_name (e : entry) : str :=
  match e with
  | EAttr _ a => a
  | EMount m => match rsplit_dot m with Some (_, n) => n | None => m end
  end.

Definition fixed_result : json :=
  JObj [(lit "ok", JArr [JInt 1; JStr (lit "x"); JNull; JBool true])].

Definition exc_data (ty msg : string) : json := JObj [(lit "type", JStr (lit ty)); (lit "message", JStr (lit msg))].

Definition corr_call (l : log) (e : entry) (p : params) : call_result :=
  let n := behaviour_name e in
  if str_eqb n (lit "count") then CallOk (JInt (Z.of_nat (List.length l)))
  else if str_eqb n (lit "nargs") then
    CallOk (match p with
            | PList a => JArr [JInt (Z.of_nat (List.length a)); JArr []]
            | PDict d => JArr [JInt 0; JArr (map (fun kv => JStr (fst kv)) d)]
            end)
  else if str_eqb n (lit "te") then CallTypeError (Some (exc_data "TypeError" "te"))
  else if str_eqb n (lit "te_bad") then CallTypeError None
  else if str_eqb n (lit "oth") then CallOther (Some (exc_data "ValueError" "oth"))
  else if str_eqb n (lit "oth_bad") then CallOther None
  else if str_eqb n (lit "uns") then CallUnserializable
  else CallOk fixed_result.

Definition corr_pok (p : params) : bool :=
  match p with
  | PList l => params_decodable lax_int_corr l
  | PDict d => params_decodable lax_int_corr (map snd d)
  end.

(* one case: mount table, input, the implementation's outcome and invocation log *)
Definition case := (mounts * input * outcome * log)%type.

Definition case_ok (v : version) (c : case) : bool :=
  let '(ms, i, o, l) := c in
  let '(o', l') := handle_json v corr_pok ms corr_call i in
  outcome_eqb o' o && list_eqb entry_eqb l' l.

(* monitors evaluated on the implementation's own outcome *)
Definition grammar_ok (c : case) : bool :=
  let '(_, _, o, _) := c in
  match o with OBytes j => document_ok_b j | _ => true end.

Definition log_public_ok (c : case) : bool :=
  let '(ms, _, _, l) := c in forallb (public_entry_b ms) l.

(* transport handler cases: mounts, body empty?, body valid UTF-8?, parser outcome,
   what the real handler did, invocation log *)
Definition ep_case := (mounts * bool * bool * input * endpoint_out * log)%type.

Definition endpoint_out_eqb (a b : endpoint_out) : bool :=
  match a, b with
  | EpNoMessage, EpNoMessage => true
  | EpTransportError, EpTransportError => true
  | EpOut x, EpOut y => outcome_eqb x y
  | _, _ => false
  end.

Definition ep_case_ok (v : version) (c : ep_case) : bool :=
  let '(ms, empty, utf8_ok, i, o, l) := c in
  let '(o', l') := endpoint v corr_pok ms corr_call empty utf8_ok i in
  endpoint_out_eqb o' o && list_eqb entry_eqb l' l.

(* Inspector: table reported by inspect, the JSON core.describe returned (None: constructor raised) *)
Definition describe_case_ok (c : itable * option json) : bool :=
  let '(t, expected) := c in
  match describe t, expected with
  | Some d, Some j => json_equiv (describe_json d) j
  | None, None => true
  | _, _ => false
  end.

(* every described name resolves to a callable on the wrapper table of instances, and is public *)
Definition describe_resolves_ok (c : itable * mounts) : bool :=
  let '(t, ms) := c in
  match describe t with
  | Some d => forallb (fun kv => match get_method ms (fst kv) with
                                 | TCall e => public_entry_b ms e
                                 | _ => false
                                 end) d
  | None => true
  end.
