(* Model of the WebSocket event wire (src/mopidy/http/actor.py on_event,
   src/mopidy/core/listener.py): every CoreListener event with its typed arguments, the
   message written by CoreEventTypeAdapter.dump_json(event, by_alias=True) and the decoder a
   client applies to it (the same rules as everything else the API hands out: tagged objects
   are models, scalars are themselves).  PlaybackState is the string enum of types.py. *)
From Coq Require Import ZArith List Bool String.
From Common Require Import Str Res.
From Rpc Require Import Json Models.
Import ListNotations.
Open Scope Z_scope.

Inductive pstate := PsPaused | PsPlaying | PsStopped.

Definition pstate_str (s : pstate) : str :=
  match s with PsPaused => lit "paused" | PsPlaying => lit "playing" | PsStopped => lit "stopped" end.

Definition pstate_of (s : str) : option pstate :=
  if str_eqb s (lit "paused") then Some PsPaused
  else if str_eqb s (lit "playing") then Some PsPlaying
  else if str_eqb s (lit "stopped") then Some PsStopped
  else None.

(* the fourteen core events and their keyword arguments *)
Inductive event :=
| EvTrackPlaybackPaused (tl_track : tltrack) (time_position : Z)
| EvTrackPlaybackResumed (tl_track : tltrack) (time_position : Z)
| EvTrackPlaybackStarted (tl_track : tltrack)
| EvTrackPlaybackEnded (tl_track : tltrack) (time_position : Z)
| EvPlaybackStateChanged (old_state new_state : pstate)
| EvTracklistChanged
| EvPlaylistsLoaded
| EvPlaylistChanged (pl : playlist)
| EvPlaylistDeleted (uri : str)
| EvOptionsChanged
| EvVolumeChanged (volume : Z)
| EvMuteChanged (mute : bool)
| EvSeeked (time_position : Z)
| EvStreamTitleChanged (title : str).

Definition k_event := lit "event".
Definition k_tl_track := lit "tl_track".
Definition k_time_position := lit "time_position".
Definition k_old_state := lit "old_state".
Definition k_new_state := lit "new_state".
Definition k_playlist := lit "playlist".
Definition k_volume := lit "volume".
Definition k_mute := lit "mute".
Definition k_title := lit "title".

Definition event_name (e : event) : str :=
  match e with
  | EvTrackPlaybackPaused _ _ => lit "track_playback_paused"
  | EvTrackPlaybackResumed _ _ => lit "track_playback_resumed"
  | EvTrackPlaybackStarted _ => lit "track_playback_started"
  | EvTrackPlaybackEnded _ _ => lit "track_playback_ended"
  | EvPlaybackStateChanged _ _ => lit "playback_state_changed"
  | EvTracklistChanged => lit "tracklist_changed"
  | EvPlaylistsLoaded => lit "playlists_loaded"
  | EvPlaylistChanged _ => lit "playlist_changed"
  | EvPlaylistDeleted _ => lit "playlist_deleted"
  | EvOptionsChanged => lit "options_changed"
  | EvVolumeChanged _ => lit "volume_changed"
  | EvMuteChanged _ => lit "mute_changed"
  | EvSeeked _ => lit "seeked"
  | EvStreamTitleChanged _ => lit "stream_title_changed"
  end.

(* on_event: event = data; event["event"] = name; dump_json(event, by_alias) *)
Definition event_args (by_alias : bool) (e : event) : list (str * json) :=
  let tl t := (k_tl_track, event_json by_alias (MTlTrack t)) in
  match e with
  | EvTrackPlaybackPaused t p | EvTrackPlaybackResumed t p | EvTrackPlaybackEnded t p =>
      [tl t; (k_time_position, JInt p)]
  | EvTrackPlaybackStarted t => [tl t]
  | EvPlaybackStateChanged o n => [(k_old_state, JStr (pstate_str o)); (k_new_state, JStr (pstate_str n))]
  | EvTracklistChanged | EvPlaylistsLoaded | EvOptionsChanged => []
  | EvPlaylistChanged p => [(k_playlist, event_json by_alias (MPlaylist p))]
  | EvPlaylistDeleted u => [(k_uri, JStr u)]
  | EvVolumeChanged v => [(k_volume, JInt v)]
  | EvMuteChanged m => [(k_mute, JBool m)]
  | EvSeeked p => [(k_time_position, JInt p)]
  | EvStreamTitleChanged t => [(k_title, JStr t)]
  end.

Definition encode_event (by_alias : bool) (e : event) : json :=
  JObj (event_args by_alias e ++ [(k_event, JStr (event_name e))]).

Definition event_wf (e : event) : bool :=
  match e with
  | EvTrackPlaybackPaused t _ | EvTrackPlaybackResumed t _ | EvTrackPlaybackEnded t _
  | EvTrackPlaybackStarted t => tltrack_wf t
  | EvPlaylistChanged p => playlist_wf p
  | _ => true
  end.

Section Decode.
  Variable lax : json -> option Z.

  Definition get_tl (o : list (str * json)) : vres tltrack :=
    match lookup k_tl_track o with
    | Some j => match of_json lax j with Ok (MTlTrack t) => Ok t | Ok _ => bad | Raise e => Raise e | Diverge => Diverge end
    | None => bad
    end.

  Definition get_pl (o : list (str * json)) : vres playlist :=
    match lookup k_playlist o with
    | Some j => match of_json lax j with Ok (MPlaylist p) => Ok p | Ok _ => bad | Raise e => Raise e | Diverge => Diverge end
    | None => bad
    end.

  Definition get_z (o : list (str * json)) (k : str) : vres Z :=
    match lookup k o with Some (JInt z) => Ok z | _ => bad end.
  Definition get_s (o : list (str * json)) (k : str) : vres str :=
    match lookup k o with Some (JStr s) => Ok s | _ => bad end.
  Definition get_b (o : list (str * json)) (k : str) : vres bool :=
    match lookup k o with Some (JBool b) => Ok b | _ => bad end.
  Definition get_ps (o : list (str * json)) (k : str) : vres pstate :=
    match lookup k o with
    | Some (JStr s) => match pstate_of s with Some p => Ok p | None => bad end
    | _ => bad
    end.

  (* what a WebSocket client does with an event message *)
  Definition decode_event (j : json) : vres event :=
    match j with
    | JObj o =>
        match lookup k_event o with
        | Some (JStr n) =>
            if str_eqb n (lit "track_playback_paused") then
              rbind (get_tl o) (fun t => rbind (get_z o k_time_position) (fun p => Ok (EvTrackPlaybackPaused t p)))
            else if str_eqb n (lit "track_playback_resumed") then
              rbind (get_tl o) (fun t => rbind (get_z o k_time_position) (fun p => Ok (EvTrackPlaybackResumed t p)))
            else if str_eqb n (lit "track_playback_started") then
              rbind (get_tl o) (fun t => Ok (EvTrackPlaybackStarted t))
            else if str_eqb n (lit "track_playback_ended") then
              rbind (get_tl o) (fun t => rbind (get_z o k_time_position) (fun p => Ok (EvTrackPlaybackEnded t p)))
            else if str_eqb n (lit "playback_state_changed") then
              rbind (get_ps o k_old_state) (fun a => rbind (get_ps o k_new_state) (fun b => Ok (EvPlaybackStateChanged a b)))
            else if str_eqb n (lit "tracklist_changed") then Ok EvTracklistChanged
            else if str_eqb n (lit "playlists_loaded") then Ok EvPlaylistsLoaded
            else if str_eqb n (lit "playlist_changed") then rbind (get_pl o) (fun p => Ok (EvPlaylistChanged p))
            else if str_eqb n (lit "playlist_deleted") then rbind (get_s o k_uri) (fun u => Ok (EvPlaylistDeleted u))
            else if str_eqb n (lit "options_changed") then Ok EvOptionsChanged
            else if str_eqb n (lit "volume_changed") then rbind (get_z o k_volume) (fun v => Ok (EvVolumeChanged v))
            else if str_eqb n (lit "mute_changed") then rbind (get_b o k_mute) (fun m => Ok (EvMuteChanged m))
            else if str_eqb n (lit "seeked") then rbind (get_z o k_time_position) (fun p => Ok (EvSeeked p))
            else if str_eqb n (lit "stream_title_changed") then rbind (get_s o k_title) (fun t => Ok (EvStreamTitleChanged t))
            else bad
        | _ => bad
        end
    | _ => bad
    end.
End Decode.

(* the members of an event message that are objects are fully tagged models *)
Definition all_tagged_values (j : json) : bool :=
  match j with JObj o => forallb (fun kv => all_tagged (snd kv)) o | _ => false end.
