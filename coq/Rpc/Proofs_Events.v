(* decode_event (encode_event ev) = ev for every CoreListener event. *)
From Coq Require Import ZArith List Bool String.
From Common Require Import Str Res.
From Rpc Require Import Json Models Proofs_Models Events.
Import ListNotations.
Open Scope Z_scope.

Lemma event_json_roundtrip lax m : model_wf m = true -> of_json lax (event_json true m) = Ok m.
Proof. intros H. change (event_json true m) with (to_json false m). apply roundtrip_lemma. exact H. Qed.

Lemma pstate_roundtrip p : pstate_of (pstate_str p) = Some p.
Proof. destruct p; reflexivity. Qed.

Section EventRoundtrip.
  Variable lax : json -> option Z.

  Local Opaque event_json of_json pstate_of pstate_str.

  Lemma event_roundtrip_lemma e : event_wf e = true -> decode_event lax (encode_event true e) = Ok e.
  Proof.
    destruct e; cbn [event_wf]; intros Hw; unfold decode_event, encode_event, event_args;
      cbn -[event_json of_json pstate_of pstate_str];
      unfold get_tl, get_pl, get_z, get_s, get_b, get_ps;
      cbn -[event_json of_json pstate_of pstate_str];
      rewrite ?(event_json_roundtrip lax (MTlTrack _) Hw), ?(event_json_roundtrip lax (MPlaylist _) Hw),
        ?pstate_roundtrip; reflexivity.
  Qed.
End EventRoundtrip.

(* the name and every keyword argument of the event are members of the message *)
Lemma event_message_shape by_alias e :
  exists o, encode_event by_alias e = JObj o /\ lookup k_event o = Some (JStr (event_name e)).
Proof. destruct e; eexists; split; reflexivity. Qed.

(* every model inside an event message is tagged at every level *)
Lemma event_tagged_lemma e : all_tagged_values (encode_event true e) = true.
Proof.
  destruct e; unfold all_tagged_values, encode_event, event_args; cbn [app forallb snd];
    change (event_json true) with (to_json false); rewrite ?tagged_lemma; reflexivity.
Qed.

(* before the fix (no by_alias) an event carrying a model does not decode *)
Lemma event_roundtrip_refuted : exists e, event_wf e = true /\ forall lax, decode_event lax (encode_event false e) <> Ok e.
Proof.
  exists (EvTrackPlaybackStarted (mkTlTrack 1 (mkTrack None None [] None [] [] None None None None None None None None None))).
  split; [reflexivity|]. intros lax. vm_compute. discriminate.
Qed.

Example nv_event :
  event_wf (EvTrackPlaybackEnded (mkTlTrack 1 demo_track) 1500) = true /\
  decode_event no_lax (encode_event true (EvTrackPlaybackEnded (mkTlTrack 1 demo_track) 1500))
  = Ok (EvTrackPlaybackEnded (mkTlTrack 1 demo_track) 1500).
Proof. split; vm_compute; reflexivity. Qed.
