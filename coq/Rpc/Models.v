(* Model of the mopidy models (src/mopidy/models/__init__.py, _base.py), of their JSON
   forms and of the JSON-RPC parameter decoder (internal/jsonrpc.py _decode_models).

   One record per model class with exactly the declared fields.  frozenset fields are
   duplicate-free lists (the harness fixes a canonical order); UUIDs are kept as their
   canonical text, dates as text.

   to_json: the dump with the alias __model__, in the two flavours the code uses
     ex = true   BaseModel.serialize(): model_dump(mode="json", by_alias, exclude_none)
     ex = false  dump_json(by_alias=True) / model_dump_json(by_alias=True): nulls kept
   of_json: pydantic validation of a JSON object (model_validate / model_validate_json):
   extra keys forbidden, the tag must be absent or the class name, type checks, defaults,
   constraints.  Oracle (modelled, not verified): the lax coercion of a bool / float / str
   to an int, [lax_int].  TlTrack has a hand-written __init__(tlid, track, **_): its tag
   and unknown keys are ignored and a missing argument raises TypeError, as in the code. *)
From Coq Require Import ZArith List Bool String.
From Common Require Import Str Res.
From Rpc Require Import Json.
Import ListNotations.
Open Scope Z_scope.

Inductive verr := EValidationError | ETypeError.
Definition vres (A : Type) := res verr A.
Definition bad {A} : vres A := Raise EValidationError.

(* ---- records ------------------------------------------------------------------ *)

Inductive reftype := RAlbum | RArtist | RDirectory | RPlaylist | RTrack.

Record ref := mkRef { rf_uri : str; rf_name : option str; rf_type : reftype }.

Record image := mkImage { im_uri : str; im_width : option Z; im_height : option Z }.

Record artist := mkArtist {
  ar_uri : option str; ar_name : option str; ar_sortname : option str; ar_mbid : option str }.

Record album := mkAlbum {
  al_uri : option str; al_name : option str; al_artists : list artist;
  al_num_tracks : option Z; al_num_discs : option Z; al_date : option str; al_mbid : option str }.

Record track := mkTrack {
  tr_uri : option str; tr_name : option str; tr_artists : list artist; tr_album : option album;
  tr_composers : list artist; tr_performers : list artist; tr_genre : option str;
  tr_track_no : option Z; tr_disc_no : option Z; tr_date : option str; tr_length : option Z;
  tr_bitrate : option Z; tr_comment : option str; tr_mbid : option str; tr_last_modified : option Z }.

Record tltrack := mkTlTrack { tl_tlid : Z; tl_track : track }.

Record playlist := mkPlaylist {
  pl_uri : option str; pl_name : option str; pl_tracks : list track; pl_last_modified : option Z }.

Record searchresult := mkSearchResult {
  sr_uri : option str; sr_tracks : list track; sr_artists : list artist; sr_albums : list album }.

Inductive model :=
| MRef (m : ref) | MImage (m : image) | MArtist (m : artist) | MAlbum (m : album)
| MTrack (m : track) | MTlTrack (m : tltrack) | MPlaylist (m : playlist) | MSearchResult (m : searchresult).

(* ---- names ----------------------------------------------------------------------- *)

Definition k_model := lit "__model__".
Definition k_uri := lit "uri".
Definition k_name := lit "name".
Definition k_type := lit "type".
Definition k_width := lit "width".
Definition k_height := lit "height".
Definition k_sortname := lit "sortname".
Definition k_mbid := lit "musicbrainz_id".
Definition k_artists := lit "artists".
Definition k_num_tracks := lit "num_tracks".
Definition k_num_discs := lit "num_discs".
Definition k_date := lit "date".
Definition k_album := lit "album".
Definition k_composers := lit "composers".
Definition k_performers := lit "performers".
Definition k_genre := lit "genre".
Definition k_track_no := lit "track_no".
Definition k_disc_no := lit "disc_no".
Definition k_length := lit "length".
Definition k_bitrate := lit "bitrate".
Definition k_comment := lit "comment".
Definition k_last_modified := lit "last_modified".
Definition k_tlid := lit "tlid".
Definition k_track := lit "track".
Definition k_tracks := lit "tracks".
Definition k_albums := lit "albums".

Definition n_Ref := lit "Ref".
Definition n_Image := lit "Image".
Definition n_Artist := lit "Artist".
Definition n_Album := lit "Album".
Definition n_Track := lit "Track".
Definition n_TlTrack := lit "TlTrack".
Definition n_Playlist := lit "Playlist".
Definition n_SearchResult := lit "SearchResult".

Definition class_names : list str :=
  [n_Ref; n_Image; n_Artist; n_Album; n_Track; n_TlTrack; n_Playlist; n_SearchResult].

Definition class_name (m : model) : str :=
  match m with
  | MRef _ => n_Ref | MImage _ => n_Image | MArtist _ => n_Artist | MAlbum _ => n_Album
  | MTrack _ => n_Track | MTlTrack _ => n_TlTrack | MPlaylist _ => n_Playlist
  | MSearchResult _ => n_SearchResult
  end.

Definition reftype_str (t : reftype) : str :=
  match t with
  | RAlbum => lit "album" | RArtist => lit "artist" | RDirectory => lit "directory"
  | RPlaylist => lit "playlist" | RTrack => lit "track"
  end.

Definition reftype_of (s : str) : option reftype :=
  if str_eqb s (lit "album") then Some RAlbum
  else if str_eqb s (lit "artist") then Some RArtist
  else if str_eqb s (lit "directory") then Some RDirectory
  else if str_eqb s (lit "playlist") then Some RPlaylist
  else if str_eqb s (lit "track") then Some RTrack
  else None.

(* ---- field constraints -------------------------------------------------------------- *)

(* \d of the pattern ^\d{4}(-\d{2}-\d{2})?$ is Unicode aware (Rust regex): decimal digits
   come in runs of ten; the run starts below were measured on pydantic-core. *)
Definition nd_starts : list Z :=
  [48; 1632; 1776; 1984; 2406; 2534; 2662; 2790; 2918; 3046; 3174; 3302; 3430; 3558; 3664; 3792;
   3872; 4160; 4240; 6112; 6160; 6470; 6608; 6784; 6800; 6992; 7088; 7232; 7248; 42528; 43216;
   43264; 43472; 43504; 43600; 44016; 65296; 66720; 68912; 68928; 69734; 69872; 69942; 70096;
   70384; 70736; 70864; 71248; 71360; 71376; 71386; 71472; 71904; 72016; 72688; 72784; 73040;
   73120; 73552; 90416; 92768; 92864; 93008; 93552; 118000; 120782; 120792; 120802; 120812;
   120822; 123200; 123632; 124144; 124401; 125264; 130032].

Definition is_nd (c : Z) : bool := existsb (fun lo => (lo <=? c) && (c <? lo + 10)) nd_starts.

Definition HYPHEN : Z := 45.

Definition date_ok (s : str) : bool :=
  match s with
  | [a; b; c; d] => is_nd a && is_nd b && is_nd c && is_nd d
  | [a; b; c; d; h1; e; f; h2; g; h] =>
      is_nd a && is_nd b && is_nd c && is_nd d && (h1 =? HYPHEN) && is_nd e && is_nd f
      && (h2 =? HYPHEN) && is_nd g && is_nd h
  | _ => false
  end.

(* canonical UUID text: 8-4-4-4-12 lower-case hex *)
Definition is_lhex (c : Z) : bool := ((48 <=? c) && (c <=? 57)) || ((97 <=? c) && (c <=? 102)).

Fixpoint shape_ok (pattern : list bool) (s : str) {struct pattern} : bool :=
  match pattern, s with
  | [], [] => true
  | true :: p, c :: t => (c =? HYPHEN) && shape_ok p t
  | false :: p, c :: t => is_lhex c && shape_ok p t
  | _, _ => false
  end.

Definition uuid_pattern : list bool :=
  repeat false 8 ++ [true] ++ repeat false 4 ++ [true] ++ repeat false 4 ++ [true]
  ++ repeat false 4 ++ [true] ++ repeat false 12.

Definition is_canon_uuid (s : str) : bool := shape_ok uuid_pattern s.

Definition lower_hex (c : Z) : Z := if (65 <=? c) && (c <=? 70) then c + 32 else c.

Definition hyphenate (s : str) : str :=
  firstn 8 s ++ [HYPHEN] ++ firstn 4 (skipn 8 s) ++ [HYPHEN] ++ firstn 4 (skipn 12 s) ++ [HYPHEN]
  ++ firstn 4 (skipn 16 s) ++ [HYPHEN] ++ skipn 20 s.

(* the four textual forms the uuid crate accepts: hyphenated, simple (32 hex digits),
   braced hyphenated, urn:uuid: hyphenated; hex digits in either case *)
Definition uuid_parse (s : str) : option str :=
  let l := map lower_hex s in
  if is_canon_uuid l then Some l
  else if Nat.eqb (List.length l) 32 && is_canon_uuid (hyphenate l) then Some (hyphenate l)
  else if starts_with (lit "urn:uuid:") s && is_canon_uuid (skipn 9 l) then Some (skipn 9 l)
  else match l with
       | 123 :: t =>
           match rev t with
           | 125 :: r => if is_canon_uuid (rev r) then Some (rev r) else None
           | _ => None
           end
       | _ => None
       end.

Definition nonneg (z : option Z) : bool := match z with Some n => 0 <=? n | None => true end.
Definition uuid_wf (u : option str) : bool := match u with Some s => is_canon_uuid s | None => true end.
Definition date_wf (d : option str) : bool := match d with Some s => date_ok s | None => true end.

(* ---- decidable equality (for the frozenset fields) -------------------------------------- *)

Definition ostr_eqb := opt_eqb str_eqb.
Definition oz_eqb := opt_eqb Z.eqb.

Definition artist_eqb (a b : artist) : bool :=
  ostr_eqb (ar_uri a) (ar_uri b) && ostr_eqb (ar_name a) (ar_name b)
  && ostr_eqb (ar_sortname a) (ar_sortname b) && ostr_eqb (ar_mbid a) (ar_mbid b).

Fixpoint memb {A} (eqb : A -> A -> bool) (x : A) (l : list A) : bool :=
  match l with [] => false | y :: t => eqb x y || memb eqb x t end.

(* keep one occurrence of each element (the order of a Python set is not observable; the
   harness compares set-valued fields in a canonical order) *)
Fixpoint dedup {A} (eqb : A -> A -> bool) (l : list A) : list A :=
  match l with
  | [] => []
  | x :: t => if memb eqb x t then dedup eqb t else x :: dedup eqb t
  end.

Fixpoint nodupb {A} (eqb : A -> A -> bool) (l : list A) : bool :=
  match l with [] => true | x :: t => negb (memb eqb x t) && nodupb eqb t end.

(* ---- well-formedness = the field constraints -------------------------------------------- *)

Definition ref_wf (_ : ref) : bool := true.
Definition image_wf (m : image) : bool := nonneg (im_width m) && nonneg (im_height m).
Definition artist_wf (m : artist) : bool := uuid_wf (ar_mbid m).
Definition artists_wf (l : list artist) : bool := forallb artist_wf l && nodupb artist_eqb l.
Definition album_wf (m : album) : bool :=
  artists_wf (al_artists m) && nonneg (al_num_tracks m) && nonneg (al_num_discs m)
  && date_wf (al_date m) && uuid_wf (al_mbid m).
Definition oalbum_wf (m : option album) : bool := match m with Some a => album_wf a | None => true end.
Definition track_wf (m : track) : bool :=
  artists_wf (tr_artists m) && oalbum_wf (tr_album m) && artists_wf (tr_composers m)
  && artists_wf (tr_performers m) && nonneg (tr_track_no m) && nonneg (tr_disc_no m)
  && date_wf (tr_date m) && nonneg (tr_bitrate m) && uuid_wf (tr_mbid m)
  && nonneg (tr_last_modified m).
Definition tltrack_wf (m : tltrack) : bool := (1 <=? tl_tlid m) && track_wf (tl_track m).
Definition playlist_wf (m : playlist) : bool := forallb track_wf (pl_tracks m) && nonneg (pl_last_modified m).
Definition searchresult_wf (m : searchresult) : bool :=
  forallb track_wf (sr_tracks m) && forallb artist_wf (sr_artists m) && forallb album_wf (sr_albums m).

Definition model_wf (m : model) : bool :=
  match m with
  | MRef x => ref_wf x | MImage x => image_wf x | MArtist x => artist_wf x | MAlbum x => album_wf x
  | MTrack x => track_wf x | MTlTrack x => tltrack_wf x | MPlaylist x => playlist_wf x
  | MSearchResult x => searchresult_wf x
  end.

(* ---- to_json ------------------------------------------------------------------------------ *)

(* a model is dumped as a list of slots (key, optional value); a slot without a value is
   omitted (exclude_none) or written as null *)
Definition slots := list (str * option json).

Definition render (ex : bool) (sl : slots) : list (str * json) :=
  flat_map (fun kv => match snd kv with
                      | Some j => [(fst kv, j)]
                      | None => if ex then [] else [(fst kv, JNull)]
                      end) sl.

Definition s_str (v : option str) : option json := option_map JStr v.
Definition s_int (v : option Z) : option json := option_map JInt v.

Section ToJson.
  Variable tagkey : str.   (* "__model__" (by_alias=True) or "model" (the old event dump) *)
  Variable ex : bool.

  Definition tag (n : str) : str * option json := (tagkey, Some (JStr n)).

  Definition ref_json (m : ref) : json :=
    JObj (render ex [tag n_Ref; (k_uri, Some (JStr (rf_uri m))); (k_name, s_str (rf_name m));
                     (k_type, Some (JStr (reftype_str (rf_type m))))]).

  Definition image_json (m : image) : json :=
    JObj (render ex [tag n_Image; (k_uri, Some (JStr (im_uri m))); (k_width, s_int (im_width m));
                     (k_height, s_int (im_height m))]).

  Definition artist_json (m : artist) : json :=
    JObj (render ex [tag n_Artist; (k_uri, s_str (ar_uri m)); (k_name, s_str (ar_name m));
                     (k_sortname, s_str (ar_sortname m)); (k_mbid, s_str (ar_mbid m))]).

  Definition album_json (m : album) : json :=
    JObj (render ex [tag n_Album; (k_uri, s_str (al_uri m)); (k_name, s_str (al_name m));
                     (k_artists, Some (JArr (map artist_json (al_artists m))));
                     (k_num_tracks, s_int (al_num_tracks m)); (k_num_discs, s_int (al_num_discs m));
                     (k_date, s_str (al_date m)); (k_mbid, s_str (al_mbid m))]).

  Definition track_json (m : track) : json :=
    JObj (render ex [tag n_Track; (k_uri, s_str (tr_uri m)); (k_name, s_str (tr_name m));
                     (k_artists, Some (JArr (map artist_json (tr_artists m))));
                     (k_album, option_map album_json (tr_album m));
                     (k_composers, Some (JArr (map artist_json (tr_composers m))));
                     (k_performers, Some (JArr (map artist_json (tr_performers m))));
                     (k_genre, s_str (tr_genre m)); (k_track_no, s_int (tr_track_no m));
                     (k_disc_no, s_int (tr_disc_no m)); (k_date, s_str (tr_date m));
                     (k_length, s_int (tr_length m)); (k_bitrate, s_int (tr_bitrate m));
                     (k_comment, s_str (tr_comment m)); (k_mbid, s_str (tr_mbid m));
                     (k_last_modified, s_int (tr_last_modified m))]).

  Definition tltrack_json (m : tltrack) : json :=
    JObj (render ex [tag n_TlTrack; (k_tlid, Some (JInt (tl_tlid m)));
                     (k_track, Some (track_json (tl_track m)))]).

  Definition playlist_json (m : playlist) : json :=
    JObj (render ex [tag n_Playlist; (k_uri, s_str (pl_uri m)); (k_name, s_str (pl_name m));
                     (k_tracks, Some (JArr (map track_json (pl_tracks m))));
                     (k_last_modified, s_int (pl_last_modified m))]).

  Definition searchresult_json (m : searchresult) : json :=
    JObj (render ex [tag n_SearchResult; (k_uri, s_str (sr_uri m));
                     (k_tracks, Some (JArr (map track_json (sr_tracks m))));
                     (k_artists, Some (JArr (map artist_json (sr_artists m))));
                     (k_albums, Some (JArr (map album_json (sr_albums m))))]).

  Definition model_json (m : model) : json :=
    match m with
    | MRef x => ref_json x | MImage x => image_json x | MArtist x => artist_json x
    | MAlbum x => album_json x | MTrack x => track_json x | MTlTrack x => tltrack_json x
    | MPlaylist x => playlist_json x | MSearchResult x => searchresult_json x
    end.
End ToJson.

Definition to_json (ex : bool) (m : model) : json := model_json k_model ex m.

(* ---- of_json ---------------------------------------------------------------------------------- *)

Fixpoint map_res {A B} (f : A -> vres B) (l : list A) : vres (list B) :=
  match l with
  | [] => Ok []
  | x :: t => rbind (f x) (fun y => rbind (map_res f t) (fun ys => Ok (y :: ys)))
  end.

Definition keys_ok (allowed : list str) (o : list (str * json)) : bool :=
  forallb (fun kv => mem_str (fst kv) allowed) o.

Definition tag_ok (n : str) (o : list (str * json)) : bool :=
  match lookup k_model o with
  | None => true
  | Some (JStr s) => str_eqb s n
  | Some _ => false
  end.

Definition guard {A} (b : bool) (k : vres A) : vres A := if b then k else bad.

Section OfJson.
  Variable lax_int : json -> option Z.   (* pydantic's lax bool/float/str -> int coercion *)

  Definition int_of (j : json) : option Z :=
    match j with
    | JInt z => Some z
    | JBool _ | JFloat _ | JStr _ => lax_int j
    | _ => None
    end.

  Definition get_ostr (o : list (str * json)) (k : str) : vres (option str) :=
    match lookup k o with
    | None | Some JNull => Ok None
    | Some (JStr s) => Ok (Some s)
    | Some _ => bad
    end.

  Definition get_str (o : list (str * json)) (k : str) : vres str :=
    match lookup k o with Some (JStr s) => Ok s | _ => bad end.

  (* optional int, with an optional lower bound *)
  Definition get_oint (lo : option Z) (o : list (str * json)) (k : str) : vres (option Z) :=
    match lookup k o with
    | None | Some JNull => Ok None
    | Some j =>
        match int_of j with
        | Some z => match lo with
                    | Some m => if m <=? z then Ok (Some z) else bad
                    | None => Ok (Some z)
                    end
        | None => bad
        end
    end.

  Definition get_odate (o : list (str * json)) (k : str) : vres (option str) :=
    match lookup k o with
    | None | Some JNull => Ok None
    | Some (JStr s) => if date_ok s then Ok (Some s) else bad
    | Some _ => bad
    end.

  Definition get_ouuid (o : list (str * json)) (k : str) : vres (option str) :=
    match lookup k o with
    | None | Some JNull => Ok None
    | Some (JStr s) => match uuid_parse s with Some u => Ok (Some u) | None => bad end
    | Some _ => bad
    end.

  (* tuple[X, ...] / frozenset[X] field with default (): absent -> empty, null -> error *)
  Definition get_list {A} (f : json -> vres A) (o : list (str * json)) (k : str) : vres (list A) :=
    match lookup k o with
    | None => Ok []
    | Some (JArr l) => map_res f l
    | Some _ => bad
    end.

  Definition get_omodel {A} (f : json -> vres A) (o : list (str * json)) (k : str) : vres (option A) :=
    match lookup k o with
    | None | Some JNull => Ok None
    | Some j => rbind (f j) (fun m => Ok (Some m))
    end.

  Definition ref_of_json (j : json) : vres ref :=
    match j with
    | JObj o =>
        guard (keys_ok [k_model; k_uri; k_name; k_type] o && tag_ok n_Ref o)
          (rbind (get_str o k_uri) (fun uri =>
           rbind (get_ostr o k_name) (fun name =>
           match lookup k_type o with
           | Some (JStr t) => match reftype_of t with Some ty => Ok (mkRef uri name ty) | None => bad end
           | _ => bad
           end)))
    | _ => bad
    end.

  Definition image_of_json (j : json) : vres image :=
    match j with
    | JObj o =>
        guard (keys_ok [k_model; k_uri; k_width; k_height] o && tag_ok n_Image o)
          (rbind (get_str o k_uri) (fun uri =>
           rbind (get_oint (Some 0) o k_width) (fun w =>
           rbind (get_oint (Some 0) o k_height) (fun h => Ok (mkImage uri w h)))))
    | _ => bad
    end.

  Definition artist_of_json (j : json) : vres artist :=
    match j with
    | JObj o =>
        guard (keys_ok [k_model; k_uri; k_name; k_sortname; k_mbid] o && tag_ok n_Artist o)
          (rbind (get_ostr o k_uri) (fun uri =>
           rbind (get_ostr o k_name) (fun name =>
           rbind (get_ostr o k_sortname) (fun sortname =>
           rbind (get_ouuid o k_mbid) (fun mbid => Ok (mkArtist uri name sortname mbid))))))
    | _ => bad
    end.

  Definition get_artists (o : list (str * json)) (k : str) : vres (list artist) :=
    rbind (get_list artist_of_json o k) (fun l => Ok (dedup artist_eqb l)).

  Definition album_of_json (j : json) : vres album :=
    match j with
    | JObj o =>
        guard (keys_ok [k_model; k_uri; k_name; k_artists; k_num_tracks; k_num_discs; k_date; k_mbid] o
               && tag_ok n_Album o)
          (rbind (get_ostr o k_uri) (fun uri =>
           rbind (get_ostr o k_name) (fun name =>
           rbind (get_artists o k_artists) (fun artists =>
           rbind (get_oint (Some 0) o k_num_tracks) (fun nt =>
           rbind (get_oint (Some 0) o k_num_discs) (fun nd =>
           rbind (get_odate o k_date) (fun date =>
           rbind (get_ouuid o k_mbid) (fun mbid => Ok (mkAlbum uri name artists nt nd date mbid)))))))))
    | _ => bad
    end.

  Definition track_keys : list str :=
    [k_model; k_uri; k_name; k_artists; k_album; k_composers; k_performers; k_genre; k_track_no;
     k_disc_no; k_date; k_length; k_bitrate; k_comment; k_mbid; k_last_modified].

  Definition track_of_json (j : json) : vres track :=
    match j with
    | JObj o =>
        guard (keys_ok track_keys o && tag_ok n_Track o)
          (rbind (get_ostr o k_uri) (fun uri =>
           rbind (get_ostr o k_name) (fun name =>
           rbind (get_artists o k_artists) (fun artists =>
           rbind (get_omodel album_of_json o k_album) (fun alb =>
           rbind (get_artists o k_composers) (fun composers =>
           rbind (get_artists o k_performers) (fun performers =>
           rbind (get_ostr o k_genre) (fun genre =>
           rbind (get_oint (Some 0) o k_track_no) (fun track_no =>
           rbind (get_oint (Some 0) o k_disc_no) (fun disc_no =>
           rbind (get_odate o k_date) (fun date =>
           rbind (get_oint None o k_length) (fun len =>
           rbind (get_oint (Some 0) o k_bitrate) (fun bitrate =>
           rbind (get_ostr o k_comment) (fun comment =>
           rbind (get_ouuid o k_mbid) (fun mbid =>
           rbind (get_oint (Some 0) o k_last_modified) (fun lm =>
           Ok (mkTrack uri name artists alb composers performers genre track_no disc_no date len
                       bitrate comment mbid lm)))))))))))))))))
    | _ => bad
    end.

  (* TlTrack.__init__(self, tlid, track, **_): the validator calls it with the members of
     the object as keyword arguments; extra members (and the tag) vanish in **_, a missing
     tlid/track is a TypeError *)
  Definition tltrack_of_json (j : json) : vres tltrack :=
    match j with
    | JObj o =>
        match lookup k_tlid o, lookup k_track o with
        | Some jt, Some jtr =>
            match int_of jt with
            | Some z => if 1 <=? z then rbind (track_of_json jtr) (fun t => Ok (mkTlTrack z t)) else bad
            | None => bad
            end
        | _, _ => Raise ETypeError
        end
    | _ => bad
    end.

  Definition playlist_of_json (j : json) : vres playlist :=
    match j with
    | JObj o =>
        guard (keys_ok [k_model; k_uri; k_name; k_tracks; k_last_modified] o && tag_ok n_Playlist o)
          (rbind (get_ostr o k_uri) (fun uri =>
           rbind (get_ostr o k_name) (fun name =>
           rbind (get_list track_of_json o k_tracks) (fun tracks =>
           rbind (get_oint (Some 0) o k_last_modified) (fun lm => Ok (mkPlaylist uri name tracks lm))))))
    | _ => bad
    end.

  Definition searchresult_of_json (j : json) : vres searchresult :=
    match j with
    | JObj o =>
        guard (keys_ok [k_model; k_uri; k_tracks; k_artists; k_albums] o && tag_ok n_SearchResult o)
          (rbind (get_ostr o k_uri) (fun uri =>
           rbind (get_list track_of_json o k_tracks) (fun tracks =>
           rbind (get_list artist_of_json o k_artists) (fun artists =>
           rbind (get_list album_of_json o k_albums) (fun albums =>
           Ok (mkSearchResult uri tracks artists albums))))))
    | _ => bad
    end.

  Definition rmap {A B} (f : A -> B) (r : vres A) : vres B := rbind r (fun x => Ok (f x)).

  (* validation as the class named [n] *)
  Definition of_json_as (n : str) (j : json) : option (vres model) :=
    if str_eqb n n_Ref then Some (rmap MRef (ref_of_json j))
    else if str_eqb n n_Image then Some (rmap MImage (image_of_json j))
    else if str_eqb n n_Artist then Some (rmap MArtist (artist_of_json j))
    else if str_eqb n n_Album then Some (rmap MAlbum (album_of_json j))
    else if str_eqb n n_Track then Some (rmap MTrack (track_of_json j))
    else if str_eqb n n_TlTrack then Some (rmap MTlTrack (tltrack_of_json j))
    else if str_eqb n n_Playlist then Some (rmap MPlaylist (playlist_of_json j))
    else if str_eqb n n_SearchResult then Some (rmap MSearchResult (searchresult_of_json j))
    else None.

  (* decoding by the tag (what a consumer of the wire form does) *)
  Definition of_json (j : json) : vres model :=
    match j with
    | JObj o =>
        match lookup k_model o with
        | Some (JStr n) => match of_json_as n j with Some r => r | None => bad end
        | _ => bad
        end
    | _ => bad
    end.

  (* ---- the JSON-RPC parameter decoder (_decode_models): what a method receives ------ *)

  Inductive pval :=
  | PvNull | PvBool (b : bool) | PvInt (z : Z) | PvFloat (t : ftok) | PvStr (s : str)
  | PvList (l : list pval)
  | PvDict (l : list (str * pval))
  | PvModel (m : model).

  Definition decode_tag (o : list (str * json)) : option (vres model) :=
    match lookup k_model o with
    | Some (JStr n) => of_json_as n (JObj o)
    | _ => None
    end.

  Fixpoint decode (j : json) : vres pval :=
    match j with
    | JNull => Ok PvNull
    | JBool b => Ok (PvBool b)
    | JInt z => Ok (PvInt z)
    | JFloat t => Ok (PvFloat t)
    | JStr s => Ok (PvStr s)
    | JArr l =>
        rbind ((fix go (l : list json) : vres (list pval) :=
                  match l with
                  | [] => Ok []
                  | x :: t => rbind (decode x) (fun y => rbind (go t) (fun ys => Ok (y :: ys)))
                  end) l) (fun ys => Ok (PvList ys))
    | JObj o =>
        match decode_tag o with
        | Some (Ok m) => Ok (PvModel m)
        | Some _ => bad      (* a ValidationError, or TlTrack's TypeError turned into one *)
        | None =>
            rbind ((fix go (l : list (str * json)) : vres (list (str * pval)) :=
                      match l with
                      | [] => Ok []
                      | (k, x) :: t => rbind (decode x) (fun y => rbind (go t) (fun ys => Ok ((k, y) :: ys)))
                      end) o) (fun ys => Ok (PvDict ys))
        end
    end.

  (* the two loops of [decode], as stand-alone functions (Proofs_Models.decode_arr/_obj) *)
  Fixpoint map_res_kv {B} (f : json -> vres B) (o : list (str * json)) : vres (list (str * B)) :=
    match o with
    | [] => Ok []
    | (k, x) :: t => rbind (f x) (fun y => rbind (map_res_kv f t) (fun ys => Ok ((k, y) :: ys)))
    end.

  (* a JSON value as the plain Python value json.loads would give *)
  Fixpoint plain (j : json) : pval :=
    match j with
    | JNull => PvNull
    | JBool b => PvBool b
    | JInt z => PvInt z
    | JFloat t => PvFloat t
    | JStr s => PvStr s
    | JArr l => PvList (map plain l)
    | JObj o => PvDict (map (fun kv => (fst kv, plain (snd kv))) o)
    end.
End OfJson.

(* no object anywhere in [j] carries the name of a model under __model__ *)
Fixpoint untagged (j : json) : bool :=
  match j with
  | JArr l => forallb untagged l
  | JObj o =>
      match lookup k_model o with
      | Some (JStr n) => negb (mem_str n class_names)
      | _ => true
      end && forallb (fun kv => untagged (snd kv)) o
  | _ => true
  end.

(* every object in [j] is tagged with the name of a model class *)
Fixpoint all_tagged (j : json) : bool :=
  match j with
  | JArr l => forallb all_tagged l
  | JObj o =>
      match lookup k_model o with
      | Some (JStr n) => mem_str n class_names
      | _ => false
      end && forallb (fun kv => all_tagged (snd kv)) o
  | _ => true
  end.

(* ---- the three wires ------------------------------------------------------------------------- *)

(* JSON-RPC result: ResponseTypeAdapter.dump_json(response, by_alias=True) *)
Definition rpc_result_json (m : model) : json := model_json k_model false m.
(* state file: StoredState.model_dump_json(indent=2, by_alias=True) *)
Definition state_file_json (m : model) : json := model_json k_model false m.
(* WebSocket event: CoreEventTypeAdapter.dump_json(event, by_alias=...) *)
Definition event_json (by_alias : bool) (m : model) : json :=
  model_json (if by_alias then k_model else lit "model") false m.

(* ---- instances used by the correspondence checks ----------------------------------------------- *)

(* the part of pydantic's lax int coercion the generators exercise: bool, and plain
   decimal strings with an optional sign *)
Fixpoint digits_val (acc : Z) (s : str) : option Z :=
  match s with
  | [] => Some acc
  | c :: t => if (48 <=? c) && (c <=? 57) then digits_val (acc * 10 + (c - 48)) t else None
  end.

Definition lax_int_corr (j : json) : option Z :=
  match j with
  | JBool b => Some (if b then 1 else 0)
  | JStr (45 :: (_ :: _) as t) => option_map Z.opp (digits_val 0 t)
  | JStr (43 :: (_ :: _) as t) => digits_val 0 t
  | JStr ((_ :: _) as t) => digits_val 0 t
  | _ => None
  end.

(* whether Request.params validates: every element / value decodes *)
Definition params_decodable (lax : json -> option Z) (values : list json) : bool :=
  forallb (fun j => is_ok (decode lax j)) values.
