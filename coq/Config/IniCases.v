(* Case type for the INI-parser correspondence (model parse_ini vs configparser). *)
From Coq Require Import ZArith List Bool.
From Common Require Import Res Str.
From Config Require Import Escape Types Schema Tables Serialize STables Layers Ini.
Import ListNotations.
Open Scope Z_scope.

Definition icase_ok (c : icase) : bool :=
  let '(tl, text, obs) := c in
  let o := lower_only tl in
  match ini_config o text, obs with
  | None, None => true
  | Some cfg, Some (cfg', err) =>
      sub_raw cfg cfg' && sub_raw cfg' cfg && Bool.eqb (ini_has_error o text) err
  | _, _ => false
  end.
