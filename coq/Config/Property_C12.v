(* C12 property theorems.  Nothing but statements, `exact`, and Print Assumptions.
   Model: Types.v (ConfigValue.deserialize of every class), Schema.v (ConfigSchema /
   MapConfigSchema.deserialize, _levenshtein, _did_you_mean, config._validate).
   Specification-side definitions (wf, raw_empty, entry, ventry, key_verdict): Spec_C12.v
   and Proofs_Schema.v.  All theorems quantify over every oracle record [o]: whatever
   int(), float(), expand_path, the resolver, str.lower and transformers answer. *)
From Coq Require Import ZArith List Bool.
From Common Require Import Res Str.
From Config Require Import Escape Types Schema Spec_C12 Proofs_Types Proofs_Schema.
Import ListNotations.
Open Scope Z_scope.

(* T1: no deserialize lets anything but ValueError out, for every type (including every
   Pair/List nesting), every raw text and every oracle behaviour. *)
Theorem C12_types_only_valueerror :
  forall o t s, escaped (deserialize o t s) = false.
Proof. exact deserialize_no_escape. Qed.
Print Assumptions C12_types_only_valueerror.

(* ... which was false for the code before fix 2255669 (Path let RuntimeError out). *)
Theorem C12_prefix_types_only_valueerror_refuted :
  exists o t s, escaped (deserialize_prefix o t s) = true.
Proof. exact prefix_path_escapes. Qed.
Print Assumptions C12_prefix_types_only_valueerror_refuted.

(* T1 at the top: config._validate returns a (config, errors) pair for every raw config. *)
Theorem C12_validate_total :
  forall o raw schemas,
    raw_ok raw -> NoDup (map schema_name schemas) -> Forall schema_ok schemas ->
    exists C E, validate true o raw schemas = Ok (C, E).
Proof. exact validate_total. Qed.
Print Assumptions C12_validate_total.

(* The backbone: the result and error maps are, key by key, exactly the entry function
   [ventry] of (schema, that key's raw value); nothing else is in them. *)
Theorem C12_validate_is_entrywise :
  forall o raw schemas,
    raw_ok raw -> NoDup (map schema_name schemas) -> Forall schema_ok schemas ->
    exists C E, validate true o raw schemas = Ok (C, E)
      /\ (forall s, In s schemas -> forall k,
            (lookup2 C (schema_name s) k, lookup2 E (schema_name s) k) = ventry o s raw k)
      /\ (forall n, ~ In n (map schema_name schemas) -> assoc n C = None /\ assoc n E = None).
Proof. exact validate_spec. Qed.
Print Assumptions C12_validate_is_entrywise.

(* Soundness of every type: an accepted value is None only for an optional key left
   empty, otherwise it is of the declared type within range/choices.  [no_nan]: float()
   never answers nan (see the refutation below). *)
Theorem C12_type_sound_partial :
  forall o, no_nan o -> forall t, sane_ty t = true ->
  forall s v, deserialize o t s = Ok v ->
    (v = VNone /\ ty_optional t = true /\ raw_empty t s = true) \/ (v <> VNone /\ wf o t v).
Proof. exact deserialize_sound. Qed.
Print Assumptions C12_type_sound_partial.

(* T2: every non-deprecated key of every ConfigSchema is present; it holds a well-typed
   value and no error, or None and an error, or None without error exactly for an
   optional key left empty. *)
Theorem C12_result_complete_sound_partial :
  forall o raw schemas,
    no_nan o -> schemas_sane schemas ->
    raw_ok raw -> NoDup (map schema_name schemas) -> Forall schema_ok schemas ->
    exists C E, validate true o raw schemas = Ok (C, E) /\
      forall n keys, In (SConfig n keys) schemas ->
      forall k t, assoc k keys = Some t -> is_deprecated t = false ->
        key_verdict o t (raw_get raw n k) (lookup2 C n k) (lookup2 E n k).
Proof. exact result_complete_sound_lemma. Qed.
Print Assumptions C12_result_complete_sound_partial.

(* T2 in FULL (no assumption on any oracle) for every schema list in which no Float declares
   a minimum or maximum: exactly the schemas the nan defect cannot reach.  The core schemas
   and the five bundled extension schemas contain no Float at all; the harness evaluates
   [schemas_float_free] on the introspected real schemas on every run. *)
Theorem C12_result_complete_sound_float_free :
  forall o raw schemas,
    schemas_float_free schemas = true ->
    raw_ok raw -> NoDup (map schema_name schemas) -> Forall schema_ok schemas ->
    exists C E, validate true o raw schemas = Ok (C, E) /\
      forall n keys, In (SConfig n keys) schemas ->
      forall k t, assoc k keys = Some t -> is_deprecated t = false ->
        key_verdict o t (raw_get raw n k) (lookup2 C n k) (lookup2 E n k).
Proof. exact result_complete_sound_float_free. Qed.
Print Assumptions C12_result_complete_sound_float_free.

Theorem C12_type_sound_float_free :
  forall o t, no_bounded_float t = true -> sane_ty t = true ->
  forall s v, deserialize o t s = Ok v ->
    (v = VNone /\ ty_optional t = true /\ raw_empty t s = true) \/ (v <> VNone /\ wf o t v).
Proof. exact deserialize_sound_float_free. Qed.
Print Assumptions C12_type_sound_float_free.

Example C12_refuting_schema_not_float_free :
  schemas_float_free [SConfig [97] [([120], TFloat false (Some (FFin 0 1)) (Some (FFin 1 1)))]] = false.
Proof. exact refuting_schema_not_float_free. Qed.
Print Assumptions C12_refuting_schema_not_float_free.

(* T2 without [no_nan] is false: Float(minimum, maximum) accepts nan (known finding). *)
Theorem C12_result_complete_sound_full_refuted : ~ result_complete_sound_full.
Proof. exact result_complete_sound_full_refuted. Qed.
Print Assumptions C12_result_complete_sound_full_refuted.

Theorem C12_float_nan_refuted :
  exists o t s v, sane_ty t = true /\ deserialize o t s = Ok v /\ v <> VNone /\ ~ wf o t v.
Proof. exact float_nan_unsound. Qed.
Print Assumptions C12_float_nan_refuted.

(* T3: unknown keys are errors (with the suggestion) and not results; deprecated keys
   never appear; nothing else appears; sections without a schema are ignored. *)
Theorem C12_unknown_deprecated_sections :
  forall o raw schemas,
    raw_ok raw -> NoDup (map schema_name schemas) -> Forall schema_ok schemas ->
    exists C E, validate true o raw schemas = Ok (C, E) /\
      (forall n keys, In (SConfig n keys) schemas -> forall k r,
          assoc k keys = None -> raw_get raw n k = Some r ->
          lookup2 C n k = None /\ lookup2 E n k = Some (EUnknown (suggestion o k keys))) /\
      (forall n keys, In (SConfig n keys) schemas -> forall k t,
          assoc k keys = Some t -> is_deprecated t = true ->
          lookup2 C n k = None /\ lookup2 E n k = None) /\
      (forall n keys, In (SConfig n keys) schemas -> forall k,
          assoc k keys = None -> raw_get raw n k = None ->
          lookup2 C n k = None /\ lookup2 E n k = None) /\
      (forall n, ~ In n (map schema_name schemas) -> assoc n C = None /\ assoc n E = None).
Proof. exact unknown_and_deprecated_lemma. Qed.
Print Assumptions C12_unknown_deprecated_sections.

(* T3, suggestion rule: a suggestion is a key at minimum (modelled) Levenshtein distance,
   that distance being at most 3; and a key within distance 3 forces a suggestion. *)
Theorem C12_suggestion_sound :
  forall o name choices c,
    did_you_mean o name choices = Some c ->
    In c choices /\ levenshtein (py_lower o name) c <= 3
    /\ forall c', In c' choices -> levenshtein (py_lower o name) c <= levenshtein (py_lower o name) c'.
Proof. exact did_you_mean_sound. Qed.
Print Assumptions C12_suggestion_sound.

Theorem C12_suggestion_complete :
  forall o name choices c,
    In c choices -> levenshtein (py_lower o name) c <= 3 -> did_you_mean o name choices <> None.
Proof. exact did_you_mean_complete. Qed.
Print Assumptions C12_suggestion_complete.

(* T4: the value and the error of (section, key) depend on that key's raw value only:
   an error elsewhere never hides or changes them. *)
Theorem C12_pointwise :
  forall o raw1 raw2 schemas C1 E1 C2 E2,
    raw_ok raw1 -> raw_ok raw2 -> NoDup (map schema_name schemas) -> Forall schema_ok schemas ->
    validate true o raw1 schemas = Ok (C1, E1) ->
    validate true o raw2 schemas = Ok (C2, E2) ->
    forall s k, In s schemas ->
      raw_get raw1 (schema_name s) k = raw_get raw2 (schema_name s) k ->
      lookup2 C1 (schema_name s) k = lookup2 C2 (schema_name s) k
      /\ lookup2 E1 (schema_name s) k = lookup2 E2 (schema_name s) k.
Proof. exact pointwise_lemma. Qed.
Print Assumptions C12_pointwise.

(* loglevels/logcolors (MapConfigSchema): exactly the input keys, each judged alone. *)
Theorem C12_map_schema :
  forall o raw schemas,
    raw_ok raw -> NoDup (map schema_name schemas) -> Forall schema_ok schemas ->
    exists C E, validate true o raw schemas = Ok (C, E) /\
      forall n t, In (SMap n t) schemas -> forall k,
        (lookup2 C n k, lookup2 E n k) = map_entry o t (raw_get raw n k).
Proof. exact map_schema_lemma. Qed.
Print Assumptions C12_map_schema.

(* Non-vacuity: the hypotheses hold of a concrete schema list / raw config with a valid,
   an unknown, a missing and a deprecated key and an unknown section; and what the model
   computes for it. *)
Example C12_hypotheses_satisfiable :
  no_nan ex_oracles /\ schemas_sane ex_schemas /\ raw_ok ex_raw
  /\ NoDup (map schema_name ex_schemas) /\ Forall schema_ok ex_schemas.
Proof. exact ex_hypotheses. Qed.
Print Assumptions C12_hypotheses_satisfiable.

Example C12_example_run :
  validate true ex_oracles ex_raw ex_schemas
  = Ok ([([97], [([120], VInt 5); ([112], VPath [47; 116] [47; 116]); ([113], VNone)])],
        [([97], [([121], EUnknown (Some [112])); ([113], ENotFound)])]).
Proof. exact ex_validate. Qed.
Print Assumptions C12_example_run.
