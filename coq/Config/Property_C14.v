(* C14 property theorems.  Nothing but statements, `exact`, and Print Assumptions.
   Model: Layers.v (`load` = config._load/_load_file/load after the C14 fixes,
   `load_prefix` = before).  configparser is the line-level oracle (a file is the list of
   header / option / unparsable-line events it produces). *)
From Coq Require Import ZArith List Bool.
From Common Require Import Res Str.
From Config Require Import Types Schema Layers Proofs_Layers.
Import ListNotations.
Open Scope Z_scope.

(* _load never raises and is exactly "apply every effective assignment in priority order". *)
Theorem C14_load_total_fold :
  forall defaults files overrides,
    load defaults files overrides = Ok (fold_left set2 (all_asgs defaults files overrides) []).
Proof. exact load_is_fold. Qed.
Print Assumptions C14_load_total_fold.

(* T1: for every stack and every (section, key), the effective value is that of the last
   assignment to it in priority order (defaults, extension defaults, files in the order
   given with a directory's eligible members in place, keyring, overrides). *)
Theorem C14_last_setter_wins :
  forall defaults files overrides,
    exists cfg, load defaults files overrides = Ok cfg
      /\ forall s k, lookup_raw cfg s k = last_setter s k (all_asgs defaults files overrides).
Proof. exact last_setter_wins_lemma. Qed.
Print Assumptions C14_last_setter_wins.

(* T1 spelled out by layer: overrides beat files beat defaults. *)
Theorem C14_priority :
  forall defaults files overrides cfg s k,
    load defaults files overrides = Ok cfg ->
    lookup_raw cfg s k
    = match last_setter s k overrides with
      | Some v => Some v
      | None =>
          match last_setter s k (flat_map effective (flat_map entry_sources files)) with
          | Some v => Some v
          | None => last_setter s k (flat_map (fun d => effective (Lines false d)) defaults)
          end
      end.
Proof. exact priority_lemma. Qed.
Print Assumptions C14_priority.

(* T2 frame: two stacks that make the same assignments to (s, k) give (s, k) the same
   value, whatever else they set, add or remove. *)
Theorem C14_frame :
  forall d1 f1 o1 d2 f2 o2 c1 c2 s k,
    load d1 f1 o1 = Ok c1 -> load d2 f2 o2 = Ok c2 ->
    filter (asg_is s k) (all_asgs d1 f1 o1) = filter (asg_is s k) (all_asgs d2 f2 o2) ->
    lookup_raw c1 s k = lookup_raw c2 s k.
Proof. exact frame_lemma. Qed.
Print Assumptions C14_frame.

(* T3: a missing / unreadable / unopenable / header-less file contributes nothing and
   takes nothing away, wherever it stands; likewise an ineligible or faulty directory
   member; an unparsable line is dropped without affecting any other line. *)
Theorem C14_faulty_file_skipped :
  forall defaults pre post overrides src,
    faulty src ->
    load defaults (pre ++ FFile src :: post) overrides = load defaults (pre ++ post) overrides.
Proof. exact faults_lemma. Qed.
Print Assumptions C14_faulty_file_skipped.

Theorem C14_faulty_dir_member_skipped :
  forall defaults pre post overrides ms1 ms2 b src,
    faulty src \/ b = false ->
    load defaults (pre ++ FDir (ms1 ++ (b, src) :: ms2) :: post) overrides
    = load defaults (pre ++ FDir (ms1 ++ ms2) :: post) overrides.
Proof. exact faulty_dir_member_lemma. Qed.
Print Assumptions C14_faulty_dir_member_skipped.

Theorem C14_garbage_lines_ignored :
  forall defaults pre post overrides u ls,
    has_header ls = true ->
    load defaults (pre ++ FFile (Lines u ls) :: post) overrides
    = load defaults (pre ++ FFile (Lines u (drop_garbage ls)) :: post) overrides.
Proof. exact garbage_lemma. Qed.
Print Assumptions C14_garbage_lines_ignored.

(* The code before the fixes: a repeated option (strict configparser) and undecodable
   bytes abort the whole load. *)
Theorem C14_prefix_duplicate_refuted :
  exists defaults files overrides, load_prefix defaults files overrides = Raise DuplicateError.
Proof. exact prefix_duplicate_aborts. Qed.
Print Assumptions C14_prefix_duplicate_refuted.

Theorem C14_prefix_undecodable_refuted :
  exists defaults files overrides, load_prefix defaults files overrides = Raise DecodeError.
Proof. exact prefix_undecodable_aborts. Qed.
Print Assumptions C14_prefix_undecodable_refuted.

(* Non-vacuity: defaults, a file with an unparsable line, an absent file, a header-less
   file, a directory (eligible, ineligible, unreadable members) and an override, all
   touching the same keys. *)
Example C14_example_run :
  load ex_defaults ex_files ex_overrides
  = Ok [([97], [([107], [50]); ([109], [48]); ([110], [52])])].
Proof. exact ex_load. Qed.
Print Assumptions C14_example_run.

(* ------------------------------------------------------------------ over a file system (LayersFs.v) *)
From Config Require Import LayersFs Proofs_LayersFs.

(* Directory expansion is in the model: a member is loaded iff it is a regular file (or a
   link to one) whose pathlib suffix is ".conf"; "<stem>.conf" with a non-empty stem has
   that suffix, a name without a dot has none. *)
Theorem C14_eligible_spec :
  forall name k, eligible name k = true <-> kind_is_file k = true /\ py_suffix name = s_conf.
Proof. exact eligible_spec. Qed.
Print Assumptions C14_eligible_spec.

Theorem C14_suffix_conf : forall stem, stem <> [] -> py_suffix (stem ++ s_conf) = s_conf.
Proof. exact py_suffix_conf. Qed.
Print Assumptions C14_suffix_conf.

Theorem C14_suffix_nodot : forall name, ~ In DOT name -> py_suffix name = [].
Proof. exact py_suffix_nodot. Qed.
Print Assumptions C14_suffix_nodot.

(* Frame over the file system: a load is a function of the contents of the paths it touches
   (the listed paths, the eligible members of listed directories and where they resolve). *)
Theorem C14_load_depends_on_touched_paths :
  forall fs1 fs2 defaults paths overrides,
    agree_on (touched fs1 paths) fs1 fs2 ->
    load_paths fs1 defaults paths overrides = load_paths fs2 defaults paths overrides.
Proof. exact load_paths_agree. Qed.
Print Assumptions C14_load_depends_on_touched_paths.

(* Reload: after ANY history of loads, edits and re-links, a load returns load_paths of the
   file system as it is now; earlier loads leave no trace. *)
Theorem C14_reload_current :
  forall fs history d ps o,
    snd (run fs (history ++ [Load d ps o]))
    = snd (run fs history) ++ [load_paths (fst (run fs history)) d ps o].
Proof. exact reload_current. Qed.
Print Assumptions C14_reload_current.

Theorem C14_reload_history_independent :
  forall fsA fsB hA hB d ps o,
    agree_on (touched (fst (run fsA hA)) ps) (fst (run fsA hA)) (fst (run fsB hB)) ->
    last (snd (run fsA (hA ++ [Load d ps o]))) (Ok []) = last (snd (run fsB (hB ++ [Load d ps o]))) (Ok []).
Proof. exact reload_history_independent. Qed.
Print Assumptions C14_reload_history_independent.

Theorem C14_edit_untouched_irrelevant :
  forall fs p n d ps o,
    ~ In p (touched fs ps) -> load_paths (fs_set fs p n) d ps o = load_paths fs d ps o.
Proof. exact edit_untouched_irrelevant. Qed.
Print Assumptions C14_edit_untouched_irrelevant.

Example C14_suffix_examples :
  py_suffix s_conf = []
  /\ py_suffix [97; 46; 99; 111; 110; 102] = s_conf
  /\ py_suffix [100; 46; 67; 79; 78; 70] = [46; 67; 79; 78; 70]
  /\ py_suffix [110; 46; 99; 111; 110; 102; 46; 98; 97; 107] = [46; 98; 97; 107]
  /\ py_suffix [97; 46] = []
  /\ eligible [97; 46; 99; 111; 110; 102] KRegular = true
  /\ eligible [97; 46; 99; 111; 110; 102] KLinkToFile = true
  /\ eligible [97; 46; 99; 111; 110; 102] KDirectory = false
  /\ eligible [97; 46; 99; 111; 110; 102] KSocket = false
  /\ eligible [97; 46; 99; 111; 110; 102] KDangling = false
  /\ eligible s_conf KRegular = false.
Proof. exact py_suffix_examples. Qed.
Print Assumptions C14_suffix_examples.

Example C14_reload_example :
  snd (run ex_fs [Load [] [[102]] []; Edit [102] (NFile (Lines false [Header [97]; Opt [107] [50]])); Load [] [[102]] []])
  = [Ok [([97], [([107], [49])])]; Ok [([97], [([107], [50])])]].
Proof. exact ex_reload. Qed.
Print Assumptions C14_reload_example.

(* ------------------------------------------------------------------ the command-line layer *)
From Config Require Import Override Proofs_Override.

(* "-o section/key=value" is split at the first "/" and then the first "=": a value containing
   "=" or "/" stays the value of that key.  (corr:override ties parse_override to the real
   commands.config_override_type on every -o text of a run.) *)
Theorem C14_override_parse :
  forall sec k v,
    ~ In SLASH sec -> ~ In EQC k ->
    parse_override (sec ++ SLASH :: k ++ EQC :: v) = Some (strip sec, strip k, strip v).
Proof. exact parse_override_spec. Qed.
Print Assumptions C14_override_parse.

Example C14_override_example :
  parse_override [97; 47; 111; 61; 120; 32; 100; 61; 104; 119; 58; 49]
  = Some ([97], [111], [120; 32; 100; 61; 104; 119; 58; 49]).
Proof. exact parse_override_example. Qed.
Print Assumptions C14_override_example.
