(* Model of mopidy.config.types (src/mopidy/config/types.py) and validators.py:
   every ConfigValue class, its deserialize() (this file) and serialize() (Serialize.v).

   What is modelled, not verified (oracles, supplied per case by the harness, universally
   quantified in the theorems):
     o_int        int(str)                        -> int | ValueError
     o_float      float(str)                      -> float | ValueError
     o_expand     mopidy.internal.path.expand_path -> str | ValueError | RuntimeError
     o_pathstr    str(pathlib.Path(s))
     o_resolve    socket.getaddrinfo(host, None)  -> ok | OSError | ValueError(UnicodeError)
     o_lower_char str.lower() of one non-ASCII code point (str.lower is modelled
                  character-wise; the context-sensitive final sigma is excluded)
     o_transform  a String(transformer=...) callable, identified by a number
   Python `raise` sites are explicit: deserialize returns [res exn val].  *)
From Coq Require Import ZArith List Bool.
From Common Require Import Res Str.
From Config Require Import Escape.
Import ListNotations.
Open Scope Z_scope.

(* ---------------------------------------------------------------- values *)

(* A Python float, exactly: nan, +-inf or the rational num/den (den > 0). *)
Inductive fl := FNan | FPInf | FNInf | FFin (num den : Z).

(* Python's  a < b  on floats (False whenever a nan is involved). *)
Definition fl_lt (a b : fl) : bool :=
  match a, b with
  | FNan, _ | _, FNan => false
  | FNInf, FNInf => false
  | FNInf, _ => true
  | _, FNInf => false
  | FPInf, _ => false
  | FFin _ _, FPInf => true
  | FFin n1 d1, FFin n2 d2 => n1 * d2 <? n2 * d1
  end.

(* Python's  a == b  on floats. *)
Definition fl_eq (a b : fl) : bool :=
  match a, b with
  | FPInf, FPInf | FNInf, FNInf => true
  | FFin n1 d1, FFin n2 d2 => n1 * d2 =? n2 * d1
  | _, _ => false
  end.

(* Structural equality (used only to compare observations). *)
Definition fl_eqb (a b : fl) : bool :=
  match a, b with
  | FNan, FNan | FPInf, FPInf | FNInf, FNInf => true
  | FFin n1 d1, FFin n2 d2 => (n1 =? n2) && (d1 =? d2)
  | _, _ => false
  end.

Inductive val :=
| VNone
| VStr (s : str)
| VTStr (orig transformed : str)     (* types._TransformedValue: a str with .original *)
| VPath (orig expanded : str)        (* types._ExpandedPath *)
| VInt (z : Z)
| VFloat (f : fl)
| VBool (b : bool)
| VPair (a b : val)
| VTuple (l : list val)
| VSet (l : list val)                (* frozenset; list in insertion order, deduplicated *)
| VDeprecated.                       (* a types.DeprecatedValue instance *)

(* Python == between two results of the SAME config type (what frozenset uses to
   deduplicate).  _TransformedValue/_ExpandedPath are str subclasses: they compare by
   their transformed text, the original is ignored.  Two DeprecatedValue objects and two
   nans are never equal. *)
Fixpoint py_eq (a b : val) : bool :=
  match a, b with
  | VNone, VNone => true
  | VStr s, VStr s' => str_eqb s s'
  | VTStr _ s, VTStr _ s' => str_eqb s s'
  | VStr s, VTStr _ s' | VTStr _ s, VStr s' => str_eqb s s'
  | VPath _ s, VPath _ s' => str_eqb s s'
  | VInt z, VInt z' => z =? z'
  | VFloat f, VFloat f' => fl_eq f f'
  | VBool b, VBool b' => Bool.eqb b b'
  | VPair a1 a2, VPair b1 b2 => py_eq a1 b1 && py_eq a2 b2
  | VTuple l, VTuple m =>
      (fix go (l m : list val) : bool :=
         match l, m with
         | [], [] => true
         | x :: l', y :: m' => py_eq x y && go l' m'
         | _, _ => false
         end) l m
  | VSet l, VSet m =>
      forallb (fun x => existsb (fun y => py_eq x y) m) l
      && forallb (fun y => existsb (fun x => py_eq x y) l) m
  | _, _ => false
  end.

Fixpoint dedup_aux (seen : list val) (l : list val) : list val :=
  match l with
  | [] => rev seen
  | x :: t => if existsb (fun y => py_eq y x) seen then dedup_aux seen t
              else dedup_aux (x :: seen) t
  end.
(* frozenset(iterable): the first of several equal elements is the one kept. *)
Definition dedup (l : list val) : list val := dedup_aux [] l.

(* Structural equality of observations; a VSet is compared as a set. *)
Fixpoint val_eqb (a b : val) : bool :=
  match a, b with
  | VNone, VNone => true
  | VStr s, VStr s' => str_eqb s s'
  | VTStr o s, VTStr o' s' => str_eqb o o' && str_eqb s s'
  | VPath o s, VPath o' s' => str_eqb o o' && str_eqb s s'
  | VInt z, VInt z' => z =? z'
  | VFloat f, VFloat f' => fl_eqb f f'
  | VBool b, VBool b' => Bool.eqb b b'
  | VPair a1 a2, VPair b1 b2 => val_eqb a1 b1 && val_eqb a2 b2
  | VTuple l, VTuple m =>
      (fix go (l m : list val) : bool :=
         match l, m with
         | [], [] => true
         | x :: l', y :: m' => val_eqb x y && go l' m'
         | _, _ => false
         end) l m
  | VSet l, VSet m =>
      (Z.of_nat (length l) =? Z.of_nat (length m))
      && forallb (fun x => existsb (fun y => val_eqb x y) m) l
      && forallb (fun y => existsb (fun x => val_eqb x y) l) m
  | VDeprecated, VDeprecated => true
  | _, _ => false
  end.

(* ---------------------------------------------------------------- types *)

Inductive trf := TrLower | TrOracle (id : Z).

Inductive ty :=
| TString (opt : bool) (choices : option (list str)) (tr : option trf)
| TSecret (opt : bool) (tr : option trf)
| TInteger (opt : bool) (mn mx : option Z) (choices : option (list Z))   (* also Port *)
| TFloat (opt : bool) (mn mx : option fl)
| TBoolean (opt : bool)
| TPair (opt optpair : bool) (sep : str) (ta tb : ty)
| TList (opt unique : bool) (sub : ty)
| TLogColor
| TLogLevel
| THostname (opt : bool)
| TPath (opt : bool)
| TDeprecated.

(* Port(choices, optional) = Integer(minimum=0, maximum=2**16-1, ...) *)
Definition TPort (opt : bool) (choices : option (list Z)) : ty :=
  TInteger opt (Some 0) (Some 65535) choices.

(* ---------------------------------------------------------------- oracles *)

Inductive int_out := IOk (z : Z) | IValueError.
Inductive float_out := FOk (f : fl) | FValueError.
Inductive expand_out := XOk (p : str) | XValueError | XRuntimeError.
Inductive resolve_out := ROk | ROSError | RValueError.

Record oracles := {
  o_int : str -> int_out;
  o_float : str -> float_out;
  o_expand : str -> expand_out;
  o_pathstr : str -> str;
  o_resolve : str -> resolve_out;
  o_lower_char : Z -> str;
  o_transform : Z -> str -> str;
}.

Inductive exn := ValueError | RuntimeError.
Definition dres := res exn val.

Definition escaped {A} (r : res exn A) : bool :=
  match r with
  | Raise ValueError => false
  | Raise _ => true
  | Diverge => true
  | Ok _ => false
  end.

(* ---------------------------------------------------------------- helpers *)

Definition is_nil {A} (l : list A) : bool := match l with [] => true | _ => false end.

Definition py_lower (o : oracles) (s : str) : str :=
  flat_map (fun c => if c <? 128 then [ascii_lower c] else o_lower_char o c) s.

Definition apply_tr (o : oracles) (t : trf) (s : str) : str :=
  match t with
  | TrLower => py_lower o s
  | TrOracle id => o_transform o id s
  end.

Fixpoint mem_z (x : Z) (l : list Z) : bool :=
  match l with [] => false | y :: t => (x =? y) || mem_z x t end.

(* s.split(sep, 1) when sep (non-empty) occurs in s *)
Fixpoint split_once_aux (sep : str) (acc : str) (s : str) : option (str * str) :=
  if starts_with sep s then Some (rev acc, skipn (length sep) s)
  else match s with
       | [] => None
       | c :: t => split_once_aux sep (c :: acc) t
       end.
Definition split_once (sep s : str) : option (str * str) := split_once_aux sep [] s.

Fixpoint strip_prefix (p s : str) : option str :=
  match p, s with
  | [], _ => Some s
  | a :: p', b :: s' => if a =? b then strip_prefix p' s' else None
  | _, [] => None
  end.

Fixpoint take_line (s : str) : str :=
  match s with
  | [] => []
  | c :: t => if c =? NL then [] else c :: take_line t
  end.

Definition COMMA : Z := 44.
Definition s_unix : str := [117; 110; 105; 120; 58].            (* "unix:" *)
Definition s_None : str := [78; 111; 110; 101].                 (* "None" *)
Definition true_values : list str :=
  [[49]; [121; 101; 115]; [116; 114; 117; 101]; [111; 110]].    (* 1 yes true on *)
Definition false_values : list str :=
  [[48]; [110; 111]; [102; 97; 108; 115; 101]; [111; 102; 102]]. (* 0 no false off *)
Definition log_colors : list str :=
  [[98; 108; 97; 99; 107]; [114; 101; 100]; [103; 114; 101; 101; 110];
   [121; 101; 108; 108; 111; 119]; [98; 108; 117; 101];
   [109; 97; 103; 101; 110; 116; 97]; [99; 121; 97; 110]; [119; 104; 105; 116; 101]].
Definition log_levels : list (str * Z) :=
  [([99; 114; 105; 116; 105; 99; 97; 108], 50); ([101; 114; 114; 111; 114], 40);
   ([119; 97; 114; 110; 105; 110; 103], 30); ([105; 110; 102; 111], 20);
   ([100; 101; 98; 117; 103], 10); ([116; 114; 97; 99; 101], 5); ([97; 108; 108], 0)].

Fixpoint assoc {B} (k : str) (l : list (str * B)) : option B :=
  match l with
  | [] => None
  | (k', v) :: t => if str_eqb k k' then Some v else assoc k t
  end.

Definition ve {A} : res exn A := Raise ValueError.

(* validators.validate_required(value, required) followed by `if not value: return None` *)
Definition req_or_none (opt empty : bool) (k : dres) : dres :=
  if negb opt && empty then ve else if empty then Ok VNone else k.

Definition in_choices_str (s : str) (c : option (list str)) : bool :=
  match c with None => true | Some cs => mem_str s cs end.
Definition in_choices_z (z : Z) (c : option (list Z)) : bool :=
  match c with None => true | Some cs => mem_z z cs end.
(* validate_minimum: raises iff  value < minimum ;  validate_maximum: iff value > maximum *)
Definition z_range_ok (z : Z) (mn mx : option Z) : bool :=
  match mn with Some m => negb (z <? m) | None => true end
  && match mx with Some m => negb (m <? z) | None => true end.
(* validate_minimum/validate_maximum on floats: a nan compares false to everything and so
   passes both tests (known finding C12 float-nan-range). *)
Definition fl_range_ok (f : fl) (mn mx : option fl) : bool :=
  match mn with Some m => negb (fl_lt f m) | None => true end
  && match mx with Some m => negb (fl_lt m f) | None => true end.
(* What "f lies in the declared range" means:  mn <= f <= mx. *)
Definition fl_le (a b : fl) : bool := fl_lt a b || fl_eq a b.
Definition fl_in_range (f : fl) (mn mx : option fl) : bool :=
  match mn with Some m => fl_le m f | None => true end
  && match mx with Some m => fl_le f m | None => true end.

(* String.deserialize / Secret.deserialize *)
Definition deser_string (o : oracles) (opt : bool) (choices : option (list str))
           (tr : option trf) (value : str) : dres :=
  let result := strip (decode value) in
  req_or_none opt (is_nil result)
    (match tr with
     | None => if in_choices_str result choices then Ok (VStr result) else ve
     | Some t => let r' := apply_tr o t result in
                 if in_choices_str r' choices then Ok (VTStr result r') else ve
     end).

Definition deser_integer (o : oracles) (opt : bool) (mn mx : option Z)
           (choices : option (list Z)) (value : str) : dres :=
  let result := decode value in
  req_or_none opt (is_nil result)
    (match o_int o result with
     | IValueError => ve
     | IOk z => if in_choices_z z choices && z_range_ok z mn mx then Ok (VInt z) else ve
     end).

Definition deser_float (o : oracles) (opt : bool) (mn mx : option fl) (value : str) : dres :=
  let result := decode value in
  (* the code tests `not value` (the raw text) rather than `not result`; decode maps the
     empty string, and only it, to the empty string, so the two coincide *)
  req_or_none opt (is_nil result)
    (match o_float o result with
     | FValueError => ve
     | FOk f => if fl_range_ok f mn mx then Ok (VFloat f) else ve
     end).

Definition deser_boolean (o : oracles) (opt : bool) (value : str) : dres :=
  let result := decode value in
  req_or_none opt (is_nil result)
    (let l := py_lower o result in
     if mem_str l true_values then Ok (VBool true)
     else if mem_str l false_values then Ok (VBool false)
     else ve).

(* Path.deserialize.  expand_path is called before the required check.
   `catch_rt` = the code after the fix (RuntimeError from pathlib -- unknown ~user,
   symlink loop -- is turned into ValueError); false = the code before the fix. *)
Definition deser_path_gen (catch_rt : bool) (o : oracles) (opt : bool) (value : str) : dres :=
  let raw := strip (decode value) in
  match o_expand o raw with
  | XValueError => ve
  | XRuntimeError => if catch_rt then ve else Raise RuntimeError
  | XOk p => req_or_none opt (is_nil raw) (Ok (VPath raw p))
  end.
Definition deser_path := deser_path_gen true.

Definition deser_hostname_gen (catch_rt : bool) (o : oracles) (opt : bool) (value : str) : dres :=
  let raw := strip (decode value) in
  req_or_none opt (is_nil raw)
    (match strip_prefix s_unix raw with
     | Some rest =>
         (* re.search of ^unix: followed by a dot-star group: the dot stops at the first newline *)
         (* after fix 4 of C13 the socket path is re-encoded so that Path.deserialize does not
            decode it a second time (same flag: false = the pinned tree) *)
         let arg := o_pathstr o (take_line rest) in
         match deser_path_gen catch_rt o opt (if catch_rt then encode arg else arg) with
         | Ok (VPath _ p) => Ok (VStr (s_unix ++ p))
         | Ok _ => Ok (VStr (s_unix ++ s_None))      (* f"unix:{None}" *)
         | Raise e => Raise e
         | Diverge => Diverge
         end
     | None =>
         match o_resolve o raw with
         | ROk => Ok (VStr raw)
         | ROSError => ve        (* except OSError -> ValueError *)
         | RValueError => ve     (* UnicodeError from the idna codec is a ValueError *)
         end
     end).

Definition deser_logcolor (o : oracles) (value : str) : dres :=
  let raw := py_lower o (decode value) in
  if mem_str raw log_colors then Ok (VStr raw) else ve.

Definition deser_loglevel (o : oracles) (value : str) : dres :=
  let raw := py_lower o (decode value) in
  match assoc raw log_levels with
  | Some n => Ok (VInt n)
  | None => ve
  end.

(* the generator expression consumed by tuple()/frozenset(): first exception wins *)
Fixpoint mapM (f : str -> dres) (l : list str) : res exn (list val) :=
  match l with
  | [] => Ok []
  | x :: t => rbind (f x) (fun v => rbind (mapM f t) (fun vs => Ok (v :: vs)))
  end.

(* List.deserialize's item splitting: re.split(r"\s*\n\s*"| r"\s*,\s*") then
   strip() and drop empty items.  Splitting at the separator character and stripping
   gives the same non-empty items (the regex only swallows whitespace that strip()
   removes anyway); checked by the correspondence. *)
Definition list_items (raw : str) : list str :=
  let pieces := if existsb (Z.eqb NL) raw then split1 NL raw else split1 COMMA raw in
  filter (fun s => negb (is_nil s)) (map strip pieces).

Section Deserialize.
  Variable fx : bool.     (* true = the code after the C12 fix: commit (Path catches RuntimeError) *)
  Variable o : oracles.

  Fixpoint deserialize_gen (t : ty) (value : str) {struct t} : dres :=
    match t with
    | TString opt choices tr => deser_string o opt choices tr value
    | TSecret opt tr => deser_string o opt None tr value
    | TInteger opt mn mx choices => deser_integer o opt mn mx choices value
    | TFloat opt mn mx => deser_float o opt mn mx value
    | TBoolean opt => deser_boolean o opt value
    | TPair opt optpair sep ta tb =>
        let raw := strip (decode value) in
        req_or_none opt (is_nil raw)
          (if is_nil sep then ve        (* "" in s is True, then s.split("") raises ValueError *)
           else
             let parts := match split_once sep raw with
                          | Some p => Some p
                          | None => if optpair then Some (raw, raw) else None
                          end in
             match parts with
             | None => ve
             | Some (a, b) =>
                 rbind (deserialize_gen ta (encode a)) (fun va =>
                 rbind (deserialize_gen tb (encode b)) (fun vb => Ok (VPair va vb)))
             end)
    | TList opt unique sub =>
        rbind (mapM (deserialize_gen sub) (list_items (decode value))) (fun vs =>
          let vs' := if unique then dedup vs else vs in
          if negb opt && is_nil vs' then ve
          else Ok (if unique then VSet vs' else VTuple vs'))
    | TLogColor => deser_logcolor o value
    | TLogLevel => deser_loglevel o value
    | THostname opt => deser_hostname_gen fx o opt value
    | TPath opt => deser_path_gen fx o opt value
    | TDeprecated => Ok VDeprecated
    end.
End Deserialize.

(* The code as it is in /repo now. *)
Definition deserialize : oracles -> ty -> str -> dres := deserialize_gen true.
(* The code before the fix: commit recorded in known_findings.json (C12). *)
Definition deserialize_prefix : oracles -> ty -> str -> dres := deserialize_gen false.

Definition ty_optional (t : ty) : bool :=
  match t with
  | TString opt _ _ | TSecret opt _ | TInteger opt _ _ _ | TFloat opt _ _ | TBoolean opt
  | TPair opt _ _ _ _ | TList opt _ _ | THostname opt | TPath opt => opt
  | TLogColor | TLogLevel | TDeprecated => false
  end.

Definition is_deprecated (t : ty) : bool :=
  match t with TDeprecated => true | _ => false end.
