(* Model of configparser.RawConfigParser._read as mopidy configures it
   (inline_comment_prefixes=(";",), comment_prefixes=("#", ";"), delimiters "=" and ":",
   strict=False, empty_lines_in_values=True, allow_no_value=False, optionxform=str.lower):
   the INI line syntax that config._format writes and config._load reads.

   Input: the text of ONE file / default string, newlines already universal ("\n").
   Output: [PNoHeader] (MissingSectionHeaderError: the file is skipped) or the sequence of
   Layers.line events -- section headers, options with their continuation lines joined and
   right-stripped, and one Garbage per line configparser reports in ParsingError.
   Not modelled: the DEFAULT section (configparser's inheritance), valueless options. *)
From Coq Require Import ZArith List Bool.
From Common Require Import Res Str.
From Config Require Import Escape Types Schema Layers.
Import ListNotations.
Open Scope Z_scope.

Definition SEMI : Z := 59.
Definition HASHC : Z := 35.
Definition LBRACK : Z := 91.
Definition RBRACK : Z := 93.
Definition EQ : Z := 61.
Definition COLON : Z := 58.

(* line[:comment_start] for the inline prefix ";": cut at the first ";" that is at index 0 or
   preceded by whitespace.  [prev_space] = "the previous character is whitespace / start". *)
Fixpoint cut_inline (prev_ok : bool) (s : str) : str * bool :=
  match s with
  | [] => ([], false)
  | c :: t =>
      if (c =? SEMI) && prev_ok then ([], true)
      else let '(r, cut) := cut_inline (py_isspace c) t in (c :: r, cut)
  end.

Definition starts_comment (stripped : str) : bool :=
  match stripped with
  | c :: _ => (c =? HASHC) || (c =? SEMI)
  | [] => false
  end.

(* index of the first non-whitespace character (NONSPACECRE.search), 0 if none *)
Fixpoint indent_of (s : str) (i : Z) : Z :=
  match s with
  | [] => 0
  | c :: t => if py_isspace c then indent_of t (i + 1) else i
  end.

(* SECTCRE.match(value): "[" header "]" with a greedy non-empty header: up to the LAST "]" *)
Fixpoint upto_last_rbrack (s : str) : option str :=
  match s with
  | [] => None
  | c :: t =>
      match upto_last_rbrack t with
      | Some r => Some (c :: r)
      | None => if c =? RBRACK then Some [] else None
      end
  end.
Definition section_header (value : str) : option str :=
  match value with
  | c :: t => if c =? LBRACK then
                match upto_last_rbrack t with
                | Some [] => None            (* ".+" needs at least one character *)
                | r => r
                end
              else None
  | [] => None
  end.

(* _optcre.match(value): split at the FIRST "=" or ":" *)
Fixpoint split_delim (acc : str) (s : str) : option (str * str) :=
  match s with
  | [] => None
  | c :: t => if (c =? EQ) || (c =? COLON) then Some (rev acc, t) else split_delim (c :: acc) t
  end.

Record pst := {
  p_sect : option str;                 (* cursect / sectname *)
  p_opt : option (str * list str);     (* optname and its value lines, newest first *)
  p_indent : Z;
  p_out : list line;                   (* events so far, newest first *)
}.

Definition flush (st : pst) : list line :=
  match p_opt st with
  | Some (k, vs) => Opt k (rstrip (join [NL] (rev vs))) :: p_out st
  | None => p_out st
  end.

Inductive step_res := SCont (st : pst) | SNoHeader.

Definition ini_step (o : oracles) (st : pst) (ln : str) : step_res :=
  let '(kept, cut) := cut_inline true ln in
  let full_comment := starts_comment (strip ln) in
  let value := if full_comment then [] else strip kept in
  let commented := cut || full_comment in
  if is_nil value then
    (* empty line: kept inside a multi-line value only when there was no comment on it *)
    match p_sect st, p_opt st with
    | Some _, Some (k, vs) =>
        if negb commented && negb (is_nil k)
        then SCont {| p_sect := p_sect st; p_opt := Some (k, [] :: vs); p_indent := p_indent st; p_out := p_out st |}
        else SCont st
    | _, _ => SCont st
    end
  else
    let ind := indent_of ln 0 in
    let continuation := match p_sect st, p_opt st with
                        | Some _, Some (k, _) => negb (is_nil k) && (p_indent st <? ind)
                        | _, _ => false
                        end in
    if continuation then
      match p_opt st with
      | Some (k, vs) => SCont {| p_sect := p_sect st; p_opt := Some (k, value :: vs); p_indent := p_indent st; p_out := p_out st |}
      | None => SCont st
      end
    else
      match section_header value with
      | Some name =>
          SCont {| p_sect := Some name; p_opt := None; p_indent := ind; p_out := Header name :: flush st |}
      | None =>
          match p_sect st with
          | None => SNoHeader
          | Some _ =>
              match split_delim [] value with
              | Some (before, after) =>
                  let k := py_lower o (rstrip before) in
                  let out := flush st in
                  SCont {| p_sect := p_sect st; p_opt := Some (k, [strip after]); p_indent := ind;
                           p_out := if is_nil (rstrip before) then Garbage :: out else out |}
              | None =>
                  (* ParsingError entry; the current option stays open for continuation lines *)
                  SCont {| p_sect := p_sect st; p_opt := p_opt st; p_indent := ind; p_out := Garbage :: p_out st |}
              end
          end
      end.

Fixpoint ini_lines (o : oracles) (st : pst) (lns : list str) : option pst :=
  match lns with
  | [] => Some st
  | l :: rest =>
      match ini_step o st l with
      | SCont st' => ini_lines o st' rest
      | SNoHeader => None
      end
  end.

Definition pst0 : pst := {| p_sect := None; p_opt := None; p_indent := 0; p_out := [] |}.

Inductive pres := PNoHeader | PLines (ls : list line).

Definition parse_ini (o : oracles) (text : str) : pres :=
  match ini_lines o pst0 (split1 NL text) with
  | None => PNoHeader
  | Some st => PLines (rev (flush st))
  end.

(* the raw config one file yields on its own (what RawConfigParser.items() would list) *)
Definition ini_config (o : oracles) (text : str) : option raw_config :=
  match parse_ini o text with
  | PNoHeader => None
  | PLines ls => Some (fold_left set2 (lines_asgs None ls) [])
  end.

Definition ini_has_error (o : oracles) (text : str) : bool :=
  match parse_ini o text with
  | PNoHeader => false
  | PLines ls => existsb (fun l => match l with Garbage => true | _ => false end) ls
  end.

(* harness: (lower table, text, observed: None = MissingSectionHeaderError | Some (config, had ParsingError)) *)
Definition icase := (list (Z * str) * str * option (raw_config * bool))%type.
