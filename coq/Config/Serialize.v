(* Model of ConfigValue.serialize of every class (src/mopidy/config/types.py),
   ConfigSchema/MapConfigSchema.serialize (schemas.py) and config._format / format
   (config/__init__.py).

   Oracles (modelled, not verified): str(int) and str(float) (repr of a float).
   serialize is only modelled on values of the shape the type produces (what
   deserialize returns, or None); on anything else the model answers [SStuck] and the
   harness never asks.

   [fx] = the code after the C13 fix commits: Path and Hostname.serialize encode, and
   Pair/LogColor.serialize(None) return the empty string (before: not encoded /
   TypeError / AttributeError). *)
From Coq Require Import ZArith List Bool.
From Common Require Import Res Str.
From Config Require Import Escape Types Schema.
Import ListNotations.
Open Scope Z_scope.

Record soracles := {
  o_str_int : Z -> str;
  o_str_float : fl -> str;
}.

Inductive sres :=
| SStr (s : str)
| SDep                      (* a DeprecatedValue instance *)
| SRaise (e : Z)            (* 0 = ValueError (Boolean), 1 = TypeError (Pair on None, pre-fix),
                               2 = AttributeError (LogColor on None, pre-fix) *)
| SStuck.

Definition s_true : str := [116; 114; 117; 101].
Definition s_false : str := [102; 97; 108; 115; 101].
Definition s_mask : str := [42; 42; 42; 42; 42; 42; 42; 42].      (* "********" *)
Definition s_item_sep : str := [10; 32; 32].                      (* "\n  " *)

Fixpoint rassoc (n : Z) (l : list (str * Z)) : option str :=
  match l with
  | [] => None
  | (k, v) :: t => if v =? n then Some k else rassoc n t
  end.

Definition ser_string (v : val) : sres :=
  match v with
  | VNone => SStr []
  | VStr s => SStr (encode s)
  | VTStr orig _ => SStr (encode orig)
  | _ => SStuck
  end.

(* items of List.serialize: keep the non-empty strings; first failure wins *)
Fixpoint ser_items (f : val -> sres) (l : list val) : option (list str) + sres :=
  match l with
  | [] => inl (Some [])
  | x :: t =>
      match f x with
      | SStr s =>
          match ser_items f t with
          | inl (Some r) => inl (Some (if is_nil s then r else s :: r))
          | other => other
          end
      | other => inr other
      end
  end.

Section Serialize.
  Variable fx : bool.
  Variable so : soracles.
  Variable o : oracles.
  Variable display : bool.

  Fixpoint serialize_gen (t : ty) (v : val) {struct t} : sres :=
    match t with
    | TString _ _ _ => ser_string v
    | TSecret _ _ =>
        match v with
        | VNone => SStr []
        | _ => if display then SStr s_mask else ser_string v
        end
    | TInteger _ _ _ _ =>
        match v with VNone => SStr [] | VInt z => SStr (o_str_int so z) | _ => SStuck end
    | TFloat _ _ _ =>
        match v with VNone => SStr [] | VFloat f => SStr (o_str_float so f) | _ => SStuck end
    | TBoolean _ =>
        match v with
        | VBool true => SStr s_true
        | VBool false | VNone => SStr s_false
        | _ => SRaise 0
        end
    | TPair _ optpair sep ta tb =>
        match v with
        | VNone => if fx then SStr [] else SRaise 1
        | VPair a b =>
            match serialize_gen ta a with
            | SStr s1 =>
                match serialize_gen tb b with
                | SStr s2 =>
                    if negb display && optpair && str_eqb s1 s2 then SStr s1
                    else SStr (s1 ++ sep ++ s2)
                | SDep => SDep
                | other => other
                end
            | SDep => match serialize_gen tb b with
                      | SStr _ | SDep => SDep
                      | other => other
                      end
            | other => other
            end
        | _ => SStuck
        end
    | TList _ _ sub =>
        match v with
        | VNone => SStr []
        | VTuple l | VSet l =>
            if is_nil l then SStr []
            else match ser_items (serialize_gen sub) l with
                 | inl (Some items) => SStr (s_item_sep ++ join s_item_sep items)
                 | inl None => SStuck
                 | inr r => match r with SDep => SRaise 1 | _ => r end   (* join() of a DeprecatedValue: TypeError *)
                 end
        | _ => SStuck
        end
    | TLogColor =>
        match v with
        | VStr s => let l := py_lower o s in
                    if mem_str l log_colors then SStr (encode l) else SStr []
        | VNone => if fx then SStr [] else SRaise 2     (* None.lower(): AttributeError *)
        | _ => SStuck
        end
    | TLogLevel =>
        match v with
        | VInt n => SStr (encode (match rassoc n log_levels with Some k => k | None => [] end))
        | VNone => SStr []
        | _ => SStuck
        end
    | THostname _ =>
        match v with VNone => SStr [] | VStr s => SStr (if fx then encode s else s) | _ => SStuck end
    | TPath _ =>
        match v with
        | VNone => SStr []
        | VPath orig _ => SStr (if fx then encode orig else orig)
        | VStr s => SStr (if fx then encode s else s)
        | _ => SStuck
        end
    | TDeprecated => SDep
    end.
End Serialize.

Definition serialize := serialize_gen true.
Definition serialize_prefix := serialize_gen false.

(* ------------------------------------------------------------------ schemas and _format *)

Definition sdict := list (str * sres).

(* insertion sort of key names: sorted(values.keys()) *)
Fixpoint insert_sorted (k : str) (l : list str) : list str :=
  match l with
  | [] => [k]
  | x :: t => if str_ltb k x then k :: l else x :: insert_sorted k t
  end.
Definition sort_keys (l : list str) : list str := fold_right insert_sorted [] l.

Definition schema_serialize (so : soracles) (o : oracles) (display : bool) (s : schema)
           (values : rdict) : sdict :=
  match s with
  | SConfig _ keys =>
      flat_map (fun kt => match assoc (fst kt) values with
                          | Some v => [(fst kt, serialize so o display (snd kt) v)]
                          | None => []
                          end) keys
  | SMap _ t =>
      flat_map (fun k => match assoc k values with
                         | Some v => [(k, serialize so o display t v)]
                         | None => []
                         end) (sort_keys (map fst values))
  end.

Definition HASH : Z := 35.
(* re.sub(r"^", "#", text, flags=re.MULTILINE) on a text that does not end in a newline *)
Fixpoint hash_lines (s : str) : str :=
  match s with
  | [] => []
  | c :: t => if c =? NL then c :: HASH :: hash_lines t else c :: hash_lines t
  end.
Definition comment_out (s : str) : str := HASH :: hash_lines s.

Definition s_eq : str := [32; 61].            (* " =" *)

Inductive fres := FText (s : str) | FRaise (e : Z) | FStuck.

(* the lines of one schema's entries (None = an exception escaped) *)
Fixpoint format_entries (disable : bool) (entries : sdict) : option (list str) + fres :=
  match entries with
  | [] => inl (Some [])
  | (k, r) :: rest =>
      match r with
      | SDep => format_entries disable rest
      | SStr v =>
          match format_entries disable rest with
          | inl (Some ls) =>
              let line := k ++ s_eq ++ [32] ++ v in
              inl (Some ((if disable then comment_out line else line) :: ls))
          | other => other
          end
      | SRaise e => inr (FRaise e)
      | SStuck => inr FStuck
      end
  end.

Definition has_raise (entries : sdict) : option fres :=
  fold_right (fun kr acc => match snd kr with
                            | SRaise e => Some (FRaise e)
                            | SStuck => match acc with Some a => Some a | None => Some FStuck end
                            | _ => acc
                            end) None entries.

(* config._format(config, {}, schemas, display, disable): list of output lines *)
Fixpoint format_lines (so : soracles) (o : oracles) (display disable : bool)
         (schemas : list schema) (cfg : config) : option (list str) + fres :=
  match schemas with
  | [] => inl (Some [])
  | s :: rest =>
      let entries := schema_serialize so o display s (dget_default (schema_name s) cfg []) in
      (* schema.serialize() runs to completion (or raises) before anything is emitted *)
      match has_raise entries with
      | Some r => inr r
      | None =>
          if is_nil entries then format_lines so o display disable rest cfg
          else match format_entries disable entries, format_lines so o display disable rest cfg with
               | inl (Some ls), inl (Some more) =>
                   inl (Some (([91] ++ schema_name s ++ [93]) :: ls ++ [[]] ++ more))
               | inr r, _ => inr r
               | _, inr r => inr r
               | _, _ => inr FStuck
               end
      end
  end.

Definition format_gen (so : soracles) (o : oracles) (display disable : bool)
           (schemas : list schema) (cfg : config) : fres :=
  match format_lines so o display disable schemas cfg with
  | inl (Some ls) => FText (strip (join [NL] ls))
  | inl None => FStuck
  | inr r => r
  end.

(* config.format(config, ext_schemas, display=...) ; the body of format_initial *)
Definition format (so : soracles) (o : oracles) (display : bool) := format_gen so o display false.
Definition format_disabled (so : soracles) (o : oracles) := format_gen so o false true.

(* ------------------------------------------------------------------ observations *)

Definition sres_eqb (a b : sres) : bool :=
  match a, b with
  | SStr s, SStr s' => str_eqb s s'
  | SDep, SDep => true
  | SRaise e, SRaise e' => e =? e'
  | _, _ => false
  end.

Definition fres_eqb (a b : fres) : bool :=
  match a, b with
  | FText s, FText s' => str_eqb s s'
  | FRaise e, FRaise e' => e =? e'
  | _, _ => false
  end.
