(* Model of mopidy.commands.config_override_type: "-o section/key=value". *)
From Coq Require Import ZArith List Bool.
From Common Require Import Res Str.
From Config Require Import Types Schema Layers LayersFs.
Import ListNotations.
Open Scope Z_scope.

Definition EQC : Z := 61.

(* value.split("/", 1) then remainder.split("=", 1), every part stripped; None = the
   ValueError that becomes argparse.ArgumentTypeError *)
Definition parse_override (t : str) : option asg :=
  match split_once [SLASH] t with
  | Some (sec, rem) =>
      match split_once [EQC] rem with
      | Some (k, v) => Some (strip sec, strip k, strip v)
      | None => None
      end
  | None => None
  end.

Definition ocase := (str * option asg)%type.
Definition ocase_ok (c : ocase) : bool :=
  let '(t, obs) := c in
  match parse_override t, obs with
  | None, None => true
  | Some (s, k, v), Some (s', k', v') => str_eqb s s' && str_eqb k k' && str_eqb v v'
  | _, _ => false
  end.
