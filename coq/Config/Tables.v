(* Oracles given by finite tables: how the harness hands the recorded answers of int(),
   float(), expand_path, pathlib, the resolver, str.lower and transformers to the model.
   A string that was never asked of the implementation gets a default answer, so a model
   that asks something else than the implementation shows up as a disagreement. *)
From Coq Require Import ZArith List Bool.
From Common Require Import Res Str.
From Config Require Import Escape Types Schema.
Import ListNotations.
Open Scope Z_scope.

Record tables := mk_tables {
  t_int : list (str * int_out);
  t_float : list (str * float_out);
  t_expand : list (str * expand_out);
  t_pathstr : list (str * str);
  t_resolve : list (str * resolve_out);
  t_lower : list (Z * str);
  t_transform : list (Z * str * str);
}.

Fixpoint zassoc {B} (k : Z) (l : list (Z * B)) : option B :=
  match l with
  | [] => None
  | (k', v) :: t => if k =? k' then Some v else zassoc k t
  end.

Fixpoint tassoc (id : Z) (k : str) (l : list (Z * str * str)) : option str :=
  match l with
  | [] => None
  | (id', k', v) :: t => if (id =? id') && str_eqb k k' then Some v else tassoc id k t
  end.

Definition MISSING : str := [63; 63; 109; 105; 115; 115; 105; 110; 103; 63; 63].

Definition oracles_of (t : tables) : oracles := {|
  o_int := fun s => match assoc s (t_int t) with Some r => r | None => IOk (-424242) end;
  o_float := fun s => match assoc s (t_float t) with Some r => r | None => FOk (FFin (-424242) 1) end;
  o_expand := fun s => match assoc s (t_expand t) with Some r => r | None => XOk MISSING end;
  o_pathstr := fun s => match assoc s (t_pathstr t) with Some r => r | None => MISSING end;
  o_resolve := fun s => match assoc s (t_resolve t) with Some r => r | None => ROSError end;
  o_lower_char := fun c => match zassoc c (t_lower t) with Some r => r | None => [c] end;
  o_transform := fun id s => match tassoc id s (t_transform t) with Some r => r | None => MISSING end;
|}.

(* one type-level case: tables, type, raw text, what the implementation did *)
Definition dcase := (tables * ty * str * dobs)%type.
Definition dcase_ok (c : dcase) : bool :=
  let '(tb, t, raw, obs) := c in dobs_eqb (deserialize (oracles_of tb) t raw) obs.

(* one _validate case *)
Definition vcase := (tables * list schema * raw_config * vobs)%type.
Definition vcase_ok (c : vcase) : bool :=
  let '(tb, ss, raw, obs) := c in vobs_eqb (validate true (oracles_of tb) raw ss) obs.
