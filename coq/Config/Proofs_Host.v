(* T2 for Hostname, both branches: a resolvable name, and a "unix:" socket path. *)
From Coq Require Import ZArith List Bool Lia.
From Common Require Import Res Str.
From Config Require Import Escape Proofs_Escape Types Schema Spec_C12 Proofs_Types Serialize
     Proofs_Serialize Proofs_List Proofs_Ini Proofs_Schema.
Import ListNotations.
Open Scope Z_scope.

(* What the unix: branch needs of the environment: an expanded path is a fixed point of
   expand_path and of pathlib's normalisation, is non-empty, single-line and carries no outer
   whitespace; pathlib never produces a blank string (it gives "." for nothing).
   get_unix_socket_path itself must not transform the path any further (the percent-decoding
   mutation seeded/C13-r4-unix-socket-path-unquote breaks exactly this: its effect is outside
   the pathlib oracle and shows up as a disagreement with the model). *)
Record host_oracles_ok (o : oracles) : Prop := {
  exp_fix : forall a p, o_expand o a = XOk p ->
              o_expand o p = XOk p /\ o_pathstr o p = p /\ strip p = p /\ p <> [] /\ ~ In NL p;
  pathstr_nonblank : forall s, strip (decode (encode (o_pathstr o s))) <> [];
}.

Lemma strip_prefix_app p s : strip_prefix p (p ++ s) = Some s.
Proof. induction p as [|c p IH]; [reflexivity|]. cbn [app strip_prefix]. now rewrite Z.eqb_refl. Qed.

Lemma take_line_nonl s : ~ In NL s -> take_line s = s.
Proof.
  induction s as [|c s IH]; intros N; [reflexivity|]. cbn [take_line].
  destruct (c =? NL) eqn:E; [apply Z.eqb_eq in E; exfalso; apply N; now left|].
  rewrite IH; [reflexivity|]. intros H. apply N. now right.
Qed.

Lemma strip_unix p : p <> [] -> strip p = p -> strip (s_unix ++ p) = s_unix ++ p.
Proof.
  intros NE SP. destruct (strip_fix_parts p SP) as [LP RP]. unfold strip.
  assert (lstrip (s_unix ++ p) = s_unix ++ p) as -> by reflexivity.
  rewrite rstrip_app_r; [now rewrite RP|]. now rewrite RP.
Qed.

Lemma hostname_roundtrip_lemma so o (H : host_oracles_ok o) opt raw v :
  deserialize o (THostname opt) raw = Ok v ->
  exists s, serialize so o false (THostname opt) v = SStr s /\ deserialize o (THostname opt) s = Ok v.
Proof.
  destruct H as [EXP PNB]. unfold deserialize, serialize. cbn [deserialize_gen serialize_gen].
  intros D. unfold deser_hostname_gen in D. apply req_or_none_ok in D.
  destruct D as [(-> & -> & E)|(E & D)].
  - exists []. split; reflexivity.
  - destruct (strip_prefix s_unix (strip (decode raw))) as [rest|] eqn:P.
    + (* unix: socket path *)
      cbv zeta iota in D.
      destruct (deser_path_cases o opt (encode (o_pathstr o (take_line rest)))) as [(a & p & DP & NEa & X & A)|[(DP & O & EMP)|DP]];
        rewrite DP in D; try discriminate.
      * injection D as <-.
        destruct (EXP _ _ X) as (XP & PS & SP & NEp & NLp).
        exists (encode (s_unix ++ p)). split; [reflexivity|].
        unfold deser_hostname_gen. rewrite decode_encode_lemma, (strip_unix p NEp SP).
        unfold req_or_none. cbn [app is_nil s_unix]. rewrite andb_false_r.
        change (117 :: 110 :: 105 :: 120 :: 58 :: p) with (s_unix ++ p). rewrite strip_prefix_app.
        cbv zeta iota. rewrite (take_line_nonl p NLp), PS.
        unfold deser_path_gen. rewrite decode_encode_lemma, SP, XP. unfold req_or_none.
        destruct p as [|p0 p']; [congruence|]. cbn [is_nil]. rewrite andb_false_r. reflexivity.
      * exfalso. apply is_nil_true in EMP. exact (PNB _ EMP).
    + (* a host name the resolver accepts *)
      destruct (o_resolve o (strip (decode raw))) eqn:R; try discriminate. injection D as <-.
      exists (encode (strip (decode raw))). split; [reflexivity|].
      unfold deser_hostname_gen. rewrite strip_decode_encode_stripped, P, R.
      unfold req_or_none. rewrite E, andb_false_r. reflexivity.
Qed.

(* the hypotheses are satisfiable: expand = identity on absolute-looking paths *)
Definition host_law_o : oracles := {|
  o_int := fun _ => IValueError; o_float := fun _ => FValueError;
  o_expand := fun s => if is_nil (strip s) || negb (str_eqb (strip s) s) || existsb (Z.eqb NL) s then XValueError else XOk s;
  o_pathstr := fun s => if is_nil (strip (decode (encode s))) then [46] else s;
  o_resolve := fun _ => ROSError; o_lower_char := fun c => [c]; o_transform := fun _ s => s |}.

Example host_law_ok : host_oracles_ok host_law_o.
Proof.
  split.
  - intros a p X. cbn [host_law_o o_expand o_pathstr] in *.
    destruct (is_nil (strip a) || negb (str_eqb (strip a) a) || existsb (Z.eqb NL) a) eqn:C; [discriminate|].
    injection X as <-. apply orb_false_iff in C. destruct C as [C NLa]. apply orb_false_iff in C. destruct C as [C1 C2].
    apply negb_false_iff, str_eqb_eq in C2.
    assert (a <> []) as NEa by (intros ->; discriminate).
    assert (~ In NL a) as NN.
    { intros IN. assert (existsb (Z.eqb NL) a = true) as T by (apply existsb_exists; exists NL; split; [exact IN|apply Z.eqb_refl]). congruence. }
    rewrite C2 in C1. rewrite !C2, C1, str_eqb_refl, NLa. cbn [negb orb].
    rewrite decode_encode_lemma, C2, C1. repeat split; auto.
  - intros s. cbn [host_law_o o_pathstr].
    destruct (is_nil (strip (decode (encode s)))) eqn:C; [cbv; discriminate|].
    intros E. rewrite E in C. discriminate.
Qed.
