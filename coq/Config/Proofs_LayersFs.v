From Coq Require Import ZArith List Bool Lia.
From Common Require Import Res Str.
From Config Require Import Types Schema Proofs_Schema Layers Proofs_Layers LayersFs.
Import ListNotations.
Open Scope Z_scope.

(* ------------------------------------------------------------------ pathlib's suffix rule *)

Lemma suffix_rev_nodot r ext : ~ In DOT r -> suffix_rev r ext = [].
Proof.
  revert ext. induction r as [|c r IH]; intros ext N; [reflexivity|]. cbn [suffix_rev].
  destruct (c =? DOT) eqn:E; [apply Z.eqb_eq in E; exfalso; apply N; now left|].
  apply IH. intros H. apply N. now right.
Qed.

(* "<stem>.conf" with a non-empty stem has suffix ".conf", whatever the stem contains *)
Lemma py_suffix_conf stem : stem <> [] -> py_suffix (stem ++ s_conf) = s_conf.
Proof.
  intros NE. unfold py_suffix, s_conf. rewrite rev_app_distr. cbn [rev app suffix_rev].
  change (102 =? DOT) with false. change (110 =? DOT) with false. change (111 =? DOT) with false.
  change (99 =? DOT) with false. change (46 =? DOT) with true. cbv iota. cbn [is_nil orb].
  destruct (rev stem) eqn:R; [|reflexivity].
  exfalso. apply NE. apply (f_equal (@rev Z)) in R. now rewrite rev_involutive in R.
Qed.

(* a name without a dot, a name that is only ".conf", a name ending in a dot: no suffix *)
Lemma py_suffix_nodot name : ~ In DOT name -> py_suffix name = [].
Proof. intros N. apply suffix_rev_nodot. intros H. apply N. now apply in_rev. Qed.

Example py_suffix_examples :
  py_suffix s_conf = []                                                 (* ".conf"       *)
  /\ py_suffix [97; 46; 99; 111; 110; 102] = s_conf                      (* "a.conf"      *)
  /\ py_suffix [100; 46; 67; 79; 78; 70] = [46; 67; 79; 78; 70]          (* "d.CONF"      *)
  /\ py_suffix [110; 46; 99; 111; 110; 102; 46; 98; 97; 107] = [46; 98; 97; 107]  (* "n.conf.bak" *)
  /\ py_suffix [97; 46] = []                                             (* "a."          *)
  /\ eligible [97; 46; 99; 111; 110; 102] KRegular = true
  /\ eligible [97; 46; 99; 111; 110; 102] KLinkToFile = true
  /\ eligible [97; 46; 99; 111; 110; 102] KDirectory = false
  /\ eligible [97; 46; 99; 111; 110; 102] KSocket = false
  /\ eligible [97; 46; 99; 111; 110; 102] KDangling = false
  /\ eligible s_conf KRegular = false.
Proof. repeat split; reflexivity. Qed.

Lemma eligible_spec name k :
  eligible name k = true <-> kind_is_file k = true /\ py_suffix name = s_conf.
Proof.
  unfold eligible. rewrite andb_true_iff. split; intros [A B]; split; auto; now apply str_eqb_eq.
Qed.

(* ------------------------------------------------------------------ a load depends on the touched paths only *)

Definition agree_on (ps : list str) (fs1 fs2 : fsys) : Prop :=
  forall p, In p ps -> f_node fs1 p = f_node fs2 p /\ f_resolve fs1 p = f_resolve fs2 p.

(* only the sources of eligible members matter *)
Lemma entry_sources_members ms1 ms2 :
  map (@fst bool source) ms1 = map fst ms2 ->
  (forall i b1 s1 b2 s2, nth_error ms1 i = Some (b1, s1) -> nth_error ms2 i = Some (b2, s2) -> b1 = true -> s1 = s2) ->
  entry_sources (FDir ms1) = entry_sources (FDir ms2).
Proof.
  revert ms2. induction ms1 as [|[b1 s1] ms1 IH]; intros [|[b2 s2] ms2] E H; try discriminate; [reflexivity|].
  cbn [map fst] in E. injection E as -> E. cbn [entry_sources filter fst map snd] in *.
  assert (map snd (filter fst ms1) = map snd (filter fst ms2)) as T.
  { apply IH; [exact E|]. intros i a x c y A C. apply (H (S i) a x c y A C). }
  destruct b2; cbn [map snd]; [|exact T].
  rewrite T. f_equal. apply (H O true s1 true s2 eq_refl eq_refl eq_refl).
Qed.

Lemma entry_sources_agree fs1 fs2 p :
  agree_on (touched_of fs1 p) fs1 fs2 ->
  entry_sources (entry_of fs1 p) = entry_sources (entry_of fs2 p).
Proof.
  intros A. unfold entry_of, touched_of in *.
  destruct (A p (or_introl eq_refl)) as [N R]. rewrite <- N.
  destruct (f_node fs1 p) as [s|members] eqn:NP.
  - cbn [entry_sources]. rewrite <- R.
    assert (In (f_resolve fs1 p) (p :: [f_resolve fs1 p])) as IN by (right; now left).
    unfold source_at. now rewrite (proj1 (A _ IN)).
  - apply entry_sources_members.
    + rewrite !map_map. reflexivity.
    + intros i b1 s1 b2 s2 H1 H2 EB.
      rewrite nth_error_map in H1, H2. destruct (nth_error members i) as [[nm k]|] eqn:NE; [|discriminate].
      cbn [option_map fst snd] in H1, H2. injection H1 as <- <-. injection H2 as _ <-.
      assert (forall q, In q [path_join p nm; f_resolve fs1 (path_join p nm)] ->
                        f_node fs1 q = f_node fs2 q /\ f_resolve fs1 q = f_resolve fs2 q) as IN.
      { intros q Q. apply A. right. apply in_flat_map. exists (nm, k). split; [eapply nth_error_In; eauto|].
        cbn [fst snd]. rewrite EB. exact Q. }
      destruct (IN _ (or_introl eq_refl)) as [_ R1].
      destruct (IN _ (or_intror (or_introl eq_refl))) as [N2 _].
      unfold source_at. rewrite <- R1, <- N2. reflexivity.
Qed.

Lemma flat_map_ext_in {A B} (f g : A -> list B) l : (forall x, In x l -> f x = g x) -> flat_map f l = flat_map g l.
Proof. induction l as [|x l IH]; intros H; cbn; [reflexivity|]. rewrite H by now left. f_equal. apply IH. intros; apply H; now right. Qed.

(* the model `load` only looks at the sources of the entries *)
Lemma load_sources defaults files1 files2 overrides :
  flat_map entry_sources files1 = flat_map entry_sources files2 ->
  load defaults files1 overrides = load defaults files2 overrides.
Proof. intros E. rewrite !load_is_fold. unfold all_asgs. now rewrite E. Qed.

(* FRAME over the file system: two file systems that agree on the touched paths give the same
   load -- whatever else differs (other files, other members, ineligible members' contents) *)
Lemma load_paths_agree fs1 fs2 defaults paths overrides :
  agree_on (touched fs1 paths) fs1 fs2 ->
  load_paths fs1 defaults paths overrides = load_paths fs2 defaults paths overrides.
Proof.
  intros A. unfold load_paths. apply load_sources. rewrite !flat_map_concat_map, !map_map, <- !flat_map_concat_map.
  apply flat_map_ext_in. intros p IN. apply entry_sources_agree.
  intros q Q. apply A. unfold touched. apply in_flat_map. eauto.
Qed.

(* ------------------------------------------------------------------ sessions *)

Lemma run_app fs evs1 evs2 :
  run fs (evs1 ++ evs2) = let '(fs1, o1) := run fs evs1 in let '(fs2, o2) := run fs1 evs2 in (fs2, o1 ++ o2).
Proof.
  revert fs. induction evs1 as [|[p n|p q|d ps o] evs1 IH]; intros fs; cbn [app run].
  - destruct (run fs evs2). reflexivity.
  - apply IH.
  - apply IH.
  - rewrite IH. destruct (run fs evs1) as [fs1 o1]. destruct (run fs1 evs2). reflexivity.
Qed.

Definition no_loads (evs : list event) : Prop := Forall (fun e => match e with Load _ _ _ => False | _ => True end) evs.

Lemma run_no_loads fs evs : no_loads evs -> snd (run fs evs) = [].
Proof.
  revert fs. induction evs as [|[p n|p q|d ps o] evs IH]; intros fs H; cbn [run]; inversion H; subst; auto.
  contradiction.
Qed.

(* RELOAD: after any history of loads and edits, a load returns what the files hold NOW: its
   result is load_paths of the current file system, independent of every earlier load, and
   equal for any two histories that leave the touched paths in the same state. *)
Lemma reload_current fs history d ps o :
  snd (run fs (history ++ [Load d ps o]))
  = snd (run fs history) ++ [load_paths (fst (run fs history)) d ps o].
Proof.
  rewrite run_app. destruct (run fs history) as [fs1 o1]. cbn [run fst snd]. reflexivity.
Qed.

Lemma reload_history_independent fsA fsB hA hB d ps o :
  agree_on (touched (fst (run fsA hA)) ps) (fst (run fsA hA)) (fst (run fsB hB)) ->
  last (snd (run fsA (hA ++ [Load d ps o]))) (Ok []) = last (snd (run fsB (hB ++ [Load d ps o]))) (Ok []).
Proof.
  intros A. rewrite !reload_current, !last_last. now apply load_paths_agree.
Qed.

(* an edit of a path that a load does not touch does not change that load *)
Lemma edit_untouched_irrelevant fs p n d ps o :
  ~ In p (touched fs ps) ->
  load_paths (fs_set fs p n) d ps o = load_paths fs d ps o.
Proof.
  intros NI. symmetry. apply load_paths_agree. intros q Q. cbn [fs_set f_node f_resolve]. split; [|reflexivity].
  destruct (str_eqb q p) eqn:E; [|reflexivity]. apply str_eqb_eq in E. subst. contradiction.
Qed.

(* non-vacuity / the cached-read scenario: load, edit the file in place, load again *)
Definition ex_fs : fsys := fs_of [([102], NFile (Lines false [Header [97]; Opt [107] [49]]))] [].
Example ex_reload :
  snd (run ex_fs [Load [] [[102]] []; Edit [102] (NFile (Lines false [Header [97]; Opt [107] [50]])); Load [] [[102]] []])
  = [Ok [([97], [([107], [49])])]; Ok [([97], [([107], [50])])]].
Proof. reflexivity. Qed.
