(* Model of mopidy.config.types.encode / decode (src/mopidy/config/types.py).

   encode: three sequential str.replace calls, for backslash, newline, tab, in that
   order, each replacing the character by its two-character escape.
   decode: ONE left-to-right pass replacing the two-character escapes (the regex
   substitution introduced by the fix commit recorded in known_findings.json).
   decode_sequential is the pre-fix code (three sequential str.replace calls); it is kept
   so that the refutation of the inverse law for that code stays machine-checked. *)
From Coq Require Import ZArith List Bool.
From Common Require Import Str.
Import ListNotations.
Open Scope Z_scope.

Definition BS : Z := 92.   (* backslash *)
Definition NL : Z := 10.
Definition TAB : Z := 9.
Definition CH_n : Z := 110.
Definition CH_t : Z := 116.

Definition encode (s : str) : str :=
  replace1 TAB [BS; CH_t] (replace1 NL [BS; CH_n] (replace1 BS [BS; BS] s)).

Definition esc (c : Z) : str :=
  if c =? BS then [BS; BS] else if c =? NL then [BS; CH_n] else if c =? TAB then [BS; CH_t] else [c].

Fixpoint decode (s : str) : str :=
  match s with
  | [] => []
  | c :: t =>
      if c =? BS then
        match t with
        | d :: t' =>
            if d =? BS then BS :: decode t'
            else if d =? CH_n then NL :: decode t'
            else if d =? CH_t then TAB :: decode t'
            else c :: decode t
        | [] => [c]
        end
      else c :: decode t
  end.

Definition decode_sequential (s : str) : str :=
  replace2 BS CH_t [TAB] (replace2 BS CH_n [NL] (replace2 BS BS [BS] s)).
