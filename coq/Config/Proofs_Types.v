From Coq Require Import ZArith List Bool Lia.
From Common Require Import Res Str.
From Config Require Import Escape Types Schema Spec_C12.
Import ListNotations.
Open Scope Z_scope.

(* ------------------------------------------------------------------ T1: only ValueError *)

Lemma req_or_none_esc opt e k : escaped k = false -> escaped (req_or_none opt e k) = false.
Proof. unfold req_or_none. destruct (negb opt && e); [reflexivity|]. destruct e; auto. Qed.

Lemma deser_string_esc o opt ch tr s : escaped (deser_string o opt ch tr s) = false.
Proof.
  unfold deser_string. apply req_or_none_esc.
  destruct tr; [destruct (in_choices_str _ _)|destruct (in_choices_str _ _)]; reflexivity.
Qed.

Lemma deser_integer_esc o opt mn mx ch s : escaped (deser_integer o opt mn mx ch s) = false.
Proof.
  unfold deser_integer. apply req_or_none_esc.
  destruct (o_int o _); [|reflexivity]. destruct (_ && _); reflexivity.
Qed.

Lemma deser_float_esc o opt mn mx s : escaped (deser_float o opt mn mx s) = false.
Proof.
  unfold deser_float. apply req_or_none_esc.
  destruct (o_float o _); [|reflexivity]. destruct (fl_range_ok _ _ _); reflexivity.
Qed.

Lemma deser_boolean_esc o opt s : escaped (deser_boolean o opt s) = false.
Proof.
  unfold deser_boolean. apply req_or_none_esc.
  destruct (mem_str _ true_values); [reflexivity|]. destruct (mem_str _ false_values); reflexivity.
Qed.

Lemma deser_path_cases o opt s :
  (exists orig p, deser_path_gen true o opt s = Ok (VPath orig p) /\ orig <> [] /\ o_expand o orig = XOk p
                  /\ orig = strip (decode s))
  \/ (deser_path_gen true o opt s = Ok VNone /\ opt = true /\ is_nil (strip (decode s)) = true)
  \/ deser_path_gen true o opt s = Raise ValueError.
Proof.
  unfold deser_path_gen, req_or_none, ve.
  destruct (o_expand o (strip (decode s))) eqn:E; auto.
  destruct opt; cbn [negb andb].
  - destruct (strip (decode s)) eqn:S; cbn [is_nil]; [right; left; auto|].
    left. eexists _, _. repeat split; eauto. discriminate.
  - destruct (strip (decode s)) eqn:S; cbn [is_nil]; [auto|].
    left. eexists _, _. repeat split; eauto. discriminate.
Qed.

Lemma deser_path_esc o opt s : escaped (deser_path_gen true o opt s) = false.
Proof.
  destruct (deser_path_cases o opt s) as [(a & p & H & _)|[(H & _)|H]]; rewrite H; reflexivity.
Qed.

Lemma deser_hostname_esc o opt s : escaped (deser_hostname_gen true o opt s) = false.
Proof.
  unfold deser_hostname_gen. apply req_or_none_esc.
  destruct (strip_prefix _ _).
  - cbv zeta iota.
    destruct (deser_path_cases o opt (encode (o_pathstr o (take_line s0)))) as [(a & p & H & _)|[(H & _)|H]];
      rewrite H; reflexivity.
  - destruct (o_resolve o _); reflexivity.
Qed.

Lemma mapM_esc f l : (forall x, escaped (f x) = false) -> escaped (mapM f l) = false.
Proof.
  intros H. induction l as [|x l IH]; [reflexivity|]. cbn [mapM].
  specialize (H x). destruct (f x) as [v|e|]; cbn [rbind] in *; try assumption.
  destruct (mapM f l) as [vs|e|]; cbn [rbind] in *; try assumption; reflexivity.
Qed.

Lemma deserialize_no_escape o t : forall s, escaped (deserialize o t s) = false.
Proof.
  unfold deserialize.
  induction t; intros s; cbn [deserialize_gen].
  - apply deser_string_esc.
  - apply deser_string_esc.
  - apply deser_integer_esc.
  - apply deser_float_esc.
  - apply deser_boolean_esc.
  - apply req_or_none_esc. destruct (is_nil sep); [reflexivity|].
    destruct (split_once _ _) as [[a b]|]; [|destruct optpair; [|reflexivity]].
    + specialize (IHt1 (encode a)). destruct (deserialize_gen true o t1 _); cbn [rbind] in *; auto.
      specialize (IHt2 (encode b)). destruct (deserialize_gen true o t2 _); cbn [rbind] in *; auto.
    + specialize (IHt1 (encode (strip (decode s)))).
      destruct (deserialize_gen true o t1 _); cbn [rbind] in *; auto.
      specialize (IHt2 (encode (strip (decode s)))).
      destruct (deserialize_gen true o t2 _); cbn [rbind] in *; auto.
  - pose proof (mapM_esc (deserialize_gen true o t) (list_items (decode s)) IHt) as M.
    destruct (mapM _ _) as [vs|e|]; cbn [rbind] in *; auto.
    destruct (negb opt && _); reflexivity.
  - unfold deser_logcolor. destruct (mem_str _ _); reflexivity.
  - unfold deser_loglevel. destruct (assoc _ _); reflexivity.
  - apply deser_hostname_esc.
  - apply deser_path_esc.
  - reflexivity.
Qed.

Lemma deserialize_ok_or_valueerror o t s :
  (exists v, deserialize o t s = Ok v) \/ deserialize o t s = Raise ValueError.
Proof.
  pose proof (deserialize_no_escape o t s) as H.
  destruct (deserialize o t s) as [v|[]|]; cbn in H; try discriminate; eauto.
Qed.

(* The code before the fix let RuntimeError out (oracle: expand_path raises RuntimeError,
   which pathlib does for "~nosuchuser/x"). *)
Definition rt_oracles : oracles := {|
  o_int := fun _ => IValueError; o_float := fun _ => FValueError;
  o_expand := fun _ => XRuntimeError; o_pathstr := fun s => s; o_resolve := fun _ => ROSError;
  o_lower_char := fun c => [c]; o_transform := fun _ s => s |}.

Lemma prefix_path_escapes :
  exists o t s, escaped (deserialize_prefix o t s) = true.
Proof. exists rt_oracles, (TPath false), [126; 120]. reflexivity. Qed.

(* ------------------------------------------------------------------ soundness of types *)

Definition wf_opt (o : oracles) (t : ty) (v : val) : Prop :=
  (v = VNone /\ ty_optional t = true) \/ wf o t v.

Lemma is_nil_false {A} (l : list A) : is_nil l = false -> l <> [].
Proof. destruct l; [discriminate|discriminate]. Qed.

Lemma req_or_none_ok opt e k v :
  req_or_none opt e k = Ok v ->
  (v = VNone /\ opt = true /\ e = true) \/ (e = false /\ k = Ok v).
Proof.
  unfold req_or_none, ve. destruct opt, e; cbn; intros H; try discriminate; auto.
  - injection H as <-. auto.
Qed.

Lemma fl_range_equiv f mn mx :
  f <> FNan ->
  match mn with Some FNan => False | _ => True end ->
  match mx with Some FNan => False | _ => True end ->
  fl_range_ok f mn mx = true -> fl_in_range f mn mx = true.
Proof.
  intros Hf Hmn Hmx. unfold fl_range_ok, fl_in_range, fl_le.
  intros H. apply andb_true_iff in H. destruct H as [H1 H2]. apply andb_true_iff. split.
  - destruct mn as [m|]; [|reflexivity].
    destruct f, m; cbn in *; try tauto; try discriminate; try reflexivity.
    apply negb_true_iff in H1. apply orb_true_iff.
    destruct (Z.ltb_spec (num * den0) (num0 * den)); [discriminate|].
    destruct (Z.ltb_spec (num0 * den) (num * den0)); [auto|]. right. apply Z.eqb_eq. lia.
  - destruct mx as [m|]; [|reflexivity].
    destruct f, m; cbn in *; try tauto; try discriminate; try reflexivity.
    apply negb_true_iff in H2. apply orb_true_iff.
    destruct (Z.ltb_spec (num0 * den) (num * den0)); [discriminate|].
    destruct (Z.ltb_spec (num * den0) (num0 * den)); [auto|]. right. apply Z.eqb_eq. lia.
Qed.

Lemma z_range_equiv z mn mx : z_range_ok z mn mx = true -> z_in_range z mn mx.
Proof.
  unfold z_range_ok, z_in_range. intros H. apply andb_true_iff in H. destruct H as [H1 H2].
  split; [destruct mn|destruct mx]; auto; apply negb_true_iff in H1 || apply negb_true_iff in H2; lia.
Qed.

Lemma mapM_ok f l vs :
  mapM f l = Ok vs -> Forall2 (fun x v => f x = Ok v) l vs.
Proof.
  revert vs. induction l as [|x l IH]; intros vs H; cbn [mapM] in H.
  - injection H as <-. constructor.
  - destruct (f x) eqn:F; cbn [rbind] in H; try discriminate.
    destruct (mapM f l) eqn:M; cbn [rbind] in H; try discriminate.
    injection H as <-. constructor; auto.
Qed.

Lemma dedup_aux_in seen l x : In x (dedup_aux seen l) -> In x seen \/ In x l.
Proof.
  revert seen. induction l as [|y l IH]; intros seen H; cbn [dedup_aux] in H.
  - left. now apply in_rev.
  - destruct (existsb _ seen).
    + apply IH in H. destruct H; auto. right. now right.
    + apply IH in H. destruct H as [[->|H]|H]; auto; right; [now left|now right].
Qed.

Lemma dedup_in l x : In x (dedup l) -> In x l.
Proof. intros H. apply dedup_aux_in in H. destruct H as [[]|H]; auto. Qed.

Lemma dedup_aux_nonempty seen l : seen <> [] \/ l <> [] -> dedup_aux seen l <> [].
Proof.
  revert seen. induction l as [|y l IH]; intros seen H; cbn [dedup_aux].
  - destruct H as [H|H]; [|congruence]. intros E. apply H.
    apply (f_equal (@rev val)) in E. rewrite rev_involutive in E. exact E.
  - destruct (existsb _ seen) eqn:EX.
    + apply IH. left. destruct seen; [discriminate|discriminate].
    + apply IH. left. discriminate.
Qed.

Lemma lookup_level_in raw n : assoc raw log_levels = Some n -> In n (map snd log_levels).
Proof.
  generalize log_levels. induction l as [|[k v] l IH]; cbn; [discriminate|].
  destruct (str_eqb raw k); intros H; [injection H as <-; auto|auto].
Qed.

Lemma deserialize_sound_gen o t :
  (no_nan o \/ no_bounded_float t = true) -> sane_ty t = true ->
  forall s v, deserialize o t s = Ok v ->
    (v = VNone /\ ty_optional t = true /\ raw_empty t s = true) \/ (v <> VNone /\ wf o t v).
Proof.
  unfold deserialize.
  induction t; intros NN SANE s v H; cbn [deserialize_gen] in H; cbn [ty_optional raw_empty wf].
  - (* String *)
    unfold deser_string in H. apply req_or_none_ok in H. destruct H as [(-> & -> & E)|(E & H)]; [auto|].
    right. apply is_nil_false in E.
    destruct tr; destruct (in_choices_str _ _) eqn:C; try discriminate; injection H as <-;
      (split; [discriminate|]); auto.
  - (* Secret *)
    unfold deser_string in H. apply req_or_none_ok in H. destruct H as [(-> & -> & E)|(E & H)]; [auto|].
    right. apply is_nil_false in E.
    destruct tr; cbn in H; injection H as <-; (split; [discriminate|]); auto.
  - (* Integer *)
    unfold deser_integer in H. apply req_or_none_ok in H. destruct H as [(-> & -> & E)|(E & H)]; [auto|].
    right. destruct (o_int o _); [|discriminate].
    destruct (in_choices_z _ _ && _) eqn:C; [|discriminate]. injection H as <-.
    apply andb_true_iff in C. destruct C as [C1 C2]. split; [discriminate|].
    split; [now apply z_range_equiv|assumption].
  - (* Float *)
    unfold deser_float in H. apply req_or_none_ok in H. destruct H as [(-> & -> & E)|(E & H)]; [auto|].
    right. destruct (o_float o _) eqn:F; [|discriminate].
    destruct (fl_range_ok _ _ _) eqn:C; [|discriminate]. injection H as <-.
    split; [discriminate|]. cbn [sane_ty] in SANE. apply andb_true_iff in SANE. destruct SANE as [S1 S2].
    destruct NN as [NN|NB].
    + apply fl_range_equiv; auto.
      * intros ->. exact (NN _ F).
      * destruct mn as [[]|]; cbn in S1; auto; discriminate.
      * destruct mx as [[]|]; cbn in S2; auto; discriminate.
    + cbn [no_bounded_float] in NB. destruct mn; [discriminate|]. destruct mx; [discriminate|]. reflexivity.
  - (* Boolean *)
    unfold deser_boolean in H. apply req_or_none_ok in H. destruct H as [(-> & -> & E)|(E & H)]; [auto|].
    right. destruct (mem_str _ true_values); [injection H as <-; split; [discriminate|exact I]|].
    destruct (mem_str _ false_values); [injection H as <-; split; [discriminate|exact I]|discriminate].
  - (* Pair *)
    cbn [sane_ty] in SANE. apply andb_true_iff in SANE. destruct SANE as [S1 S2].
    assert (no_nan o \/ no_bounded_float t1 = true) as N1.
    { destruct NN as [NN|NB]; [auto|]. cbn [no_bounded_float] in NB. apply andb_true_iff in NB. tauto. }
    assert (no_nan o \/ no_bounded_float t2 = true) as N2.
    { destruct NN as [NN|NB]; [auto|]. cbn [no_bounded_float] in NB. apply andb_true_iff in NB. tauto. }
    apply req_or_none_ok in H. destruct H as [(-> & -> & E)|(E & H)]; [auto|].
    right. destruct (is_nil sep); [discriminate|].
    assert (forall a b, rbind (deserialize_gen true o t1 (encode a))
              (fun va => rbind (deserialize_gen true o t2 (encode b)) (fun vb => Ok (VPair va vb))) = Ok v ->
            v <> VNone /\ wf o (TPair opt optpair sep t1 t2) v) as K.
    { intros a b K. destruct (deserialize_gen true o t1 (encode a)) eqn:D1; cbn [rbind] in K; try discriminate.
      destruct (deserialize_gen true o t2 (encode b)) eqn:D2; cbn [rbind] in K; try discriminate.
      injection K as <-. split; [discriminate|]. cbn [wf].
      apply (IHt1 N1 S1) in D1. apply (IHt2 N2 S2) in D2. split.
      - destruct D1 as [(-> & O & _)|(_ & W)]; auto.
      - destruct D2 as [(-> & O & _)|(_ & W)]; auto. }
    destruct (split_once _ _) as [[a b]|]; [eauto|]. destruct optpair; [eauto|discriminate].
  - (* List *)
    cbn [sane_ty] in SANE.
    destruct (mapM _ _) as [vs|e|] eqn:M; cbn [rbind] in H; try discriminate.
    apply mapM_ok in M.
    assert (Forall (fun x => (x = VNone /\ ty_optional t = true) \/ wf o t x) vs) as FA.
    { clear H. induction M; constructor; auto.
      apply (IHt NN SANE) in H. destruct H as [(-> & O & _)|(_ & W)]; auto. }
    right. destruct (negb opt && _) eqn:C; [discriminate|]. injection H as <-.
    destruct unique; (split; [discriminate|]); cbn [wf]; (split; [reflexivity|]); split.
    + intros ->. cbn in C. now apply is_nil_false in C.
    + apply Forall_forall. intros x Hx. apply dedup_in in Hx. rewrite Forall_forall in FA. auto.
    + intros ->. cbn in C. now apply is_nil_false in C.
    + assumption.
  - (* LogColor *)
    unfold deser_logcolor in H. destruct (mem_str _ _) eqn:C; [|discriminate]. injection H as <-.
    right. split; [discriminate|assumption].
  - (* LogLevel *)
    unfold deser_loglevel in H. destruct (assoc _ _) eqn:C; [|discriminate]. injection H as <-.
    right. split; [discriminate|]. eapply lookup_level_in; eauto.
  - (* Hostname *)
    unfold deser_hostname_gen in H. apply req_or_none_ok in H. destruct H as [(-> & -> & E)|(E & H)]; [auto|].
    right. apply is_nil_false in E. destruct (strip_prefix _ _) eqn:P.
    + cbv zeta iota in H.
      destruct (deser_path_cases o opt (encode (o_pathstr o (take_line s0)))) as [(a & p & D & _)|[(D & _)|D]];
        rewrite D in H; try discriminate; injection H as <-; (split; [discriminate|]);
        (split; [discriminate|right; reflexivity]).
    + destruct (o_resolve o _) eqn:R; try discriminate. injection H as <-.
      split; [discriminate|]. split; auto.
  - (* Path *)
    destruct (deser_path_cases o opt s) as [(a & p & D & NE & X & _)|[(D & O & E)|D]];
      fold (deser_path_gen true o opt s) in H; rewrite D in H; try discriminate; injection H as <-; auto.
    right. split; [discriminate|]. split; assumption.
  - injection H as <-. right. split; [discriminate|reflexivity].
Qed.

Lemma deserialize_sound o (NN : no_nan o) t :
  sane_ty t = true ->
  forall s v, deserialize o t s = Ok v ->
    (v = VNone /\ ty_optional t = true /\ raw_empty t s = true) \/ (v <> VNone /\ wf o t v).
Proof. apply deserialize_sound_gen. now left. Qed.

(* for types without a bounded Float, soundness holds whatever float() answers *)
Lemma deserialize_sound_float_free o t :
  no_bounded_float t = true -> sane_ty t = true ->
  forall s v, deserialize o t s = Ok v ->
    (v = VNone /\ ty_optional t = true /\ raw_empty t s = true) \/ (v <> VNone /\ wf o t v).
Proof. intros NB. apply deserialize_sound_gen. now right. Qed.


(* The nan defect: with a float oracle that answers nan, a value outside the declared
   range is accepted. *)
Definition nan_oracles : oracles := {|
  o_int := fun _ => IValueError; o_float := fun _ => FOk FNan;
  o_expand := fun _ => XValueError; o_pathstr := fun s => s; o_resolve := fun _ => ROSError;
  o_lower_char := fun c => [c]; o_transform := fun _ s => s |}.

Lemma float_nan_unsound :
  exists o t s v, sane_ty t = true /\ deserialize o t s = Ok v /\ v <> VNone /\ ~ wf o t v.
Proof.
  exists nan_oracles, (TFloat false (Some (FFin 0 1)) (Some (FFin 1 1))), [110; 97; 110], (VFloat FNan).
  repeat split; try reflexivity; try discriminate.
Qed.
