(* C13 property theorems.  Nothing but statements, `exact`, and Print Assumptions. *)
From Coq Require Import ZArith List Bool.
From Common Require Import Str.
From Config Require Import Escape Proofs_Escape.
Import ListNotations.
Open Scope Z_scope.

(* T1: decode is a left inverse of encode, for every string. *)
Theorem C13_decode_encode : forall s : str, decode (encode s) = s.
Proof. exact decode_encode_lemma. Qed.
Print Assumptions C13_decode_encode.

Theorem C13_encode_single_line : forall s : str, ~ In NL (encode s) /\ ~ In TAB (encode s).
Proof. exact encode_no_raw. Qed.
Print Assumptions C13_encode_single_line.

Theorem C13_sequential_decoder_refuted : exists s, decode_sequential (encode s) <> s.
Proof. exact decode_sequential_refuted. Qed.
Print Assumptions C13_sequential_decoder_refuted.
