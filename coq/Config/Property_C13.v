(* C13 property theorems.  Nothing but statements, `exact`, and Print Assumptions.
   Models: Escape.v (encode/decode), Types.v (deserialize), Serialize.v (serialize of every
   type, ConfigSchema/MapConfigSchema.serialize, config._format). *)
From Coq Require Import ZArith List Bool.
From Common Require Import Res Str.
From Config Require Import Escape Proofs_Escape Types Schema Spec_C12 Serialize Proofs_Serialize Proofs_List Proofs_Pair Layers Ini Proofs_Ini Proofs_Host.
Import ListNotations.
Open Scope Z_scope.

(* T1: decode is a left inverse of encode, for every string. *)
Theorem C13_decode_encode : forall s : str, decode (encode s) = s.
Proof. exact decode_encode_lemma. Qed.
Print Assumptions C13_decode_encode.

Theorem C13_encode_single_line : forall s : str, ~ In NL (encode s) /\ ~ In TAB (encode s).
Proof. exact encode_no_raw. Qed.
Print Assumptions C13_encode_single_line.

Theorem C13_sequential_decoder_refuted : exists s, decode_sequential (encode s) <> s.
Proof. exact decode_sequential_refuted. Qed.
Print Assumptions C13_sequential_decoder_refuted.

(* str.strip() (as transcribed) is idempotent: accepted strings stay accepted. *)
Theorem C13_strip_idempotent : forall s : str, strip (strip s) = strip s.
Proof. exact strip_idem. Qed.
Print Assumptions C13_strip_idempotent.

(* T2 (scalar types: String, Secret, Integer/Port, Float, Boolean, LogColor, LogLevel,
   Path): every value in the range of deserialize serializes to a text that deserializes
   to the same value -- for all raw texts, all oracle behaviours satisfying
   [str_oracles_ok] (int(str(z)) = z, float(repr(f)) = f, no backslash in either).
   Strings may contain backslashes, tabs and newlines.  Excluded: Boolean None (known
   finding, refuted below).  Hostname, lists and pairs: next theorems.  Deeper compositions
   (pair of pairs, ...) are covered by correspondence and the type_roundtrip monitor only. *)
Theorem C13_type_roundtrip_partial :
  forall so o, str_oracles_ok so o ->
  forall t raw v,
    scalar t = true ->
    deserialize o t raw = Ok v ->
    (forall opt, t = TBoolean opt -> v <> VNone) ->
    exists s, serialize so o false t v = SStr s /\ deserialize o t s = Ok v.
Proof. exact scalar_roundtrip_lemma. Qed.
Print Assumptions C13_type_roundtrip_partial.

(* T2 for Hostname, BOTH branches (a name the resolver accepts; a "unix:" socket path, whose
   value is "unix:" + the expanded path): every value in the range of deserialize round-trips,
   under [host_oracles_ok]: an expanded path is a fixed point of expand_path and of pathlib's
   normalisation, non-empty, single-line, without outer whitespace; pathlib gives no blank
   string.  get_unix_socket_path must add nothing of its own to the pathlib oracle (a
   percent-decoding variant is reported by corr:deserialize / corr:reparse and type_roundtrip). *)
Theorem C13_hostname_roundtrip :
  forall so o, host_oracles_ok o ->
  forall opt raw v,
    deserialize o (THostname opt) raw = Ok v ->
    exists s, serialize so o false (THostname opt) v = SStr s /\ deserialize o (THostname opt) s = Ok v.
Proof. exact hostname_roundtrip_lemma. Qed.
Print Assumptions C13_hostname_roundtrip.

Example C13_host_hypotheses_satisfiable : host_oracles_ok host_law_o.
Proof. exact host_law_ok. Qed.
Print Assumptions C13_host_hypotheses_satisfiable.

(* T2 for List(subtype = scalar), tuple or frozenset (unique=True), optional or not: a list in
   the range of deserialize whose items are not None and serialize to single-line,
   backslash-free, non-empty texts (the carve-out the property makes for the list syntax)
   serializes to a text that deserializes to the same list.  Uses: the newline list syntax
   splits back into the items, frozenset de-duplication is idempotent. *)
Theorem C13_list_roundtrip_partial :
  forall so o, str_oracles_ok so o ->
  forall opt uq sub raw v,
    scalar sub = true ->
    deserialize o (TList opt uq sub) raw = Ok v ->
    (forall vs, v = VTuple vs \/ v = VSet vs -> items_plain so o sub vs) ->
    exists s, serialize so o false (TList opt uq sub) v = SStr s
              /\ deserialize o (TList opt uq sub) s = Ok v.
Proof. exact list_roundtrip_lemma. Qed.
Print Assumptions C13_list_roundtrip_partial.

(* T2 for List(subtype = ANY type), tuple or frozenset: if every item round-trips on its
   own through a single-line, backslash-free, non-empty text ([items_rt]), the list does. *)
Theorem C13_list_roundtrip_any_subtype :
  forall so o opt uq sub raw v,
    deserialize o (TList opt uq sub) raw = Ok v ->
    (forall vs, v = VTuple vs \/ v = VSet vs -> items_rt so o sub vs) ->
    exists s, serialize so o false (TList opt uq sub) v = SStr s
              /\ deserialize o (TList opt uq sub) s = Ok v.
Proof. exact list_roundtrip_gen. Qed.
Print Assumptions C13_list_roundtrip_any_subtype.

(* Instance for a non-scalar subtype: List of Pair of String/Secret halves (as file/media_dirs
   is meant to be read): every item in range, unambiguous and plain => the list round-trips. *)
Theorem C13_list_of_pairs_roundtrip_partial :
  forall so o, str_oracles_ok so o ->
  forall lopt uq opt optpair sep ta tb raw v,
    stringish ta = true -> stringish tb = true -> sep <> [] -> ~ In BS sep ->
    deserialize o (TList lopt uq (TPair opt optpair sep ta tb)) raw = Ok v ->
    (forall vs, v = VTuple vs \/ v = VSet vs -> Forall (pair_item_ok so o opt optpair sep ta tb) vs) ->
    exists s, serialize so o false (TList lopt uq (TPair opt optpair sep ta tb)) v = SStr s
              /\ deserialize o (TList lopt uq (TPair opt optpair sep ta tb)) s = Ok v.
Proof. exact list_of_pairs_roundtrip. Qed.
Print Assumptions C13_list_of_pairs_roundtrip_partial.

Example C13_list_hypothesis_satisfiable :
  items_plain law_so law_o (TString false None None) [VStr [97; 98]; VStr [99; 32; 100]].
Proof. exact ex_items_plain. Qed.
Print Assumptions C13_list_hypothesis_satisfiable.

(* T2 for Pair.  General form: if both halves round-trip through an encode image
   ([half_ok]: the half serializes to encode x and encode x deserializes back to it), the
   separator is non-empty and backslash-free, and the joined text x1 sep x2 is unambiguous
   (stripped, splits at the first separator into exactly (x1, x2); for the optional-pair
   shortcut: x1 alone contains no separator), then the pair round-trips.  The halves may
   contain backslashes, tabs and newlines: this is where the model's re-encode step
   (Pair.deserialize calling encode() on each half before delegating) is needed. *)
Theorem C13_pair_roundtrip_partial :
  forall so o opt optpair sep ta tb a b x1 x2,
    half_ok so o ta a x1 -> half_ok so o tb b x2 ->
    sep <> [] -> ~ In BS sep ->
    strip (x1 ++ sep ++ x2) = x1 ++ sep ++ x2 ->
    split_once sep (x1 ++ sep ++ x2) = Some (x1, x2) ->
    (optpair = true -> encode x1 = encode x2 ->
     x1 <> [] /\ strip x1 = x1 /\ split_once sep x1 = None) ->
    exists s, serialize so o false (TPair opt optpair sep ta tb) (VPair a b) = SStr s
              /\ deserialize o (TPair opt optpair sep ta tb) s = Ok (VPair a b).
Proof. exact pair_roundtrip_lemma. Qed.
Print Assumptions C13_pair_roundtrip_partial.

(* Instance: Pair of String/Secret halves (any optional/choices/transformer): every pair in
   the range of deserialize with an unambiguous joined text round-trips. *)
Theorem C13_pair_of_strings_roundtrip_partial :
  forall so o, str_oracles_ok so o ->
  forall opt optpair sep ta tb raw a b,
    stringish ta = true -> stringish tb = true ->
    deserialize o (TPair opt optpair sep ta tb) raw = Ok (VPair a b) ->
    sep <> [] -> ~ In BS sep ->
    let x1 := text_of a in let x2 := text_of b in
    strip (x1 ++ sep ++ x2) = x1 ++ sep ++ x2 ->
    split_once sep (x1 ++ sep ++ x2) = Some (x1, x2) ->
    (optpair = true -> encode x1 = encode x2 ->
     x1 <> [] /\ strip x1 = x1 /\ split_once sep x1 = None) ->
    exists s, serialize so o false (TPair opt optpair sep ta tb) (VPair a b) = SStr s
              /\ deserialize o (TPair opt optpair sep ta tb) s = Ok (VPair a b).
Proof. exact pair_of_strings_roundtrip. Qed.
Print Assumptions C13_pair_of_strings_roundtrip_partial.

(* Pair of ANY two scalar halves (String, Secret, Integer/Port, Float, Boolean, LogColor,
   LogLevel, Path; wrapped by a transformer / path expansion or not): every scalar half in the
   range of its type round-trips through an encode image ... *)
Theorem C13_scalar_half :
  forall so o, str_oracles_ok so o -> str_oracles_plain so ->
  forall t raw v,
    scalar t = true -> deserialize o t raw = Ok v ->
    (forall opt, t = TBoolean opt -> v <> VNone) ->
    exists x, half_ok so o t v x.
Proof. exact scalar_half. Qed.
Print Assumptions C13_scalar_half.

(* ... hence such pairs round-trip whenever the joined text is unambiguous. *)
Theorem C13_pair_of_scalars_roundtrip_partial :
  forall so o, str_oracles_ok so o -> str_oracles_plain so ->
  forall opt optpair sep ta tb r1 r2 a b,
    scalar ta = true -> scalar tb = true ->
    deserialize o ta r1 = Ok a -> deserialize o tb r2 = Ok b ->
    (forall op, ta = TBoolean op -> a <> VNone) -> (forall op, tb = TBoolean op -> b <> VNone) ->
    sep <> [] -> ~ In BS sep ->
    forall x1 x2, half_ok so o ta a x1 -> half_ok so o tb b x2 ->
    strip (x1 ++ sep ++ x2) = x1 ++ sep ++ x2 ->
    split_once sep (x1 ++ sep ++ x2) = Some (x1, x2) ->
    (optpair = true -> encode x1 = encode x2 ->
     x1 <> [] /\ strip x1 = x1 /\ split_once sep x1 = None) ->
    exists s, serialize so o false (TPair opt optpair sep ta tb) (VPair a b) = SStr s
              /\ deserialize o (TPair opt optpair sep ta tb) s = Ok (VPair a b).
Proof. exact pair_of_scalars_roundtrip. Qed.
Print Assumptions C13_pair_of_scalars_roundtrip_partial.

(* Without the re-encode step the half "C\n" (backslash, n) is unescaped twice. *)
Theorem C13_pair_without_reencode_refuted :
  exists so o sep t v s,
    serialize so o false (TPair false false sep t t) v = SStr s
    /\ deserialize o (TPair false false sep t t) s = Ok v
    /\ pair_no_reencode o sep t t s <> Ok v.
Proof. exact pair_without_reencode_refuted. Qed.
Print Assumptions C13_pair_without_reencode_refuted.

Example C13_pair_hypotheses_satisfiable :
  let x1 := [67; 58; 92; 110; 101; 119] in let x2 := [120] in let sep := [124] in
  sep <> [] /\ ~ In BS sep /\ strip (x1 ++ sep ++ x2) = x1 ++ sep ++ x2
  /\ split_once sep (x1 ++ sep ++ x2) = Some (x1, x2).
Proof. exact ex_pair_hyps. Qed.
Print Assumptions C13_pair_hypotheses_satisfiable.

Theorem C13_boolean_none_roundtrip_refuted :
  exists so o raw s, deserialize o (TBoolean true) raw = Ok VNone
    /\ serialize so o false (TBoolean true) VNone = SStr s
    /\ deserialize o (TBoolean true) s <> Ok VNone.
Proof. exact boolean_none_roundtrip_refuted. Qed.
Print Assumptions C13_boolean_none_roundtrip_refuted.

(* The code before fix cacbe5e: Path.serialize did not escape. *)
Theorem C13_prefix_path_roundtrip_refuted :
  exists raw v s, deserialize_prefix id_oracles (TPath false) raw = Ok v
    /\ serialize_prefix dummy_so id_oracles false (TPath false) v = SStr s
    /\ deserialize_prefix id_oracles (TPath false) s <> Ok v.
Proof. exact prefix_path_roundtrip_refuted. Qed.
Print Assumptions C13_prefix_path_roundtrip_refuted.

(* T3, per value: two values that differ only in the values of set secrets, at any nesting
   in Pair/List, serialize identically when display is on. *)
Theorem C13_mask_noninterference_value :
  forall so o t v1 v2,
    sec_rel t v1 v2 -> serialize so o true t v1 = serialize so o true t v2.
Proof. exact mask_noninterference_type. Qed.
Print Assumptions C13_mask_noninterference_value.

(* T3, whole config: for every schema list and every two configs related key by key by
   [sec_rel], config.format(display=True) (and the disabled rendering) are identical. *)
Theorem C13_mask_noninterference :
  forall so o disable schemas c1 c2,
    config_rel schemas c1 c2 ->
    format_gen so o true disable schemas c1 = format_gen so o true disable schemas c2.
Proof. exact mask_noninterference_format. Qed.
Print Assumptions C13_mask_noninterference.

Example C13_mask_hypothesis_satisfiable :
  config_rel ex_sec_schemas (ex_cfg [49] [50]) (ex_cfg [51; 52] [53]).
Proof. exact ex_config_rel. Qed.
Print Assumptions C13_mask_hypothesis_satisfiable.

(* T4: with display off a secret's serialization decodes to the secret exactly. *)
Theorem C13_secret_preserved :
  forall so o opt tr v s,
    (v = VStr s \/ exists t, v = VTStr s t) ->
    exists e, serialize so o false (TSecret opt tr) v = SStr e /\ decode e = s.
Proof. exact secret_preserved_lemma. Qed.
Print Assumptions C13_secret_preserved.

(* T5, below the INI syntax: the text _format writes for a (scalar) key validates, as that
   key's raw value, to the same entry.  The INI transport itself (configparser reading
   what _format wrote) is covered by the format_load_roundtrip monitor only. *)
Theorem C13_format_key_roundtrip_partial :
  forall so o, str_oracles_ok so o ->
  forall keys k t raw_k v,
    assoc k keys = Some t -> scalar t = true ->
    entry o keys (Some raw_k) k = (Some v, None) ->
    (forall opt, t = TBoolean opt -> v <> VNone) ->
    exists s, serialize so o false t v = SStr s /\ entry o keys (Some s) k = (Some v, None).
Proof. exact format_key_roundtrip_lemma. Qed.
Print Assumptions C13_format_key_roundtrip_partial.

(* T5 at the INI-syntax level.  Ini.v is a model of RawConfigParser._read as mopidy configures
   it (inline ";" comments, "#"/";" comment lines, "=" / ":" delimiters, continuation lines,
   blank lines inside values, section headers, MissingSectionHeaderError), tied to
   configparser itself by corr:ini on every rendered and formatted text of a run. *)

(* one "key = value" line as _format writes it parses to exactly (key, value) *)
Theorem C13_ini_option_line :
  forall o st sec k v,
    p_sect st = Some sec -> p_indent st = 0 -> key_safe o k -> val_safe v ->
    ini_step o st (k ++ s_eqsp ++ v)
    = SCont {| p_sect := Some sec; p_opt := Some (k, [v]); p_indent := 0; p_out := flush st |}.
Proof. exact ini_step_option. Qed.
Print Assumptions C13_ini_option_line.

(* a whole text of "[section]" / "key = value" / blank-line blocks parses back to exactly those
   sections, keys and values: for every number of sections and keys, every safe name and every
   value the INI syntax can carry (empty or stripped, one line, no ";" after whitespace or at its
   start; "#" anywhere, "=" and ":" inside values are fine) *)
Theorem C13_ini_roundtrip :
  forall o blocks,
    blocks <> [] ->
    Forall (fun b => sect_safe (fst b) /\ Forall (kv_safe o) (snd b)) blocks ->
    parse_ini o (ini_text blocks) = PLines (flat_map (fun b => block_events (fst b) (snd b)) blocks).
Proof. exact parse_ini_format_blocks. Qed.
Print Assumptions C13_ini_roundtrip.

(* config._format's lines are such blocks ... *)
Theorem C13_format_lines_are_blocks :
  forall so o display schemas cfg,
    Forall (fun s => entries_ok (schema_serialize so o display s (dget_default (schema_name s) cfg [])) = true) schemas ->
    format_lines so o display false schemas cfg
    = inl (Some (flat_map (fun b => block_lines (fst b) (snd b)) (blocks_of so o display schemas cfg))).
Proof. exact format_lines_blocks. Qed.
Print Assumptions C13_format_lines_are_blocks.

(* ... so parsing what _format wrote gives, section by section and key by key, the serialized
   texts back (dict level).  Partial: stated for the lines before _format's final
   "\n".join(..).strip() (which only removes the last blank line and a trailing blank of an empty
   last value; the real stripped text is covered by corr:ini / format_load_roundtrip), for
   one-line values (scalars; list values span several lines and are monitor-only). *)
Theorem C13_format_parse_roundtrip_partial :
  forall so o display schemas cfg,
    Forall (fun s => entries_ok (schema_serialize so o display s (dget_default (schema_name s) cfg [])) = true) schemas ->
    blocks_of so o display schemas cfg <> [] ->
    Forall (fun b => sect_safe (fst b) /\ Forall (kv_safe o) (snd b)) (blocks_of so o display schemas cfg) ->
    exists lines, format_lines so o display false schemas cfg = inl (Some lines)
      /\ ini_config o (join [NL] lines)
         = Some (fold_left set2 (flat_map (fun b => map (fun kv => (fst b, fst kv, snd kv)) (snd b))
                                           (blocks_of so o display schemas cfg)) []).
Proof. exact format_parse_roundtrip. Qed.
Print Assumptions C13_format_parse_roundtrip_partial.

Example C13_ini_example :
  parse_ini (Build_oracles (fun _ => IValueError) (fun _ => FValueError) (fun s => XOk s) (fun s => s)
                           (fun _ => ROSError) (fun c => [c]) (fun _ s => s))
            (ini_text [([97], [([107], [118; 32; 35; 49]); ([122], [])]); ([98], [])])
  = PLines [Header [97]; Opt [107] [118; 32; 35; 49]; Opt [122] []; Header [98]].
Proof. exact ex_ini_roundtrip. Qed.
Print Assumptions C13_ini_example.

(* The oracle hypotheses are satisfiable. *)
Example C13_oracle_hypotheses_satisfiable : str_oracles_ok law_so law_o.
Proof. exact law_oracles_ok. Qed.
Print Assumptions C13_oracle_hypotheses_satisfiable.
