(* T2 for Pair: the re-encode step of Pair.deserialize is what makes pair halves with
   backslashes round-trip. *)
From Coq Require Import ZArith List Bool Lia.
From Common Require Import Res Str.
From Config Require Import Escape Proofs_Escape Types Schema Spec_C12 Proofs_Types Proofs_Schema
     Serialize Proofs_Serialize.
Import ListNotations.
Open Scope Z_scope.

Lemma decode_encode_app a t : decode (encode a ++ t) = a ++ decode t.
Proof.
  rewrite encode_flat_map. induction a as [|c a IH]; [reflexivity|].
  cbn [flat_map]. unfold esc at 1.
  destruct (c =? BS) eqn:E1.
  { apply Z.eqb_eq in E1. subst c. cbn. now rewrite IH. }
  destruct (c =? NL) eqn:E2.
  { apply Z.eqb_eq in E2. subst c. cbn. now rewrite IH. }
  destruct (c =? TAB) eqn:E3.
  { apply Z.eqb_eq in E3. subst c. cbn. now rewrite IH. }
  cbn [app decode]. rewrite E1, IH. reflexivity.
Qed.

Lemma decode_plain_app p t : ~ In BS p -> decode (p ++ t) = p ++ decode t.
Proof.
  induction p as [|c p IH]; intros N; [reflexivity|]. cbn [app decode].
  destruct (c =? BS) eqn:E; [apply Z.eqb_eq in E; subst; exfalso; apply N; now left|].
  rewrite IH; [reflexivity|]. intros H. apply N. now right.
Qed.

(* A component "round-trips through an encode image": it serializes to encode x and
   encode x deserializes back to it.  (True of String/Secret/Path/LogColor/LogLevel values
   in the range of deserialize, see [string_half] below.) *)
Definition half_ok (so : soracles) (o : oracles) (t : ty) (v : val) (x : str) : Prop :=
  serialize so o false t v = SStr (encode x) /\ deserialize o t (encode x) = Ok v.

Lemma pair_roundtrip_lemma so o opt optpair sep ta tb a b x1 x2 :
  half_ok so o ta a x1 -> half_ok so o tb b x2 ->
  sep <> [] -> ~ In BS sep ->
  (* the carve-out for pairs: the joined text is unambiguous *)
  strip (x1 ++ sep ++ x2) = x1 ++ sep ++ x2 ->
  split_once sep (x1 ++ sep ++ x2) = Some (x1, x2) ->
  (optpair = true -> encode x1 = encode x2 ->
   x1 <> [] /\ strip x1 = x1 /\ split_once sep x1 = None) ->
  exists s, serialize so o false (TPair opt optpair sep ta tb) (VPair a b) = SStr s
            /\ deserialize o (TPair opt optpair sep ta tb) s = Ok (VPair a b).
Proof.
  intros [S1 D1] [S2 D2] NE NB ST SP SHORT.
  unfold serialize, deserialize in *. cbn [serialize_gen negb andb].
  rewrite S1, S2.
  assert (is_nil sep = false) as NS by (destruct sep; [congruence|reflexivity]).
  destruct (optpair && str_eqb (encode x1) (encode x2)) eqn:SH.
  - (* the optional-pair shortcut: only the first text is written *)
    apply andb_true_iff in SH. destruct SH as [OP EQ]. apply str_eqb_eq in EQ.
    destruct (SHORT OP EQ) as (NE1 & ST1 & SP1).
    exists (encode x1). split; [reflexivity|].
    cbn [deserialize_gen]. rewrite decode_encode_lemma, ST1.
    unfold req_or_none. destruct x1 as [|c x1']; [congruence|]. cbn [is_nil]. rewrite andb_false_r.
    rewrite NS, SP1, OP, D1. cbn [rbind]. rewrite EQ, D2. reflexivity.
  - exists (encode x1 ++ sep ++ encode x2). split; [reflexivity|].
    cbn [deserialize_gen].
    rewrite decode_encode_app, (decode_plain_app sep _ NB), decode_encode_lemma, ST.
    unfold req_or_none.
    assert (is_nil (x1 ++ sep ++ x2) = false) as NW.
    { destruct x1; cbn [app is_nil]; [|reflexivity]. destruct sep; [congruence|reflexivity]. }
    rewrite NW, andb_false_r, NS, SP, D1. cbn [rbind]. rewrite D2. reflexivity.
Qed.

(* String and Secret halves (with or without transformer) in the range of deserialize
   satisfy [half_ok] with x = the accepted text. *)
Definition stringish (t : ty) : bool :=
  match t with TString _ _ _ | TSecret _ _ => true | _ => false end.

Definition text_of (v : val) : str :=
  match v with VStr s => s | VTStr s _ => s | _ => [] end.

Lemma string_half so o (OK : str_oracles_ok so o) t raw v :
  stringish t = true -> deserialize o t raw = Ok v -> half_ok so o t v (text_of v).
Proof.
  intros ST D.
  assert (scalar t = true) as SC by (destruct t; try discriminate; reflexivity).
  assert (forall opt, t = TBoolean opt -> v <> VNone) as NB by (intros ? ->; discriminate).
  destruct (scalar_roundtrip_lemma so o OK t raw v SC D NB) as (s & S & D').
  assert (serialize so o false t v = SStr (encode (text_of v))) as S'.
  { clear D' S. unfold deserialize, serialize in *.
    destruct t; try discriminate; cbn [deserialize_gen serialize_gen] in *;
      unfold deser_string in D; apply req_or_none_ok in D;
      destruct D as [(-> & _ & _)|(_ & D)]; try reflexivity;
      destruct tr; try destruct (in_choices_str _ _); try discriminate; injection D as <-; reflexivity. }
  split; [exact S'|]. rewrite S' in S. injection S as <-. exact D'.
Qed.

(* Pair of string-like halves: every pair in the range of deserialize whose joined text is
   unambiguous round-trips; the halves may contain backslashes, tabs and newlines. *)
Lemma pair_of_strings_roundtrip so o (OK : str_oracles_ok so o) opt optpair sep ta tb raw a b :
  stringish ta = true -> stringish tb = true ->
  deserialize o (TPair opt optpair sep ta tb) raw = Ok (VPair a b) ->
  sep <> [] -> ~ In BS sep ->
  let x1 := text_of a in let x2 := text_of b in
  strip (x1 ++ sep ++ x2) = x1 ++ sep ++ x2 ->
  split_once sep (x1 ++ sep ++ x2) = Some (x1, x2) ->
  (optpair = true -> encode x1 = encode x2 ->
   x1 <> [] /\ strip x1 = x1 /\ split_once sep x1 = None) ->
  exists s, serialize so o false (TPair opt optpair sep ta tb) (VPair a b) = SStr s
            /\ deserialize o (TPair opt optpair sep ta tb) s = Ok (VPair a b).
Proof.
  intros SA SB D NE NB x1 x2 ST SP SHORT.
  (* both halves are in the range of their types' deserialize *)
  assert (exists r1 r2, deserialize o ta r1 = Ok a /\ deserialize o tb r2 = Ok b) as (r1 & r2 & D1 & D2).
  { unfold deserialize in *. cbn [deserialize_gen] in D. apply req_or_none_ok in D.
    destruct D as [(E & _)|(_ & D)]; [discriminate|].
    destruct (is_nil sep); [discriminate|].
    destruct (match split_once sep (strip (decode raw)) with
              | Some p => Some p
              | None => if optpair then Some (strip (decode raw), strip (decode raw)) else None
              end) as [[p1 p2]|]; [|discriminate].
    destruct (deserialize_gen true o ta (encode p1)) eqn:E1; cbn [rbind] in D; try discriminate.
    destruct (deserialize_gen true o tb (encode p2)) eqn:E2; cbn [rbind] in D; try discriminate.
    injection D as <- <-. eauto. }
  eapply pair_roundtrip_lemma; eauto using string_half.
Qed.

(* The code before the re-encode (what a Pair.deserialize without encode() would be) loses
   a backslash: witness for the model function with the encode step removed. *)
Definition pair_no_reencode (o : oracles) (sep : str) (ta tb : ty) (value : str) : dres :=
  match split_once sep (strip (decode value)) with
  | Some (a, b) => rbind (deserialize o ta a) (fun va => rbind (deserialize o tb b) (fun vb => Ok (VPair va vb)))
  | None => Raise ValueError
  end.

Lemma pair_without_reencode_refuted :
  exists so o sep t v s,
    serialize so o false (TPair false false sep t t) v = SStr s
    /\ deserialize o (TPair false false sep t t) s = Ok v
    /\ pair_no_reencode o sep t t s <> Ok v.
Proof.
  exists dummy_so, id_oracles, [124], (TString false None None),
         (VPair (VStr [67; 92; 110]) (VStr [120])), [67; 92; 92; 110; 124; 120].
  repeat split; try reflexivity. vm_compute. discriminate.
Qed.

(* non-vacuity of the pair carve-out: ("C:\new", "x") with separator "|" *)
Example ex_pair_hyps :
  let x1 := [67; 58; 92; 110; 101; 119] in let x2 := [120] in let sep := [124] in
  sep <> [] /\ ~ In BS sep /\ strip (x1 ++ sep ++ x2) = x1 ++ sep ++ x2
  /\ split_once sep (x1 ++ sep ++ x2) = Some (x1, x2).
Proof. cbn. repeat split; try discriminate; try reflexivity. unfold BS. intros [H|[]]. discriminate. Qed.

(* ------------------------------------------------------------------ List of Pair of string-like halves *)

From Config Require Import Proofs_List.

(* per item: a pair in the range of the pair type, unambiguous, whose text is a plain list item *)
Definition pair_item_ok (so : soracles) (o : oracles) (opt optpair : bool) (sep : str) (ta tb : ty) (v : val) : Prop :=
  exists a b r, v = VPair a b
    /\ deserialize o (TPair opt optpair sep ta tb) r = Ok v
    /\ strip (text_of a ++ sep ++ text_of b) = text_of a ++ sep ++ text_of b
    /\ split_once sep (text_of a ++ sep ++ text_of b) = Some (text_of a, text_of b)
    /\ (optpair = true -> encode (text_of a) = encode (text_of b) ->
        text_of a <> [] /\ strip (text_of a) = text_of a /\ split_once sep (text_of a) = None)
    /\ (forall s, serialize so o false (TPair opt optpair sep ta tb) v = SStr s -> plain_item s).

Lemma list_of_pairs_roundtrip so o (OK : str_oracles_ok so o) lopt uq opt optpair sep ta tb raw v :
  stringish ta = true -> stringish tb = true -> sep <> [] -> ~ In BS sep ->
  deserialize o (TList lopt uq (TPair opt optpair sep ta tb)) raw = Ok v ->
  (forall vs, v = VTuple vs \/ v = VSet vs -> Forall (pair_item_ok so o opt optpair sep ta tb) vs) ->
  exists s, serialize so o false (TList lopt uq (TPair opt optpair sep ta tb)) v = SStr s
            /\ deserialize o (TList lopt uq (TPair opt optpair sep ta tb)) s = Ok v.
Proof.
  intros SA SB NE NB D H. apply (list_roundtrip_gen so o lopt uq _ raw v D).
  intros vs HV. specialize (H vs HV). unfold items_rt. eapply Forall_impl; [|exact H].
  intros x (a & b & r & -> & DR & ST & SP & SH & PL).
  destruct (pair_of_strings_roundtrip so o OK opt optpair sep ta tb r a b SA SB DR NE NB ST SP SH) as (s & S & D').
  exists s. split; [exact S|]. split; [exact D'|]. apply PL. exact S.
Qed.

(* ------------------------------------------------------------------ Pair of ANY scalar halves *)

(* str(int) / repr(float) contain no newline or tab either *)
Definition str_oracles_plain (so : soracles) : Prop :=
  (forall z, ~ In NL (o_str_int so z) /\ ~ In TAB (o_str_int so z))
  /\ (forall f, ~ In NL (o_str_float so f) /\ ~ In TAB (o_str_float so f)).

Lemma encode_plain s : ~ In BS s -> ~ In NL s -> ~ In TAB s -> encode s = s.
Proof.
  intros NB NN NT. rewrite encode_flat_map. induction s as [|c s IH]; [reflexivity|]. cbn [flat_map].
  rewrite IH by (intros H; first [apply NB; now right|apply NN; now right|apply NT; now right]).
  unfold esc.
  destruct (c =? BS) eqn:E1; [apply Z.eqb_eq in E1; exfalso; apply NB; now left|].
  destruct (c =? NL) eqn:E2; [apply Z.eqb_eq in E2; exfalso; apply NN; now left|].
  destruct (c =? TAB) eqn:E3; [apply Z.eqb_eq in E3; exfalso; apply NT; now left|]. reflexivity.
Qed.

Definition image_or_plain (s : str) : Prop :=
  (exists y, s = encode y) \/ (~ In BS s /\ ~ In NL s /\ ~ In TAB s).

Lemma image_or_plain_fix s : image_or_plain s -> encode (decode s) = s.
Proof.
  intros [(y & ->)|(A & B & C)]; [now rewrite decode_encode_lemma|].
  rewrite (decode_no_bs s A). now apply encode_plain.
Qed.

Lemma serialize_scalar_image so o (OK : str_oracles_ok so o) (PL : str_oracles_plain so) t v s :
  scalar t = true -> serialize so o false t v = SStr s -> image_or_plain s.
Proof.
  destruct PL as [PI PF]. unfold serialize.
  assert (forall y, image_or_plain (encode y)) as IM by (intros y; left; now exists y).
  assert (image_or_plain []) as IN by (apply (IM [])).
  destruct t; cbn [scalar]; try discriminate; intros _ HS; cbn [serialize_gen] in HS.
  - destruct v; cbn in HS; try discriminate; injection HS as E; subst s; auto.
  - destruct v; cbn in HS; try discriminate; injection HS as E; subst s; auto.
  - destruct v; try discriminate; injection HS as E; subst s; auto.
    right. destruct (int_plain so o OK z) as [A _]. destruct (PI z). auto.
  - destruct v; try discriminate; injection HS as E; subst s; auto.
    right. destruct (float_plain so o OK f) as [A _]. destruct (PF f). auto.
  - assert (image_or_plain s_true /\ image_or_plain s_false) as [IT IF].
    { split; right; unfold s_true, s_false, BS, NL, TAB; cbn; intuition discriminate. }
    destruct v as [| | | | | |[]| | | |]; try discriminate; injection HS as E; subst s; auto.
  - destruct v; try discriminate; try destruct (mem_str _ _); injection HS as E; subst s; auto.
  - destruct v; try discriminate; injection HS as E; subst s; auto.
  - destruct v; try discriminate; injection HS as E; subst s; auto.
Qed.

Lemma scalar_half so o (OK : str_oracles_ok so o) (PL : str_oracles_plain so) t raw v :
  scalar t = true -> deserialize o t raw = Ok v ->
  (forall opt, t = TBoolean opt -> v <> VNone) ->
  exists x, half_ok so o t v x.
Proof.
  intros SC D NB. destruct (scalar_roundtrip_lemma so o OK t raw v SC D NB) as (s & S & D').
  exists (decode s). unfold half_ok.
  rewrite (image_or_plain_fix s (serialize_scalar_image so o OK PL t v s SC S)). auto.
Qed.

(* Pair of any two scalar halves (String, Secret, Integer/Port, Float, Boolean, LogColor,
   LogLevel, Path -- wrapped or not): in range + unambiguous joined text => round trip.
   [x1], [x2] are the decoded texts of the halves. *)
Lemma pair_of_scalars_roundtrip so o (OK : str_oracles_ok so o) (PL : str_oracles_plain so)
      opt optpair sep ta tb r1 r2 a b :
  scalar ta = true -> scalar tb = true ->
  deserialize o ta r1 = Ok a -> deserialize o tb r2 = Ok b ->
  (forall op, ta = TBoolean op -> a <> VNone) -> (forall op, tb = TBoolean op -> b <> VNone) ->
  sep <> [] -> ~ In BS sep ->
  forall x1 x2, half_ok so o ta a x1 -> half_ok so o tb b x2 ->
  strip (x1 ++ sep ++ x2) = x1 ++ sep ++ x2 ->
  split_once sep (x1 ++ sep ++ x2) = Some (x1, x2) ->
  (optpair = true -> encode x1 = encode x2 ->
   x1 <> [] /\ strip x1 = x1 /\ split_once sep x1 = None) ->
  exists s, serialize so o false (TPair opt optpair sep ta tb) (VPair a b) = SStr s
            /\ deserialize o (TPair opt optpair sep ta tb) s = Ok (VPair a b).
Proof. intros. eapply pair_roundtrip_lemma; eauto. Qed.
