From Coq Require Import ZArith List Bool Lia.
From Common Require Import Res Str.
From Config Require Import Escape Types Schema Spec_C12 Proofs_Types.
Import ListNotations.
Open Scope Z_scope.

(* ------------------------------------------------------------------ dict lemmas *)

Lemma str_eqb_refl k : str_eqb k k = true.
Proof. now apply str_eqb_eq. Qed.

Lemma str_eqb_neq a b : a <> b -> str_eqb a b = false.
Proof. intros H. destruct (str_eqb a b) eqn:E; [apply str_eqb_eq in E; contradiction|reflexivity]. Qed.

Lemma str_eqb_false a b : str_eqb a b = false -> a <> b.
Proof. intros E ->. rewrite str_eqb_refl in E. discriminate. Qed.

Lemma assoc_dset_same {B} k (v : B) l : assoc k (dset k v l) = Some v.
Proof.
  induction l as [|[k' v'] l IH]; cbn [dset assoc].
  - now rewrite str_eqb_refl.
  - destruct (str_eqb k k') eqn:E; cbn [assoc]; rewrite E; auto.
Qed.

Lemma assoc_dset_other {B} k k' (v : B) l : k <> k' -> assoc k (dset k' v l) = assoc k l.
Proof.
  intros N. induction l as [|[k2 v2] l IH]; cbn [dset assoc].
  - now rewrite (str_eqb_neq _ _ N).
  - destruct (str_eqb k' k2) eqn:E; cbn [assoc].
    + apply str_eqb_eq in E. subst k2. now rewrite (str_eqb_neq _ _ N).
    + destruct (str_eqb k k2); auto.
Qed.

Lemma assoc_dremove_same {B} k (l : list (str * B)) : assoc k (dremove k l) = None.
Proof.
  induction l as [|[k' v'] l IH]; cbn [dremove assoc]; [reflexivity|].
  destruct (str_eqb k k') eqn:E; cbn [assoc]; [auto|now rewrite E].
Qed.

Lemma assoc_dremove_other {B} k k' (l : list (str * B)) : k <> k' -> assoc k (dremove k' l) = assoc k l.
Proof.
  intros N. induction l as [|[k2 v2] l IH]; cbn [dremove assoc]; [reflexivity|].
  destruct (str_eqb k' k2) eqn:E; cbn [assoc].
  - apply str_eqb_eq in E. subst k2. now rewrite (str_eqb_neq _ _ N).
  - destruct (str_eqb k k2); auto.
Qed.

Lemma assoc_notin {B} k (l : list (str * B)) : ~ In k (map fst l) -> assoc k l = None.
Proof.
  induction l as [|[k' v'] l IH]; cbn; [reflexivity|]. intros H.
  rewrite str_eqb_neq; [apply IH|]; intuition.
Qed.

Lemma assoc_in {B} k (l : list (str * B)) v : assoc k l = Some v -> In k (map fst l).
Proof.
  induction l as [|[k' v'] l IH]; cbn; [discriminate|].
  destruct (str_eqb k k') eqn:E; [apply str_eqb_eq in E; auto|auto].
Qed.

(* ------------------------------------------------------------------ ConfigSchema.deserialize *)

Definition loop1_post (o : oracles) (keys : list (str * ty)) (rawv : option str) (k : str)
           (R R' : rdict) (E E' : edict) : Prop :=
  match rawv with
  | None => assoc k R' = assoc k R /\ assoc k E' = assoc k E
  | Some r =>
      match assoc k keys with
      | None => assoc k R' = assoc k R /\ assoc k E' = Some (EUnknown (suggestion o k keys))
      | Some t => match deserialize o t r with
                  | Ok x => assoc k R' = Some x /\ assoc k E' = assoc k E
                  | _ => assoc k R' = Some VNone /\ assoc k E' = Some EValue
                  end
      end
  end.

Lemma cs_loop1_spec o keys values : forall R E,
  NoDup (map fst values) ->
  exists R' E', cs_loop1 true o keys values R E = Ok (R', E')
                /\ forall k, loop1_post o keys (assoc k values) k R R' E E'.
Proof.
  induction values as [|[k0 v0] rest IH]; intros R E ND.
  - exists R, E. split; [reflexivity|]. intros k. cbn. auto.
  - cbn [map fst] in ND. inversion ND as [|? ? NI ND']; subst.
    cbn [cs_loop1]. fold (suggestion o k0 keys).
    destruct (assoc k0 keys) as [t|] eqn:K.
    + fold (deserialize o t v0).
      destruct (deserialize_ok_or_valueerror o t v0) as [[x D]|D]; rewrite D.
      * destruct (IH (dset k0 x R) E ND') as (R' & E' & L & P). exists R', E'. split; [exact L|].
        intros k. specialize (P k). cbn [assoc]. destruct (str_eqb k k0) eqn:EQ.
        -- apply str_eqb_eq in EQ. subst k. rewrite (assoc_notin _ _ NI) in P. cbn in P.
           unfold loop1_post. rewrite K, D. destruct P as [P1 P2]. rewrite P1, assoc_dset_same. auto.
        -- apply str_eqb_false in EQ. unfold loop1_post in *.
           destruct (assoc k rest); [destruct (assoc k keys); [destruct (deserialize o t0 s)|]|];
             rewrite ?assoc_dset_other in P by assumption; exact P.
      * destruct (IH (dset k0 VNone R) (dset k0 EValue E) ND') as (R' & E' & L & P).
        exists R', E'. split; [exact L|].
        intros k. specialize (P k). cbn [assoc]. destruct (str_eqb k k0) eqn:EQ.
        -- apply str_eqb_eq in EQ. subst k. rewrite (assoc_notin _ _ NI) in P. cbn in P.
           unfold loop1_post. rewrite K, D. destruct P as [P1 P2]. rewrite P1, P2, !assoc_dset_same. auto.
        -- apply str_eqb_false in EQ. unfold loop1_post in *.
           destruct (assoc k rest); [destruct (assoc k keys); [destruct (deserialize o t0 s)|]|];
             rewrite ?assoc_dset_other in P by assumption; exact P.
    + destruct (IH R (dset k0 (EUnknown (suggestion o k0 keys)) E) ND') as (R' & E' & L & P).
      exists R', E'. split; [exact L|].
      intros k. specialize (P k). cbn [assoc]. destruct (str_eqb k k0) eqn:EQ.
      * apply str_eqb_eq in EQ. subst k. rewrite (assoc_notin _ _ NI) in P. cbn in P.
        unfold loop1_post. rewrite K. destruct P as [P1 P2]. rewrite P1, P2, assoc_dset_same. auto.
      * apply str_eqb_false in EQ. unfold loop1_post in *.
        destruct (assoc k rest); [destruct (assoc k keys); [destruct (deserialize o t s)|]|];
          rewrite ?assoc_dset_other in P by assumption; exact P.
Qed.

Definition loop2_post (keys : list (str * ty)) (k : str) (R R' : rdict) (E E' : edict) : Prop :=
  match assoc k keys with
  | None => assoc k R' = assoc k R /\ assoc k E' = assoc k E
  | Some t =>
      if is_deprecated t then assoc k R' = None /\ assoc k E' = assoc k E
      else if negb (in_dict k R) && negb (in_dict k E)
           then assoc k R' = Some VNone /\ assoc k E' = Some ENotFound
           else assoc k R' = assoc k R /\ assoc k E' = assoc k E
  end.

Lemma cs_loop2_spec keys : forall R E,
  NoDup (map fst keys) ->
  forall k, loop2_post keys k R (fst (cs_loop2 keys R E)) E (snd (cs_loop2 keys R E)).
Proof.
  induction keys as [|[k0 t0] rest IH]; intros R E ND k.
  - unfold loop2_post. cbn. auto.
  - cbn [map fst] in ND. inversion ND as [|? ? NI ND']; subst.
    cbn [cs_loop2]. unfold loop2_post. cbn [assoc].
    destruct (str_eqb k k0) eqn:EQ.
    + apply str_eqb_eq in EQ. subst k.
      destruct (is_deprecated t0) eqn:DEP.
      * specialize (IH (dremove k0 R) E ND' k0). unfold loop2_post in IH.
        rewrite (assoc_notin _ _ NI) in IH. destruct IH as [I1 I2].
        rewrite I1, I2, assoc_dremove_same. auto.
      * destruct (negb (in_dict k0 R) && negb (in_dict k0 E)) eqn:C.
        -- specialize (IH (dset k0 VNone R) (dset k0 ENotFound E) ND' k0). unfold loop2_post in IH.
           rewrite (assoc_notin _ _ NI) in IH. destruct IH as [I1 I2].
           rewrite I1, I2, !assoc_dset_same. auto.
        -- specialize (IH R E ND' k0). unfold loop2_post in IH.
           rewrite (assoc_notin _ _ NI) in IH. exact IH.
    + apply str_eqb_false in EQ.
      assert (forall R1 E1, assoc k R1 = assoc k R -> assoc k E1 = assoc k E ->
              loop2_post rest k R1 (fst (cs_loop2 rest R1 E1)) E1 (snd (cs_loop2 rest R1 E1)) ->
              match assoc k rest with
              | Some t => if is_deprecated t
                          then assoc k (fst (cs_loop2 rest R1 E1)) = None /\ assoc k (snd (cs_loop2 rest R1 E1)) = assoc k E
                          else if negb (in_dict k R) && negb (in_dict k E)
                               then assoc k (fst (cs_loop2 rest R1 E1)) = Some VNone /\ assoc k (snd (cs_loop2 rest R1 E1)) = Some ENotFound
                               else assoc k (fst (cs_loop2 rest R1 E1)) = assoc k R /\ assoc k (snd (cs_loop2 rest R1 E1)) = assoc k E
              | None => assoc k (fst (cs_loop2 rest R1 E1)) = assoc k R /\ assoc k (snd (cs_loop2 rest R1 E1)) = assoc k E
              end) as TR.
      { intros R1 E1 HR HE P. unfold loop2_post, in_dict in *. rewrite HR, HE in P. exact P. }
      destruct (is_deprecated t0).
      * apply TR; [now apply assoc_dremove_other|reflexivity|apply IH; assumption].
      * destruct (negb (in_dict k0 R) && negb (in_dict k0 E)).
        -- apply TR; [now apply assoc_dset_other|now apply assoc_dset_other|apply IH; assumption].
        -- apply TR; [reflexivity|reflexivity|apply IH; assumption].
Qed.

Lemma is_deprecated_true t : is_deprecated t = true -> t = TDeprecated.
Proof. destruct t; cbn; congruence. Qed.

Lemma cs_deser_spec o n keys values :
  NoDup (map fst values) -> NoDup (map fst keys) ->
  exists R E, schema_deser true o (SConfig n keys) values = Ok (R, E)
              /\ forall k, (assoc k R, assoc k E) = entry o keys (assoc k values) k.
Proof.
  intros NV NK. cbn [schema_deser].
  destruct (cs_loop1_spec o keys values [] [] NV) as (R1 & E1 & L1 & P1). rewrite L1. cbn [rbind fst snd].
  eexists _, _. split; [rewrite <- surjective_pairing; reflexivity|].
  intros k. pose proof (cs_loop2_spec keys R1 E1 NK k) as P2. specialize (P1 k).
  unfold loop1_post, loop2_post, entry, in_dict in *. cbn [assoc] in P1.
  destruct (assoc k keys) as [t|] eqn:K.
  - destruct (is_deprecated t) eqn:DEP.
    + destruct P2 as [-> ->]. apply is_deprecated_true in DEP. subst t.
      destruct (assoc k values); [cbn in P1|]; destruct P1 as [_ ->]; reflexivity.
    + destruct (assoc k values) as [r|].
      * destruct (deserialize o t r) eqn:D; destruct P1 as [Q1 Q2]; rewrite Q1 in P2; cbn in P2;
          destruct P2 as [-> ->]; rewrite ?Q1, ?Q2; reflexivity.
      * destruct P1 as [Q1 Q2]. rewrite Q1, Q2 in P2. cbn in P2. destruct P2 as [-> ->]. reflexivity.
  - destruct P2 as [-> ->]. destruct (assoc k values); destruct P1 as [-> ->]; reflexivity.
Qed.

Lemma map_loop_spec o t values : forall R E,
  NoDup (map fst values) ->
  exists R' E', map_loop true o t values R E = Ok (R', E')
    /\ forall k, match assoc k values with
                 | None => assoc k R' = assoc k R /\ assoc k E' = assoc k E
                 | Some r => match deserialize o t r with
                             | Ok x => assoc k R' = Some x /\ assoc k E' = assoc k E
                             | _ => assoc k R' = Some VNone /\ assoc k E' = Some EValue
                             end
                 end.
Proof.
  induction values as [|[k0 v0] rest IH]; intros R E ND.
  - exists R, E. split; [reflexivity|]. intros k. cbn. auto.
  - cbn [map fst] in ND. inversion ND as [|? ? NI ND']; subst.
    cbn [map_loop]. fold (deserialize o t v0).
    destruct (deserialize_ok_or_valueerror o t v0) as [[x D]|D]; rewrite D.
    + destruct (IH (dset k0 x R) E ND') as (R' & E' & L & P). exists R', E'. split; [exact L|].
      intros k. specialize (P k). cbn [assoc]. destruct (str_eqb k k0) eqn:EQ.
      * apply str_eqb_eq in EQ. subst k. rewrite (assoc_notin _ _ NI) in P.
        rewrite D. destruct P as [P1 P2]. rewrite P1, assoc_dset_same. auto.
      * apply str_eqb_false in EQ.
        destruct (assoc k rest); [destruct (deserialize o t s)|];
          rewrite ?assoc_dset_other in P by assumption; exact P.
    + destruct (IH (dset k0 VNone R) (dset k0 EValue E) ND') as (R' & E' & L & P).
      exists R', E'. split; [exact L|].
      intros k. specialize (P k). cbn [assoc]. destruct (str_eqb k k0) eqn:EQ.
      * apply str_eqb_eq in EQ. subst k. rewrite (assoc_notin _ _ NI) in P.
        rewrite D. destruct P as [P1 P2]. rewrite P1, P2, !assoc_dset_same. auto.
      * apply str_eqb_false in EQ.
        destruct (assoc k rest); [destruct (deserialize o t s)|];
          rewrite ?assoc_dset_other in P by assumption; exact P.
Qed.

Definition schema_ok (s : schema) : Prop :=
  match s with SConfig _ keys => NoDup (map fst keys) | SMap _ _ => True end.

(* what one schema contributes: total, and pointwise equal to the entry function *)
Lemma schema_deser_spec o s values :
  NoDup (map fst values) -> schema_ok s ->
  exists R E, schema_deser true o s values = Ok (R, E)
    /\ forall k, (assoc k R, assoc k E)
                 = match s with
                   | SConfig _ keys => entry o keys (assoc k values) k
                   | SMap _ t => map_entry o t (assoc k values)
                   end.
Proof.
  intros NV OK. destruct s as [n keys|n t].
  - apply cs_deser_spec; assumption.
  - cbn [schema_deser]. destruct (map_loop_spec o t values [] [] NV) as (R & E & L & P).
    exists R, E. split; [exact L|]. intros k. specialize (P k). unfold map_entry.
    destruct (assoc k values) as [r|]; [destruct (deserialize o t r)|]; destruct P as [-> ->]; reflexivity.
Qed.

(* ------------------------------------------------------------------ _validate *)

Definition raw_ok (raw : raw_config) : Prop := Forall (fun sv => NoDup (map fst (snd sv))) raw.

Lemma raw_ok_section raw sec : raw_ok raw -> NoDup (map fst (dget_default sec raw [])).
Proof.
  unfold dget_default. induction raw as [|[s kv] raw IH]; intros H; cbn [assoc]; [constructor|].
  inversion H; subst. destruct (str_eqb sec s); [assumption|auto].
Qed.

Lemma lookup2_dset_same {B} n (d : list (str * B)) m k : lookup2 (dset n d m) n k = assoc k d.
Proof. unfold lookup2. now rewrite assoc_dset_same. Qed.

Lemma validate_loop_spec o raw schemas : forall C0 E0,
  raw_ok raw -> NoDup (map schema_name schemas) -> Forall schema_ok schemas ->
  (forall s, In s schemas -> assoc (schema_name s) C0 = None /\ assoc (schema_name s) E0 = None) ->
  exists C E, validate_loop true o raw schemas C0 E0 = Ok (C, E)
    /\ (forall s, In s schemas -> forall k,
          (lookup2 C (schema_name s) k, lookup2 E (schema_name s) k) = ventry o s raw k)
    /\ (forall n, ~ In n (map schema_name schemas) -> assoc n C = assoc n C0 /\ assoc n E = assoc n E0).
Proof.
  induction schemas as [|s rest IH]; intros C0 E0 RO ND SO FRESH.
  - exists C0, E0. split; [reflexivity|]. split; [intros s []|auto].
  - cbn [map] in ND. inversion ND as [|? ? NI ND']; subst. inversion SO as [|? ? OK SO']; subst.
    cbn [validate_loop].
    destruct (schema_deser_spec o s (dget_default (schema_name s) raw [])
                (raw_ok_section raw (schema_name s) RO) OK) as (R & E & D & P).
    rewrite D.
    set (E1 := if is_nil E then E0 else dset (schema_name s) E E0).
    set (C1 := if is_nil R then C0 else dset (schema_name s) R C0).
    assert (forall n, n <> schema_name s -> assoc n C1 = assoc n C0 /\ assoc n E1 = assoc n E0) as OTHER.
    { intros n N. subst C1 E1. split; [destruct (is_nil R)|destruct (is_nil E)]; auto using assoc_dset_other. }
    destruct (IH C1 E1 RO ND' SO') as (C & E' & L & PS & PN).
    { intros s' IN. destruct (OTHER (schema_name s')) as [O1 O2].
      - intros EQ. apply NI. rewrite <- EQ. now apply in_map.
      - rewrite O1, O2. apply FRESH. now right. }
    exists C, E'. split; [exact L|]. split.
    + intros s' [<-|IN] k; [|now apply PS].
      destruct (PN _ NI) as [N1 N2]. unfold lookup2. unfold config, errmap, rdict, edict in *. rewrite N1, N2.
      destruct (FRESH s (or_introl eq_refl)) as [F1 F2].
      specialize (P k).
      assert (match assoc (schema_name s) C1 with Some d => assoc k d | None => None end = assoc k R) as HC.
      { subst C1. destruct R; cbn [is_nil]; [now rewrite F1|now rewrite assoc_dset_same]. }
      assert (match assoc (schema_name s) E1 with Some d => assoc k d | None => None end = assoc k E) as HE.
      { subst E1. destruct E; cbn [is_nil]; [now rewrite F2|now rewrite assoc_dset_same]. }
      rewrite HC, HE, P. destruct s; reflexivity.
    + intros n NN. cbn [map] in NN.
      destruct (PN n) as [Q1 Q2]; [intuition|]. destruct (OTHER n) as [O1 O2]; [intros ->; apply NN; now left|].
      unfold config, errmap, rdict, edict in *. rewrite Q1, Q2, O1, O2. auto.
Qed.

Lemma validate_spec o raw schemas :
  raw_ok raw -> NoDup (map schema_name schemas) -> Forall schema_ok schemas ->
  exists C E, validate true o raw schemas = Ok (C, E)
    /\ (forall s, In s schemas -> forall k,
          (lookup2 C (schema_name s) k, lookup2 E (schema_name s) k) = ventry o s raw k)
    /\ (forall n, ~ In n (map schema_name schemas) -> assoc n C = None /\ assoc n E = None).
Proof.
  intros RO ND SO. unfold validate.
  destruct (validate_loop_spec o raw schemas [] [] RO ND SO) as (C & E & L & P & N); [auto|].
  exists C, E. auto.
Qed.

(* ------------------------------------------------------------------ the property clauses *)

Definition schemas_sane (schemas : list schema) : Prop :=
  forall n keys, In (SConfig n keys) schemas -> forall k t, assoc k keys = Some t -> sane_ty t = true.

(* T1 at the top level: _validate returns, whatever the raw config *)
Lemma validate_total o raw schemas :
  raw_ok raw -> NoDup (map schema_name schemas) -> Forall schema_ok schemas ->
  exists C E, validate true o raw schemas = Ok (C, E).
Proof. intros. destruct (validate_spec o raw schemas) as (C & E & V & _); eauto. Qed.

Definition key_verdict (o : oracles) (t : ty) (rawv : option str) (v : option val) (e : option err) : Prop :=
  exists x, v = Some x /\
    ((x <> VNone /\ e = None /\ wf o t x)
     \/ (x = VNone /\ e <> None)
     \/ (x = VNone /\ e = None /\ exists r, rawv = Some r /\ ty_optional t = true /\ raw_empty t r = true)).

Lemma result_complete_sound_lemma o raw schemas :
  no_nan o -> schemas_sane schemas ->
  raw_ok raw -> NoDup (map schema_name schemas) -> Forall schema_ok schemas ->
  exists C E, validate true o raw schemas = Ok (C, E) /\
    forall n keys, In (SConfig n keys) schemas ->
    forall k t, assoc k keys = Some t -> is_deprecated t = false ->
      key_verdict o t (raw_get raw n k) (lookup2 C n k) (lookup2 E n k).
Proof.
  intros NN SANE RO ND SO.
  destruct (validate_spec o raw schemas RO ND SO) as (C & E & V & P & _).
  exists C, E. split; [exact V|]. intros n keys IN k t K DEP.
  specialize (P _ IN k). cbn [schema_name ventry] in P. unfold entry in P. rewrite K, DEP in P.
  unfold key_verdict.
  destruct (raw_get raw n k) as [r|].
  - destruct (deserialize o t r) eqn:D; injection P as -> ->.
    + exists a. split; [reflexivity|].
      destruct (deserialize_sound o NN t (SANE _ _ IN _ _ K) r a D) as [(-> & O & EM)|(NE & W)].
      * right. right. repeat split; eauto.
      * left. auto.
    + exists VNone. split; [reflexivity|]. right. left. split; [reflexivity|discriminate].
    + exists VNone. split; [reflexivity|]. right. left. split; [reflexivity|discriminate].
  - injection P as -> ->. exists VNone. split; [reflexivity|]. right. left. split; [reflexivity|discriminate].
Qed.

(* without the no-nan hypothesis the statement is false *)
Lemma result_sound_refuted_by_nan :
  exists o raw schemas C E n keys k t x,
    raw_ok raw /\ NoDup (map schema_name schemas) /\ Forall schema_ok schemas /\ schemas_sane schemas
    /\ validate true o raw schemas = Ok (C, E) /\ In (SConfig n keys) schemas
    /\ assoc k keys = Some t /\ lookup2 C n k = Some x /\ x <> VNone /\ ~ wf o t x.
Proof.
  exists nan_oracles, [([97], [([120], [110; 97; 110])])],
         [SConfig [97] [([120], TFloat false (Some (FFin 0 1)) (Some (FFin 1 1)))]].
  eexists _, _, [97], _, [120], _, (VFloat FNan).
  repeat split; try reflexivity.
  - repeat constructor. intros [].
  - repeat constructor. intros [].
  - repeat constructor. intros [].
  - intros n keys [H|[]] k t K. injection H as <- <-. cbn in K.
    destruct (str_eqb k [120]); [injection K as <-; reflexivity|discriminate].
  - left. reflexivity.
  - reflexivity.
  - discriminate.
  - cbn. discriminate.
Qed.

Lemma unknown_and_deprecated_lemma o raw schemas :
  raw_ok raw -> NoDup (map schema_name schemas) -> Forall schema_ok schemas ->
  exists C E, validate true o raw schemas = Ok (C, E) /\
    (* unknown keys are errors carrying the suggestion, and are not in the result *)
    (forall n keys, In (SConfig n keys) schemas -> forall k r,
        assoc k keys = None -> raw_get raw n k = Some r ->
        lookup2 C n k = None /\ lookup2 E n k = Some (EUnknown (suggestion o k keys))) /\
    (* deprecated keys never appear *)
    (forall n keys, In (SConfig n keys) schemas -> forall k t,
        assoc k keys = Some t -> is_deprecated t = true ->
        lookup2 C n k = None /\ lookup2 E n k = None) /\
    (* keys neither in the schema nor in the input do not appear *)
    (forall n keys, In (SConfig n keys) schemas -> forall k,
        assoc k keys = None -> raw_get raw n k = None ->
        lookup2 C n k = None /\ lookup2 E n k = None) /\
    (* sections without a schema are ignored *)
    (forall n, ~ In n (map schema_name schemas) -> assoc n C = None /\ assoc n E = None).
Proof.
  intros RO ND SO.
  destruct (validate_spec o raw schemas RO ND SO) as (C & E & V & P & U).
  exists C, E. split; [exact V|]. repeat split; try (apply U; assumption).
  - specialize (P _ H k). cbn [schema_name ventry] in P. unfold entry in P. rewrite H0, H1 in P. congruence.
  - specialize (P _ H k). cbn [schema_name ventry] in P. unfold entry in P. rewrite H0, H1 in P. congruence.
  - specialize (P _ H k). cbn [schema_name ventry] in P. unfold entry in P. rewrite H0, H1 in P. congruence.
  - specialize (P _ H k). cbn [schema_name ventry] in P. unfold entry in P. rewrite H0, H1 in P. congruence.
  - specialize (P _ H k). cbn [schema_name ventry] in P. unfold entry in P. rewrite H0, H1 in P. congruence.
  - specialize (P _ H k). cbn [schema_name ventry] in P. unfold entry in P. rewrite H0, H1 in P. congruence.
Qed.

(* T4: the entry of (section, key) is a function of that key's raw value alone *)
Lemma pointwise_lemma o raw1 raw2 schemas C1 E1 C2 E2 :
  raw_ok raw1 -> raw_ok raw2 -> NoDup (map schema_name schemas) -> Forall schema_ok schemas ->
  validate true o raw1 schemas = Ok (C1, E1) ->
  validate true o raw2 schemas = Ok (C2, E2) ->
  forall s k, In s schemas ->
    raw_get raw1 (schema_name s) k = raw_get raw2 (schema_name s) k ->
    lookup2 C1 (schema_name s) k = lookup2 C2 (schema_name s) k
    /\ lookup2 E1 (schema_name s) k = lookup2 E2 (schema_name s) k.
Proof.
  intros R1 R2 ND SO V1 V2 s k IN EQ.
  destruct (validate_spec o raw1 schemas R1 ND SO) as (C & E & V & P & _).
  rewrite V1 in V. injection V as <- <-.
  destruct (validate_spec o raw2 schemas R2 ND SO) as (C & E & V & Q & _).
  rewrite V2 in V. injection V as <- <-.
  specialize (P _ IN k). specialize (Q _ IN k).
  assert (ventry o s raw1 k = ventry o s raw2 k) as VE.
  { destruct s; cbn [ventry schema_name] in *; now rewrite EQ. }
  rewrite VE in P. rewrite <- Q in P. injection P as -> ->. auto.
Qed.

(* MapConfigSchema sections: exactly the input keys, each judged on its own *)
Lemma map_schema_lemma o raw schemas :
  raw_ok raw -> NoDup (map schema_name schemas) -> Forall schema_ok schemas ->
  exists C E, validate true o raw schemas = Ok (C, E) /\
    forall n t, In (SMap n t) schemas -> forall k,
      (lookup2 C n k, lookup2 E n k) = map_entry o t (raw_get raw n k).
Proof.
  intros RO ND SO.
  destruct (validate_spec o raw schemas RO ND SO) as (C & E & V & P & _).
  exists C, E. split; [exact V|]. intros n t IN k. exact (P _ IN k).
Qed.

(* ------------------------------------------------------------------ the suggestion rule *)

Lemma cand_min_fst best l :
  fst (cand_min best l) <= fst best /\ forall c, In c l -> fst (cand_min best l) <= fst c.
Proof.
  revert best. induction l as [|c l IH]; intros best; cbn [cand_min].
  - split; [lia|intros c []].
  - destruct (IH (if cand_ltb c best then c else best)) as [I1 I2].
    assert (fst (if cand_ltb c best then c else best) <= fst best
            /\ fst (if cand_ltb c best then c else best) <= fst c) as [A B].
    { unfold cand_ltb. destruct (Z.ltb_spec (fst c) (fst best)); cbn [orb]; [lia|].
      destruct (Z.eqb_spec (fst c) (fst best)); cbn [andb]; [destruct (str_ltb _ _); lia|lia]. }
    split; [lia|]. intros c' [<-|IN]; [lia|auto].
Qed.

Lemma cand_min_in best l : cand_min best l = best \/ In (cand_min best l) l.
Proof.
  revert best. induction l as [|c l IH]; intros best; cbn [cand_min]; [auto|].
  destruct (IH (if cand_ltb c best then c else best)) as [H|H]; [|right; now right].
  rewrite H. destruct (cand_ltb c best); [right; now left|auto].
Qed.

(* A suggestion is a schema key at minimum edit distance, and that distance is <= 3;
   conversely some key within distance 3 forces a suggestion. *)
Lemma did_you_mean_sound o name choices c :
  did_you_mean o name choices = Some c ->
  In c choices /\ levenshtein (py_lower o name) c <= 3
  /\ forall c', In c' choices -> levenshtein (py_lower o name) c <= levenshtein (py_lower o name) c'.
Proof.
  unfold did_you_mean. destruct choices as [|c0 cs]; [discriminate|].
  set (cand := fun c => (levenshtein (py_lower o name) c, c)).
  change (levenshtein (py_lower o name) c0, c0) with (cand c0).
  set (best := cand_min (cand c0) (map cand cs)).
  destruct (Z.leb_spec (fst best) 3) as [LE3|GT3]; [|discriminate]. intros HS. injection HS as <-.
  assert (best = cand (snd best) /\ In (snd best) (c0 :: cs)) as [BE BI].
  { destruct (cand_min_in (cand c0) (map cand cs)) as [E|E]; fold best in E.
    - rewrite E. cbn. auto.
    - apply in_map_iff in E. destruct E as (x & E & IN). rewrite <- E. cbn. auto. }
  assert (fst best = levenshtein (py_lower o name) (snd best)) as FE by (rewrite BE at 1; reflexivity).
  split; [exact BI|]. split; [lia|].
  intros c' IN. rewrite <- FE.
  destruct (cand_min_fst (cand c0) (map cand cs)) as [M1 M2]. fold best in M1, M2.
  destruct IN as [<-|IN]; [exact M1|]. apply (M2 (cand c')). now apply in_map.
Qed.

Lemma did_you_mean_complete o name choices c :
  In c choices -> levenshtein (py_lower o name) c <= 3 -> did_you_mean o name choices <> None.
Proof.
  unfold did_you_mean. destruct choices as [|c0 cs]; [intros []|].
  set (cand := fun c => (levenshtein (py_lower o name) c, c)).
  change (levenshtein (py_lower o name) c0, c0) with (cand c0).
  intros IN LE. destruct (cand_min_fst (cand c0) (map cand cs)) as [M1 M2].
  assert (fst (cand_min (cand c0) (map cand cs)) <= 3) as B.
  { destruct IN as [<-|IN]; [cbn in M1; lia|]. specialize (M2 (cand c) (in_map cand _ _ IN)). cbn in M2. lia. }
  destruct (Z.leb_spec (fst (cand_min (cand c0) (map cand cs))) 3); [discriminate|lia].
Qed.

(* ------------------------------------------------------------------ non-vacuity *)

Definition ex_oracles : oracles := {|
  o_int := fun s => match s with [53] => IOk 5 | _ => IValueError end;
  o_float := fun _ => FValueError;
  o_expand := fun s => match s with [47; 116] => XOk [47; 116] | _ => XValueError end;
  o_pathstr := fun s => s; o_resolve := fun _ => ROSError;
  o_lower_char := fun c => [c]; o_transform := fun _ s => s |}.

(* [a] x = 5, p = /t, bogus = 1, old = zz ;  schema a: x Integer(min 1), p Path, q optional
   String, old Deprecated *)
Definition ex_schemas : list schema :=
  [SConfig [97] [([120], TInteger false (Some 1) None None); ([112], TPath false);
                 ([113], TString true None None); ([111; 108; 100], TDeprecated)];
   SMap [109] TLogLevel].
Definition ex_raw : raw_config :=
  [([97], [([120], [53]); ([112], [47; 116]); ([121], [49]); ([111; 108; 100], [122; 122])]);
   ([122], [([120], [49])])].

Example ex_hypotheses :
  no_nan ex_oracles /\ schemas_sane ex_schemas /\ raw_ok ex_raw
  /\ NoDup (map schema_name ex_schemas) /\ Forall schema_ok ex_schemas.
Proof.
  split; [intros s; cbn; discriminate|]. split.
  { intros n keys [H|[H|[]]]; [|discriminate H]. injection H as <- <-. intros k t K. cbn in K.
    repeat (destruct (str_eqb k _); [injection K as <-; reflexivity|]). discriminate. }
  split; [repeat constructor; cbn; intuition discriminate|].
  split; [repeat constructor; cbn; intuition discriminate|].
  repeat constructor; cbn; intuition discriminate.
Qed.

Example ex_validate :
  validate true ex_oracles ex_raw ex_schemas
  = Ok ([([97], [([120], VInt 5); ([112], VPath [47; 116] [47; 116]); ([113], VNone)])],
        [([97], [([121], EUnknown (Some [112])); ([113], ENotFound)])]).
Proof. reflexivity. Qed.

(* ------------------------------------------------------------------ full statement of T2 and its refutation *)

(* T2 at full strength (no assumption on what float() returns). *)
Definition result_complete_sound_full : Prop :=
  forall o raw schemas,
    schemas_sane schemas -> raw_ok raw -> NoDup (map schema_name schemas) -> Forall schema_ok schemas ->
    exists C E, validate true o raw schemas = Ok (C, E) /\
      forall n keys, In (SConfig n keys) schemas ->
      forall k t, assoc k keys = Some t -> is_deprecated t = false ->
        key_verdict o t (raw_get raw n k) (lookup2 C n k) (lookup2 E n k).

Lemma result_complete_sound_full_refuted : ~ result_complete_sound_full.
Proof.
  intros F.
  destruct (F nan_oracles [([97], [([120], [110; 97; 110])])]
              [SConfig [97] [([120], TFloat false (Some (FFin 0 1)) (Some (FFin 1 1)))]])
    as (C & E & V & K).
  - intros n keys [H|[]] k t K. injection H as <- <-. cbn in K.
    destruct (str_eqb k [120]); [injection K as <-; reflexivity|discriminate].
  - repeat constructor. intros [].
  - repeat constructor. intros [].
  - repeat constructor. intros [].
  - vm_compute in V. injection V as <- <-.
    destruct (K [97] _ (or_introl eq_refl) [120] _ eq_refl eq_refl) as (x & L & [(_ & _ & W)|[(N & _)|(N & _)]]);
      vm_compute in L; injection L as <-; [cbn in W; discriminate W|discriminate N|discriminate N].
Qed.

(* ------------------------------------------------------------------ T2 in full for schemas without bounded Floats *)

Definition schema_float_free (s : schema) : bool :=
  match s with
  | SConfig _ keys => forallb (fun kt => no_bounded_float (snd kt)) keys
  | SMap _ t => no_bounded_float t
  end.
Definition schemas_float_free (schemas : list schema) : bool := forallb schema_float_free schemas.

Lemma no_bounded_float_sane t : no_bounded_float t = true -> sane_ty t = true.
Proof.
  induction t; cbn [no_bounded_float sane_ty]; intros H; try reflexivity.
  - destruct mn; [discriminate|]. destruct mx; [discriminate|]. reflexivity.
  - apply andb_true_iff in H. destruct H. now rewrite IHt1, IHt2.
  - auto.
Qed.

Lemma assoc_In {B} k (l : list (str * B)) v : assoc k l = Some v -> In (k, v) l.
Proof.
  induction l as [|[k' v'] l IH]; cbn; [discriminate|].
  destruct (str_eqb k k') eqn:E; [apply str_eqb_eq in E; intros H; injection H as <-; subst; auto|auto].
Qed.

(* the full statement of T2 (no assumption on float()) for every schema list in which no
   Float has a declared minimum or maximum -- in particular the core and the five bundled
   extension schemas, which contain no Float at all (checked on the introspected real
   schemas by the harness on every run: obligation side-condition:float-free-schemas) *)
Lemma result_complete_sound_float_free o raw schemas :
  schemas_float_free schemas = true ->
  raw_ok raw -> NoDup (map schema_name schemas) -> Forall schema_ok schemas ->
  exists C E, validate true o raw schemas = Ok (C, E) /\
    forall n keys, In (SConfig n keys) schemas ->
    forall k t, assoc k keys = Some t -> is_deprecated t = false ->
      key_verdict o t (raw_get raw n k) (lookup2 C n k) (lookup2 E n k).
Proof.
  intros FF RO ND SO.
  destruct (validate_spec o raw schemas RO ND SO) as (C & E & V & P & _).
  exists C, E. split; [exact V|]. intros n keys IN k t K DEP.
  assert (no_bounded_float t = true) as NB.
  { unfold schemas_float_free in FF. rewrite forallb_forall in FF. specialize (FF _ IN).
    cbn [schema_float_free] in FF. rewrite forallb_forall in FF. exact (FF _ (assoc_In _ _ _ K)). }
  specialize (P _ IN k). cbn [schema_name ventry] in P. unfold entry in P. rewrite K, DEP in P.
  unfold key_verdict.
  destruct (raw_get raw n k) as [r|].
  - destruct (deserialize o t r) eqn:D; injection P as -> ->.
    + exists a. split; [reflexivity|].
      destruct (deserialize_sound_float_free o t NB (no_bounded_float_sane t NB) r a D) as [(-> & O & EM)|(NE & W)].
      * right. right. repeat split; eauto.
      * left. auto.
    + exists VNone. split; [reflexivity|]. right. left. split; [reflexivity|discriminate].
    + exists VNone. split; [reflexivity|]. right. left. split; [reflexivity|discriminate].
  - injection P as -> ->. exists VNone. split; [reflexivity|]. right. left. split; [reflexivity|discriminate].
Qed.

(* the side condition is exactly where the nan defect can bite: the refuting schema is not float-free *)
Example refuting_schema_not_float_free :
  schemas_float_free [SConfig [97] [([120], TFloat false (Some (FFin 0 1)) (Some (FFin 1 1)))]] = false.
Proof. reflexivity. Qed.
