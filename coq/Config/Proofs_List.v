(* T2 for List(subtype = a scalar type), tuples and frozensets: the list syntax round trip. *)
From Coq Require Import ZArith List Bool Lia.
From Common Require Import Res Str.
From Config Require Import Escape Proofs_Escape Types Schema Spec_C12 Proofs_Types Proofs_Schema
     Serialize Proofs_Serialize.
Import ListNotations.
Open Scope Z_scope.

(* ------------------------------------------------------------------ split at a separator *)

Lemma split1_aux_app sep a : forall cur rest,
  ~ In sep a -> split1_aux sep cur (a ++ rest) = split1_aux sep (rev a ++ cur) rest.
Proof.
  induction a as [|c a IH]; intros cur rest N; [reflexivity|].
  cbn [app split1_aux rev]. destruct (c =? sep) eqn:E.
  - apply Z.eqb_eq in E. exfalso. apply N. now left.
  - rewrite IH by (intros H; apply N; now right). now rewrite <- app_assoc.
Qed.

Lemma split1_single sep a : ~ In sep a -> split1 sep a = [a].
Proof.
  intros N. unfold split1. rewrite <- (app_nil_r a) at 1. rewrite split1_aux_app by assumption.
  cbn [split1_aux]. now rewrite app_nil_r, rev_involutive.
Qed.

Lemma split1_app_sep sep a rest : ~ In sep a -> split1 sep (a ++ sep :: rest) = a :: split1 sep rest.
Proof.
  intros N. unfold split1. rewrite split1_aux_app by assumption. cbn [split1_aux].
  now rewrite Z.eqb_refl, app_nil_r, rev_involutive.
Qed.

(* ------------------------------------------------------------------ the text List.serialize writes *)

Definition item_line (s : str) : str := NL :: 32 :: 32 :: s.
Definition list_text (items : list str) : str := flat_map item_line items.

Lemma list_text_join items :
  items <> [] -> s_item_sep ++ join s_item_sep items = list_text items.
Proof.
  induction items as [|x t IH]; intros NE; [congruence|].
  destruct t as [|y t'].
  - cbn [join list_text flat_map]. now rewrite app_nil_r.
  - change (join s_item_sep (x :: y :: t')) with (x ++ s_item_sep ++ join s_item_sep (y :: t')).
    rewrite IH by discriminate. reflexivity.
Qed.

Definition plain_item (s : str) : Prop := s <> [] /\ ~ In BS s /\ ~ In NL s /\ strip s = s.

Lemma split_list_text_aux t : forall a,
  ~ In NL a -> Forall plain_item t ->
  split1 NL (a ++ list_text t) = a :: map (fun s => 32 :: 32 :: s) t.
Proof.
  induction t as [|y t IH]; intros a N F.
  - cbn [list_text flat_map map]. rewrite app_nil_r. now apply split1_single.
  - inversion F as [|? ? PY F']; subst. cbn [list_text flat_map map]. unfold item_line at 1.
    cbn [app]. rewrite split1_app_sep by assumption. f_equal.
    change (32 :: 32 :: y ++ flat_map item_line t) with ((32 :: 32 :: y) ++ list_text t).
    apply IH; [|assumption]. destruct PY as (_ & _ & NN & _).
    unfold NL in *. intros [H|[H|H]]; try discriminate. contradiction.
Qed.

Lemma split_list_text t :
  Forall plain_item t -> split1 NL (list_text t) = [] :: map (fun s => 32 :: 32 :: s) t.
Proof. intros F. apply (split_list_text_aux t [] (fun H => H) F). Qed.

Lemma strip_indented s : strip s = s -> strip (32 :: 32 :: s) = s.
Proof. intros H. unfold strip in *. cbn [lstrip]. change (py_isspace 32) with true. cbv iota. exact H. Qed.

Lemma list_items_text t :
  Forall plain_item t -> t <> [] -> list_items (list_text t) = t.
Proof.
  intros F NE. unfold list_items.
  assert (existsb (Z.eqb NL) (list_text t) = true) as ->.
  { destruct t; [congruence|]. cbn. reflexivity. }
  rewrite split_list_text by assumption. cbn [map filter].
  change (strip []) with (@nil Z). cbn [is_nil negb].
  clear NE. induction F as [|s t (NEs & _ & _ & ST) F IH]; [reflexivity|].
  cbn [map filter]. rewrite (strip_indented s ST). destruct s; [congruence|]. cbn [is_nil negb]. now rewrite IH.
Qed.

Lemma list_text_no_bs t : Forall plain_item t -> ~ In BS (list_text t).
Proof.
  intros F H. unfold list_text in H. apply in_flat_map in H. destruct H as (s & IN & H).
  rewrite Forall_forall in F. destruct (F s IN) as (_ & NB & _). unfold item_line, BS, NL in *.
  destruct H as [H|[H|[H|H]]]; try discriminate. contradiction.
Qed.

(* ------------------------------------------------------------------ frozenset de-duplication is idempotent *)

Fixpoint good (seen : list val) : Prop :=
  match seen with
  | [] => True
  | x :: s => existsb (fun y => py_eq y x) s = false /\ good s
  end.

Lemma dedup_aux_good l : forall seen, good seen -> exists s', dedup_aux seen l = rev s' /\ good s'.
Proof.
  induction l as [|x l IH]; intros seen G; cbn [dedup_aux]; [eauto|].
  destruct (existsb (fun y => py_eq y x) seen) eqn:E; [auto|]. apply IH. cbn [good]. auto.
Qed.

Lemma good_app a b : good (a ++ b) -> good b.
Proof. induction a as [|x a IH]; cbn; [auto|]. intros [_ G]. auto. Qed.

Lemma good_middle a x b : good (a ++ x :: b) -> existsb (fun y => py_eq y x) b = false.
Proof. intros G. apply good_app in G. now destruct G. Qed.

Lemma dedup_aux_rev_good s2 : forall s1, good (s2 ++ s1) -> dedup_aux s1 (rev s2) = rev (s2 ++ s1).
Proof.
  induction s2 as [|x s2 IH] using rev_ind; intros s1 G; [reflexivity|].
  rewrite rev_app_distr. cbn [rev app dedup_aux]. rewrite <- app_assoc in G. cbn [app] in G.
  rewrite (good_middle _ _ _ G). rewrite IH by assumption. now rewrite <- app_assoc.
Qed.

Lemma dedup_idem l : dedup (dedup l) = dedup l.
Proof.
  unfold dedup. destruct (dedup_aux_good l [] I) as (s & E & G). rewrite E.
  rewrite <- (app_nil_r s) in G. rewrite (dedup_aux_rev_good s [] G). now rewrite app_nil_r.
Qed.

(* ------------------------------------------------------------------ the theorem *)

Lemma mapM_of_Forall2 f l vs : Forall2 (fun x v => f x = Ok v) l vs -> mapM f l = Ok vs.
Proof.
  intros F. induction F as [|x v l vs H F IH]; [reflexivity|]. cbn [mapM]. rewrite H. cbn [rbind].
  rewrite IH. reflexivity.
Qed.

Lemma ser_items_of_Forall2 (f : val -> sres) vs items :
  Forall2 (fun v s => f v = SStr s) vs items -> Forall (fun s => s <> []) items ->
  ser_items f vs = inl (Some items).
Proof.
  intros F. induction F as [|v s vs items H F IH]; intros NE; [reflexivity|].
  inversion NE; subst. cbn [ser_items]. rewrite H, IH by assumption.
  destruct s; [congruence|]. reflexivity.
Qed.

(* the carve-out the property makes for lists: every item's text is single-line,
   backslash-free, non-empty (and items are not None) *)
Definition items_plain (so : soracles) (o : oracles) (sub : ty) (vs : list val) : Prop :=
  Forall (fun v => v <> VNone /\ forall s, serialize so o false sub v = SStr s -> plain_item s) vs.

Lemma items_exist so o (OK : str_oracles_ok so o) sub (SC : scalar sub = true) vs :
  Forall (fun x => exists r, deserialize o sub r = Ok x) vs ->
  items_plain so o sub vs ->
  exists items, Forall2 (fun v s => serialize so o false sub v = SStr s) vs items
                /\ Forall plain_item items
                /\ Forall2 (fun s v => deserialize o sub s = Ok v) items vs.
Proof.
  induction vs as [|x vs IH]; intros RANGE PLv; [exists []; repeat constructor|].
  inversion RANGE as [|? ? (r & R) RANGE']; subst. inversion PLv as [|? ? (NN & PX) PLv']; subst.
  destruct (IH RANGE' PLv') as (items & A & B & C).
  destruct (scalar_roundtrip_lemma so o OK sub r x SC R (fun _ _ => NN)) as (s & S & D).
  exists (s :: items). repeat split; constructor; auto.
Qed.

Lemma list_roundtrip_lemma so o (OK : str_oracles_ok so o) opt uq sub raw v :
  scalar sub = true ->
  deserialize o (TList opt uq sub) raw = Ok v ->
  (forall vs, v = VTuple vs \/ v = VSet vs -> items_plain so o sub vs) ->
  exists s, serialize so o false (TList opt uq sub) v = SStr s
            /\ deserialize o (TList opt uq sub) s = Ok v.
Proof.
  intros SC D PL. unfold deserialize in D. cbn [deserialize_gen] in D.
  destruct (mapM _ _) as [vs0| |] eqn:M; cbn [rbind] in D; try discriminate.
  set (vs := if uq then dedup vs0 else vs0) in *.
  destruct (negb opt && is_nil vs) eqn:REQ; [discriminate|]. injection D as <-.
  (* every element of vs is in the range of deserialize sub *)
  apply mapM_ok in M.
  assert (Forall (fun x => exists r, deserialize o sub r = Ok x) vs) as RANGE.
  { assert (Forall (fun x => exists r, deserialize o sub r = Ok x) vs0) as R0.
    { clear -M. induction M; constructor; eauto. }
    subst vs. destruct uq; [|exact R0]. apply Forall_forall. intros x IN. apply dedup_in in IN.
    rewrite Forall_forall in R0. auto. }
  assert (items_plain so o sub vs) as PLv.
  { apply PL. destruct uq; auto. }
  assert (vs = if uq then dedup vs0 else vs0) as EQ by reflexivity. clearbody vs.
  destruct (items_exist so o OK sub SC vs RANGE PLv) as (items & FS & FP & FD).
  destruct vs as [|x vs'] eqn:EV.
  - (* empty list: "" *)
    exists []. split; [destruct uq; reflexivity|].
    unfold deserialize. cbn [deserialize_gen decode]. unfold list_items. cbn [existsb].
    cbn. destruct uq; cbn [is_nil] in *; rewrite REQ; reflexivity.
  - assert (is_nil vs = false) as NV by (rewrite EV; reflexivity).
    rewrite <- EV in *. clear EV.
    assert (items <> []) as INE by (destruct vs; [discriminate|inversion FS; discriminate]).
    exists (list_text items). split.
    + unfold serialize.
      assert (ser_items (serialize_gen true so o false sub) vs = inl (Some items)) as SI.
      { apply ser_items_of_Forall2; [exact FS|]. eapply Forall_impl; [|exact FP]. now intros a (NEa & _). }
      destruct uq; cbn [serialize_gen]; rewrite NV, SI, list_text_join by assumption; reflexivity.
    + unfold deserialize. cbn [deserialize_gen].
      rewrite (decode_no_bs _ (list_text_no_bs _ FP)), (list_items_text _ FP INE).
      change (deserialize_gen true o sub) with (deserialize o sub).
      rewrite (mapM_of_Forall2 _ _ _ FD). cbn [rbind].
      destruct uq.
      * rewrite EQ, dedup_idem, <- EQ, REQ. reflexivity.
      * rewrite REQ. reflexivity.
Qed.

(* non-vacuity: a list of two plain strings satisfies the carve-out hypothesis *)
Example ex_items_plain :
  items_plain law_so law_o (TString false None None) [VStr [97; 98]; VStr [99; 32; 100]].
Proof.
  unfold items_plain. constructor; [|constructor; [|constructor]];
    (split; [discriminate|]); intros s H; vm_compute in H; injection H as <-;
    (split; [discriminate|]);
    (split; [unfold BS; cbn; intuition discriminate|]);
    (split; [unfold NL; cbn; intuition discriminate|reflexivity]).
Qed.

(* ------------------------------------------------------------------ lists of ANY subtype *)

(* every item round-trips on its own, through a single-line, backslash-free, non-empty text *)
Definition items_rt (so : soracles) (o : oracles) (sub : ty) (vs : list val) : Prop :=
  Forall (fun v => exists s, serialize so o false sub v = SStr s /\ deserialize o sub s = Ok v /\ plain_item s) vs.

Lemma items_rt_exist so o sub vs :
  items_rt so o sub vs ->
  exists items, Forall2 (fun v s => serialize so o false sub v = SStr s) vs items
                /\ Forall plain_item items
                /\ Forall2 (fun s v => deserialize o sub s = Ok v) items vs.
Proof.
  induction vs as [|x vs IH]; intros R; [exists []; repeat constructor|].
  inversion R as [|? ? (s & S & D & P) R']; subst.
  destruct (IH R') as (items & A & B & C).
  exists (s :: items). repeat split; constructor; auto.
Qed.

(* The list syntax round trip for List(subtype = anything): tuples and frozensets. *)
Lemma list_roundtrip_gen so o opt uq sub raw v :
  deserialize o (TList opt uq sub) raw = Ok v ->
  (forall vs, v = VTuple vs \/ v = VSet vs -> items_rt so o sub vs) ->
  exists s, serialize so o false (TList opt uq sub) v = SStr s
            /\ deserialize o (TList opt uq sub) s = Ok v.
Proof.
  intros D PL. unfold deserialize in D. cbn [deserialize_gen] in D.
  destruct (mapM _ _) as [vs0| |] eqn:M; cbn [rbind] in D; try discriminate.
  set (vs := if uq then dedup vs0 else vs0) in *.
  destruct (negb opt && is_nil vs) eqn:REQ; [discriminate|]. injection D as <-.
  assert (items_rt so o sub vs) as PLv by (apply PL; destruct uq; auto).
  assert (vs = if uq then dedup vs0 else vs0) as EQ by reflexivity. clearbody vs.
  destruct (items_rt_exist so o sub vs PLv) as (items & FS & FP & FD).
  destruct vs as [|x vs'] eqn:EV.
  - exists []. split; [destruct uq; reflexivity|].
    unfold deserialize. cbn [deserialize_gen decode]. unfold list_items. cbn [existsb].
    cbn. destruct uq; cbn [is_nil] in *; rewrite REQ; reflexivity.
  - assert (is_nil vs = false) as NV by (rewrite EV; reflexivity).
    rewrite <- EV in *. clear EV.
    assert (items <> []) as INE by (destruct vs; [discriminate|inversion FS; discriminate]).
    exists (list_text items). split.
    + unfold serialize.
      assert (ser_items (serialize_gen true so o false sub) vs = inl (Some items)) as SI.
      { apply ser_items_of_Forall2; [exact FS|]. eapply Forall_impl; [|exact FP]. now intros a (NEa & _). }
      destruct uq; cbn [serialize_gen]; rewrite NV, SI, list_text_join by assumption; reflexivity.
    + unfold deserialize. cbn [deserialize_gen].
      rewrite (decode_no_bs _ (list_text_no_bs _ FP)), (list_items_text _ FP INE).
      change (deserialize_gen true o sub) with (deserialize o sub).
      rewrite (mapM_of_Forall2 _ _ _ FD). cbn [rbind].
      destruct uq.
      * rewrite EQ, dedup_idem, <- EQ, REQ. reflexivity.
      * rewrite REQ. reflexivity.
Qed.
