From Coq Require Import ZArith List Bool.
From Common Require Import Res Str.
From Config Require Import Types Schema Layers LayersFs Override.
Import ListNotations.
Open Scope Z_scope.

Lemma split_once_aux_char c a : forall acc rest,
  ~ In c a -> split_once_aux [c] acc (a ++ c :: rest) = Some (rev acc ++ a, rest).
Proof.
  induction a as [|x a IH]; intros acc rest N.
  - cbn [app split_once_aux starts_with]. rewrite Z.eqb_refl. cbn. now rewrite app_nil_r.
  - cbn [app]. unfold split_once_aux; fold split_once_aux. cbn [starts_with].
    assert (c =? x = false) as E by (apply Z.eqb_neq; intros ->; apply N; now left).
    rewrite E. cbn [andb]. rewrite IH by (intros H; apply N; now right).
    cbn [rev]. now rewrite <- app_assoc.
Qed.

Lemma split_once_char c a rest : ~ In c a -> split_once [c] (a ++ c :: rest) = Some (a, rest).
Proof. intros N. unfold split_once. now rewrite split_once_aux_char. Qed.

(* The text "section/key=value" is split at the FIRST "/" and then at the FIRST "=" of the
   remainder: the value may contain "=", "/" and anything else; the key may contain "/". *)
Lemma parse_override_spec sec k v :
  ~ In SLASH sec -> ~ In EQC k ->
  parse_override (sec ++ SLASH :: k ++ EQC :: v) = Some (strip sec, strip k, strip v).
Proof.
  intros NS NE. unfold parse_override. rewrite split_once_char by assumption.
  now rewrite split_once_char by assumption.
Qed.

(* "-o audio/output=alsasink device=hw:1" *)
Example parse_override_example :
  parse_override [97; 47; 111; 61; 120; 32; 100; 61; 104; 119; 58; 49]
  = Some ([97], [111], [120; 32; 100; 61; 104; 119; 58; 49]).
Proof. reflexivity. Qed.
