From Coq Require Import ZArith List Bool Lia.
From Common Require Import Res Str.
From Config Require Import Types Schema Proofs_Schema Layers.
Import ListNotations.
Open Scope Z_scope.

Lemma lookup_set2_same cfg s k v : lookup_raw (set2 cfg (s, k, v)) s k = Some v.
Proof. unfold lookup_raw, set2. now rewrite !assoc_dset_same. Qed.

Lemma lookup_set2_other cfg s k v s' k' :
  asg_is s' k' (s, k, v) = false -> lookup_raw (set2 cfg (s, k, v)) s' k' = lookup_raw cfg s' k'.
Proof.
  unfold asg_is, lookup_raw, set2, dget_default. cbn [fst snd]. intros H.
  destruct (str_eqb s' s) eqn:ES.
  - apply str_eqb_eq in ES. subst s'. cbn [andb] in H. apply str_eqb_false in H.
    rewrite assoc_dset_same, assoc_dset_other by assumption.
    destruct (assoc s cfg); reflexivity.
  - apply str_eqb_false in ES. now rewrite assoc_dset_other by assumption.
Qed.

(* folding set2 over a list of assignments = "last setter wins, else what was there" *)
Lemma fold_set2_lookup l : forall cfg s k,
  lookup_raw (fold_left set2 l cfg) s k
  = match last_setter s k l with Some v => Some v | None => lookup_raw cfg s k end.
Proof.
  induction l as [|[[s0 k0] v0] l IH]; intros cfg s k; cbn [fold_left last_setter]; [reflexivity|].
  rewrite IH. destruct (last_setter s k l); [reflexivity|].
  destruct (asg_is s k (s0, k0, v0)) eqn:A.
  - unfold asg_is in A. cbn [fst snd] in A. apply andb_true_iff in A. destruct A as [A1 A2].
    apply str_eqb_eq in A1, A2. subst. cbn [snd]. apply lookup_set2_same.
  - now apply lookup_set2_other.
Qed.

Lemma last_setter_app s k l1 l2 :
  last_setter s k (l1 ++ l2)
  = match last_setter s k l2 with Some v => Some v | None => last_setter s k l1 end.
Proof.
  induction l1 as [|a l1 IH]; cbn [app last_setter].
  - destruct (last_setter s k l2); reflexivity.
  - rewrite IH. destruct (last_setter s k l2); [reflexivity|]. reflexivity.
Qed.

(* non-strict parsing of one file is a fold of set2 over its effective assignments *)
Lemma apply_lines_nonstrict ls : forall cur seen_s seen_o cfg,
  (cur = None -> has_header ls = true) ->
  apply_lines false cur seen_s seen_o ls cfg = Ok (fold_left set2 (lines_asgs cur ls) cfg).
Proof.
  induction ls as [|[s|k v|] rest IH]; intros cur ss so cfg H; cbn [apply_lines lines_asgs andb].
  - reflexivity.
  - apply IH. discriminate.
  - destruct cur as [s|]; [|specialize (H eq_refl); discriminate].
    cbn [fold_left]. apply IH. discriminate.
  - destruct cur as [s|]; [|specialize (H eq_refl); discriminate]. apply IH. discriminate.
Qed.

Lemma apply_source_nonstrict src cfg :
  apply_source false false src cfg = Ok (fold_left set2 (effective src) cfg).
Proof.
  destruct src as [| | |u ls]; cbn [apply_source effective fold_left andb]; try reflexivity.
  destruct (has_header ls) eqn:H; [|reflexivity]. now apply apply_lines_nonstrict.
Qed.

Lemma apply_sources_nonstrict srcs : forall cfg,
  apply_sources false false srcs cfg = Ok (fold_left set2 (flat_map effective srcs) cfg).
Proof.
  induction srcs as [|s rest IH]; intros cfg; cbn [apply_sources flat_map]; [reflexivity|].
  rewrite apply_source_nonstrict. cbn [rbind]. rewrite IH, fold_left_app. reflexivity.
Qed.

Lemma flat_map_map {A B C} (f : B -> list C) (g : A -> B) l :
  flat_map f (map g l) = flat_map (fun x => f (g x)) l.
Proof. induction l; cbn; [reflexivity|]. now rewrite IHl. Qed.

(* _load never raises, and is the fold of every effective assignment in priority order *)
Lemma load_is_fold defaults files overrides :
  load defaults files overrides = Ok (fold_left set2 (all_asgs defaults files overrides) []).
Proof.
  unfold load, load_gen, all_asgs.
  rewrite !apply_sources_nonstrict. cbn [rbind]. rewrite apply_sources_nonstrict. cbn [rbind].
  rewrite !fold_left_app, flat_map_map. reflexivity.
Qed.

(* T1 *)
Lemma last_setter_wins_lemma defaults files overrides :
  exists cfg, load defaults files overrides = Ok cfg
    /\ forall s k, lookup_raw cfg s k = last_setter s k (all_asgs defaults files overrides).
Proof.
  eexists. split; [apply load_is_fold|]. intros s k. rewrite fold_set2_lookup.
  destruct (last_setter s k _); reflexivity.
Qed.

(* priority order spelled out: overrides, else files (later first), else defaults *)
Lemma priority_lemma defaults files overrides cfg s k :
  load defaults files overrides = Ok cfg ->
  lookup_raw cfg s k
  = match last_setter s k overrides with
    | Some v => Some v
    | None =>
        match last_setter s k (flat_map effective (flat_map entry_sources files)) with
        | Some v => Some v
        | None => last_setter s k (flat_map (fun d => effective (Lines false d)) defaults)
        end
    end.
Proof.
  intros L. destruct (last_setter_wins_lemma defaults files overrides) as (c & L' & P).
  rewrite L in L'. injection L' as <-. rewrite P. unfold all_asgs. rewrite !last_setter_app.
  destruct (last_setter s k overrides); [reflexivity|].
  destruct (last_setter s k (flat_map effective _)); reflexivity.
Qed.

(* T2 frame *)
Lemma last_setter_filter s k l :
  last_setter s k l = last_setter s k (filter (asg_is s k) l).
Proof.
  induction l as [|a l IH]; cbn [last_setter filter]; [reflexivity|].
  destruct (asg_is s k a) eqn:A; cbn [last_setter]; rewrite <- IH, ?A; [reflexivity|].
  destruct (last_setter s k l); reflexivity.
Qed.

Lemma frame_lemma d1 f1 o1 d2 f2 o2 c1 c2 s k :
  load d1 f1 o1 = Ok c1 -> load d2 f2 o2 = Ok c2 ->
  filter (asg_is s k) (all_asgs d1 f1 o1) = filter (asg_is s k) (all_asgs d2 f2 o2) ->
  lookup_raw c1 s k = lookup_raw c2 s k.
Proof.
  intros L1 L2 F.
  destruct (last_setter_wins_lemma d1 f1 o1) as (c & L & P). rewrite L1 in L. injection L as <-.
  destruct (last_setter_wins_lemma d2 f2 o2) as (c & L & Q). rewrite L2 in L. injection L as <-.
  rewrite P, Q, (last_setter_filter s k (all_asgs d1 f1 o1)), F, <- last_setter_filter. reflexivity.
Qed.

(* T3 faults *)
Definition faulty (src : source) : Prop :=
  match src with
  | Absent | Unreadable | OpenFails => True
  | Lines _ ls => has_header ls = false
  end.

Lemma faulty_effective src : faulty src -> effective src = [].
Proof. destruct src; cbn; try reflexivity. intros ->. reflexivity. Qed.

Fixpoint drop_garbage (ls : list line) : list line :=
  match ls with
  | [] => []
  | Garbage :: rest => drop_garbage rest
  | x :: rest => x :: drop_garbage rest
  end.

Lemma lines_asgs_drop_garbage ls : forall cur, lines_asgs cur (drop_garbage ls) = lines_asgs cur ls.
Proof.
  induction ls as [|[s|k v|] rest IH]; intros cur; cbn [drop_garbage lines_asgs]; auto.
  destruct cur; [now rewrite IH|reflexivity].
Qed.

Lemma flat_map_app' {A B} (f : A -> list B) l1 l2 : flat_map f (l1 ++ l2) = flat_map f l1 ++ flat_map f l2.
Proof. apply flat_map_app. Qed.

(* removing a faulty file from anywhere in the file list changes nothing; a file whose
   first line is a header behaves as the same file without its unparsable lines *)
Lemma faults_lemma defaults pre post overrides src :
  faulty src ->
  load defaults (pre ++ FFile src :: post) overrides = load defaults (pre ++ post) overrides.
Proof.
  intros F. rewrite !load_is_fold. unfold all_asgs.
  rewrite !flat_map_app'. cbn [flat_map entry_sources app]. rewrite (faulty_effective _ F). reflexivity.
Qed.

Lemma faulty_dir_member_lemma defaults pre post overrides ms1 ms2 b src :
  faulty src \/ b = false ->
  load defaults (pre ++ FDir (ms1 ++ (b, src) :: ms2) :: post) overrides
  = load defaults (pre ++ FDir (ms1 ++ ms2) :: post) overrides.
Proof.
  intros F. rewrite !load_is_fold. unfold all_asgs.
  rewrite !flat_map_app'. cbn [flat_map entry_sources]. rewrite !filter_app, !map_app, !flat_map_app'.
  cbn [filter]. destruct b; cbn [fst map snd flat_map].
  - destruct F as [F|F]; [|discriminate]. rewrite (faulty_effective _ F). reflexivity.
  - reflexivity.
Qed.

Lemma garbage_lemma defaults pre post overrides u ls :
  has_header ls = true ->
  load defaults (pre ++ FFile (Lines u ls) :: post) overrides
  = load defaults (pre ++ FFile (Lines u (drop_garbage ls)) :: post) overrides.
Proof.
  intros H. rewrite !load_is_fold. unfold all_asgs.
  rewrite !flat_map_app'. cbn [flat_map entry_sources app effective]. rewrite H.
  assert (has_header (drop_garbage ls) = true) as H'.
  { destruct ls as [|[]]; cbn in *; try reflexivity; discriminate. }
  rewrite H', lines_asgs_drop_garbage. reflexivity.
Qed.

(* the code before the fixes aborted on a duplicate and on undecodable bytes *)
Lemma prefix_duplicate_aborts :
  exists defaults files overrides, load_prefix defaults files overrides = Raise DuplicateError.
Proof.
  exists [], [FFile (Lines false [Header [97]; Opt [107] [49]; Opt [107] [50]])], []. reflexivity.
Qed.

Lemma prefix_undecodable_aborts :
  exists defaults files overrides, load_prefix defaults files overrides = Raise DecodeError.
Proof. exists [], [FFile (Lines true [Header [97]; Opt [107] [49]])], []. reflexivity. Qed.

(* non-vacuity: a stack in which every layer sets the same key, with faulty files and an
   unparsable line in between *)
Definition ex_defaults : list (list line) := [[Header [97]; Opt [107] [48]; Opt [109] [48]]].
Definition ex_files : list fentry :=
  [FFile (Lines false [Header [97]; Opt [107] [49]; Garbage; Opt [110] [49]]);
   FFile Absent; FFile (Lines false [Opt [107] [57]]);
   FDir [(true, Lines false [Header [97]; Opt [107] [50]]); (false, Lines false [Header [97]; Opt [107] [51]]);
         (true, Unreadable)]].
Definition ex_overrides : list asg := [([97], [110], [52])].

Example ex_load :
  load ex_defaults ex_files ex_overrides
  = Ok [([97], [([107], [50]); ([109], [48]); ([110], [52])])].
Proof. reflexivity. Qed.
