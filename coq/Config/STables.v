(* Table-driven str(int)/str(float) oracles and the case types of the C13 typed stages. *)
From Coq Require Import ZArith List Bool.
From Common Require Import Res Str.
From Config Require Import Escape Types Schema Tables Serialize.
Import ListNotations.
Open Scope Z_scope.

Fixpoint flassoc (k : fl) (l : list (fl * str)) : option str :=
  match l with
  | [] => None
  | (k', v) :: t => if fl_eqb k k' then Some v else flassoc k t
  end.

Definition soracles_of (ti : list (Z * str)) (tf : list (fl * str)) : soracles := {|
  o_str_int := fun z => match zassoc z ti with Some s => s | None => MISSING end;
  o_str_float := fun f => match flassoc f tf with Some s => s | None => MISSING end;
|}.

(* (int table, float table, lower table), type, value, display, observed *)
Definition scase := (list (Z * str) * list (fl * str) * list (Z * str) * ty * val * bool * sres)%type.
Definition lower_only (tl : list (Z * str)) : oracles :=
  oracles_of (mk_tables [] [] [] [] [] tl []).
Definition scase_ok (c : scase) : bool :=
  let '(ti, tf, tl, t, v, d, obs) := c in
  sres_eqb (serialize (soracles_of ti tf) (lower_only tl) d t v) obs.

(* tables, schemas, config, display, disable, observed text *)
Definition fcase := (list (Z * str) * list (fl * str) * list (Z * str) * list schema * config * bool * bool * fres)%type.
Definition fcase_ok (c : fcase) : bool :=
  let '(ti, tf, tl, ss, cfg, d, dis, obs) := c in
  fres_eqb (format_gen (soracles_of ti tf) (lower_only tl) d dis ss cfg) obs.
