(* The part of config._load that turns the `files` argument into sources, over a model of
   the file system: directory expansion (iterdir order is the file system's, the filter
   `g.is_file() and g.suffix == ".conf"` is modelled, including pathlib's suffix rule),
   `resolve()`, and one `_load_file` per OCCURRENCE of a path.  Contents are looked up by
   path, so a path listed twice (or a file that is also a member of a listed directory)
   necessarily shows the same content, and a later load sees whatever the paths hold then. *)
From Coq Require Import ZArith List Bool.
From Common Require Import Res Str.
From Config Require Import Types Schema Layers.
Import ListNotations.
Open Scope Z_scope.

Inductive fkind := KRegular | KLinkToFile | KDirectory | KDangling | KSocket.

(* Path.is_file(): follows symlinks *)
Definition kind_is_file (k : fkind) : bool :=
  match k with KRegular | KLinkToFile => true | _ => false end.

Inductive node :=
| NFile (s : source)                       (* not a directory: what _load_file meets there *)
| NDir (members : list (str * fkind)).     (* a directory: names in iterdir() order *)

Record fsys := {
  f_node : str -> node;
  f_resolve : str -> str;                  (* Path.resolve(): symlinks followed *)
}.

Definition DOT : Z := 46.
Definition SLASH : Z := 47.
Definition s_conf : str := [46; 99; 111; 110; 102].     (* ".conf" *)

(* PurePath.suffix:  i = name.rfind(".");  name[i:] if 0 < i < len(name) - 1 else "" .
   Computed on the reversed name: [ext] collects the characters after the last dot. *)
Fixpoint suffix_rev (r : str) (ext : str) : str :=
  match r with
  | [] => []                                            (* no dot at all *)
  | c :: rest =>
      if c =? DOT then
        (if is_nil ext || is_nil rest then [] else DOT :: ext)   (* dot last / dot first: "" *)
      else suffix_rev rest (c :: ext)
  end.
Definition py_suffix (name : str) : str := suffix_rev (rev name) [].

(* `g.is_file() and g.suffix == ".conf"` *)
Definition eligible (name : str) (k : fkind) : bool :=
  kind_is_file k && str_eqb (py_suffix name) s_conf.

Definition path_join (d name : str) : str := d ++ SLASH :: name.

(* what _load_file(parser, q) meets at the resolved path q; a directory there makes open()
   raise IsADirectoryError, an OSError, which _load_file swallows *)
Definition source_at (fs : fsys) (q : str) : source :=
  match f_node fs q with
  | NFile s => s
  | NDir _ => OpenFails
  end.

Definition entry_of (fs : fsys) (p : str) : fentry :=
  match f_node fs p with
  | NDir members =>
      FDir (map (fun nk => (eligible (fst nk) (snd nk),
                            source_at fs (f_resolve fs (path_join p (fst nk))))) members)
  | NFile _ => FFile (source_at fs (f_resolve fs p))
  end.

(* config._load(files, defaults, overrides) over a file system *)
Definition load_paths (fs : fsys) (defaults : list (list line)) (paths : list str)
           (overrides : list asg) : res lexn raw_config :=
  load defaults (map (entry_of fs) paths) overrides.

(* the paths a load looks at: the listed path, and for a directory its eligible members (the
   member path, for resolve(), and where it resolves to, for the content) *)
Definition touched_of (fs : fsys) (p : str) : list str :=
  p :: match f_node fs p with
       | NDir members =>
           flat_map (fun nk => if eligible (fst nk) (snd nk)
                               then [path_join p (fst nk); f_resolve fs (path_join p (fst nk))] else []) members
       | NFile _ => [f_resolve fs p]
       end.
Definition touched (fs : fsys) (paths : list str) : list str := flat_map (touched_of fs) paths.

(* ------------------------------------------------------------------ sessions: edits and loads *)

Inductive event :=
| Edit (p : str) (n : node)                 (* the content at path p is replaced *)
| Relink (p q : str)                        (* p now resolves to q *)
| Load (defaults : list (list line)) (paths : list str) (overrides : list asg).

Definition fs_set (fs : fsys) (p : str) (n : node) : fsys :=
  {| f_node := fun q => if str_eqb q p then n else f_node fs q; f_resolve := f_resolve fs |}.
Definition fs_relink (fs : fsys) (p q : str) : fsys :=
  {| f_node := f_node fs; f_resolve := fun x => if str_eqb x p then q else f_resolve fs x |}.

(* the process has no state besides the file system: every Load reads it afresh *)
Fixpoint run (fs : fsys) (evs : list event) : fsys * list (res lexn raw_config) :=
  match evs with
  | [] => (fs, [])
  | Edit p n :: rest => run (fs_set fs p n) rest
  | Relink p q :: rest => run (fs_relink fs p q) rest
  | Load d ps o :: rest => let '(fs', outs) := run fs rest in (fs', load_paths fs d ps o :: outs)
  end.

(* ------------------------------------------------------------------ table-driven file systems (harness) *)

Definition fs_of (nodes : list (str * node)) (links : list (str * str)) : fsys := {|
  f_node := fun p => match assoc p nodes with Some n => n | None => NFile Absent end;
  f_resolve := fun p => match assoc p links with Some q => q | None => p end;
|}.

Definition lfcase := (list (str * node) * list (str * str) * list (list line) * list str * list asg * lobs)%type.
Definition lfcase_ok (c : lfcase) : bool :=
  let '(nodes, links, d, ps, o, obs) := c in lobs_eqb (load_paths (fs_of nodes links) d ps o) obs.
