From Coq Require Import ZArith List Bool Lia.
From Common Require Import Res Str.
From Config Require Import Escape Proofs_Escape Types Schema Spec_C12 Proofs_Types Proofs_Schema Serialize.
Import ListNotations.
Open Scope Z_scope.

(* ------------------------------------------------------------------ strip is idempotent *)

Lemma lstrip_fix s : lstrip s = s <-> s = [] \/ exists c t, s = c :: t /\ py_isspace c = false.
Proof.
  destruct s as [|c t]; cbn [lstrip]; [intuition|].
  destruct (py_isspace c) eqn:E.
  - split.
    + intros H. exfalso.
      assert (length (lstrip t) <= length t)%nat as L.
      { clear. induction t as [|a t IH]; cbn [lstrip]; [lia|]. destruct (py_isspace a); cbn [length]; lia. }
      rewrite H in L. cbn [length] in L. lia.
    + intros [H|(c' & t' & H & N)]; [discriminate|]. injection H as <- <-. congruence.
  - split; [right; eauto|reflexivity].
Qed.

Lemma lstrip_idem s : lstrip (lstrip s) = lstrip s.
Proof.
  induction s as [|c t IH]; [reflexivity|]. cbn [lstrip]. destruct (py_isspace c) eqn:E; [exact IH|].
  cbn [lstrip]. now rewrite E.
Qed.

Lemma lstrip_snoc l c : py_isspace c = false -> exists l', lstrip (l ++ [c]) = l' ++ [c].
Proof.
  intros N. induction l as [|a l IH]; cbn [app lstrip].
  - rewrite N. now exists [].
  - destruct (py_isspace a); [exact IH|]. now exists (a :: l).
Qed.

Lemma rstrip_idem s : rstrip (rstrip s) = rstrip s.
Proof. unfold rstrip. now rewrite rev_involutive, lstrip_idem. Qed.

Lemma lstrip_rstrip_lstrip s : lstrip (rstrip (lstrip s)) = rstrip (lstrip s).
Proof.
  apply lstrip_fix.
  destruct (lstrip s) as [|c t] eqn:E; [left; reflexivity|].
  assert (py_isspace c = false) as N.
  { pose proof (lstrip_idem s) as I. rewrite E in I. apply lstrip_fix in I.
    destruct I as [I|(c' & t' & I & N)]; [discriminate|]. now injection I as -> ->. }
  right. unfold rstrip. cbn [rev].
  destruct (lstrip_snoc (rev t) c N) as (l' & L). rewrite L, rev_app_distr. cbn [rev app].
  eauto.
Qed.

Lemma strip_idem s : strip (strip s) = strip s.
Proof. unfold strip. now rewrite lstrip_rstrip_lstrip, rstrip_idem. Qed.

(* ------------------------------------------------------------------ decode on escape-free text *)

Lemma decode_no_bs s : ~ In BS s -> decode s = s.
Proof.
  induction s as [|c t IH]; intros N; [reflexivity|]. cbn [decode].
  destruct (c =? BS) eqn:E; [apply Z.eqb_eq in E; subst; exfalso; apply N; now left|].
  rewrite IH; [reflexivity|]. intros H. apply N. now right.
Qed.

(* ------------------------------------------------------------------ T4: secrets are preserved when display is off *)

Lemma secret_preserved_lemma so o opt tr v s :
  (v = VStr s \/ exists t, v = VTStr s t) ->
  exists e, serialize so o false (TSecret opt tr) v = SStr e /\ decode e = s.
Proof.
  intros [->|(t & ->)]; eexists; (split; [reflexivity|apply decode_encode_lemma]).
Qed.

(* ------------------------------------------------------------------ T3: masking is non-interference *)

(* v1 and v2 differ only in the values of secrets that are set, at any nesting *)
Fixpoint sec_rel (t : ty) (v1 v2 : val) {struct t} : Prop :=
  match t with
  | TSecret _ _ => (v1 = VNone /\ v2 = VNone) \/ (v1 <> VNone /\ v2 <> VNone)
  | TPair _ _ _ ta tb =>
      match v1, v2 with
      | VPair a1 b1, VPair a2 b2 => sec_rel ta a1 a2 /\ sec_rel tb b1 b2
      | _, _ => v1 = v2
      end
  | TList _ _ sub =>
      match v1, v2 with
      | VTuple l1, VTuple l2 => Forall2 (sec_rel sub) l1 l2
      | VSet l1, VSet l2 => Forall2 (sec_rel sub) l1 l2
      | _, _ => v1 = v2
      end
  | _ => v1 = v2
  end.

Lemma ser_items_rel (f : val -> sres) (R : val -> val -> Prop) l1 l2 :
  (forall a b, R a b -> f a = f b) -> Forall2 R l1 l2 -> ser_items f l1 = ser_items f l2.
Proof.
  intros H F. induction F as [|a b l1 l2 AB F IH]; [reflexivity|].
  cbn [ser_items]. rewrite (H _ _ AB), IH. reflexivity.
Qed.

Lemma Forall2_nil_iff {A} (R : A -> A -> Prop) l1 l2 : Forall2 R l1 l2 -> is_nil l1 = is_nil l2.
Proof. intros F. destruct F; reflexivity. Qed.

Lemma mask_noninterference_type so o t : forall v1 v2,
  sec_rel t v1 v2 -> serialize so o true t v1 = serialize so o true t v2.
Proof.
  unfold serialize.
  induction t; intros v1 v2 R; cbn [sec_rel] in R; try (subst; reflexivity).
  - (* Secret *)
    cbn [serialize_gen]. destruct R as [[-> ->]|[N1 N2]]; [reflexivity|].
    destruct v1; try contradiction; destruct v2; try contradiction; reflexivity.
  - (* Pair *)
    destruct v1; try (subst; reflexivity); destruct v2; try (subst; reflexivity); try discriminate.
    destruct R as [R1 R2]. cbn [serialize_gen]. rewrite (IHt1 _ _ R1), (IHt2 _ _ R2). reflexivity.
  - (* List *)
    destruct v1; try (subst; reflexivity); destruct v2; try (subst; reflexivity); try discriminate;
      cbn [serialize_gen]; rewrite (Forall2_nil_iff _ _ _ R),
        (ser_items_rel (serialize_gen true so o true t) (sec_rel t) _ _ IHt R); reflexivity.
Qed.

(* configs related key by key *)
Definition opt_rel {A} (R : A -> A -> Prop) (a b : option A) : Prop :=
  match a, b with
  | Some x, Some y => R x y
  | None, None => True
  | _, _ => False
  end.

Definition dict_rel (s : schema) (d1 d2 : rdict) : Prop :=
  match s with
  | SConfig _ keys =>
      Forall (fun kt => opt_rel (sec_rel (snd kt)) (assoc (fst kt) d1) (assoc (fst kt) d2)) keys
  | SMap _ t =>
      Forall2 (fun kv1 kv2 => fst kv1 = fst kv2 /\ sec_rel t (snd kv1) (snd kv2)) d1 d2
  end.

Lemma map_rel_assoc t d1 d2 :
  Forall2 (fun kv1 kv2 => fst kv1 = fst kv2 /\ sec_rel t (snd kv1) (snd kv2)) d1 d2 ->
  map fst d1 = map fst d2 /\ forall k, opt_rel (sec_rel t) (assoc k d1) (assoc k d2).
Proof.
  intros F. induction F as [|[k1 v1] [k2 v2] d1 d2 [E R] F [IH1 IH2]]; cbn [map fst snd assoc] in *.
  - split; [reflexivity|]. intros k. exact I.
  - subst k2. split; [now rewrite IH1|]. intros k. destruct (str_eqb k k1); [exact R|apply IH2].
Qed.

Lemma schema_serialize_rel so o s d1 d2 :
  dict_rel s d1 d2 -> schema_serialize so o true s d1 = schema_serialize so o true s d2.
Proof.
  destruct s as [n keys|n t]; cbn [dict_rel schema_serialize]; intros R.
  - induction R as [|[k t] keys H R IH]; [reflexivity|]. cbn [flat_map fst snd] in *.
    rewrite IH. unfold opt_rel in H.
    destruct (assoc k d1), (assoc k d2); try contradiction; [|reflexivity].
    now rewrite (mask_noninterference_type so o t _ _ H).
  - destruct (map_rel_assoc t d1 d2 R) as [E A]. rewrite E.
    induction (sort_keys (map fst d2)) as [|k ks IH]; [reflexivity|]. cbn [flat_map].
    rewrite IH. specialize (A k). unfold opt_rel in A.
    destruct (assoc k d1), (assoc k d2); try contradiction; [|reflexivity].
    now rewrite (mask_noninterference_type so o t _ _ A).
Qed.

Definition config_rel (schemas : list schema) (c1 c2 : config) : Prop :=
  Forall (fun s => dict_rel s (dget_default (schema_name s) c1 []) (dget_default (schema_name s) c2 [])) schemas.

Lemma mask_noninterference_format so o disable schemas c1 c2 :
  config_rel schemas c1 c2 ->
  format_gen so o true disable schemas c1 = format_gen so o true disable schemas c2.
Proof.
  intros R. unfold format_gen.
  assert (format_lines so o true disable schemas c1 = format_lines so o true disable schemas c2) as ->; [|reflexivity].
  induction R as [|s rest H R IH]; [reflexivity|]. cbn [format_lines].
  rewrite (schema_serialize_rel so o s _ _ H), IH. reflexivity.
Qed.

(* non-vacuity: two configs with different passwords (one nested in a list of pairs) *)
Definition ex_sec_schemas : list schema :=
  [SConfig [112] [([117], TString true None None); ([112; 119], TSecret true None);
                  ([108], TList true false (TPair false false [124] (TString false None None) (TSecret false None)))]].
Definition ex_cfg (pw1 pw2 : str) : config :=
  [([112], [([117], VStr [97]); ([112; 119], VStr pw1);
            ([108], VTuple [VPair (VStr [98]) (VStr pw2)])])].

Example ex_config_rel : config_rel ex_sec_schemas (ex_cfg [49] [50]) (ex_cfg [51; 52] [53]).
Proof.
  unfold config_rel. constructor; [|constructor]. cbn.
  constructor; [reflexivity|]. constructor; [right; split; discriminate|].
  constructor; [|constructor]. cbn. constructor; [|constructor].
  split; [reflexivity|right; split; discriminate].
Qed.

(* ------------------------------------------------------------------ T2: typed round trip, scalar types *)

(* str(int) / repr(float) are inverse to int() / float() and contain no backslash *)
Record str_oracles_ok (so : soracles) (o : oracles) : Prop := {
  int_rt : forall z, o_int o (o_str_int so z) = IOk z;
  int_plain : forall z, ~ In BS (o_str_int so z) /\ o_str_int so z <> [];
  float_rt : forall f, o_float o (o_str_float so f) = FOk f;
  float_plain : forall f, ~ In BS (o_str_float so f) /\ o_str_float so f <> [];
}.

(* the types for which the theorem below is stated *)
Definition scalar (t : ty) : bool :=
  match t with
  | TString _ _ _ | TSecret _ _ | TInteger _ _ _ _ | TFloat _ _ _ | TBoolean _
  | TLogColor | TLogLevel | TPath _ => true
  | _ => false
  end.

Lemma strip_decode_encode_stripped s : strip (decode (encode (strip s))) = strip s.
Proof. now rewrite decode_encode_lemma, strip_idem. Qed.

Lemma log_colors_lower o s : mem_str s log_colors = true -> py_lower o s = s.
Proof.
  unfold log_colors, mem_str. intros H.
  repeat (apply orb_true_iff in H; destruct H as [H|H]; [apply str_eqb_eq in H; subst; reflexivity|]).
  discriminate.
Qed.

Lemma is_nil_true {A} (l : list A) : is_nil l = true -> l = [].
Proof. destruct l; [reflexivity|discriminate]. Qed.

Lemma scalar_roundtrip_lemma so o (OK : str_oracles_ok so o) t raw v :
  scalar t = true ->
  deserialize o t raw = Ok v ->
  (forall opt, t = TBoolean opt -> v <> VNone) ->
  exists s, serialize so o false t v = SStr s /\ deserialize o t s = Ok v.
Proof.
  unfold deserialize, serialize.
  destruct t; cbn [scalar]; try discriminate; intros _ D NB; cbn [deserialize_gen serialize_gen] in *.
  - (* String *)
    unfold deser_string in D. apply req_or_none_ok in D. destruct D as [(-> & -> & E)|(E & D)].
    + exists []. split; [reflexivity|]. reflexivity.
    + destruct tr as [f|].
      * destruct (in_choices_str _ _) eqn:C; [|discriminate]. injection D as <-.
        eexists. split; [reflexivity|]. unfold deser_string.
        rewrite strip_decode_encode_stripped. unfold req_or_none. rewrite E, andb_false_r, C. reflexivity.
      * destruct (in_choices_str _ _) eqn:C; [|discriminate]. injection D as <-.
        eexists. split; [reflexivity|]. unfold deser_string.
        rewrite strip_decode_encode_stripped. unfold req_or_none. rewrite E, andb_false_r, C. reflexivity.
  - (* Secret *)
    unfold deser_string in D. apply req_or_none_ok in D. destruct D as [(-> & -> & E)|(E & D)].
    + exists []. split; reflexivity.
    + destruct tr as [f|]; cbn [in_choices_str] in D; injection D as <-;
        (eexists; split; [reflexivity|]); unfold deser_string;
        rewrite strip_decode_encode_stripped; unfold req_or_none; rewrite E, andb_false_r; reflexivity.
  - (* Integer *)
    unfold deser_integer in D. apply req_or_none_ok in D. destruct D as [(-> & -> & E)|(E & D)].
    + exists []. split; reflexivity.
    + destruct (o_int o (decode raw)) eqn:I; [|discriminate].
      destruct (in_choices_z z choices && z_range_ok z mn mx) eqn:C; [|discriminate]. injection D as <-.
      exists (o_str_int so z). split; [reflexivity|]. unfold deser_integer.
      destruct (int_plain so o OK z) as [P NE]. rewrite (decode_no_bs _ P), (int_rt so o OK z), C.
      unfold req_or_none. destruct (o_str_int so z); [congruence|]. cbn [is_nil]. rewrite andb_false_r. reflexivity.
  - (* Float *)
    unfold deser_float in D. apply req_or_none_ok in D. destruct D as [(-> & -> & E)|(E & D)].
    + exists []. split; reflexivity.
    + destruct (o_float o (decode raw)) eqn:I; [|discriminate].
      destruct (fl_range_ok f mn mx) eqn:C; [|discriminate]. injection D as <-.
      exists (o_str_float so f). split; [reflexivity|]. unfold deser_float.
      destruct (float_plain so o OK f) as [P NE]. rewrite (decode_no_bs _ P), (float_rt so o OK f), C.
      unfold req_or_none. destruct (o_str_float so f); [congruence|]. cbn [is_nil]. rewrite andb_false_r. reflexivity.
  - (* Boolean *)
    unfold deser_boolean in D. apply req_or_none_ok in D. destruct D as [(-> & _ & _)|(E & D)].
    + exfalso. now apply (NB opt).
    + assert (forall b : bool, deser_boolean o opt (if b then s_true else s_false) = Ok (VBool b)) as B.
      { intros []; unfold deser_boolean, req_or_none.
        - change (decode s_true) with s_true. change (is_nil s_true) with false.
          rewrite andb_false_r. reflexivity.
        - change (decode s_false) with s_false. change (is_nil s_false) with false.
          rewrite andb_false_r. reflexivity. }
      destruct (mem_str _ true_values); [injection D as <-; exists s_true; split; [reflexivity|exact (B true)]|].
      destruct (mem_str _ false_values); [injection D as <-; exists s_false; split; [reflexivity|exact (B false)]|discriminate].
  - (* LogColor *)
    unfold deser_logcolor in D. destruct (mem_str _ _) eqn:C; [|discriminate]. injection D as <-.
    set (l := py_lower o (decode raw)) in *.
    pose proof (log_colors_lower o l C) as L.
    exists (encode l). split; [now rewrite L, C|].
    unfold deser_logcolor. now rewrite decode_encode_lemma, L, C.
  - (* LogLevel *)
    unfold deser_loglevel in D. destruct (assoc _ log_levels) as [n|] eqn:C; [|discriminate]. injection D as <-.
    apply lookup_level_in in C. cbn in C.
    repeat (destruct C as [<-|C]; [eexists; split; reflexivity|]). contradiction.
  - (* Path *)
    destruct (deser_path_cases o opt raw) as [(a & p & P & NE & X & A)|[(P & O & E)|P]];
      fold (deser_path_gen true o opt raw) in D; rewrite P in D; try discriminate; injection D as <-.
    + exists (encode a). split; [reflexivity|]. unfold deser_path_gen.
      subst a. rewrite strip_decode_encode_stripped, X. unfold req_or_none.
      destruct (strip (decode raw)); [congruence|]. cbn [is_nil]. rewrite andb_false_r. reflexivity.
    + exists []. split; [reflexivity|]. unfold deser_path_gen in *.
      apply is_nil_true in E. rewrite E in P. cbn [decode]. change (strip []) with (@nil Z).
      destruct (o_expand o []); try discriminate. subst opt. reflexivity.
Qed.

(* The code before fix cacbe5e: a path with a doubled backslash does not round-trip. *)
Definition id_oracles : oracles := {|
  o_int := fun _ => IValueError; o_float := fun _ => FValueError;
  o_expand := fun s => XOk s; o_pathstr := fun s => s; o_resolve := fun _ => ROSError;
  o_lower_char := fun c => [c]; o_transform := fun _ s => s |}.
Definition dummy_so : soracles := {| o_str_int := fun _ => [48]; o_str_float := fun _ => [48] |}.

Lemma prefix_path_roundtrip_refuted :
  exists raw v s, deserialize_prefix id_oracles (TPath false) raw = Ok v
    /\ serialize_prefix dummy_so id_oracles false (TPath false) v = SStr s
    /\ deserialize_prefix id_oracles (TPath false) s <> Ok v.
Proof.
  exists [47; 97; 92; 92; 110], (VPath [47; 97; 92; 110] [47; 97; 92; 110]), [47; 97; 92; 110].
  repeat split; try reflexivity. vm_compute. discriminate.
Qed.

(* Known finding: Boolean None serializes to "false". *)
Lemma boolean_none_roundtrip_refuted :
  exists so o raw s, deserialize o (TBoolean true) raw = Ok VNone
    /\ serialize so o false (TBoolean true) VNone = SStr s
    /\ deserialize o (TBoolean true) s <> Ok VNone.
Proof.
  exists dummy_so, id_oracles, [], s_false. repeat split; try reflexivity. vm_compute. discriminate.
Qed.

(* non-vacuity of the oracle hypotheses: a lawful (if unrealistic) instance of str/int and
   repr/float exists: numbers written as sign + one big code point *)
Definition enc_z (z : Z) : str := [if z <? 0 then 2 else 1; 1000 + Z.abs z].
Definition dec_z (s : str) : option Z :=
  match s with
  | [sg; m] => Some (if sg =? 2 then - (m - 1000) else m - 1000)
  | _ => None
  end.
Lemma dec_enc_z z : dec_z (enc_z z) = Some z.
Proof.
  unfold enc_z, dec_z. destruct (Z.ltb_spec z 0);
    [change (2 =? 2) with true|change (1 =? 2) with false]; cbv iota; f_equal; lia.
Qed.

Definition law_so : soracles := {|
  o_str_int := enc_z;
  o_str_float := fun f => match f with
                          | FNan => [3] | FPInf => [4] | FNInf => [5]
                          | FFin n d => 6 :: enc_z n ++ enc_z d
                          end |}.
Definition law_o : oracles := {|
  o_int := fun s => match dec_z s with Some z => IOk z | None => IValueError end;
  o_float := fun s => match s with
                      | [3] => FOk FNan | [4] => FOk FPInf | [5] => FOk FNInf
                      | [6; a; b; c; d] =>
                          match dec_z [a; b], dec_z [c; d] with
                          | Some n, Some m => FOk (FFin n m)
                          | _, _ => FValueError
                          end
                      | _ => FValueError
                      end;
  o_expand := fun s => XOk s; o_pathstr := fun s => s; o_resolve := fun _ => ROSError;
  o_lower_char := fun c => [c]; o_transform := fun _ s => s |}.

Lemma enc_z_plain z : ~ In BS (enc_z z).
Proof.
  unfold enc_z, BS. intros [H|[H|[]]]; [destruct (z <? 0); discriminate|lia].
Qed.

Example law_oracles_ok : str_oracles_ok law_so law_o.
Proof.
  split.
  - intros z. cbn [law_o o_int law_so o_str_int]. now rewrite dec_enc_z.
  - intros z. split; [apply enc_z_plain|discriminate].
  - intros [| | |n d]; try reflexivity. cbn [law_o o_float law_so o_str_float].
    unfold enc_z at 1 2. cbn [app].
    change [if n <? 0 then 2 else 1; 1000 + Z.abs n] with (enc_z n).
    change [if d <? 0 then 2 else 1; 1000 + Z.abs d] with (enc_z d).
    now rewrite !dec_enc_z.
  - intros [| | |n d]; cbn [law_so o_str_float]; (split; [|discriminate]);
      try (unfold BS; intros [H|[]]; discriminate).
    intros [H|H]; [unfold BS in H; discriminate|].
    apply in_app_or in H. destruct H as [H|H]; now apply enc_z_plain in H.
Qed.

(* ------------------------------------------------------------------ T5, the part below the INI syntax *)

(* What _format writes for a key, fed back as that key's raw value, validates to the same
   entry (value, no error).  Together with C12_validate_is_entrywise this is the
   format -> load round trip of a validated config up to the INI transport. *)
Lemma format_key_roundtrip_lemma so o (OK : str_oracles_ok so o) keys k t raw_k v :
  assoc k keys = Some t -> scalar t = true ->
  entry o keys (Some raw_k) k = (Some v, None) ->
  (forall opt, t = TBoolean opt -> v <> VNone) ->
  exists s, serialize so o false t v = SStr s /\ entry o keys (Some s) k = (Some v, None).
Proof.
  intros K SC EN NB. unfold entry in *. rewrite K in *.
  assert (is_deprecated t = false) as ND by (destruct t; try reflexivity; discriminate).
  rewrite ND in *.
  destruct (deserialize o t raw_k) as [x| |] eqn:D; try discriminate.
  injection EN as ->.
  destruct (scalar_roundtrip_lemma so o OK t raw_k v SC D NB) as (s & S & D').
  exists s. split; [exact S|]. now rewrite D'.
Qed.
