(* Model of mopidy.config._load / _load_file / load (src/mopidy/config/__init__.py):
   configuration sources applied in priority order into one raw config.

   configparser is the line-level oracle: a file is given as the sequence of events the
   parser sees -- section headers, `key = value` options (key already lower-cased by
   optionxform, value already stripped / continuation-joined / inline-comment-free) and
   unparsable lines.  The harness renders these events to INI text and cross-checks the
   rendering against configparser itself.

   [strict] = configparser's strict mode (the code before the C14 fix: a repeated section
   or option inside one file raises Duplicate*Error, which _load_file does not catch);
   [decode_strict] = the file is opened without errors="surrogateescape" (before the fix:
   undecodable bytes raise UnicodeDecodeError, not caught either). *)
From Coq Require Import ZArith List Bool.
From Common Require Import Res Str.
From Config Require Import Types Schema.
Import ListNotations.
Open Scope Z_scope.

Inductive line := Header (s : str) | Opt (k v : str) | Garbage.

Inductive source :=
| Absent                      (* file_path.exists() is false *)
| Unreadable                  (* os.access(R_OK) is false *)
| OpenFails                   (* open() raises OSError *)
| Lines (undecodable : bool) (l : list line).

(* one entry of the `files` argument: a file, or a directory with its members in
   iterdir() order, each flagged "is a regular file whose suffix is .conf" *)
Inductive fentry := FFile (s : source) | FDir (members : list (bool * source)).

Inductive lexn := DuplicateError | DecodeError.

Definition asg := (str * str * str)%type.       (* (section, key, value) *)

(* raw_config.setdefault(section, {})[key] = value *)
Definition set2 (cfg : raw_config) (a : asg) : raw_config :=
  let '(s, k, v) := a in dset s (dset k v (dget_default s cfg [])) cfg.

Definition mem_pair (s k : str) (l : list (str * str)) : bool :=
  existsb (fun p => str_eqb s (fst p) && str_eqb k (snd p)) l.

(* RawConfigParser._read on one file, after the first line has been seen to be a header *)
Fixpoint apply_lines (strict : bool) (cur : option str) (seen_s : list str)
         (seen_o : list (str * str)) (ls : list line) (cfg : raw_config) : res lexn raw_config :=
  match ls with
  | [] => Ok cfg
  | Header s :: rest =>
      if strict && mem_str s seen_s then Raise DuplicateError
      else apply_lines strict (Some s) (s :: seen_s) seen_o rest cfg
  | Opt k v :: rest =>
      match cur with
      | None => Ok cfg      (* unreachable: guarded by [has_header] *)
      | Some s =>
          if strict && mem_pair s k seen_o then Raise DuplicateError
          else apply_lines strict cur seen_s ((s, k) :: seen_o) rest (set2 cfg (s, k, v))
      end
  | Garbage :: rest => apply_lines strict cur seen_s seen_o rest cfg   (* ParsingError: line ignored *)
  end.

(* MissingSectionHeaderError is raised at the first content line when it is not a header *)
Definition has_header (ls : list line) : bool :=
  match ls with Header _ :: _ => true | [] => true | _ => false end.

Definition apply_source (strict decode_strict : bool) (src : source) (cfg : raw_config)
  : res lexn raw_config :=
  match src with
  | Absent | Unreadable | OpenFails => Ok cfg
  | Lines undecodable ls =>
      if decode_strict && undecodable then Raise DecodeError
      else if has_header ls then apply_lines strict None [] [] ls cfg
      else Ok cfg
  end.

Fixpoint apply_sources (strict ds : bool) (srcs : list source) (cfg : raw_config) : res lexn raw_config :=
  match srcs with
  | [] => Ok cfg
  | s :: rest => rbind (apply_source strict ds s cfg) (apply_sources strict ds rest)
  end.

Definition entry_sources (f : fentry) : list source :=
  match f with
  | FFile s => [s]
  | FDir ms => map snd (filter fst ms)
  end.

(* _load(files, defaults, overrides); keyring values are the head of [overrides] (load()) *)
Definition load_gen (strict ds : bool) (defaults : list (list line)) (files : list fentry)
           (overrides : list asg) : res lexn raw_config :=
  rbind (apply_sources strict false (map (Lines false) defaults) []) (fun c1 =>
  rbind (apply_sources strict ds (flat_map entry_sources files) c1) (fun c2 =>
  Ok (fold_left set2 overrides c2))).

(* the code as it is in /repo now (after the C14 fixes) and before *)
Definition load := load_gen false false.
Definition load_prefix := load_gen true true.

(* ------------------------------------------------------------------ specification side *)

(* the assignments a file effectively makes *)
Fixpoint lines_asgs (cur : option str) (ls : list line) : list asg :=
  match ls with
  | [] => []
  | Header s :: rest => lines_asgs (Some s) rest
  | Opt k v :: rest =>
      match cur with
      | Some s => (s, k, v) :: lines_asgs cur rest
      | None => []
      end
  | Garbage :: rest => lines_asgs cur rest
  end.

Definition effective (src : source) : list asg :=
  match src with
  | Lines _ ls => if has_header ls then lines_asgs None ls else []
  | _ => []
  end.

(* every assignment of the stack, lowest priority first *)
Definition all_asgs (defaults : list (list line)) (files : list fentry) (overrides : list asg) : list asg :=
  flat_map (fun d => effective (Lines false d)) defaults
  ++ flat_map effective (flat_map entry_sources files)
  ++ overrides.

Definition asg_is (s k : str) (a : asg) : bool := str_eqb s (fst (fst a)) && str_eqb k (snd (fst a)).

(* the value of the LAST assignment to (s, k) *)
Fixpoint last_setter (s k : str) (l : list asg) : option str :=
  match l with
  | [] => None
  | a :: rest =>
      match last_setter s k rest with
      | Some v => Some v
      | None => if asg_is s k a then Some (snd a) else None
      end
  end.

Definition lookup_raw (cfg : raw_config) (s k : str) : option str :=
  match assoc s cfg with Some d => assoc k d | None => None end.

(* observation equality used by the harness: same key -> value map (empty sections are
   not observed) *)
Definition sub_raw (a b : raw_config) : bool :=
  forallb (fun sd => forallb (fun kv => opt_eqb str_eqb (Some (snd kv)) (lookup_raw b (fst sd) (fst kv)))
                             (snd sd)) a.
Inductive lobs := LReturned (c : raw_config) | LRaised (e : lexn).
Definition lobs_eqb (m : res lexn raw_config) (o : lobs) : bool :=
  match m, o with
  | Ok c, LReturned c' => sub_raw c c' && sub_raw c' c
  | Raise DuplicateError, LRaised DuplicateError => true
  | Raise DecodeError, LRaised DecodeError => true
  | _, _ => false
  end.

Definition lcase := (list (list line) * list fentry * list asg * lobs)%type.
Definition lcase_ok (c : lcase) : bool :=
  let '(d, f, o, obs) := c in lobs_eqb (load d f o) obs.
(* monitor: the property predicate itself on the implementation's result *)
Definition last_setter_holds (c : lcase) : bool :=
  let '(d, f, o, obs) := c in
  match obs with
  | LRaised _ => false
  | LReturned cfg =>
      let all := all_asgs d f o in
      forallb (fun a => opt_eqb str_eqb (lookup_raw cfg (fst (fst a)) (snd (fst a)))
                                (last_setter (fst (fst a)) (snd (fst a)) all)) all
      && forallb (fun sd => forallb (fun kv => opt_eqb str_eqb (Some (snd kv))
                                                      (last_setter (fst sd) (fst kv) all)) (snd sd)) cfg
  end.
