From Coq Require Import ZArith List Bool Lia.
From Common Require Import Str.
From Config Require Import Escape.
Import ListNotations.
Open Scope Z_scope.

Lemma replace1_app c r a b : replace1 c r (a ++ b) = replace1 c r a ++ replace1 c r b.
Proof. unfold replace1. apply flat_map_app. Qed.

Lemma encode_flat_map s : encode s = flat_map esc s.
Proof.
  unfold encode. induction s as [|c s IH]; [reflexivity|].
  change (c :: s) with ([c] ++ s).
  rewrite !replace1_app, flat_map_app, IH. f_equal.
  unfold replace1, esc, BS, NL, TAB, CH_n, CH_t. cbn [flat_map app].
  destruct (c =? 92) eqn:E1; cbn [flat_map app Z.eqb]; [reflexivity|].
  destruct (c =? 10) eqn:E2; cbn [flat_map app Z.eqb]; [reflexivity|].
  destruct (c =? 9) eqn:E3; reflexivity.
Qed.

Lemma decode_encode_lemma s : decode (encode s) = s.
Proof.
  rewrite encode_flat_map. induction s as [|c s IH]; [reflexivity|].
  cbn [flat_map]. unfold esc at 1.
  destruct (c =? BS) eqn:E1.
  { apply Z.eqb_eq in E1. subst c. cbn. now rewrite IH. }
  destruct (c =? NL) eqn:E2.
  { apply Z.eqb_eq in E2. subst c. cbn. now rewrite IH. }
  destruct (c =? TAB) eqn:E3.
  { apply Z.eqb_eq in E3. subst c. cbn. now rewrite IH. }
  cbn [app decode]. rewrite E1, IH. reflexivity.
Qed.

(* Output of encode never contains a raw newline or tab: an encoded value fits on one
   logical INI line. *)
Lemma esc_no_raw c x : In x (esc c) -> x <> NL /\ x <> TAB.
Proof.
  unfold esc, BS, NL, TAB, CH_n, CH_t.
  destruct (c =? 92) eqn:E1; [cbn; lia|].
  destruct (c =? 10) eqn:E2; [cbn; lia|].
  destruct (c =? 9) eqn:E3; [cbn; lia|].
  cbn. intros [H|[]]. subst x. apply Z.eqb_neq in E2, E3. lia.
Qed.

Lemma encode_no_raw s : ~ In NL (encode s) /\ ~ In TAB (encode s).
Proof.
  rewrite encode_flat_map. split; intro H; apply in_flat_map in H;
    destruct H as [c [_ H]]; apply esc_no_raw in H; tauto.
Qed.

(* The pre-fix decoder (three sequential replaces) is NOT an inverse of encode: the
   two-character string backslash,n is the witness.  Kept as the record of the defect
   fixed in /repo (known_findings.json, C13 decode-sequential). *)
Lemma decode_sequential_refuted : exists s, decode_sequential (encode s) <> s.
Proof. exists [BS; CH_n]. vm_compute. discriminate. Qed.
