(* Model of mopidy.config.schemas (ConfigSchema.deserialize, MapConfigSchema.deserialize,
   _levenshtein, _did_you_mean) and mopidy.config._validate.

   Python dicts are association lists with dict semantics: [dset] overwrites in place or
   appends (insertion order), [dremove] is dict.pop(key, None).  Observations are
   compared as maps (order-insensitively), the theorems speak about lookups. *)
From Coq Require Import ZArith List Bool.
From Common Require Import Res Str.
From Config Require Import Escape Types.
Import ListNotations.
Open Scope Z_scope.

(* ------------------------------------------------------------- dicts *)

Fixpoint dset {B} (k : str) (v : B) (l : list (str * B)) : list (str * B) :=
  match l with
  | [] => [(k, v)]
  | (k', v') :: t => if str_eqb k k' then (k', v) :: t else (k', v') :: dset k v t
  end.

Fixpoint dremove {B} (k : str) (l : list (str * B)) : list (str * B) :=
  match l with
  | [] => []
  | (k', v') :: t => if str_eqb k k' then dremove k t else (k', v') :: dremove k t
  end.

Definition dget_default {B} (k : str) (l : list (str * B)) (d : B) : B :=
  match assoc k l with Some v => v | None => d end.

(* ------------------------------------------------------------- _levenshtein *)

(* One inner loop:  for j in 1..n: current[j] = min(previous[j]+1, current[j-1]+1,
   previous[j-1] + (a[j-1] != b[i-1])).   [prev] = previous[j-1:], [left] = current[j-1]. *)
Fixpoint lev_row (bi : Z) (a : str) (prev : list Z) (left : Z) : list Z :=
  match a, prev with
  | aj :: a', pdiag :: ((pup :: _) as prev') =>
      let v := Z.min (Z.min (pup + 1) (left + 1)) (pdiag + (if aj =? bi then 0 else 1)) in
      v :: lev_row bi a' prev' v
  | _, _ => []
  end.

Fixpoint lev_rows (a b : str) (i : Z) (prev : list Z) : list Z :=
  match b with
  | [] => prev
  | bi :: b' => lev_rows a b' (i + 1) (i :: lev_row bi a prev i)
  end.

Fixpoint z_range (start : Z) (n : nat) : list Z :=
  match n with O => [] | S n' => start :: z_range (start + 1) n' end.

(* n <= m is arranged by the swap at the top of _levenshtein *)
Definition lev_ordered (a b : str) : Z :=
  last (lev_rows a b 1 (z_range 0 (S (length a)))) 0.

Definition levenshtein (a b : str) : Z :=
  if (length b <? length a)%nat then lev_ordered b a else lev_ordered a b.

(* ------------------------------------------------------------- _did_you_mean *)

(* Python's < on str (code point lexicographic) *)
Fixpoint str_ltb (a b : str) : bool :=
  match a, b with
  | [], [] => false
  | [], _ :: _ => true
  | _ :: _, [] => false
  | x :: a', y :: b' => (x <? y) || ((x =? y) && str_ltb a' b')
  end.

(* tuple order on (distance, name) *)
Definition cand_ltb (c1 c2 : Z * str) : bool :=
  (fst c1 <? fst c2) || ((fst c1 =? fst c2) && str_ltb (snd c1) (snd c2)).

(* candidates.sort(); candidates[0]  =  the minimum (first of equals) *)
Fixpoint cand_min (best : Z * str) (l : list (Z * str)) : Z * str :=
  match l with
  | [] => best
  | c :: t => cand_min (if cand_ltb c best then c else best) t
  end.

Definition did_you_mean (o : oracles) (name : str) (choices : list str) : option str :=
  match choices with
  | [] => None
  | c0 :: cs =>
      let nm := py_lower o name in
      let cand c := (levenshtein nm c, c) in
      let best := cand_min (cand c0) (map cand cs) in
      if fst best <=? 3 then Some (snd best) else None
  end.

(* ------------------------------------------------------------- schemas *)

Inductive schema :=
| SConfig (name : str) (keys : list (str * ty))     (* ConfigSchema: ordered key -> type *)
| SMap (name : str) (t : ty).                       (* MapConfigSchema *)

Definition schema_name (s : schema) : str :=
  match s with SConfig n _ | SMap n _ => n end.

Inductive err :=
| EUnknown (suggestion : option str)   (* "unknown config key." [+ " Did you mean 'x'?"] *)
| EValue                               (* str(ValueError) of the failed deserialize *)
| ENotFound.                           (* "config key not found." *)

Definition rdict := list (str * val).
Definition edict := list (str * err).

Section Schema.
  Variable fx : bool.
  Variable o : oracles.

  (* first loop of ConfigSchema.deserialize *)
  Fixpoint cs_loop1 (keys : list (str * ty)) (values : list (str * str))
           (result : rdict) (errors : edict) : res exn (rdict * edict) :=
    match values with
    | [] => Ok (result, errors)
    | (k, v) :: rest =>
        match assoc k keys with
        | None =>
            (* KeyError: not in our schema.  `if suggestion:` drops an empty-string name *)
            let sugg := match did_you_mean o k (map fst keys) with
                        | Some [] => None
                        | s => s
                        end in
            cs_loop1 keys rest result (dset k (EUnknown sugg) errors)
        | Some t =>
            match deserialize_gen fx o t v with
            | Ok x => cs_loop1 keys rest (dset k x result) errors
            | Raise ValueError => cs_loop1 keys rest (dset k VNone result) (dset k EValue errors)
            | Raise e => Raise e
            | Diverge => Diverge
            end
        end
    end.

  Definition in_dict {B} (k : str) (d : list (str * B)) : bool :=
    match assoc k d with Some _ => true | None => false end.

  (* second loop: deprecated keys are popped, missing keys reported *)
  Fixpoint cs_loop2 (keys : list (str * ty)) (result : rdict) (errors : edict) : rdict * edict :=
    match keys with
    | [] => (result, errors)
    | (k, t) :: rest =>
        if is_deprecated t then cs_loop2 rest (dremove k result) errors
        else if negb (in_dict k result) && negb (in_dict k errors)
             then cs_loop2 rest (dset k VNone result) (dset k ENotFound errors)
             else cs_loop2 rest result errors
    end.

  Fixpoint map_loop (t : ty) (values : list (str * str)) (result : rdict) (errors : edict)
    : res exn (rdict * edict) :=
    match values with
    | [] => Ok (result, errors)
    | (k, v) :: rest =>
        match deserialize_gen fx o t v with
        | Ok x => map_loop t rest (dset k x result) errors
        | Raise ValueError => map_loop t rest (dset k VNone result) (dset k EValue errors)
        | Raise e => Raise e
        | Diverge => Diverge
        end
    end.

  Definition schema_deser (s : schema) (values : list (str * str)) : res exn (rdict * edict) :=
    match s with
    | SConfig _ keys =>
        rbind (cs_loop1 keys values [] []) (fun re => Ok (cs_loop2 keys (fst re) (snd re)))
    | SMap _ t => map_loop t values [] []
    end.

  Definition raw_config := list (str * list (str * str)).
  Definition config := list (str * rdict).
  Definition errmap := list (str * edict).

  (* config._validate *)
  Fixpoint validate_loop (raw : raw_config) (schemas : list schema) (cfg : config)
           (errs : errmap) : res exn (config * errmap) :=
    match schemas with
    | [] => Ok (cfg, errs)
    | s :: rest =>
        let values := dget_default (schema_name s) raw [] in
        match schema_deser s values with
        | Ok (result, error) =>
            let errs' := if is_nil error then errs else dset (schema_name s) error errs in
            let cfg' := if is_nil result then cfg else dset (schema_name s) result cfg in
            validate_loop raw rest cfg' errs'
        | Raise e => Raise e
        | Diverge => Diverge
        end
    end.

  Definition validate (raw : raw_config) (schemas : list schema) : res exn (config * errmap) :=
    validate_loop raw schemas [] [].
End Schema.

(* ------------------------------------------------------------- observation equality *)

Definition err_eqb (a b : err) : bool :=
  match a, b with
  | EUnknown s, EUnknown s' => opt_eqb str_eqb s s'
  | EValue, EValue | ENotFound, ENotFound => true
  | _, _ => false
  end.

(* equality of two dicts as maps *)
Definition dict_eqb {B} (eqb : B -> B -> bool) (a b : list (str * B)) : bool :=
  forallb (fun kv => opt_eqb eqb (Some (snd kv)) (assoc (fst kv) b)) a
  && forallb (fun kv => opt_eqb eqb (Some (snd kv)) (assoc (fst kv) a)) b.

Definition config_eqb : config -> config -> bool := dict_eqb (dict_eqb val_eqb).
Definition errmap_eqb : errmap -> errmap -> bool := dict_eqb (dict_eqb err_eqb).

(* The harness reports what the implementation did as: the (config, errors) pair, or the
   class of the escaping exception. *)
Inductive vobs := OReturned (c : config) (e : errmap) | OEscaped (e : exn).

Definition vobs_eqb (m : res exn (config * errmap)) (obs : vobs) : bool :=
  match m, obs with
  | Ok (c, e), OReturned c' e' => config_eqb c c' && errmap_eqb e e'
  | Raise RuntimeError, OEscaped RuntimeError => true
  | _, _ => false
  end.

Inductive dobs := DReturned (v : val) | DRaised (e : exn).
Definition dobs_eqb (m : dres) (obs : dobs) : bool :=
  match m, obs with
  | Ok v, DReturned v' => val_eqb v v'
  | Raise ValueError, DRaised ValueError => true
  | Raise RuntimeError, DRaised RuntimeError => true
  | _, _ => false
  end.
