(* Specification-side definitions for C12: what "a value of the declared type that
   satisfies the declared constraints" means ([wf]), when a raw text counts as "left
   empty", and the per-key entry functions the validation result is proved equal to. *)
From Coq Require Import ZArith List Bool.
From Common Require Import Res Str.
From Config Require Import Escape Types Schema.
Import ListNotations.
Open Scope Z_scope.

Definition z_in_range (z : Z) (mn mx : option Z) : Prop :=
  match mn with Some m => m <= z | None => True end
  /\ match mx with Some m => z <= m | None => True end.

(* [wf o t v]: v (not None) is a value of type t within t's constraints. *)
Fixpoint wf (o : oracles) (t : ty) (v : val) {struct t} : Prop :=
  match t with
  | TString _ ch tr =>
      match tr, v with
      | None, VStr s => s <> [] /\ in_choices_str s ch = true
      | Some f, VTStr s s' => s <> [] /\ s' = apply_tr o f s /\ in_choices_str s' ch = true
      | _, _ => False
      end
  | TSecret _ tr =>
      match tr, v with
      | None, VStr s => s <> []
      | Some f, VTStr s s' => s <> [] /\ s' = apply_tr o f s
      | _, _ => False
      end
  | TInteger _ mn mx ch =>
      match v with
      | VInt z => z_in_range z mn mx /\ in_choices_z z ch = true
      | _ => False
      end
  | TFloat _ mn mx =>
      match v with VFloat f => fl_in_range f mn mx = true | _ => False end
  | TBoolean _ => match v with VBool _ => True | _ => False end
  | TPair _ _ _ ta tb =>
      match v with
      | VPair a b => ((a = VNone /\ ty_optional ta = true) \/ wf o ta a)
                     /\ ((b = VNone /\ ty_optional tb = true) \/ wf o tb b)
      | _ => False
      end
  | TList opt uq sub =>
      match v with
      | VTuple l => uq = false /\ (opt = false -> l <> [])
                    /\ Forall (fun x => (x = VNone /\ ty_optional sub = true) \/ wf o sub x) l
      | VSet l => uq = true /\ (opt = false -> l <> [])
                  /\ Forall (fun x => (x = VNone /\ ty_optional sub = true) \/ wf o sub x) l
      | _ => False
      end
  | TLogColor => match v with VStr s => mem_str s log_colors = true | _ => False end
  | TLogLevel => match v with VInt n => In n (map snd log_levels) | _ => False end
  | THostname _ =>
      match v with
      | VStr s => s <> [] /\ (o_resolve o s = ROk \/ starts_with s_unix s = true)
      | _ => False
      end
  | TPath _ =>
      match v with
      | VPath orig p => orig <> [] /\ o_expand o orig = XOk p
      | _ => False
      end
  | TDeprecated => v = VDeprecated
  end.

(* "left empty": what the type looks at is the empty string *)
Definition raw_empty (t : ty) (raw : str) : bool :=
  match t with
  | TString _ _ _ | TSecret _ _ | TPair _ _ _ _ _ | THostname _ | TPath _ =>
      is_nil (strip (decode raw))
  | TInteger _ _ _ _ | TFloat _ _ _ | TBoolean _ => is_nil (decode raw)
  | _ => false
  end.

(* no nan among the declared float bounds (a nan bound declares no range at all) *)
Fixpoint sane_ty (t : ty) : bool :=
  match t with
  | TFloat _ mn mx =>
      negb (match mn with Some FNan => true | _ => false end)
      && negb (match mx with Some FNan => true | _ => false end)
  | TPair _ _ _ ta tb => sane_ty ta && sane_ty tb
  | TList _ _ sub => sane_ty sub
  | _ => true
  end.

(* no Float with a declared minimum or maximum anywhere in the type: the types whose
   soundness does not depend on what float() answers for "nan" *)
Fixpoint no_bounded_float (t : ty) : bool :=
  match t with
  | TFloat _ mn mx => match mn, mx with None, None => true | _, _ => false end
  | TPair _ _ _ ta tb => no_bounded_float ta && no_bounded_float tb
  | TList _ _ sub => no_bounded_float sub
  | _ => true
  end.

Definition no_nan (o : oracles) : Prop := forall s, o_float o s <> FOk FNan.

(* ------------------------------------------------------------------ per-key entries *)

Definition suggestion (o : oracles) (k : str) (keys : list (str * ty)) : option str :=
  match did_you_mean o k (map fst keys) with
  | Some [] => None
  | s => s
  end.

(* (result.get(k), errors.get(k)) of ConfigSchema.deserialize as a function of the schema,
   and of values.get(k) ONLY. *)
Definition entry (o : oracles) (keys : list (str * ty)) (rawv : option str) (k : str)
  : option val * option err :=
  match assoc k keys with
  | Some t =>
      if is_deprecated t then (None, None)
      else match rawv with
           | None => (Some VNone, Some ENotFound)
           | Some r => match deserialize o t r with
                       | Ok v => (Some v, None)
                       | _ => (Some VNone, Some EValue)
                       end
           end
  | None =>
      match rawv with
      | None => (None, None)
      | Some _ => (None, Some (EUnknown (suggestion o k keys)))
      end
  end.

Definition map_entry (o : oracles) (t : ty) (rawv : option str) : option val * option err :=
  match rawv with
  | None => (None, None)
  | Some r => match deserialize o t r with
              | Ok v => (Some v, None)
              | _ => (Some VNone, Some EValue)
              end
  end.

Definition raw_get (raw : raw_config) (sec k : str) : option str :=
  assoc k (dget_default sec raw []).

Definition ventry (o : oracles) (s : schema) (raw : raw_config) (k : str) : option val * option err :=
  match s with
  | SConfig n keys => entry o keys (raw_get raw n k) k
  | SMap n t => map_entry o t (raw_get raw n k)
  end.

Definition lookup2 {B} (m : list (str * list (str * B))) (sec k : str) : option B :=
  match assoc sec m with Some d => assoc k d | None => None end.
