(* The INI line syntax round trip: what config._format writes for a section
   ("[name]" then "key = value" lines) is parsed back by the configparser model into
   exactly those keys and values. *)
From Coq Require Import ZArith List Bool Lia.
From Common Require Import Res Str.
From Config Require Import Escape Types Schema Layers Ini Proofs_Serialize Proofs_List.
Import ListNotations.
Open Scope Z_scope.

(* ------------------------------------------------------------------ strip over concatenations *)

Lemma lstrip_app_l x y : lstrip x <> [] -> lstrip (x ++ y) = lstrip x ++ y.
Proof.
  induction x as [|c x IH]; intros H; [cbn in H; congruence|]. cbn [app lstrip] in *.
  destruct (py_isspace c); [now apply IH|reflexivity].
Qed.

Lemma lstrip_app_blank x y : lstrip x = [] -> lstrip (x ++ y) = lstrip y.
Proof.
  induction x as [|c x IH]; intros H; [reflexivity|]. cbn [app lstrip] in *.
  destruct (py_isspace c); [now apply IH|discriminate].
Qed.

Lemma rstrip_app_r a b : rstrip b <> [] -> rstrip (a ++ b) = a ++ rstrip b.
Proof.
  unfold rstrip. intros H. rewrite rev_app_distr, lstrip_app_l, rev_app_distr, rev_involutive; [reflexivity|].
  intros E. apply H. now rewrite E.
Qed.

Lemma rstrip_app_blank a b : rstrip b = [] -> rstrip (a ++ b) = rstrip a.
Proof.
  unfold rstrip. intros H. rewrite rev_app_distr, lstrip_app_blank; [reflexivity|].
  apply (f_equal (@rev Z)) in H. now rewrite rev_involutive in H.
Qed.

Definition nows (s : str) : Prop := forall c, In c s -> py_isspace c = false.

Lemma lstrip_nows s : nows s -> lstrip s = s.
Proof. destruct s as [|c t]; intros H; [reflexivity|]. cbn [lstrip]. now rewrite (H c (or_introl eq_refl)). Qed.

Lemma rstrip_nows s : nows s -> rstrip s = s.
Proof.
  intros H. unfold rstrip. rewrite lstrip_nows, rev_involutive; [reflexivity|].
  intros c IN. apply H. now apply in_rev.
Qed.

Lemma strip_fix_parts v : strip v = v -> lstrip v = v /\ rstrip v = v.
Proof.
  intros H. assert (lstrip v = v) as L.
  { rewrite <- H at 1. unfold strip. rewrite lstrip_rstrip_lstrip. exact H. }
  split; [exact L|]. unfold strip in H. now rewrite L in H.
Qed.

(* ------------------------------------------------------------------ the pieces of one physical line *)

Definition no_char (c : Z) (s : str) : Prop := ~ In c s.

Lemma cut_inline_app_nosemi k : forall p rest,
  no_char SEMI k -> k <> [] ->
  cut_inline p (k ++ rest)
  = (k ++ fst (cut_inline (py_isspace (last k 0)) rest), snd (cut_inline (py_isspace (last k 0)) rest)).
Proof.
  induction k as [|c k IH]; intros p rest NS NE; [congruence|].
  assert (c =? SEMI = false) as E by (apply Z.eqb_neq; intros ->; apply NS; now left).
  cbn [app cut_inline]. rewrite E. cbn [andb].
  destruct k as [|d k'].
  - cbn [app last]. destruct (cut_inline (py_isspace c) rest). reflexivity.
  - rewrite IH; [|intros H; apply NS; now right|discriminate].
    change (last (c :: d :: k') 0) with (last (d :: k') 0). reflexivity.
Qed.

Lemma split_delim_app k : forall acc d rest,
  no_char EQ k -> no_char COLON k -> (d = EQ \/ d = COLON) ->
  split_delim acc (k ++ d :: rest) = Some (rev acc ++ k, rest).
Proof.
  induction k as [|c k IH]; intros acc d rest NE NC D; cbn [app split_delim].
  - destruct D as [-> | ->]; cbn; now rewrite app_nil_r.
  - assert ((c =? EQ) || (c =? COLON) = false) as E.
    { apply orb_false_iff. split; apply Z.eqb_neq; intros ->; [apply NE|apply NC]; now left. }
    rewrite E. rewrite (IH (c :: acc) d rest).
    + cbn [rev]. now rewrite <- app_assoc.
    + intros H. apply NE. now right.
    + intros H. apply NC. now right.
    + exact D.
Qed.

Lemma indent_of_head c t i : py_isspace c = false -> indent_of (c :: t) i = i.
Proof. intros H. cbn [indent_of]. now rewrite H. Qed.

(* a config key as _format writes it: an identifier *)
Record key_safe (o : oracles) (k : str) : Prop := {
  ks_ne : k <> [];
  ks_nows : nows k;
  ks_nosemi : no_char SEMI k;
  ks_noeq : no_char EQ k;
  ks_nocolon : no_char COLON k;
  ks_head : forall c t, k = c :: t -> c <> HASHC /\ c <> SEMI /\ c <> LBRACK;
  ks_lower : py_lower o k = k;
}.

(* a one-line value the INI syntax can carry: empty, or stripped, and no ";" that starts a
   comment (at its start -- it follows the blank _format writes -- or after whitespace) *)
Record val_safe (v : str) : Prop := {
  vs_strip : v = [] \/ (v <> [] /\ strip v = v);
  vs_nocomment : snd (cut_inline true v) = false;
  vs_nonl : no_char NL v;
}.

Lemma cut_inline_nocut p v : snd (cut_inline p v) = false -> fst (cut_inline p v) = v.
Proof.
  revert p. induction v as [|c v IH]; intros p H; [reflexivity|]. cbn [cut_inline] in *.
  destruct ((c =? SEMI) && p); [discriminate|].
  destruct (cut_inline (py_isspace c) v) eqn:E. cbn [fst snd] in *. f_equal.
  specialize (IH (py_isspace c)). rewrite E in IH. now apply IH.
Qed.

Definition s_eqsp : str := [32; 61; 32].        (* " = " *)

Lemma last_nows_notspace k : k <> [] -> nows k -> py_isspace (last k 0) = false.
Proof.
  intros NE NW. apply NW. destruct k as [|c k]; [congruence|].
  clear NE NW. revert c. induction k as [|d k IH]; intros c; [now left|]. right. apply IH.
Qed.

(* one "key = value" line *)
Lemma ini_step_option o st sec k v :
  p_sect st = Some sec -> p_indent st = 0 ->
  key_safe o k -> val_safe v ->
  ini_step o st (k ++ s_eqsp ++ v)
  = SCont {| p_sect := Some sec; p_opt := Some (k, [v]); p_indent := 0; p_out := flush st |}.
Proof.
  intros PS PI K V. destruct K as [NE NW NSEMI NEQ NCOL HEAD LOW]. destruct V as [VS VC _].
  destruct k as [|c k'] eqn:EK; [congruence|]. rewrite <- EK in *.
  assert (py_isspace c = false) as C0 by (apply NW; rewrite EK; now left).
  destruct (HEAD c k' EK) as (H1 & H2 & H3).
  unfold ini_step.
  (* no inline comment *)
  rewrite cut_inline_app_nosemi by assumption.
  rewrite (last_nows_notspace k NE NW). unfold s_eqsp. cbn [app cut_inline].
  change (32 =? SEMI) with false. change (61 =? SEMI) with false. cbn [andb].
  change (py_isspace 32) with true. change (py_isspace 61) with false.
  destruct (cut_inline true v) as [kept cut] eqn:CV. cbn [snd] in VC. subst cut.
  assert (kept = v) as -> by (pose proof (cut_inline_nocut true v) as Q; rewrite CV in Q; now apply Q).
  cbn [fst snd].
  (* the stripped line *)
  assert (strip (k ++ 32 :: 61 :: 32 :: v) = k ++ 32 :: 61 :: (if is_nil v then [] else 32 :: v)) as SL.
  { unfold strip. rewrite lstrip_app_l by (rewrite lstrip_nows by assumption; assumption).
    rewrite lstrip_nows by assumption.
    destruct VS as [-> | (VN & SV)].
    - cbn [is_nil]. change (k ++ [32; 61; 32]) with (k ++ [32; 61] ++ [32]).
      rewrite app_assoc, rstrip_app_blank by reflexivity.
      rewrite rstrip_app_r by (cbv; discriminate). reflexivity.
    - destruct (strip_fix_parts v SV) as [LV RV].
      destruct v as [|v0 v']; [congruence|]. cbn [is_nil].
      change (k ++ 32 :: 61 :: 32 :: v0 :: v') with (k ++ [32; 61; 32] ++ (v0 :: v')).
      rewrite app_assoc, rstrip_app_r by (rewrite RV; discriminate). rewrite RV, <- app_assoc. reflexivity. }
  assert (starts_comment (strip (k ++ 32 :: 61 :: 32 :: v)) = false) as SC.
  { rewrite SL, EK. cbn [app starts_comment]. apply orb_false_iff. split; apply Z.eqb_neq; assumption. }
  change (k ++ 32 :: 61 :: 32 :: v) with (k ++ 32 :: 61 :: 32 :: v) in *.
  cbn [app] in SC |- *. rewrite SC. cbn [orb]. rewrite SL.
  assert (is_nil (k ++ 32 :: 61 :: (if is_nil v then [] else 32 :: v)) = false) as NN
    by (rewrite EK; reflexivity).
  rewrite NN.
  assert (indent_of (k ++ 32 :: 61 :: 32 :: v) 0 = 0) as IND by (rewrite EK; cbn [app]; now apply indent_of_head).
  rewrite IND.
  assert ((match p_sect st, p_opt st with
           | Some _, Some (k0, _) => negb (is_nil k0) && (p_indent st <? 0)
           | _, _ => false end) = false) as CONT.
  { rewrite PS, PI. destruct (p_opt st) as [[k0 vs]|]; [|reflexivity]. now rewrite andb_false_r. }
  rewrite CONT.
  assert (section_header (k ++ 32 :: 61 :: (if is_nil v then [] else 32 :: v)) = None) as SH.
  { rewrite EK. cbn [app section_header]. apply Z.eqb_neq in H3. now rewrite H3. }
  rewrite SH, PS.
  change (k ++ 32 :: 61 :: (if is_nil v then [] else 32 :: v))
    with (k ++ 32 :: 61 :: (if is_nil v then [] else 32 :: v)).
  assert (split_delim [] (k ++ 32 :: 61 :: (if is_nil v then [] else 32 :: v))
          = Some (k ++ [32], if is_nil v then [] else 32 :: v)) as SD.
  { change (k ++ 32 :: 61 :: (if is_nil v then [] else 32 :: v))
      with (k ++ [32] ++ 61 :: (if is_nil v then [] else 32 :: v)).
    rewrite app_assoc, split_delim_app; [reflexivity| | |now left].
    - intros H. apply in_app_or in H. destruct H as [H|[H|[]]]; [now apply NEQ|discriminate].
    - intros H. apply in_app_or in H. destruct H as [H|[H|[]]]; [now apply NCOL|discriminate]. }
  rewrite SD.
  assert (rstrip (k ++ [32]) = k) as RK by (rewrite rstrip_app_blank by reflexivity; now apply rstrip_nows).
  rewrite RK, LOW.
  assert (is_nil k = false) as NK by (rewrite EK; reflexivity). rewrite NK.
  assert (strip (if is_nil v then [] else 32 :: v) = v) as SV2.
  { destruct VS as [-> | (VN & SV)]; [reflexivity|]. destruct v; [congruence|]. cbn [is_nil].
    unfold strip. cbn [lstrip]. change (py_isspace 32) with true. cbv iota. exact SV. }
  do 5 f_equal. exact SV2.
Qed.

(* the "[name]" line *)
Lemma upto_last_rbrack_snoc name : upto_last_rbrack (name ++ [RBRACK]) = Some name.
Proof.
  induction name as [|c n IH]; [reflexivity|]. cbn [app upto_last_rbrack]. now rewrite IH.
Qed.

Record sect_safe (name : str) : Prop := {
  ss_ne : name <> [];
  ss_nows : nows name;
  ss_nosemi : no_char SEMI name;
}.

Lemma ini_step_header o st name :
  p_indent st = 0 -> sect_safe name ->
  ini_step o st (LBRACK :: name ++ [RBRACK])
  = SCont {| p_sect := Some name; p_opt := None; p_indent := 0; p_out := Header name :: flush st |}.
Proof.
  intros PI [NE NW NS]. unfold ini_step.
  assert (nows (LBRACK :: name ++ [RBRACK])) as NWL.
  { intros c [<-|H]; [reflexivity|]. apply in_app_or in H. destruct H as [H|[<-|[]]]; [now apply NW|reflexivity]. }
  assert (no_char SEMI (LBRACK :: name ++ [RBRACK])) as NSL.
  { intros [H|H]; [discriminate|]. apply in_app_or in H. destruct H as [H|[H|[]]]; [now apply NS|discriminate]. }
  assert (cut_inline true (LBRACK :: name ++ [RBRACK]) = (LBRACK :: name ++ [RBRACK], false)) as CI.
  { pose proof (cut_inline_app_nosemi (LBRACK :: name ++ [RBRACK]) true [] NSL ltac:(discriminate)) as Q.
    rewrite app_nil_r in Q. rewrite Q. cbn [cut_inline fst snd]. now rewrite app_nil_r. }
  rewrite CI.
  assert (strip (LBRACK :: name ++ [RBRACK]) = LBRACK :: name ++ [RBRACK]) as SL.
  { unfold strip. rewrite lstrip_nows, rstrip_nows by assumption. reflexivity. }
  rewrite SL. cbn [starts_comment]. change (LBRACK =? HASHC) with false. change (LBRACK =? SEMI) with false.
  cbn [orb is_nil]. rewrite indent_of_head by reflexivity. rewrite PI.
  assert ((match p_sect st, p_opt st with
           | Some _, Some (k0, _) => negb (is_nil k0) && (0 <? 0)
           | _, _ => false end) = false) as CONT.
  { destruct (p_sect st); [|reflexivity]. destruct (p_opt st) as [[k0 vs]|]; [|reflexivity]. now rewrite andb_false_r. }
  rewrite CONT. cbn [section_header]. change (LBRACK =? LBRACK) with true. cbv iota.
  rewrite upto_last_rbrack_snoc. destruct name; [congruence|]. reflexivity.
Qed.

(* the blank line _format puts after a section *)
Lemma ini_step_blank o st :
  ini_step o st []
  = SCont match p_sect st, p_opt st with
          | Some _, Some (k, vs) =>
              if negb (is_nil k) then {| p_sect := p_sect st; p_opt := Some (k, [] :: vs); p_indent := p_indent st; p_out := p_out st |}
              else st
          | _, _ => st
          end.
Proof.
  unfold ini_step. cbn [cut_inline]. change (strip []) with (@nil Z). cbn [starts_comment is_nil orb negb andb].
  destruct (p_sect st); [|reflexivity]. destruct (p_opt st) as [[k vs]|]; [|reflexivity].
  destruct (is_nil k); reflexivity.
Qed.

Lemma rstrip_val v : val_safe v -> rstrip v = v.
Proof. intros [[-> | (NE & SV)] _ _]; [reflexivity|]. now destruct (strip_fix_parts v SV). Qed.

(* ------------------------------------------------------------------ a whole section as _format writes it *)

Definition opt_line (kv : str * str) : str := fst kv ++ s_eqsp ++ snd kv.
Definition block_lines (name : str) (kvs : list (str * str)) : list str :=
  (LBRACK :: name ++ [RBRACK]) :: map opt_line kvs ++ [[]].
Definition block_events (name : str) (kvs : list (str * str)) : list line :=
  Header name :: map (fun kv => Opt (fst kv) (snd kv)) kvs.

Definition kv_safe (o : oracles) (kv : str * str) : Prop := key_safe o (fst kv) /\ val_safe (snd kv).

(* state after the option lines of a section *)
Lemma ini_lines_options o sec kvs : forall st,
  p_sect st = Some sec -> p_indent st = 0 -> Forall (kv_safe o) kvs ->
  exists st', ini_lines o st (map opt_line kvs) = Some st'
    /\ p_sect st' = Some sec /\ p_indent st' = 0
    /\ flush st' = rev (map (fun kv => Opt (fst kv) (snd kv)) kvs) ++ flush st
    /\ (kvs = [] -> st' = st)
    /\ (forall kv rest, rev kvs = kv :: rest -> p_opt st' = Some (fst kv, [snd kv]) /\ p_out st' = rev (map (fun kv => Opt (fst kv) (snd kv)) (rev rest)) ++ flush st).
Proof.
  induction kvs as [|[k v] kvs IH]; intros st PS PI F.
  - exists st. split; [reflexivity|]. split; [exact PS|]. split; [exact PI|]. split; [reflexivity|].
    split; [reflexivity|]. intros kv0 rest0 H0. discriminate.
  - inversion F as [|? ? [KS VS] F']; subst. cbn [map ini_lines]. unfold opt_line at 1. cbn [fst snd].
    rewrite (ini_step_option o st sec k v PS PI KS VS).
    set (st1 := {| p_sect := Some sec; p_opt := Some (k, [v]); p_indent := 0; p_out := flush st |}).
    destruct (IH st1 eq_refl eq_refl F') as (st' & L & S' & I' & FL & NIL & LAST).
    exists st'. split; [exact L|]. split; [exact S'|]. split; [exact I'|].
    assert (flush st1 = Opt k v :: flush st) as F1.
    { unfold flush at 1. cbn [st1 p_opt p_out join rev app]. now rewrite (rstrip_val v VS). }
    split; [rewrite FL, F1; cbn [map rev fst snd]; now rewrite <- app_assoc|].
    split; [discriminate|].
    intros kv0 rest0 H. cbn [rev] in H.
    destruct kvs as [|kv2 kvs2].
    + cbn in H. injection H as <- <-. rewrite (NIL eq_refl). cbn. auto.
    + destruct (rev (kv2 :: kvs2)) as [|x xs] eqn:R.
      { apply (f_equal (@length _)) in R. rewrite rev_length in R. discriminate. }
      cbn [app] in H. injection H as <- <-.
      destruct (LAST x xs eq_refl) as [O1 O2]. split; [exact O1|].
      rewrite O2, F1, rev_app_distr. cbn [rev app map fst snd]. now rewrite <- app_assoc.
Qed.

(* one section: header, options, blank line *)
Lemma ini_lines_block o name kvs st :
  p_indent st = 0 -> sect_safe name -> Forall (kv_safe o) kvs ->
  exists st', ini_lines o st (block_lines name kvs) = Some st'
    /\ p_indent st' = 0
    /\ flush st' = rev (block_events name kvs) ++ flush st.
Proof.
  intros PI SS F. unfold block_lines. cbn [ini_lines]. rewrite (ini_step_header o st name PI SS).
  set (st1 := {| p_sect := Some name; p_opt := None; p_indent := 0; p_out := Header name :: flush st |}).
  assert (forall a b stx, ini_lines o stx (a ++ b) = match ini_lines o stx a with Some s' => ini_lines o s' b | None => None end) as APP.
  { induction a as [|l a IHa]; intros b stx; [reflexivity|]. cbn [app ini_lines]. destruct (ini_step o stx l); [apply IHa|reflexivity]. }
  rewrite APP.
  destruct (ini_lines_options o name kvs st1 eq_refl eq_refl F) as (st2 & L & S2 & I2 & FL & NIL & LAST).
  rewrite L. cbn [ini_lines]. rewrite ini_step_blank, S2.
  assert (flush st1 = Header name :: flush st) as F1 by reflexivity.
  destruct (rev kvs) as [|[k v] rest] eqn:R.
  - assert (kvs = []) as -> by (apply (f_equal (@rev _)) in R; now rewrite rev_involutive in R).
    rewrite (NIL eq_refl). cbn [st1 p_opt]. eexists. split; [reflexivity|]. split; [reflexivity|].
    cbn [block_events map rev app]. rewrite F1. reflexivity.
  - destruct (LAST (k, v) rest eq_refl) as [O1 O2]. rewrite O1. cbn [fst snd].
    assert (Forall (kv_safe o) (rev kvs)) as FR by (apply Forall_rev; exact F).
    rewrite R in FR. inversion FR as [|? ? [KS VS] _]; subst. cbn [fst snd] in *.
    assert (is_nil k = false) as NK by (destruct KS as [NE]; destruct k; [congruence|reflexivity]).
    rewrite NK. cbn [negb]. eexists. split; [reflexivity|]. split; [exact I2|].
    unfold flush at 1. cbn [p_opt p_out].
    change (rstrip (join [NL] (rev [[]; v]))) with (rstrip (v ++ [NL])).
    rewrite rstrip_app_blank by reflexivity. rewrite (rstrip_val v VS), O2.
    cbn [block_events rev]. rewrite F1.
    assert (kvs = rev rest ++ [(k, v)]) as ->.
    { apply (f_equal (@rev _)) in R. rewrite rev_involutive in R. exact R. }
    rewrite map_app, rev_app_distr. cbn [map rev app fst snd]. rewrite <- app_assoc. reflexivity.
Qed.

(* a whole file: any number of sections *)
Lemma ini_lines_blocks o blocks : forall st,
  p_indent st = 0 ->
  Forall (fun b => sect_safe (fst b) /\ Forall (kv_safe o) (snd b)) blocks ->
  exists st', ini_lines o st (flat_map (fun b => block_lines (fst b) (snd b)) blocks) = Some st'
    /\ p_indent st' = 0
    /\ flush st' = rev (flat_map (fun b => block_events (fst b) (snd b)) blocks) ++ flush st.
Proof.
  induction blocks as [|[name kvs] blocks IH]; intros st PI F.
  - exists st. cbn. auto.
  - inversion F as [|? ? [SS FK] F']; subst. cbn [flat_map fst snd].
    assert (forall a b stx, ini_lines o stx (a ++ b) = match ini_lines o stx a with Some s' => ini_lines o s' b | None => None end) as APP.
    { induction a as [|l a IHa]; intros b stx; [reflexivity|]. cbn [app ini_lines]. destruct (ini_step o stx l); [apply IHa|reflexivity]. }
    rewrite APP. destruct (ini_lines_block o name kvs st PI SS FK) as (st1 & L1 & I1 & F1). rewrite L1.
    destruct (IH st1 I1 F') as (st2 & L2 & I2 & F2). exists st2. split; [exact L2|]. split; [exact I2|].
    rewrite F2, F1, rev_app_distr, <- app_assoc. reflexivity.
Qed.

Lemma split1_join_lines lines :
  lines <> [] -> Forall (no_char NL) lines -> split1 NL (join [NL] lines) = lines.
Proof.
  induction lines as [|l ls IH]; intros NE F; [congruence|]. inversion F as [|? ? NL1 F']; subst.
  destruct ls as [|l2 ls'].
  - cbn [join]. now apply split1_single.
  - change (join [NL] (l :: l2 :: ls')) with (l ++ [NL] ++ join [NL] (l2 :: ls')).
    cbn [app]. rewrite split1_app_sep by assumption. rewrite IH; [reflexivity|discriminate|assumption].
Qed.

(* THE INI ROUND TRIP: the text made of "[section]" / "key = value" / blank lines that
   config._format writes is parsed back into exactly those sections, keys and values. *)
Definition ini_text (blocks : list (str * list (str * str))) : str :=
  join [NL] (flat_map (fun b => block_lines (fst b) (snd b)) blocks).

Lemma no_nl_nows s : nows s -> no_char NL s.
Proof. intros H IN. specialize (H _ IN). discriminate. Qed.

Lemma parse_ini_format_blocks o blocks :
  blocks <> [] ->
  Forall (fun b => sect_safe (fst b) /\ Forall (kv_safe o) (snd b)) blocks ->
  parse_ini o (ini_text blocks) = PLines (flat_map (fun b => block_events (fst b) (snd b)) blocks).
Proof.
  intros NE F. unfold parse_ini, ini_text.
  rewrite split1_join_lines.
  - destruct (ini_lines_blocks o blocks pst0 eq_refl F) as (st & L & _ & FL). rewrite L.
    rewrite FL. cbn [flush pst0 p_opt p_out]. now rewrite app_nil_r, rev_involutive.
  - destruct blocks as [|[n k] b]; [congruence|]. cbn [flat_map block_lines]. discriminate.
  - apply Forall_forall. intros l IN. apply in_flat_map in IN. destruct IN as ([name kvs] & INB & IN).
    rewrite Forall_forall in F. destruct (F _ INB) as [[NEn NWn NSn] FK]. cbn [fst snd] in *.
    unfold block_lines in IN. destruct IN as [<-|IN].
    + intros [H|H]; [discriminate|]. apply in_app_or in H. destruct H as [H|[H|[]]]; [|discriminate].
      specialize (NWn _ H). discriminate.
    + apply in_app_or in IN. destruct IN as [IN|[<-|[]]]; [|intros []].
      apply in_map_iff in IN. destruct IN as ([k v] & <- & INK). rewrite Forall_forall in FK.
      destruct (FK _ INK) as [KS VS]. cbn [fst snd] in *. unfold opt_line. cbn [fst snd].
      intros H. apply in_app_or in H. destruct H as [H|H].
      * destruct KS as [_ NWk]. specialize (NWk _ H). discriminate.
      * unfold s_eqsp in H. cbn [app] in H. destruct H as [H|[H|[H|H]]]; try discriminate.
        destruct VS as [_ _ NNL]. now apply NNL.
Qed.

(* ... and therefore the raw config one file yields is the fold of those assignments *)
Lemma ini_config_format_blocks o blocks :
  blocks <> [] ->
  Forall (fun b => sect_safe (fst b) /\ Forall (kv_safe o) (snd b)) blocks ->
  ini_config o (ini_text blocks)
  = Some (fold_left set2 (flat_map (fun b => map (fun kv => (fst b, fst kv, snd kv)) (snd b)) blocks) []).
Proof.
  intros NE F. unfold ini_config. rewrite parse_ini_format_blocks by assumption. f_equal. f_equal.
  assert (forall bs cur, lines_asgs cur (flat_map (fun b => block_events (fst b) (snd b)) bs)
                         = flat_map (fun b => map (fun kv => (fst b, fst kv, snd kv)) (snd b)) bs) as G.
  { induction bs as [|[name kvs] bs IH]; intros cur; [reflexivity|]. cbn [flat_map fst snd block_events lines_asgs app].
    assert (forall l rest, lines_asgs (Some name) (map (fun kv : str * str => Opt (fst kv) (snd kv)) l ++ rest)
                           = map (fun kv => (name, fst kv, snd kv)) l ++ lines_asgs (Some name) rest) as H.
    { induction l as [|[k v] l IHl]; intros rest; [reflexivity|]. cbn [map app lines_asgs fst snd]. now rewrite IHl. }
    rewrite H, IH. reflexivity. }
  apply G.
Qed.

(* non-vacuity *)
Example ex_ini_roundtrip :
  parse_ini (Build_oracles (fun _ => IValueError) (fun _ => FValueError) (fun s => XOk s) (fun s => s)
                           (fun _ => ROSError) (fun c => [c]) (fun _ s => s))
            (ini_text [([97], [([107], [118; 32; 35; 49]); ([122], [])]); ([98], [])])
  = PLines [Header [97]; Opt [107] [118; 32; 35; 49]; Opt [122] []; Header [98]].
Proof. reflexivity. Qed.

(* ------------------------------------------------------------------ config._format writes such blocks *)
From Config Require Import Serialize.

Fixpoint entries_kvs (entries : sdict) : list (str * str) :=
  match entries with
  | [] => []
  | (k, SStr v) :: r => (k, v) :: entries_kvs r
  | _ :: r => entries_kvs r
  end.

Definition entries_ok (entries : sdict) : bool :=
  forallb (fun kr => match snd kr with SStr _ | SDep => true | _ => false end) entries.

Lemma format_entries_kvs entries :
  entries_ok entries = true -> format_entries false entries = inl (Some (map opt_line (entries_kvs entries))).
Proof.
  induction entries as [|[k r] es IH]; intros OK; [reflexivity|]. cbn [entries_ok forallb snd] in OK.
  apply andb_true_iff in OK. destruct OK as [O1 O2]. cbn [format_entries entries_kvs].
  destruct r; try discriminate; rewrite (IH O2); reflexivity.
Qed.

Lemma has_raise_ok entries : entries_ok entries = true -> has_raise entries = None.
Proof.
  induction entries as [|[k r] es IH]; intros OK; [reflexivity|]. cbn [entries_ok forallb snd] in OK.
  apply andb_true_iff in OK. destruct OK as [O1 O2]. unfold has_raise in *. cbn [fold_right snd].
  rewrite (IH O2). destruct r; try discriminate; reflexivity.
Qed.

Fixpoint blocks_of (so : soracles) (o : oracles) (display : bool) (schemas : list schema) (cfg : config)
  : list (str * list (str * str)) :=
  match schemas with
  | [] => []
  | s :: rest =>
      let entries := schema_serialize so o display s (dget_default (schema_name s) cfg []) in
      if is_nil entries then blocks_of so o display rest cfg
      else (schema_name s, entries_kvs entries) :: blocks_of so o display rest cfg
  end.

(* the lines config._format produces (before the final "\n".join(...).strip()) are exactly
   "[section]" / "key = value" / blank-line blocks *)
Lemma format_lines_blocks so o display schemas cfg :
  Forall (fun s => entries_ok (schema_serialize so o display s (dget_default (schema_name s) cfg [])) = true) schemas ->
  format_lines so o display false schemas cfg
  = inl (Some (flat_map (fun b => block_lines (fst b) (snd b)) (blocks_of so o display schemas cfg))).
Proof.
  induction schemas as [|s rest IH]; intros F; [reflexivity|]. inversion F as [|? ? OK F']; subst.
  cbv beta in OK. pose proof (has_raise_ok _ OK) as HR. pose proof (format_entries_kvs _ OK) as FE.
  cbn [format_lines blocks_of]. unfold config, rdict in *. rewrite HR, (IH F').
  destruct (is_nil (schema_serialize so o display s (dget_default (schema_name s) cfg []))); [reflexivity|].
  rewrite FE. cbn [flat_map fst snd]. unfold block_lines. cbn [app].
  now rewrite <- app_assoc.
Qed.

(* FORMAT -> INI PARSER, dict level: parsing the lines _format writes gives back, section by
   section and key by key, the serialized texts (for section names, keys and texts the INI
   syntax can carry). *)
Lemma format_parse_roundtrip so o display schemas cfg :
  Forall (fun s => entries_ok (schema_serialize so o display s (dget_default (schema_name s) cfg [])) = true) schemas ->
  blocks_of so o display schemas cfg <> [] ->
  Forall (fun b => sect_safe (fst b) /\ Forall (kv_safe o) (snd b)) (blocks_of so o display schemas cfg) ->
  exists lines, format_lines so o display false schemas cfg = inl (Some lines)
    /\ ini_config o (join [NL] lines)
       = Some (fold_left set2 (flat_map (fun b => map (fun kv => (fst b, fst kv, snd kv)) (snd b))
                                         (blocks_of so o display schemas cfg)) []).
Proof.
  intros OK NE SAFE. eexists. split; [apply format_lines_blocks; exact OK|].
  apply (ini_config_format_blocks o _ NE SAFE).
Qed.
