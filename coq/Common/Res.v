(* Result type making Python's `raise` and non-termination explicit. *)
From Coq Require Import List.
Import ListNotations.

Inductive res (E A : Type) : Type :=
| Ok (a : A)
| Raise (e : E)
| Diverge.
Arguments Ok {E A} a.
Arguments Raise {E A} e.
Arguments Diverge {E A}.

Definition rbind {E A B} (r : res E A) (f : A -> res E B) : res E B :=
  match r with
  | Ok a => f a
  | Raise e => Raise e
  | Diverge => Diverge
  end.

Definition is_ok {E A} (r : res E A) : bool :=
  match r with Ok _ => true | _ => false end.

Definition is_raise {E A} (r : res E A) : bool :=
  match r with Raise _ => true | _ => false end.
