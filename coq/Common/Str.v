(* Python `str` as a list of Unicode code points, with the handful of str methods the
   models need.  Each function is a transcription of CPython's documented behaviour and
   is itself correspondence-checked by the harnesses that use it. *)
From Coq Require Import ZArith List Bool.
Import ListNotations.
Open Scope Z_scope.

Definition str := list Z.

Fixpoint list_eqb {A} (eqb : A -> A -> bool) (a b : list A) : bool :=
  match a, b with
  | [], [] => true
  | x :: a', y :: b' => eqb x y && list_eqb eqb a' b'
  | _, _ => false
  end.

Definition str_eqb : str -> str -> bool := list_eqb Z.eqb.

Lemma list_eqb_spec {A} (eqb : A -> A -> bool)
      (H : forall x y, eqb x y = true <-> x = y) :
  forall a b, list_eqb eqb a b = true <-> a = b.
Proof.
  induction a as [|x a IH]; destruct b as [|y b]; simpl; split; intros E;
    try reflexivity; try discriminate.
  - apply andb_true_iff in E. destruct E as [E1 E2].
    apply H in E1. apply IH in E2. subst. reflexivity.
  - injection E as -> ->. apply andb_true_iff. split; [apply H|apply IH]; reflexivity.
Qed.

Lemma str_eqb_eq a b : str_eqb a b = true <-> a = b.
Proof. apply list_eqb_spec. intros x y. apply Z.eqb_eq. Qed.

Definition opt_eqb {A} (eqb : A -> A -> bool) (a b : option A) : bool :=
  match a, b with
  | None, None => true
  | Some x, Some y => eqb x y
  | _, _ => false
  end.

(* str.replace(c, r) for a one-character pattern *)
Definition replace1 (c : Z) (r : str) (s : str) : str :=
  flat_map (fun x => if x =? c then r else [x]) s.

(* str.replace(ab, r) for a two-character pattern: leftmost, non-overlapping *)
Fixpoint replace2 (a b : Z) (r : str) (s : str) : str :=
  match s with
  | [] => []
  | x :: t =>
      match t with
      | y :: t' => if (x =? a) && (y =? b) then r ++ replace2 a b r t'
                   else x :: replace2 a b r t
      | [] => [x]
      end
  end.

(* Characters removed by str.strip() with no argument (Py_UNICODE_ISSPACE). *)
Definition py_isspace (c : Z) : bool :=
  ((9 <=? c) && (c <=? 13)) || ((28 <=? c) && (c <=? 32)) || (c =? 133) || (c =? 160)
  || (c =? 5760) || ((8192 <=? c) && (c <=? 8202)) || (c =? 8232) || (c =? 8233)
  || (c =? 8239) || (c =? 8287) || (c =? 12288).

Fixpoint lstrip (s : str) : str :=
  match s with
  | c :: t => if py_isspace c then lstrip t else s
  | [] => []
  end.

Definition rstrip (s : str) : str := rev (lstrip (rev s)).
Definition strip (s : str) : str := rstrip (lstrip s).

(* str.split(sep) for a one-character separator (never returns the empty list) *)
Fixpoint split1_aux (sep : Z) (cur : str) (s : str) : list str :=
  match s with
  | [] => [rev cur]
  | c :: t => if c =? sep then rev cur :: split1_aux sep [] t
              else split1_aux sep (c :: cur) t
  end.
Definition split1 (sep : Z) (s : str) : list str := split1_aux sep [] s.

Fixpoint join (sep : str) (l : list str) : str :=
  match l with
  | [] => []
  | [x] => x
  | x :: t => x ++ sep ++ join sep t
  end.

Fixpoint starts_with (p s : str) : bool :=
  match p, s with
  | [], _ => true
  | a :: p', b :: s' => (a =? b) && starts_with p' s'
  | _, [] => false
  end.

Definition ascii_lower (c : Z) : Z := if (65 <=? c) && (c <=? 90) then c + 32 else c.

Fixpoint mem_str (x : str) (l : list str) : bool :=
  match l with
  | [] => false
  | y :: t => str_eqb x y || mem_str x t
  end.
