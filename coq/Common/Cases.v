(* Helpers for generated correspondence files: indices of the cases on which the model's
   observation differs from the implementation's. *)
From Coq Require Import ZArith List Bool.
Import ListNotations.
Open Scope Z_scope.

Fixpoint mismatch_from {A} (ok : A -> bool) (l : list A) (i : Z) : list Z :=
  match l with
  | [] => []
  | c :: t => if ok c then mismatch_from ok t (i + 1) else i :: mismatch_from ok t (i + 1)
  end.

Definition mismatches {A} (ok : A -> bool) (l : list A) : list Z := mismatch_from ok l 0.

Lemma mismatches_nil_all {A} (ok : A -> bool) l i :
  mismatch_from ok l i = [] -> forallb ok l = true.
Proof.
  revert i. induction l as [|c t IH]; intros i H; [reflexivity|].
  cbn in *. destruct (ok c); [eauto|discriminate].
Qed.
