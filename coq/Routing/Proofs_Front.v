(* The raw front door: the string numbering is injective, the model's enumerated argument
   classes are what the validation layer computes on the concrete values, rejected arguments
   never reach a provider, accepted ones denote exactly the caller's URIs. *)
From Coq Require Import ZArith List Bool Lia.
From Common Require Import Res Str.
From Routing Require Import Model Scheme Obs Spec Validation Front ObsFront Proofs_Tables Proofs_Library
     Proofs_Scheme Proofs_Validation Proofs_Witness Proofs_Trace Proofs_Merge.
Import ListNotations.
Open Scope Z_scope.

(* ---- enc *)

Lemma enc_snoc s c : enc (s ++ [c]) = enc s * ENC_BASE + (c + 1).
Proof. unfold enc. rewrite fold_left_app. reflexivity. Qed.

Lemma enc_nonneg s : Forall code_point s -> 0 <= enc s.
Proof.
  induction s as [|c s IH] using rev_ind; intros H; [cbn; lia|].
  apply Forall_app in H. destruct H as [Hs Hc]. inversion Hc as [|? ? Hcp _]; subst.
  rewrite enc_snoc. specialize (IH Hs). unfold ENC_BASE, code_point in *. nia.
Qed.

Lemma enc_snoc_pos s c : Forall code_point s -> code_point c -> 0 < enc (s ++ [c]).
Proof.
  intros Hs Hc. rewrite enc_snoc. pose proof (enc_nonneg s Hs). unfold ENC_BASE, code_point in *. nia.
Qed.

Theorem enc_inj : forall s, Forall code_point s -> forall t, Forall code_point t -> enc s = enc t -> s = t.
Proof.
  induction s as [|c s IH] using rev_ind; intros Hs t Ht E.
  - destruct t as [|d t] using rev_ind; [reflexivity|].
    apply Forall_app in Ht. destruct Ht as [Ht Hd]. inversion Hd; subst.
    pose proof (enc_snoc_pos t d Ht H1). cbn in E. lia.
  - apply Forall_app in Hs. destruct Hs as [Hs Hc]. inversion Hc as [|? ? Hcp _]; subst.
    destruct t as [|d t _] using rev_ind.
    + pose proof (enc_snoc_pos s c Hs Hcp). cbn in E. lia.
    + apply Forall_app in Ht. destruct Ht as [Ht Hd]. inversion Hd as [|? ? Hdp _]; subst.
      rewrite !enc_snoc in E. pose proof (enc_nonneg s Hs). pose proof (enc_nonneg t Ht).
      unfold ENC_BASE, code_point in *.
      assert (c = d /\ enc s = enc t) as [-> E'] by nia.
      now rewrite (IH Hs t Ht E').
Qed.

Lemma enc_zero_iff s : Forall code_point s -> (enc s = 0 <-> s = []).
Proof.
  intros H. split; [|now intros ->]. intros E. destruct s as [|c s _] using rev_ind; [reflexivity|].
  apply Forall_app in H. destruct H as [Hs Hc]. inversion Hc; subst.
  pose proof (enc_snoc_pos s c Hs H1). lia.
Qed.

Lemma lower_scheme_char_cp c : lower_scheme_char c = true -> code_point c.
Proof.
  unfold lower_scheme_char, is_lower, is_digit, code_point. intros H.
  repeat rewrite orb_true_iff in H. repeat rewrite andb_true_iff in H. repeat rewrite Z.leb_le in H.
  repeat rewrite Z.eqb_eq in H. lia.
Qed.

Lemma scheme_of_cp s : Forall code_point (scheme_of s).
Proof.
  pose proof (scheme_of_lower s) as H. rewrite forallb_forall in H. apply Forall_forall.
  intros c Hc. apply lower_scheme_char_cp. now apply H.
Qed.

(* scheme id 0 of Model.v is exactly "check_uri rejects the text" *)
Theorem bad_uri_is_check_uri s : bad_uri (uri_of s) = true <-> check_uri (PStr s) <> Ok tt.
Proof.
  unfold bad_uri, uri_of, u_scheme. cbn [fst]. rewrite Z.eqb_eq, (enc_zero_iff _ (scheme_of_cp s)).
  unfold check_uri. destruct (scheme_of s); split; intros H; try congruence; try discriminate.
  exfalso. apply H. reflexivity.
Qed.

(* ---- the enumerated query / field tokens are abbreviations of concrete values *)
Theorem squery_val_normalize q : squery_val (sq_normalize q) = normalize_query (squery_val q).
Proof. destruct q; reflexivity. Qed.

Theorem sq_valid_is_check_query q :
  sq_valid (sq_normalize q) = true <-> check_query (normalize_query (squery_val q)) search_fields = Ok tt.
Proof. destruct q; vm_compute; split; congruence. Qed.

Theorem dq_valid_is_check_query q :
  dq_valid q = true <->
  match q with Some q => check_query (squery_val q) search_fields | None => vok end = Ok tt.
Proof. destruct q as [q|]; [destruct q|]; vm_compute; split; congruence. Qed.

Theorem sq_empty_is_falsy q : sq_normalize q = SQEmpty <-> normalize_query (squery_val q) = PDict [].
Proof. destruct q; cbn; split; congruence. Qed.

Theorem classify_field_token f :
  classify_field (PStr (field_val f)) = if field_valid f then Ok f else Raise KValidation.
Proof. destruct f; vm_compute; reflexivity. Qed.

(* ---- validate *)
Lemma vbind_raise {A} (r : vres) (k : res kind A) e :
  vbind r k = Raise e -> r = Raise e \/ (r = Ok tt /\ k = Raise e).
Proof. destruct r as [[]|e'|]; cbn; [auto|intros [= ->]; auto|discriminate]. Qed.

Lemma check_query_total v f :
  check_query v f = Ok tt \/ check_query v f = Raise KValidation \/ check_query v f = Raise KType.
Proof. exact (validation_total (VQuery v f)). Qed.

Lemma classify_field_raise fv k :
  classify_field fv = Raise k -> k = KValidation \/ (k = KType /\ hashable fv = false).
Proof.
  destruct (check_choice_iff fv distinct_fields) as (_ & Hty & Htot).
  assert (G : forall A (r : vres) (ok : res kind A),
             (r = Ok tt \/ r = Raise KType \/ r = Raise KValidation) ->
             (r = Raise KType <-> hashable fv = false) ->
             (ok = Raise KValidation \/ exists x, ok = Ok x) ->
             match r with Ok _ => ok | Raise k0 => Raise k0 | Diverge => Diverge end = Raise k ->
             k = KValidation \/ (k = KType /\ hashable fv = false)).
  { intros A r ok [-> |[-> | ->]] Hh Hok; cbn.
    - destruct Hok as [-> |[x ->]]; [intros [= <-]; now left|discriminate].
    - intros [= <-]. right. split; [reflexivity|now apply Hh].
    - intros [= <-]. now left. }
  unfold classify_field. destruct fv; try (apply (G field _ (Raise KValidation) Htot Hty); now left).
  destruct (str_eqb s S_track); [discriminate|].
  apply (G field _ _ Htot Hty). right.
  destruct (str_eqb s S_track_name); [eauto|]. destruct (assoc_str s distinct_field_table) as [[]|]; eauto.
Qed.

(* which exceptions the argument handling itself can raise: ValidationError, TypeError only
   for an unhashable get_distinct field, AttributeError only for a browse URI without strip() *)
Theorem validate_raises r k :
  validate r = Raise k ->
  k = KValidation \/ (k = KType /\ exists fv q, r = RDistinct fv q /\ hashable fv = false) \/
  (k = KException /\ exists v, r = RBrowse v).
Proof.
  destruct r; cbn [validate]; intros H.
  - apply vbind_raise in H. destruct H as [H|[_ H]]; [|discriminate]. destruct (check_uris_total uris); [congruence|]. left. congruence.
  - apply vbind_raise in H. destruct H as [H|[_ H]]; [|discriminate]. destruct (check_uris_total uris); [congruence|]. left. congruence.
  - left. apply vbind_raise in H. destruct H as [H|[_ H]].
    + assert (Hc : forall x, check_uris x = Raise k -> k = KValidation)
        by (intros x Hx; destruct (check_uris_total x); congruence).
      destruct uris; try (now apply (Hc _ H)). unfold vok in H. discriminate.
    + apply vbind_raise in H. destruct H as [H|[_ H]].
      * destruct q; vm_compute in H; congruence.
      * destruct exact; congruence.
  - destruct uri; try (injection H as <-; right; right; eauto); try discriminate.
    + destruct (strip s); [discriminate|]. apply vbind_raise in H. destruct H as [H|[_ H]]; [|discriminate].
      destruct (check_uri_total (PStr s)); [congruence|]. left. congruence.
    + destruct (bytes_blank s); [discriminate|]. left. congruence.
  - destruct (classify_field field) as [f|k'|] eqn:C; [|injection H as <-|discriminate].
    + left. apply vbind_raise in H. destruct H as [H|[_ H]]; [|discriminate].
      destruct q as [q|]; [destruct q; vm_compute in H; congruence|discriminate].
    + destruct (classify_field_raise field k' C) as [->|[-> Hh]]; [now left|].
      right. left. split; [reflexivity|]. eauto.
  - left. assert (Hc : forall x, check_uri x = Raise k -> k = KValidation)
      by (intros x Hx; destruct (check_uri_total x); congruence).
    destruct uri; try discriminate; apply vbind_raise in H; destruct H as [H|[_ H]];
      try (now apply (Hc _ H)); congruence.
  - left. assert (Hc : forall x, check_uri x = Raise k -> k = KValidation)
      by (intros x Hx; destruct (check_uri_total x); congruence).
    apply vbind_raise in H; destruct H as [H|[_ H]]; [now apply (Hc _ H)|]. destruct uri; congruence.
  - left. assert (Hc : forall x, check_uri x = Raise k -> k = KValidation)
      by (intros x Hx; destruct (check_uri_total x); congruence).
    apply vbind_raise in H; destruct H as [H|[_ H]]; [now apply (Hc _ H)|]. destruct uri; congruence.
  - left. apply vbind_raise in H. destruct H as [H|[_ H]].
    + destruct (validation_total (VInteger v (Some 0) (Some 100))) as [E|[E|E]]; cbn in E; try congruence.
      unfold check_integer in E. destruct (int_value v); try discriminate.
      destruct (z <? 0); try discriminate. destruct (100 <? z); discriminate.
    + destruct (int_value v); congruence.
  - left. destruct m; congruence.
Qed.

(* a rejected argument never reaches a provider *)
Theorem raw_rejected_no_calls P T mx r k :
  mk_backends P = Ok T -> validate r = Raise k -> run_raw P mx r = ([], Raise k).
Proof. intros HT H. unfold run_raw. now rewrite HT, H. Qed.

Lemma vbind_div {A} (r : vres) (k : res kind A) :
  vbind r k = Diverge -> r = Diverge \/ (r = Ok tt /\ k = Diverge).
Proof. destruct r as [[]|e|]; cbn; [auto|discriminate|auto]. Qed.

Theorem validate_terminates r : validate r <> Diverge.
Proof.
  assert (U : forall x, check_uris x <> Diverge) by (intros x; destruct (check_uris_total x); congruence).
  assert (U1 : forall x, check_uri x <> Diverge) by (intros x; destruct (check_uri_total x); congruence).
  assert (Q : forall x f, check_query x f <> Diverge) by (intros x f; destruct (check_query_total x f) as [E|[E|E]]; congruence).
  destruct r; cbn [validate]; intros H.
  - apply vbind_div in H. destruct H as [H|[_ H]]; [now apply (U uris)|discriminate].
  - apply vbind_div in H. destruct H as [H|[_ H]]; [now apply (U uris)|discriminate].
  - apply vbind_div in H. destruct H as [H|[_ H]].
    + destruct uris; try (now apply (U _ H)). discriminate.
    + apply vbind_div in H. destruct H as [H|[_ H]]; [now apply (Q _ _ H)|]. destruct exact; discriminate.
  - destruct uri; try discriminate.
    + destruct (strip s); [discriminate|]. apply vbind_div in H. destruct H as [H|[_ H]]; [now apply (U1 _ H)|discriminate].
    + destruct (bytes_blank s); discriminate.
  - destruct (classify_field field) as [f|k|] eqn:C; [|discriminate|].
    + apply vbind_div in H. destruct H as [H|[_ H]]; [|discriminate].
      destruct q as [q|]; [now apply (Q _ _ H)|discriminate].
    + unfold classify_field in C. destruct (check_choice_iff field distinct_fields) as (_ & _ & Htot).
      destruct field; try (destruct (check_choice _ distinct_fields) as [[]|k0|]; try discriminate;
                           destruct Htot as [?|[?|?]]; discriminate).
      destruct (str_eqb s S_track); [discriminate|].
      destruct (check_choice (PStr s) distinct_fields) as [[]|k0|]; try discriminate.
      * destruct (str_eqb s S_track_name); [discriminate|]. destruct (assoc_str s distinct_field_table) as [[]|]; discriminate.
      * destruct Htot as [?|[?|?]]; discriminate.
  - destruct uri; try discriminate; apply vbind_div in H; destruct H as [H|[_ H]]; try (now apply (U1 _ H)); discriminate.
  - apply vbind_div in H. destruct H as [H|[_ H]]; [now apply (U1 _ H)|]. destruct uri; discriminate.
  - apply vbind_div in H. destruct H as [H|[_ H]]; [now apply (U1 _ H)|]. destruct uri; discriminate.
  - apply vbind_div in H. destruct H as [H|[_ H]].
    + destruct (validation_total (VInteger v (Some 0) (Some 100))) as [E|[E|E]]; cbn in E; congruence.
    + destruct (int_value v); discriminate.
  - destruct m; discriminate.
Qed.

(* accepted URI collections denote exactly the caller's strings, none of them rejected by
   the typed layer *)
Lemma elems_uris_valid v l :
  yields v l -> Forall valid_uri l ->
  existsb bad_uri (elems_uris v) = false /\
  forall u, In u (elems_uris v) <-> exists s, In (PStr s) l /\ u = uri_of s.
Proof.
  intros Hy Hall. apply iter_elems_spec in Hy. unfold elems_uris. rewrite Hy. split.
  - destruct (existsb bad_uri _) eqn:E; [|reflexivity]. exfalso.
    apply existsb_exists in E. destruct E as (u & Hu & Hb). apply in_flat_map in Hu.
    destruct Hu as (x & Hx & Hux). rewrite Forall_forall in Hall. destruct (Hall x Hx) as (s & -> & Hs).
    destruct Hux as [<-|[]]. apply bad_uri_is_check_uri in Hb. apply Hb.
    unfold check_uri. destruct (scheme_of s); [congruence|reflexivity].
  - intros u. rewrite in_flat_map. split.
    + intros (x & Hx & Hux). destruct x; try contradiction. destruct Hux as [<-|[]]. eauto.
    + intros (s & Hs & ->). exists (PStr s). split; [assumption|now left].
Qed.

Theorem validate_lookup_iff v o :
  validate (RLookup v) = Ok o <->
  (exists l, yields v l /\ Forall valid_uri l) /\ o = OLookup (elems_uris v).
Proof.
  cbn [validate]. destruct (check_uris v) as [[]|e|] eqn:E; cbn.
  - apply check_uris_iff in E. split; [intros [= <-]; auto|intros [_ ->]; reflexivity].
  - split; [discriminate|]. intros [H _]. apply check_uris_iff in H. congruence.
  - split; [discriminate|]. intros [H _]. apply check_uris_iff in H. congruence.
Qed.

(* T1 through the front door: lookup(raw uris) returns a dict whose keys are exactly the
   strings of the caller's collection *)
Theorem raw_lookup_keys_exact P mx v log val :
  run_raw P mx (RLookup v) = (log, Ok val) ->
  exists m l, val = VMap m /\ yields v l /\ Forall valid_uri l /\ NoDup (keys m) /\
              forall u, In u (keys m) <-> exists s, In (PStr s) l /\ u = uri_of s.
Proof.
  unfold run_raw. destruct (mk_backends P) as [T|e|]; try discriminate.
  destruct (validate (RLookup v)) as [o|k|] eqn:V; try discriminate.
  apply validate_lookup_iff in V. destruct V as [(l & Hy & Hall) ->]. cbn [run_op]. intros H.
  destruct (lookup_keys_exact_lemma _ _ _ _ _ H) as (m & -> & Hn & Hk).
  exists m, l. repeat split; auto.
  - intros Hu. apply Hk in Hu. now apply (elems_uris_valid v l Hy Hall).
  - intros Hu. apply Hk. now apply (elems_uris_valid v l Hy Hall).
Qed.

(* the trace predicate holds on every observation of the raw model *)
Theorem rtrace_ok_model P mx r : rtrace_ok_b P r (run_raw P mx r) = true.
Proof.
  unfold rtrace_ok_b, run_raw. destruct (validate r) as [o|k|] eqn:V.
  - pose proof (trace_ok_model P mx o) as H. unfold run in H. destruct (mk_backends P); exact H.
  - destruct (mk_backends P) as [T|e|] eqn:ET.
    + destruct k; reflexivity.
    + pose proof (trace_ok_model P mx OConstruct) as H. unfold run in H. now rewrite ET in H.
    + pose proof (trace_ok_model P mx OConstruct) as H. unfold run in H. now rewrite ET in H.
  - exfalso. now apply (validate_terminates r).
Qed.
