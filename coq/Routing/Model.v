(* Executable model of request routing and fault isolation in mopidy's core:

     src/mopidy/core/actor.py     class Backends  (scheme tables, duplicate-scheme assertion)
     src/mopidy/core/library.py   LibraryController  (browse, get_distinct, get_images, lookup,
                                  refresh, search, _backend_error_handling, _get_backends_to_uris)
     src/mopidy/core/playlists.py PlaylistsController (get_uri_schemes, as_list, get_items, create,
                                  delete, lookup, refresh, save)
     src/mopidy/core/mixer.py     MixerController (get/set volume/mute)

   Conventions.
   * A URI is a pair (scheme id, string id).  The scheme id is what
     urllib.parse.urlparse(uri).scheme evaluates to, interned by the harness (oracle);
     scheme id 0 is the empty string, i.e. validation.check_uri rejects the URI.
   * A backend is its registered schemes, its four has_* flags, whether fetching those
     flags fails, and an arbitrary answer function  method -> arguments -> resp.  A resp is
     what future.get() does: raise an exception of some kind, or return a Python value of
     one of the shapes below (None, a non-container of the wrong type, a dict, a sequence,
     a model object, a bool, an int).
   * Every function returns the ghost call log (which provider methods were invoked on which
     backend with which arguments, in program order) and the outcome  Ok value | Raise kind.
   * lookup / get_images are modelled twice: the code as it is now (after the fix: commits
     recorded in known_findings.json) and the code as it was (suffix _old), kept so that the
     refutation of the property for the old code stays machine-checked. *)
From Coq Require Import ZArith List Bool.
From Common Require Import Res.
Import ListNotations.
Open Scope Z_scope.

(* ------------------------------------------------------------------ basic data *)

Definition scheme := Z.
Definition uri := (Z * Z)%type.
Definition u_scheme (u : uri) : scheme := fst u.
Definition uri_eqb (a b : uri) : bool := (fst a =? fst b) && (snd a =? snd b).
Definition bad_uri (u : uri) : bool := u_scheme u =? 0.   (* validation.check_uri raises *)

Fixpoint mem_uri (u : uri) (l : list uri) : bool :=
  match l with [] => false | x :: r => uri_eqb u x || mem_uri u r end.
Fixpoint mem_z (x : Z) (l : list Z) : bool :=
  match l with [] => false | y :: r => (x =? y) || mem_z x r end.

(* exception classes, as far as the except-clauses of the core distinguish them *)
Inductive kind :=
| KException    (* any other Exception subclass, e.g. RuntimeError *)
| KValidation   (* mopidy.exceptions.ValidationError (a ValueError) *)
| KType         (* TypeError *)
| KLookup       (* LookupError: KeyError, IndexError *)
| KAssertion    (* AssertionError *)
| KNotImpl      (* NotImplementedError *)
| KBase.        (* BaseException that is not an Exception: KeyboardInterrupt, SystemExit *)

Definition ordinary (k : kind) : bool := match k with KBase => false | _ => true end.

Inductive cls := CTrack | CImage | CRef | CSearch | CPlaylist | CStr | CInt.

Definition cls_eqb (a b : cls) : bool :=
  match a, b with
  | CTrack, CTrack | CImage, CImage | CRef, CRef | CSearch, CSearch
  | CPlaylist, CPlaylist | CStr, CStr | CInt, CInt => true
  | _, _ => false
  end.

(* an element of a sequence returned by a backend *)
Inductive entry :=
| EJunk                                        (* an object of no expected class *)
| EObj (c : cls) (id : Z) (has_uri : bool)     (* instance of class c; has_uri = its .uri is truthy *)
| EUriStr (u : uri).                           (* the URI string itself (keys of a dict iterated as a sequence) *)

Definition entry_is (c : cls) (e : entry) : bool :=
  match e with
  | EJunk => false
  | EObj c' _ _ => cls_eqb c c'
  | EUriStr _ => cls_eqb c CStr
  end.

Definition entry_has_uri (e : entry) : bool :=
  match e with EObj _ _ h => h | EJunk => false | EUriStr _ => true end.

(* a value of a dict returned by a backend *)
Inductive mval :=
| MBad                      (* not a re-iterable non-string collection: None, str, int, iterator *)
| MList (l : list entry).

Inductive resp :=
| RRaise (k : kind)
| RNone
| RWrong                                (* a str / float / arbitrary object *)
| RMap (items : list (uri * mval))      (* a dict, in iteration order *)
| RList (l : list entry)                (* a list or tuple *)
| RVal (c : cls) (id : Z)               (* one model object (or str / int for CStr / CInt) *)
| RBool (b : bool)
| RInt (z : Z).

Inductive squery := SQEmpty | SQGood | SQGood2 | SQStr | SQBad | SQBlank.
Inductive field := FStr | FInt | FTrack | FTrackName | FBogus.

Inductive meth :=
| MLookupMany | MGetImages | MSearch | MBrowse | MRoot | MDistinct | MRefresh
| PAsList | PGetItems | PLookup | PCreate | PSave | PDelete | PRefresh
| XGetVolume | XSetVolume | XGetMute | XSetMute.

Inductive arg :=
| AUnit
| AUris (us : list uri)
| ASearch (q : squery) (us : option (list uri)) (exact : bool)
| AUri (u : uri)
| AOptUri (u : option uri)
| ADistinct (f : field) (q : option squery)
| AName (n : Z)
| APlaylist (u : uri) (n : Z)
| AInt (z : Z)
| ABool (b : bool).

Inductive who := Bk (i : nat) | Mx.
Definition call := (who * meth * arg)%type.

Record backend := mkB {
  b_schemes : list scheme;
  b_info_ok : bool;        (* has_library() & co. answer (false: they raise) *)
  b_lib : bool;
  b_browse : bool;
  b_playback : bool;
  b_playlists : bool;
  b_answer : meth -> arg -> resp
}.

(* mopidy.backend.Backend (src/mopidy/backend.py): a backend is written by setting the provider
   attributes; the capability methods every backend inherits are computed from which of them
   are set.  pv_library: None = no library provider, Some None = a library without a root
   directory, Some (Some id) = a browsable library. *)
Record providers := mkPv { pv_library : option (option Z); pv_playback : bool; pv_playlists : bool }.
Definition has_library (pv : providers) : bool := match pv_library pv with Some _ => true | None => false end.
Definition has_library_browse (pv : providers) : bool :=
  match pv_library pv with Some (Some _) => true | _ => false end.
Definition has_playback (pv : providers) : bool := pv_playback pv.
Definition has_playlists (pv : providers) : bool := pv_playlists pv.

Definition backend_of (schemes : list scheme) (pv : providers) (answer : meth -> arg -> resp) : backend :=
  mkB schemes true (has_library pv) (has_library_browse pv) (has_playback pv) (has_playlists pv) answer.

Definition mixer := meth -> arg -> resp.

(* results of core calls *)
Inductive value :=
| VNone
| VBool (b : bool)
| VInt (z : Z)
| VVal (c : cls) (id : Z)
| VList (l : list entry)
| VMap (m : list (uri * list entry))
| VSchemes (l : list scheme)
| VRaw.        (* the backend's own ill-typed object handed through unchanged *)

Definition outcome := res kind value.
Definition obs := (list call * outcome)%type.

Definition rmap_res {A B} (f : A -> B) (r : res kind A) : res kind B :=
  match r with Ok a => Ok (f a) | Raise e => Raise e | Diverge => Diverge end.

(* ------------------------------------------------------------------ Backends (core/actor.py) *)

Definition table := list (scheme * nat).

Fixpoint tget (t : table) (s : scheme) : option nat :=
  match t with
  | [] => None
  | (s', b) :: r => if s =? s' then Some b else tget r s
  end.

Definition tvalues (t : table) : list nat := map snd t.

(* dict.fromkeys(values) / set(values): first occurrences, in order *)
Fixpoint dedup (l : list nat) : list nat :=
  match l with
  | [] => []
  | x :: r => x :: filter (fun y => negb (Nat.eqb y x)) (dedup r)
  end.

Record tables := mkT {
  t_lib : table;
  t_browse : table;
  t_playback : table;
  t_playlists : table
}.

Definition empty_tables : tables := mkT [] [] [] [].

Definition add_if (c : bool) (t : table) (s : scheme) (i : nat) : table :=
  if c then t ++ [(s, i)] else t.

(* for scheme in b.uri_schemes.get(): assert scheme not in backends_by_scheme; register *)
Fixpoint add_schemes (i : nat) (b : backend) (ss : list scheme) (seen : list scheme) (T : tables)
  : res kind (list scheme * tables) :=
  match ss with
  | [] => Ok (seen, T)
  | s :: r =>
      if mem_z s seen then Raise KAssertion
      else add_schemes i b r (s :: seen)
             (mkT (add_if (b_lib b) (t_lib T) s i) (add_if (b_browse b) (t_browse T) s i)
                  (add_if (b_playback b) (t_playback T) s i) (add_if (b_playlists b) (t_playlists T) s i))
  end.

Fixpoint mk_from (i : nat) (bs : list backend) (seen : list scheme) (T : tables) : res kind tables :=
  match bs with
  | [] => Ok T
  | b :: r =>
      if b_info_ok b then
        match add_schemes i b (b_schemes b) seen T with
        | Ok (seen', T') => mk_from (S i) r seen' T'
        | Raise e => Raise e
        | Diverge => Diverge
        end
      else mk_from (S i) r seen T      (* "Fetching backend info failed": backend dropped *)
  end.

Definition mk_backends (P : list backend) : res kind tables := mk_from 0 P [] empty_tables.

(* the Backends list itself: the backends whose start-up information could be fetched;
   Core.get_uri_schemes() chains their uri_schemes *)
Definition live_schemes (bs : list backend) : list scheme :=
  flat_map (fun b => if b_info_ok b then b_schemes b else []) bs.

(* ------------------------------------------------------------------ calling a backend *)

Definition ans (P : list backend) (b : nat) (m : meth) (a : arg) : resp :=
  match nth_error P b with Some bk => b_answer bk m a | None => RNone end.

(* _backend_error_handling(backend, reraise): does an exception of kind k raised inside the
   with-block leave it?  ValidationError is logged and dropped, any other Exception is
   dropped unless it is an instance of reraise; a BaseException is never caught. *)
Definition escapes (reraise : kind -> bool) (k : kind) : bool :=
  match k with
  | KBase => true
  | KValidation => false
  | _ => reraise k
  end.
Definition no_reraise (k : kind) : bool := false.

(* validation.check_instances(r, c): Some l when r is an acceptable collection of c *)
Definition as_instances (c : cls) (r : resp) : option (list entry) :=
  match r with
  | RList l => if forallb (entry_is c) l then Some l else None
  | RMap items =>          (* iterating a dict yields its keys, which are str *)
      let keys := map (fun it => EUriStr (fst it)) items in
      if forallb (entry_is c) keys then Some keys else None
  | _ => None
  end.

Fixpoint fold_res {A B} (f : A -> B -> res kind A) (l : list B) (a : A) : res kind A :=
  match l with
  | [] => Ok a
  | x :: r =>
      match f a x with
      | Ok a' => fold_res f r a'
      | Raise e => Raise e
      | Diverge => Diverge
      end
  end.

(* ------------------------------------------------------------------ _get_backends_to_uris *)

Definition groups := list (nat * list uri).

Fixpoint group_add (b : nat) (u : uri) (g : groups) : groups :=
  match g with
  | [] => [(b, [u])]
  | (b', l) :: r => if Nat.eqb b b' then (b', l ++ [u]) :: r else (b', l) :: group_add b u r
  end.

Fixpoint group_from (t : table) (us : list uri) (g : groups) : groups :=
  match us with
  | [] => g
  | u :: r =>
      group_from t r (match tget t (u_scheme u) with Some b => group_add b u g | None => g end)
  end.

Definition group (t : table) (us : list uri) : groups := group_from t us [].

Definition backends_to_uris (t : table) (us : option (list uri)) : list (nat * option (list uri)) :=
  match us with
  | None | Some [] => map (fun b => (b, None)) (dedup (tvalues t))
  | Some l => map (fun g => (fst g, Some (snd g))) (group t l)
  end.

(* {backend: ... for backend, backend_uris in ....items() if backend_uris} *)
Fixpoint nonempty_groups (l : list (nat * option (list uri))) : groups :=
  match l with
  | [] => []
  | (b, Some (u :: us)) :: r => (b, u :: us) :: nonempty_groups r
  | _ :: r => nonempty_groups r
  end.

(* ------------------------------------------------------------------ result dicts *)

Definition rmap := list (uri * list entry).

Fixpoint rget (m : rmap) (u : uri) : option (list entry) :=
  match m with
  | [] => None
  | (k, v) :: r => if uri_eqb u k then Some v else rget r u
  end.

Fixpoint rset (m : rmap) (u : uri) (v : list entry) : rmap :=
  match m with
  | [] => [(u, v)]
  | (k, x) :: r => if uri_eqb u k then (k, v) :: r else (k, x) :: rset r u v
  end.

(* {u: [] for u in uris}  /  dict.fromkeys(uris, ()) *)
Definition rinit (us : list uri) : rmap := fold_left (fun m u => rset m u []) us [].

(* results[uri] += tuple(images): KeyError if absent (then nothing is stored) *)
Definition radd (m : rmap) (u : uri) (v : list entry) : rmap :=
  match rget m u with Some old => rset m u (old ++ v) | None => m end.

Definition item_ok (c : cls) (asked : list uri) (it : uri * mval) : bool :=
  mem_uri (fst it) asked &&
  match snd it with MList l => forallb (entry_is c) l | MBad => false end.

Definition mval_list (v : mval) : list entry := match v with MList l => l | MBad => [] end.

(* ------------------------------------------------------------------ library.lookup / get_images *)

(* lookup and get_images share their structure: route the URIs, ask every backend that got
   some, validate each answer as a whole (a dict, keys among the URIs sent to that backend,
   values sequences of the expected class), merge the acceptable answers entry by entry with
   an update function:   results[uri] = [t for t in tracks if t.uri]   /   results[uri] += tuple(images) *)
Definition updater := rmap -> uri -> mval -> rmap.

Definition merge_apply (upd : updater) (items : list (uri * mval)) (m : rmap) : rmap :=
  fold_left (fun m it => upd m (fst it) (snd it)) items m.

Definition merge_step (mth : meth) (c : cls) (upd : updater) (P : list backend) (m : rmap)
           (g : nat * list uri) : res kind rmap :=
  match ans P (fst g) mth (AUris (snd g)) with
  | RRaise k => if escapes no_reraise k then Raise k else Ok m
  | RMap items => if forallb (item_ok c (snd g)) items then Ok (merge_apply upd items m) else Ok m
  | _ => Ok m        (* None: skipped; anything else fails check_instance(result, Mapping) *)
  end.

Definition merge_request (mth : meth) (c : cls) (upd : updater) (T : tables) (P : list backend)
           (us : list uri) : obs :=
  if existsb bad_uri us then ([], Raise KValidation)
  else
    let gs := nonempty_groups (backends_to_uris (t_lib T) (Some us)) in
    (map (fun g => (Bk (fst g), mth, AUris (snd g))) gs,
     rmap_res VMap (fold_res (merge_step mth c upd P) gs (rinit us))).

Definition lookup_upd : updater := fun m u v => rset m u (filter entry_has_uri (mval_list v)).
Definition images_upd : updater := fun m u v => radd m u (mval_list v).

Definition lookup : tables -> list backend -> list uri -> obs := merge_request MLookupMany CTrack lookup_upd.
Definition get_images : tables -> list backend -> list uri -> obs := merge_request MGetImages CImage images_upd.

(* the code before the fix: no key check, entries merged one by one until the first bad one *)
Fixpoint lookup_apply_old (items : list (uri * mval)) (m : rmap) : rmap :=
  match items with
  | [] => m
  | (u, MList l) :: r =>
      if forallb (entry_is CTrack) l then lookup_apply_old r (rset m u (filter entry_has_uri l)) else m
  | (_, MBad) :: _ => m
  end.

Definition lookup_step_old (P : list backend) (m : rmap) (g : nat * list uri) : res kind rmap :=
  match ans P (fst g) MLookupMany (AUris (snd g)) with
  | RRaise k => if escapes no_reraise k then Raise k else Ok m
  | RMap items => Ok (lookup_apply_old items m)
  | _ => Ok m
  end.

Definition lookup_old (T : tables) (P : list backend) (us : list uri) : obs :=
  if existsb bad_uri us then ([], Raise KValidation)
  else
    let gs := nonempty_groups (backends_to_uris (t_lib T) (Some us)) in
    (map (fun g => (Bk (fst g), MLookupMany, AUris (snd g))) gs,
     rmap_res VMap (fold_res (lookup_step_old P) gs (rinit us))).

(* ------------------------------------------------------------------ get_images before the fix *)

(* before the fix: keys checked against ALL requested URIs, merged one by one *)
Fixpoint images_apply_old (all : list uri) (items : list (uri * mval)) (m : rmap) : rmap :=
  match items with
  | [] => m
  | (u, v) :: r =>
      if mem_uri u all then
        match v with
        | MList l => if forallb (entry_is CImage) l then images_apply_old all r (radd m u l) else m
        | MBad => m
        end
      else m
  end.

Definition images_step_old (all : list uri) (P : list backend) (m : rmap) (g : nat * list uri)
  : res kind rmap :=
  match ans P (fst g) MGetImages (AUris (snd g)) with
  | RRaise k => if escapes no_reraise k then Raise k else Ok m
  | RMap items => Ok (images_apply_old all items m)
  | _ => Ok m
  end.

Definition get_images_old (T : tables) (P : list backend) (us : list uri) : obs :=
  if existsb bad_uri us then ([], Raise KValidation)
  else
    let gs := nonempty_groups (backends_to_uris (t_lib T) (Some us)) in
    (map (fun g => (Bk (fst g), MGetImages, AUris (snd g))) gs,
     rmap_res VMap (fold_res (images_step_old us P) gs (rinit us))).

(* ------------------------------------------------------------------ library.search *)

Definition sq_normalize (q : squery) : squery := match q with SQStr => SQGood | _ => q end.
Definition sq_valid (q : squery) : bool :=
  match q with SQEmpty | SQGood | SQGood2 => true | _ => false end.

(* reraise = (TypeError, LookupError); the TypeError is then caught by the enclosing try *)
Definition search_reraise (k : kind) : bool := match k with KType | KLookup => true | _ => false end.
Definition search_escapes (k : kind) : bool :=
  escapes search_reraise k && negb (match k with KType => true | _ => false end).

Definition search_step (P : list backend) (q : squery) (exact : bool) (acc : list entry)
           (g : nat * option (list uri)) : res kind (list entry) :=
  match ans P (fst g) MSearch (ASearch q (snd g) exact) with
  | RRaise k => if search_escapes k then Raise k else Ok acc
  | RVal CSearch id => Ok (acc ++ [EObj CSearch id true])
  | _ => Ok acc
  end.

Definition search (T : tables) (P : list backend) (q : squery) (us : option (list uri)) (exact : bool)
  : obs :=
  let q' := sq_normalize q in
  if match us with Some l => existsb bad_uri l | None => false end then ([], Raise KValidation)
  else if negb (sq_valid q') then ([], Raise KValidation)
  else match q' with
       | SQEmpty => ([], Ok (VList []))
       | _ =>
           let gs := backends_to_uris (t_lib T) us in
           (map (fun g => (Bk (fst g), MSearch, ASearch q' (snd g) exact)) gs,
            rmap_res VList (fold_res (search_step P q' exact) gs []))
       end.

(* ------------------------------------------------------------------ library.browse *)

Inductive barg := BNone | BBlank | BUri (u : uri).

Definition entry_eqb (a b : entry) : bool :=
  match a, b with
  | EJunk, EJunk => true
  | EObj c i h, EObj c' i' h' => cls_eqb c c' && (i =? i') && Bool.eqb h h'
  | EUriStr u, EUriStr v => uri_eqb u v
  | _, _ => false
  end.

Fixpoint mem_entry (e : entry) (l : list entry) : bool :=
  match l with [] => false | x :: r => entry_eqb e x || mem_entry e r end.

(* set.add / set.update *)
Definition set_add (s : list entry) (e : entry) : list entry := if mem_entry e s then s else s ++ [e].
Definition set_union (s : list entry) (l : list entry) : list entry := fold_left set_add l s.

Definition root_step (P : list backend) (acc : list entry) (b : nat) : res kind (list entry) :=
  match ans P b MRoot AUnit with
  | RRaise k => if escapes no_reraise k then Raise k else Ok acc
  | RVal CRef id => Ok (set_add acc (EObj CRef id true))
  | _ => Ok acc
  end.

Definition browse (T : tables) (P : list backend) (a : barg) : obs :=
  match a with
  | BNone =>
      (map (fun b => (Bk b, MRoot, AUnit)) (tvalues (t_browse T)),
       rmap_res VList (fold_res (root_step P) (dedup (tvalues (t_browse T))) []))
  | BBlank => ([], Ok (VList []))
  | BUri u =>
      if bad_uri u then ([], Raise KValidation)
      else match tget (t_browse T) (u_scheme u) with
           | None => ([], Ok (VList []))
           | Some b =>
               ([(Bk b, MBrowse, AUri u)],
                match ans P b MBrowse (AUri u) with
                | RRaise k => if escapes no_reraise k then Raise k else Ok (VList [])
                | r => match as_instances CRef r with Some l => Ok (VList l) | None => Ok (VList []) end
                end)
           end
  end.

(* ------------------------------------------------------------------ library.get_distinct *)

Definition field_valid (f : field) : bool := match f with FBogus => false | _ => true end.
Definition field_cls (f : field) : cls := match f with FInt => CInt | _ => CStr end.
Definition field_compat (f : field) : field := match f with FTrackName => FTrack | _ => f end.
(* check_query: a str value is not normalised here *)
Definition dq_valid (q : option squery) : bool :=
  match q with None => true | Some q => sq_valid q end.

Definition distinct_step (P : list backend) (f : field) (q : option squery) (acc : list entry) (b : nat)
  : res kind (list entry) :=
  match ans P b MDistinct (ADistinct (field_compat f) q) with
  | RRaise k => if escapes no_reraise k then Raise k else Ok acc
  | RNone => Ok acc
  | r => match as_instances (field_cls f) r with Some l => Ok (set_union acc l) | None => Ok acc end
  end.

Definition get_distinct (T : tables) (P : list backend) (f : field) (q : option squery) : obs :=
  if negb (field_valid f) then ([], Raise KValidation)
  else if negb (dq_valid q) then ([], Raise KValidation)
  else
    (map (fun b => (Bk b, MDistinct, ADistinct (field_compat f) q)) (tvalues (t_lib T)),
     rmap_res VList (fold_res (distinct_step P f q) (dedup (tvalues (t_lib T))) [])).

(* ------------------------------------------------------------------ refresh (library and playlists) *)

Definition owns (t : table) (b : nat) (s : scheme) : bool :=
  existsb (fun e => (fst e =? s) && Nat.eqb (snd e) b) t.

Definition refresh_targets (t : table) (s : option scheme) : list nat :=
  filter (fun b => match s with None => true | Some s => owns t b s end) (dedup (tvalues t)).

Definition refresh_step (P : list backend) (m : meth) (a : arg) (acc : unit) (b : nat) : res kind unit :=
  match ans P b m a with
  | RRaise k => if escapes no_reraise k then Raise k else Ok acc
  | _ => Ok acc
  end.

Definition refresh (T : tables) (P : list backend) (u : option uri) : obs :=
  if match u with Some x => bad_uri x | None => false end then ([], Raise KValidation)
  else
    let bs := refresh_targets (t_lib T) (option_map u_scheme u) in
    (map (fun b => (Bk b, MRefresh, AOptUri u)) bs,
     rmap_res (fun _ => VNone) (fold_res (refresh_step P MRefresh (AOptUri u)) bs tt)).

Definition pl_refresh (T : tables) (P : list backend) (s : option scheme) : obs :=
  let bs := refresh_targets (t_playlists T) s in
  (map (fun b => (Bk b, PRefresh, AUnit)) bs,
   rmap_res (fun _ => VNone) (fold_res (refresh_step P PRefresh AUnit) bs tt)).

(* ------------------------------------------------------------------ playlists *)

Definition get_uri_schemes (T : tables) : obs := ([], Ok (VSchemes (map fst (t_playlists T)))).

(* reraise=NotImplementedError, caught by the enclosing try *)
Definition as_list_step (P : list backend) (acc : list entry) (b : nat) : res kind (list entry) :=
  match ans P b PAsList AUnit with
  | RRaise k => if ordinary k then Ok acc else Raise k
  | RNone => Ok acc
  | r => match as_instances CRef r with Some l => Ok (acc ++ l) | None => Ok acc end
  end.

Definition as_list (T : tables) (P : list backend) : obs :=
  let bs := dedup (tvalues (t_playlists T)) in
  (map (fun b => (Bk b, PAsList, AUnit)) bs, rmap_res VList (fold_res (as_list_step P) bs [])).

Definition get_items (T : tables) (P : list backend) (u : uri) : obs :=
  if bad_uri u then ([], Raise KValidation)
  else match tget (t_playlists T) (u_scheme u) with
       | None => ([], Ok VNone)
       | Some b =>
           ([(Bk b, PGetItems, AUri u)],
            match ans P b PGetItems (AUri u) with
            | RRaise k => if escapes no_reraise k then Raise k else Ok VNone
            | RNone => Ok VNone
            | r => match as_instances CRef r with Some l => Ok (VList l) | None => Ok VNone end
            end)
       end.

Definition pl_lookup (T : tables) (P : list backend) (u : uri) : obs :=
  match tget (t_playlists T) (u_scheme u) with     (* no check_uri here *)
  | None => ([], Ok VNone)
  | Some b =>
      ([(Bk b, PLookup, AUri u)],
       match ans P b PLookup (AUri u) with
       | RRaise k => if escapes no_reraise k then Raise k else Ok VNone
       | RVal CPlaylist id => Ok (VVal CPlaylist id)
       | _ => Ok VNone
       end)
  end.

(* for backend in backends: ask; the first acceptable answer is returned *)
Fixpoint create_loop (P : list backend) (n : Z) (bs : list nat) : obs :=
  match bs with
  | [] => ([], Ok VNone)
  | b :: r =>
      let c := (Bk b, PCreate, AName n) in
      match ans P b PCreate (AName n) with
      | RRaise k =>
          if escapes no_reraise k then ([c], Raise k)
          else let '(log, o) := create_loop P n r in (c :: log, o)
      | RVal CPlaylist id => ([c], Ok (VVal CPlaylist id))
      | _ => let '(log, o) := create_loop P n r in (c :: log, o)
      end
  end.

Definition create (T : tables) (P : list backend) (n : Z) (s : option scheme) : obs :=
  match match s with Some s => tget (t_playlists T) s | None => None end with
  | Some b => create_loop P n [b]
  | None => create_loop P n (tvalues (t_playlists T))
  end.

Definition assertion_reraise (k : kind) : bool := match k with KAssertion => true | _ => false end.

Definition save (T : tables) (P : list backend) (u : option uri) (n : Z) : obs :=
  match u with
  | None => ([], Ok VNone)
  | Some u =>
      match tget (t_playlists T) (u_scheme u) with
      | None => ([], Ok VNone)
      | Some b =>
          ([(Bk b, PSave, APlaylist u n)],
           match ans P b PSave (APlaylist u n) with
           | RRaise k => if escapes assertion_reraise k then Raise k else Ok VNone
           | RVal CPlaylist id => Ok (VVal CPlaylist id)
           | _ => Ok VNone
           end)
      end
  end.

(* success = backend.playlists.delete(uri).get() is not validated *)
Definition delete (T : tables) (P : list backend) (u : uri) : obs :=
  if bad_uri u then ([], Raise KValidation)
  else match tget (t_playlists T) (u_scheme u) with
       | None => ([], Ok (VBool false))
       | Some b =>
           ([(Bk b, PDelete, AUri u)],
            match ans P b PDelete (AUri u) with
            | RRaise k => if escapes no_reraise k then Raise k else Ok (VBool false)
            | RNone => Ok (VBool true)
            | RBool x => Ok (VBool x)
            | RInt z => Ok (VInt z)
            | _ => Ok VRaw
            end)
       end.

(* ------------------------------------------------------------------ mixer *)

Definition get_volume (mx : option mixer) : obs :=
  match mx with
  | None => ([], Ok VNone)
  | Some f =>
      ([(Mx, XGetVolume, AUnit)],
       match f XGetVolume AUnit with
       | RRaise k => if ordinary k then Ok VNone else Raise k
       | RInt z => if (0 <=? z) && (z <=? 100) then Ok (VInt z) else Ok VNone
       | RBool b => Ok (VBool b)             (* isinstance(True, int) *)
       | _ => Ok VNone
       end)
  end.

Definition set_volume (mx : option mixer) (v : Z) : obs :=
  if negb ((0 <=? v) && (v <=? 100)) then ([], Raise KValidation)
  else match mx with
       | None => ([], Ok (VBool false))
       | Some f =>
           ([(Mx, XSetVolume, AInt v)],
            match f XSetVolume (AInt v) with
            | RRaise k => if ordinary k then Ok (VBool false) else Raise k
            | RBool b => Ok (VBool b)
            | _ => Ok (VBool false)
            end)
       end.

Definition get_mute (mx : option mixer) : obs :=
  match mx with
  | None => ([], Ok VNone)
  | Some f =>
      ([(Mx, XGetMute, AUnit)],
       match f XGetMute AUnit with
       | RRaise k => if ordinary k then Ok VNone else Raise k
       | RBool b => Ok (VBool b)
       | _ => Ok VNone
       end)
  end.

Definition set_mute (mx : option mixer) (m : bool) : obs :=
  match mx with
  | None => ([], Ok (VBool false))
  | Some f =>
      ([(Mx, XSetMute, ABool m)],
       match f XSetMute (ABool m) with
       | RRaise k => if ordinary k then Ok (VBool false) else Raise k
       | RBool b => Ok (VBool b)
       | _ => Ok (VBool false)
       end)
  end.

(* ------------------------------------------------------------------ one core request *)

Inductive op :=
| OConstruct
| OLookup (us : list uri)
| OImages (us : list uri)
| OSearch (q : squery) (us : option (list uri)) (exact : bool)
| OBrowse (a : barg)
| ODistinct (f : field) (q : option squery)
| ORefresh (u : option uri)
| OSchemes
| OAsList
| OGetItems (u : uri)
| OPlLookup (u : uri)
| OCreate (n : Z) (s : option scheme)
| OSave (u : option uri) (n : Z)
| ODelete (u : uri)
| OPlRefresh (s : option scheme)
| OGetVolume
| OSetVolume (v : Z)
| OGetMute
| OSetMute (m : bool)
| OCoreSchemes.

Definition run_op (T : tables) (P : list backend) (mx : option mixer) (o : op) : obs :=
  match o with
  | OConstruct => ([], Ok VNone)
  | OLookup us => lookup T P us
  | OImages us => get_images T P us
  | OSearch q us e => search T P q us e
  | OBrowse a => browse T P a
  | ODistinct f q => get_distinct T P f q
  | ORefresh u => refresh T P u
  | OSchemes => get_uri_schemes T
  | OAsList => as_list T P
  | OGetItems u => get_items T P u
  | OPlLookup u => pl_lookup T P u
  | OCreate n s => create T P n s
  | OSave u n => save T P u n
  | ODelete u => delete T P u
  | OPlRefresh s => pl_refresh T P s
  | OGetVolume => get_volume mx
  | OSetVolume v => set_volume mx v
  | OGetMute => get_mute mx
  | OSetMute m => set_mute mx m
  | OCoreSchemes => ([], Ok (VSchemes (live_schemes P)))     (* Core.get_uri_schemes, core/actor.py *)
  end.

(* start-up (Backends construction) followed by one request *)
Definition run (P : list backend) (mx : option mixer) (o : op) : obs :=
  match mk_backends P with
  | Ok T => run_op T P mx o
  | Raise e => ([], Raise e)
  | Diverge => ([], Diverge)
  end.

(* the same request against the code as it was before the fix: commits *)
Definition run_old (P : list backend) (mx : option mixer) (o : op) : obs :=
  match mk_backends P with
  | Ok T => match o with
            | OLookup us => lookup_old T P us
            | OImages us => get_images_old T P us
            | _ => run_op T P mx o
            end
  | Raise e => ([], Raise e)
  | Diverge => ([], Diverge)
  end.
